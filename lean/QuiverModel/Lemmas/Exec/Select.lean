import QuiverModel.Core.Exec.Select
/-
Helper lemmas about the select machine of M-Exec (used by Theorems/C05.lean and Theorems/C15.lean).
-/
namespace QM.Exec
variable {V : Type}

/-! ### association maps -/

theorem amLookup_insert_self {α} (k : Nat) (v : α) (m : AMap α) : amLookup k (amInsert k v m) = some v := by
  simp [amInsert, amLookup]

theorem amLookup_filter_ne {α} (k k' : Nat) (m : AMap α) (h : k' ≠ k) :
    amLookup k' (m.filter (fun e => e.1 != k)) = amLookup k' m := by
  induction m with
  | nil => rfl
  | cons e rest ih =>
    obtain ⟨a, b⟩ := e
    by_cases hak : a = k
    · subst hak
      have : a ≠ k' := fun h' => h h'.symm
      simp [amLookup, this, ih]
    · have hne : (a != k) = true := by simp [hak]
      by_cases hak' : a = k'
      · subst hak'
        simp [hne, amLookup]
      · simp [hne, amLookup, hak', ih]

theorem amLookup_insert_ne {α} (k k' : Nat) (v : α) (m : AMap α) (h : k' ≠ k) :
    amLookup k' (amInsert k v m) = amLookup k' m := by
  have : k ≠ k' := fun h' => h h'.symm
  simp [amInsert, amLookup, this, amLookup_filter_ne k k' m h]

/-! ### `scanFrom` -/

theorem scanFrom_inl (ty : V → Bool) : ∀ (l : List V) (idx cur i : Nat) (m : V),
    scanFrom ty l idx cur = .inl (i, m) →
    ∃ pre post, l = pre ++ m :: post ∧ i = idx + pre.length ∧ ty m = true ∧ ∀ x ∈ pre, ty x = false := by
  intro l
  induction l with
  | nil => intro idx cur i m h; simp [scanFrom] at h
  | cons x rest ih =>
    intro idx cur i m h
    unfold scanFrom at h
    by_cases hx : ty x = true
    · simp [hx] at h
      obtain ⟨h1, h2⟩ := h
      subst h1 h2
      exact ⟨[], rest, rfl, rfl, hx, by simp⟩
    · simp [hx] at h
      obtain ⟨pre, post, h1, h2, h3, h4⟩ := ih (idx + 1) (idx + 1) i m h
      refine ⟨x :: pre, post, by simp [h1], by simp [h2]; omega, h3, ?_⟩
      intro y hy
      rcases List.mem_cons.mp hy with rfl | hy
      · simpa using hx
      · exact h4 y hy

theorem scanFrom_inr (ty : V → Bool) : ∀ (l : List V) (idx cur c : Nat),
    scanFrom ty l idx cur = .inr c →
    (∀ x ∈ l, ty x = false) ∧ c = (if l = [] then cur else idx + l.length) := by
  intro l
  induction l with
  | nil => intro idx cur c h; simp [scanFrom] at h; simp [h]
  | cons x rest ih =>
    intro idx cur c h
    unfold scanFrom at h
    by_cases hx : ty x = true
    · simp [hx] at h
    · simp [hx] at h
      obtain ⟨h1, h2⟩ := ih (idx + 1) (idx + 1) c h
      refine ⟨?_, ?_⟩
      · intro y hy
        rcases List.mem_cons.mp hy with rfl | hy
        · simpa using hx
        · exact h1 y hy
      · simp
        by_cases hr : rest = []
        · simp [hr] at h2 ⊢; omega
        · simp [hr] at h2; omega

/-! ### `firstIdx` -/

theorem firstIdx_none_of_all_false (q : V → Bool) : ∀ (l : List V), (∀ x ∈ l, q x = false) → firstIdx q l = none := by
  intro l
  induction l with
  | nil => intro _; rfl
  | cons x rest ih =>
    intro h
    have hx : q x = false := h x (by simp)
    simp [firstIdx, hx, ih (fun y hy => h y (by simp [hy]))]

theorem firstIdx_append_of_all_false (q : V → Bool) : ∀ (pre l : List V), (∀ x ∈ pre, q x = false) →
    firstIdx q (pre ++ l) = (firstIdx q l).map (· + pre.length) := by
  intro pre
  induction pre with
  | nil => intro l _; simp
  | cons x rest ih =>
    intro l h
    have hx : q x = false := h x (by simp)
    simp [firstIdx, hx, ih l (fun y hy => h y (by simp [hy]))]
    cases firstIdx q l <;> simp <;> omega

theorem firstIdx_lt (q : V → Bool) : ∀ (l : List V) (i : Nat), firstIdx q l = some i → i < l.length := by
  intro l
  induction l with
  | nil => intro i h; simp [firstIdx] at h
  | cons x rest ih =>
    intro i h
    unfold firstIdx at h
    by_cases hx : q x = true
    · simp [hx] at h; subst h; simp
    · simp [hx] at h
      obtain ⟨j, hj, rfl⟩ := h
      have := ih j hj
      simp; omega

/-- The first accepted message of `pre ++ m :: post` when nothing in `pre` is accepted and `m` is. -/
theorem firstIdx_split (q : V → Bool) (pre post : List V) (m : V) (hpre : ∀ x ∈ pre, q x = false)
    (hm : q m = true) : firstIdx q (pre ++ m :: post) = some pre.length := by
  rw [firstIdx_append_of_all_false q pre _ hpre]
  simp [firstIdx, hm]

theorem getElem?_split (pre post : List V) (m : V) : (pre ++ m :: post)[pre.length]? = some m := by
  simp

end QM.Exec

namespace QM.Exec
variable {V : Type}

/-! ### The cursor invariant of one receive source -/

/-- Everything before cursor `c` was rejected by the source (by type or by its filter). -/
structure SrcSound (ty : V → Bool) (f : Option (V → FilterRes V)) (mb : List V) (c : Nat) : Prop where
  le : c ≤ mb.length
  rejected : ∀ x ∈ mb.take c, accepts ty f x = false

theorem accepts_false_of_type (ty : V → Bool) (f) (x : V) (h : ty x = false) : accepts ty f x = false := by
  simp [accepts, h]

theorem SrcSound.full (ty : V → Bool) (f) (mb : List V) (h : ∀ x ∈ mb, accepts ty f x = false) :
    SrcSound ty f mb mb.length := ⟨Nat.le_refl _, by simpa using h⟩

/-- From a sound cursor `c` and the scan result "first type-compatible message at `i`":
    the split of the mailbox. -/
theorem split_of_scan (ty : V → Bool) (f) (mb : List V) (c i : Nat) (m : V)
    (hs : SrcSound ty f mb c) (h : scanFrom ty (mb.drop c) c c = .inl (i, m)) :
    ∃ pre post, mb = pre ++ m :: post ∧ i = pre.length ∧ ty m = true ∧ (∀ x ∈ pre, accepts ty f x = false) := by
  obtain ⟨pre, post, h1, h2, h3, h4⟩ := scanFrom_inl ty _ _ _ _ _ h
  refine ⟨mb.take c ++ pre, post, ?_, ?_, h3, ?_⟩
  · have := List.take_append_drop c mb
    rw [h1] at this
    rw [List.append_assoc]
    exact this.symm
  · have : (mb.take c).length = c := by simp [hs.le]
    simp [this, h2]
  · intro x hx
    rcases List.mem_append.mp hx with hx | hx
    · exact hs.rejected x hx
    · exact accepts_false_of_type ty f x (h4 x hx)

theorem all_rejected_of_scan (ty : V → Bool) (f) (mb : List V) (c c' : Nat)
    (hs : SrcSound ty f mb c) (h : scanFrom ty (mb.drop c) c c = .inr c') :
    (∀ x ∈ mb, accepts ty f x = false) ∧ (c' = c ∨ c' = mb.length) := by
  obtain ⟨h1, h2⟩ := scanFrom_inr ty _ _ _ _ h
  constructor
  · intro x hx
    rw [← List.take_append_drop c mb] at hx
    rcases List.mem_append.mp hx with hx | hx
    · exact hs.rejected x hx
    · exact accepts_false_of_type ty f x (h1 x hx)
  · by_cases hd : mb.drop c = []
    · simp [hd] at h2; exact Or.inl h2
    · simp [hd] at h2
      right
      have := hs.le
      omega

theorem set_getD_self (l : List Nat) (r : Nat) (h : r < l.length) : l.set r (l.getD r 0) = l := by
  have : l.getD r 0 = l[r] := by simp [List.getD, h]
  rw [this]; exact List.set_getElem_self h

theorem getD_set_self (l : List Nat) (r c : Nat) (h : r < l.length) : (l.set r c).getD r 0 = c := by
  simp [List.getD, h]

theorem getD_set_ne (l : List Nat) (r k c : Nat) (h : k ≠ r) : (l.set r c).getD k 0 = l.getD k 0 := by
  simp [List.getD, Ne.symm h]

theorem SrcSound.of_split (ty : V → Bool) (f) (pre post : List V) (m : V)
    (h : ∀ x ∈ pre, accepts ty f x = false) : SrcSound ty f (pre ++ m :: post) pre.length :=
  ⟨by simp, by simpa using h⟩

/-- a sound cursor that points at an accepted message: it is the first accepted one -/
theorem firstIdx_of_sound_at (ty : V → Bool) (f) (mb : List V) (c : Nat) (m : V)
    (hs : SrcSound ty f mb c) (hm : mb[c]? = some m) (ha : accepts ty f m = true) :
    firstIdx (accepts ty f) mb = some c := by
  obtain ⟨hlt, hget⟩ := List.getElem?_eq_some_iff.mp hm
  have hsplit : mb = mb.take c ++ m :: mb.drop (c + 1) := by
    rw [← hget]; simp
  have hlen : (mb.take c).length = c := by simp [Nat.le_of_lt hlt]
  have := firstIdx_split (accepts ty f) (mb.take c) (mb.drop (c + 1)) m hs.rejected ha
  rw [← hsplit, hlen] at this
  exact this

theorem SrcSound.succ_of_rejected (ty : V → Bool) (f) (mb : List V) (c : Nat) (m : V)
    (hs : SrcSound ty f mb c) (hm : mb[c]? = some m) (ha : accepts ty f m = false) :
    SrcSound ty f mb (c + 1) := by
  obtain ⟨hlt, hget⟩ := List.getElem?_eq_some_iff.mp hm
  refine ⟨hlt, ?_⟩
  intro x hx
  rw [List.take_add_one] at hx
  rcases List.mem_append.mp hx with hx | hx
  · exact hs.rejected x hx
  · simp [hm] at hx; subst hx; exact ha


/-- Post-condition of handling receive source `r` (`ty`, `f`) on mailbox `mb` and live state `st`;
    `rcv` is the receiving slot the new state has in the `continue_` case. -/
def RecvPost (mb : List V) (st : SelState V) (r : Nat) (ty : V → Bool) (f : Option (V → FilterRes V))
    (rcv : Option (Nat × V)) (mb' : List V) (st' : SelState V) : RecvRes V → Prop
  | .complete m => ∃ i, firstIdx (accepts ty f) mb = some i ∧ mb[i]? = some m ∧ mb' = mb.eraseIdx i
  | .called =>
      mb' = mb ∧ ∃ i m g, f = some g ∧
        st' = { st with receiving := some (r, m), cursors := st.cursors.set r i } ∧
        SrcSound ty f mb i ∧ ty m = true ∧ mb[i]? = some m
  | .continue_ =>
      mb' = mb ∧ firstIdx (accepts ty f) mb = none ∧
        ∃ c', SrcSound ty f mb c' ∧ st' = { st with cursors := st.cursors.set r c', receiving := rcv }
  | .error _ => False
  | .panic => False

/-- What `scan_mailbox_for_message` does for receive source `r` whose live cursor is sound. -/
theorem scanMailbox_spec (mb : List V) (st snapshot : SelState V) (r : Nat) (ty : V → Bool)
    (f : Option (V → FilterRes V)) (hlen : r < st.cursors.length)
    (hs : SrcSound ty f mb (st.cursors.getD r 0)) (mb' : List V) (st' : SelState V) (res : RecvRes V)
    (h : scanMailbox mb st snapshot r ty f = (mb', st', res)) :
    RecvPost mb st r ty f st.receiving mb' st' res := by
  unfold scanMailbox at h
  simp only [] at h
  cases hscan : scanFrom ty (mb.drop (st.cursors.getD r 0)) (st.cursors.getD r 0) (st.cursors.getD r 0) with
  | inl im =>
    obtain ⟨i, m⟩ := im
    rw [hscan] at h
    obtain ⟨pre, post, h1, h2, h3, h4⟩ := split_of_scan ty f mb _ i m hs hscan
    cases f with
    | none =>
      simp only [Prod.mk.injEq] at h
      obtain ⟨rfl, rfl, rfl⟩ := h
      refine ⟨i, ?_, ?_, rfl⟩
      · subst h1 h2
        exact firstIdx_split _ pre post m h4 (by simp [accepts, h3])
      · subst h1 h2; simp
    | some g =>
      simp only [hlen, if_true, Prod.mk.injEq] at h
      obtain ⟨rfl, rfl, rfl⟩ := h
      refine ⟨rfl, i, m, g, rfl, rfl, ?_, h3, ?_⟩
      · subst h1 h2; exact SrcSound.of_split ty _ pre post m h4
      · subst h1 h2; simp
  | inr c' =>
    rw [hscan] at h
    obtain ⟨h1, h2⟩ := all_rejected_of_scan ty f mb _ c' hs hscan
    have hnone := firstIdx_none_of_all_false (accepts ty f) mb h1
    have hsound : SrcSound ty f mb c' := by
      rcases h2 with h2 | h2
      · rw [h2]; exact hs
      · rw [h2]; exact SrcSound.full ty f mb h1
    simp only [] at h
    split at h
    · simp only [Prod.mk.injEq] at h
      obtain ⟨rfl, rfl, rfl⟩ := h
      exact ⟨rfl, hnone, c', hsound, rfl⟩
    · simp only [Prod.mk.injEq] at h
      obtain ⟨rfl, rfl, rfl⟩ := h
      refine ⟨rfl, hnone, st.cursors.getD r 0, hs, ?_⟩
      rw [set_getD_self _ _ hlen]


/-- The facts about the snapshot's `receiving` slot when it names receive source `r`: the slot holds
    the message the live cursor `c` points at, the source has a body `g`, and the verdict on the
    stack is what `g` returns on that message (filters are pure). -/
def RecvOK (snapshot : SelState V) (verdict : Option (Yield V)) (mb : List V) (c r : Nat)
    (ty : V → Bool) (f : Option (V → FilterRes V)) : Prop :=
  ∀ m, snapshot.receiving = some (r, m) →
    ∃ g rr, f = some g ∧ g m = .ret rr ∧ verdict = some rr ∧ ty m = true ∧ mb[c]? = some m

/-- the live `receiving` slot after source `r` answered `continue_` -/
def rcvAfter (snapshot st : SelState V) (r : Nat) : Option (Nat × V) :=
  match snapshot.receiving with
  | some (idx, _) => if idx = r then none else st.receiving
  | none => st.receiving

theorem handleSelectReceive_spec (mb : List V) (st snapshot : SelState V) (r : Nat) (ty : V → Bool)
    (f : Option (V → FilterRes V)) (verdict : Option (Yield V)) (hlen : r < st.cursors.length)
    (hs : SrcSound ty f mb (st.cursors.getD r 0))
    (hr : RecvOK snapshot verdict mb (st.cursors.getD r 0) r ty f)
    (mb' : List V) (st' : SelState V) (res : RecvRes V)
    (h : handleSelectReceive mb st snapshot r ty f verdict = (mb', st', res)) :
    RecvPost mb st r ty f (rcvAfter snapshot st r) mb' st' res := by
  unfold handleSelectReceive at h
  cases hsn : snapshot.receiving with
  | none =>
    rw [hsn] at h
    simp only [rcvAfter, hsn]
    exact scanMailbox_spec mb st snapshot r ty f hlen hs mb' st' res h
  | some im =>
    obtain ⟨idx, m⟩ := im
    rw [hsn] at h
    simp only [] at h
    by_cases hidx : idx = r
    · subst hidx
      obtain ⟨g, rr, hf, hg, hv, htm, hget⟩ := hr m hsn
      simp only [if_true] at h
      subst hv
      cases rr with
      | value a =>
        simp only [handleReceiveResult, Prod.mk.injEq] at h
        obtain ⟨rfl, rfl, rfl⟩ := h
        refine ⟨st.cursors.getD idx 0, ?_, hget, rfl⟩
        apply firstIdx_of_sound_at ty f mb _ m hs hget
        simp [accepts, htm, hf, hg]
      | nil =>
        simp only [handleReceiveResult, hlen, if_true] at h
        have hrej : accepts ty f m = false := by simp [accepts, hf, hg]
        have hlen1 : idx < (st.cursors.set idx (st.cursors.getD idx 0 + 1)).length := by simpa using hlen
        have hs1 : SrcSound ty f mb ((st.cursors.set idx (st.cursors.getD idx 0 + 1)).getD idx 0) := by
          rw [getD_set_self _ _ _ hlen]
          exact SrcSound.succ_of_rejected ty f mb _ m hs hget hrej
        have := scanMailbox_spec mb
          { st with cursors := st.cursors.set idx (st.cursors.getD idx 0 + 1), receiving := none }
          snapshot idx ty f hlen1 hs1 mb' st' res h
        have hra : rcvAfter snapshot st idx = none := by simp [rcvAfter, hsn]
        rw [hra]
        cases res with
        | complete m' => exact this
        | called =>
          obtain ⟨h1, i, m', g', h2, h3, h4, h5, h6⟩ := this
          refine ⟨h1, i, m', g', h2, ?_, h4, h5, h6⟩
          rw [h3]; simp [List.set_set]
        | continue_ =>
          obtain ⟨h1, h2, c', h3, h4⟩ := this
          refine ⟨h1, h2, c', h3, ?_⟩
          rw [h4]; simp [List.set_set]
        | error e => exact this
        | panic => exact this
    · simp only [hidx, if_false] at h
      have hra : rcvAfter snapshot st r = st.receiving := by simp [rcvAfter, hsn, hidx]
      rw [hra]
      exact scanMailbox_spec mb st snapshot r ty f hlen hs mb' st' res h


theorem nthRecv_lt : ∀ (l : List (Source V)) (k : Nat) x, nthRecv l k = some x → k < receiveCount l := by
  intro l
  induction l with
  | nil => intro k x h; simp [nthRecv] at h
  | cons s rest ih =>
    intro k x h
    cases s with
    | receive ty f =>
      cases k with
      | zero => simp [receiveCount]
      | succ n => simp only [nthRecv] at h; have := ih n x h; simp [receiveCount]; omega
    | await p => simp only [nthRecv] at h; simpa [receiveCount] using ih k x h
    | timeout ms => simp only [nthRecv] at h; simpa [receiveCount] using ih k x h
    | invalid e => simp only [nthRecv] at h; simpa [receiveCount] using ih k x h

/-- what the two maps of a process say about awaited target `t` -/
def resultsOf (aw : AMap (Option V)) (awf : AMap ErrClass) : Nat → Option (Res V) := fun t =>
  match amLookup t awf with
  | some e => some (.err e)
  | none =>
    match amLookup t aw with
    | some (some v) => some (.ok v)
    | _ => none

theorem knownResults_eq (p : Proc V) : p.knownResults = resultsOf p.awaiting p.awaitingFailed := rfl

/-- every cursor is sound -/
def AllSound (all : List (Source V)) (mb : List V) (cs : List Nat) : Prop :=
  ∀ k ty f, nthRecv all k = some (ty, f) → SrcSound ty f mb (cs.getD k 0)

/-- the held message is the one its source's cursor points at -/
def HeldOK (all : List (Source V)) (mb : List V) (cs : List Nat) (rcv : Option (Nat × V)) : Prop :=
  ∀ idx m, rcv = some (idx, m) →
    ∃ ty g, nthRecv all idx = some (ty, some g) ∧ ty m = true ∧ mb[cs.getD idx 0]? = some m

/-- The invariant threaded through the loop of `process_select_sources`, at the point where the
    sources before receive index `r` have been handled. -/
structure Thread (all : List (Source V)) (snapshot : SelState V) (verdict : Option (Yield V))
    (mb : List V) (r : Nat) (st : SelState V) : Prop where
  len : st.cursors.length = receiveCount all
  sound : AllSound all mb st.cursors
  srcs : st.sources = all
  start : st.startTime = snapshot.startTime
  live : ∀ idx m, st.receiving = some (idx, m) → r ≤ idx ∧ snapshot.receiving = some (idx, m)
  pending : ∀ idx m, snapshot.receiving = some (idx, m) → r ≤ idx →
    ∃ ty g rr, nthRecv all idx = some (ty, some g) ∧ g m = .ret rr ∧ verdict = some rr ∧
      ty m = true ∧ mb[st.cursors.getD idx 0]? = some m

theorem Thread.held {all : List (Source V)} {snapshot verdict mb r st}
    (t : Thread all snapshot verdict mb r st) : HeldOK all mb st.cursors st.receiving := by
  intro idx m h
  obtain ⟨h1, h2⟩ := t.live idx m h
  obtain ⟨ty, g, rr, h3, _, _, h6, h7⟩ := t.pending idx m h2 h1
  exact ⟨ty, g, h3, h6, h7⟩

/-- Post-condition of the loop on the remaining sources `srcs`. -/
def ScanPost (all : List (Source V)) (aw : AMap (Option V)) (awf : AMap ErrClass) (start now : Nat)
    (srcs : List (Source V)) (mb : List V) (st0 : SelState V) (mb' : List V) (st' : SelState V) : StepRes V → Prop
  | .completed y =>
      ∃ taken, selectSpec mb (resultsOf aw awf) start now srcs = .yields y taken ∧
        mb' = (match taken with | none => mb | some i => mb.eraseIdx i)
  | .failed e => selectSpec mb (resultsOf aw awf) start now srcs = .fails e ∧ mb' = mb
  | .parked =>
      selectSpec mb (resultsOf aw awf) start now srcs = .notReady ∧ mb' = mb ∧ st'.receiving = none ∧
        st'.sources = all ∧ st'.startTime = st0.startTime ∧ st'.cursors.length = receiveCount all ∧
        AllSound all mb st'.cursors
  | .calledFilter =>
      mb' = mb ∧ st'.sources = all ∧ st'.startTime = st0.startTime ∧ st'.cursors.length = receiveCount all ∧
        AllSound all mb st'.cursors ∧ HeldOK all mb st'.cursors st'.receiving ∧ st'.receiving.isSome
  | .awaitAction _ => False
  | .initialized => False
  | .panic => False

theorem scanSources_spec (all : List (Source V)) (aw : AMap (Option V)) (awf : AMap ErrClass)
    (snapshot : SelState V) (verdict : Option (Yield V)) (start now : Nat) :
    ∀ (srcs : List (Source V)) (r : Nat) (mb : List V) (st : SelState V),
      (∀ k, nthRecv srcs k = nthRecv all (r + k)) →
      Thread all snapshot verdict mb r st →
      ∀ mb' st' res, scanSources aw awf snapshot verdict start now srcs r mb st = (mb', st', res) →
        ScanPost all aw awf start now srcs mb snapshot mb' st' res := by
  intro srcs
  induction srcs with
  | nil =>
    intro r mb st hsuf t mb' st' res h
    simp only [scanSources, Prod.mk.injEq] at h
    obtain ⟨rfl, rfl, rfl⟩ := h
    refine ⟨rfl, rfl, ?_, t.srcs, t.start, t.len, t.sound⟩
    cases hrc : st.receiving with
    | none => rfl
    | some im =>
      obtain ⟨idx, m⟩ := im
      obtain ⟨h1, h2⟩ := t.live idx m hrc
      obtain ⟨ty, g, rr, h3, _⟩ := t.pending idx m h2 h1
      have := hsuf (idx - r)
      have e : r + (idx - r) = idx := by omega
      rw [e, h3] at this
      simp [nthRecv] at this
  | cons s rest ih =>
    intro r mb st hsuf t mb' st' res h
    cases s with
    | timeout ms =>
      simp only [scanSources] at h
      have hsuf' : ∀ k, nthRecv rest k = nthRecv all (r + k) := fun k => by
        have := hsuf k; simpa [nthRecv] using this
      by_cases hexp : expired ms start now = true
      · simp only [hexp, if_true, Prod.mk.injEq] at h
        obtain ⟨rfl, rfl, rfl⟩ := h
        refine ⟨none, ?_, rfl⟩
        have : effDur ms ≤ now - start := by simpa [expired] using hexp
        simp [selectSpec, this]
      · simp only [hexp] at h
        have hpost := ih r mb st hsuf' t mb' st' res h
        have hne : ¬ effDur ms ≤ now - start := by simpa [expired] using hexp
        cases res <;> simp [ScanPost, selectSpec, hne] at hpost ⊢ <;> exact hpost
    | await tgt =>
      simp only [scanSources] at h
      have hsuf' : ∀ k, nthRecv rest k = nthRecv all (r + k) := fun k => by
        have := hsuf k; simpa [nthRecv] using this
      cases hf : amLookup tgt awf with
      | some e =>
        simp only [hf, Prod.mk.injEq] at h
        obtain ⟨rfl, rfl, rfl⟩ := h
        refine ⟨?_, rfl⟩
        simp [selectSpec, resultsOf, hf]
      | none =>
        simp only [hf] at h
        cases ha : amLookup tgt aw with
        | none =>
          simp only [ha] at h
          have hpost := ih r mb st hsuf' t mb' st' res h
          cases res <;> simp [ScanPost, selectSpec, resultsOf, hf, ha] at hpost ⊢ <;> exact hpost
        | some ov =>
          cases ov with
          | none =>
            simp only [ha] at h
            have hpost := ih r mb st hsuf' t mb' st' res h
            cases res <;> simp [ScanPost, selectSpec, resultsOf, hf, ha] at hpost ⊢ <;> exact hpost
          | some v =>
            simp only [ha, Prod.mk.injEq] at h
            obtain ⟨rfl, rfl, rfl⟩ := h
            refine ⟨none, ?_, rfl⟩
            simp [selectSpec, resultsOf, hf, ha]
    | invalid e =>
      simp only [scanSources, Prod.mk.injEq] at h
      obtain ⟨rfl, rfl, rfl⟩ := h
      exact ⟨by simp [selectSpec], rfl⟩
    | receive ty f =>
      simp only [scanSources] at h
      have hhead : nthRecv all r = some (ty, f) := by
        have := hsuf 0; simpa [nthRecv] using this.symm
      have hsuf' : ∀ k, nthRecv rest k = nthRecv all (r + 1 + k) := fun k => by
        have := hsuf (k + 1)
        simp only [nthRecv] at this
        rw [this]; congr 1; omega
      have hlen : r < st.cursors.length := by
        rw [t.len]; exact nthRecv_lt all r _ hhead
      have hs : SrcSound ty f mb (st.cursors.getD r 0) := t.sound r ty f hhead
      have hr : RecvOK snapshot verdict mb (st.cursors.getD r 0) r ty f := by
        intro m hm
        obtain ⟨ty', g, rr, h3, h4, h5, h6, h7⟩ := t.pending r m hm (Nat.le_refl _)
        rw [hhead] at h3
        simp only [Option.some.injEq, Prod.mk.injEq] at h3
        obtain ⟨rfl, rfl⟩ := h3
        exact ⟨g, rr, rfl, h4, h5, h6, h7⟩
      cases hres : handleSelectReceive mb st snapshot r ty f verdict with
      | mk mb1 rest1 =>
        obtain ⟨st1, rres⟩ := rest1
        have hpost := handleSelectReceive_spec mb st snapshot r ty f verdict hlen hs hr mb1 st1 rres hres
        rw [hres] at h
        cases rres with
        | complete m =>
          simp only [Prod.mk.injEq] at h
          obtain ⟨rfl, rfl, rfl⟩ := h
          obtain ⟨i, h1, h2, h3⟩ := hpost
          refine ⟨some i, ?_, h3⟩
          simp [selectSpec, h1, h2]
        | called =>
          simp only [Prod.mk.injEq] at h
          obtain ⟨rfl, rfl, rfl⟩ := h
          obtain ⟨h1, i, m, g, h2, h3, h4, h5, h6⟩ := hpost
          have h1' := h1.symm
          subst h1' h3
          have hsound' : AllSound all mb (st.cursors.set r i) := by
            intro k ty' f' hk
            by_cases hkr : k = r
            · subst hkr
              rw [hhead] at hk
              simp only [Option.some.injEq, Prod.mk.injEq] at hk
              obtain ⟨rfl, rfl⟩ := hk
              rw [getD_set_self _ _ _ hlen]; exact h4
            · rw [getD_set_ne _ _ _ _ hkr]; exact t.sound k ty' f' hk
          refine ⟨rfl, t.srcs, t.start, by simpa using t.len, hsound', ?_, rfl⟩
          intro idx m' hm'
          simp only [Option.some.injEq, Prod.mk.injEq] at hm'
          obtain ⟨rfl, rfl⟩ := hm'
          refine ⟨ty, g, by rw [hhead, h2], h5, ?_⟩
          simp only []
          rw [getD_set_self _ _ _ hlen]; exact h6
        | continue_ =>
          simp only [] at h
          obtain ⟨h1, h2, c', h3, h4⟩ := hpost
          have h1' := h1.symm
          subst h1' h4
          have t' : Thread all snapshot verdict mb (r + 1)
              { st with cursors := st.cursors.set r c', receiving := rcvAfter snapshot st r } := by
            refine ⟨by simpa using t.len, ?_, t.srcs, t.start, ?_, ?_⟩
            · intro k ty' f' hk
              by_cases hkr : k = r
              · subst hkr
                rw [hhead] at hk
                simp only [Option.some.injEq, Prod.mk.injEq] at hk
                obtain ⟨rfl, rfl⟩ := hk
                simp only []
                rw [getD_set_self _ _ _ hlen]; exact h3
              · simp only []
                rw [getD_set_ne _ _ _ _ hkr]; exact t.sound k ty' f' hk
            · intro idx m hm
              simp only [rcvAfter] at hm
              cases hsn : snapshot.receiving with
              | none =>
                rw [hsn] at hm
                obtain ⟨_, h6⟩ := t.live idx m hm
                rw [hsn] at h6; cases h6
              | some im0 =>
                obtain ⟨idx0, m0⟩ := im0
                rw [hsn] at hm
                simp only [] at hm
                by_cases h0 : idx0 = r
                · simp [h0] at hm
                · simp only [h0, if_false] at hm
                  obtain ⟨h5, h6⟩ := t.live idx m hm
                  rw [hsn] at h6
                  simp only [Option.some.injEq, Prod.mk.injEq] at h6
                  obtain ⟨rfl, rfl⟩ := h6
                  refine ⟨by omega, rfl⟩
            · intro idx m hm hle
              obtain ⟨ty', g, rr, h5, h6, h7, h8, h9⟩ := t.pending idx m hm (by omega)
              refine ⟨ty', g, rr, h5, h6, h7, h8, ?_⟩
              simp only []
              rw [getD_set_ne _ _ _ _ (by omega)]; exact h9
          have hpost2 := ih (r + 1) mb _ hsuf' t' mb' st' res h
          cases res <;> simp [ScanPost, selectSpec, h2] at hpost2 ⊢ <;> exact hpost2
        | error e => exact hpost.elim
        | panic => exact hpost.elim


/-- The select invariant (`cursor_sound` is its `sound` field): one cursor per receive source, every
    message before a cursor was rejected by that source, a held message is the one its source's
    cursor points at. -/
structure Inv (mb : List V) (st : SelState V) : Prop where
  len : st.cursors.length = receiveCount st.sources
  sound : AllSound st.sources mb st.cursors
  held : HeldOK st.sources mb st.cursors st.receiving

/-- The value on the stack is what the pending (pure) receive function returns on the held message. -/
def VerdictOf (st : SelState V) (top : Yield V) : Prop :=
  ∀ fr, pendingFilterRes st = some fr → fr = .ret top

theorem pending_of_held {mb : List V} {st : SelState V} (hinv : Inv mb st) {idx : Nat} {m : V}
    (h : st.receiving = some (idx, m)) :
    ∃ ty g, nthRecv st.sources idx = some (ty, some g) ∧ pendingFilterRes st = some (g m) ∧ ty m = true ∧
      mb[st.cursors.getD idx 0]? = some m := by
  obtain ⟨ty, g, h1, h2, h3⟩ := hinv.held idx m h
  exact ⟨ty, g, h1, by simp [pendingFilterRes, h, h1], h2, h3⟩

/-- Post-condition of `reenterSelect` (phases 3–4 of `handle_select`). -/
def ReenterPost (p : Proc V) (st : SelState V) (now : Nat) (p' : Proc V) : StepRes V → Prop
  | .completed y =>
      ∃ taken, selectSpec p.mailbox p.knownResults (st.startTime.getD now) now st.sources = .yields y taken ∧
        p'.mailbox = (match taken with | none => p.mailbox | some i => p.mailbox.eraseIdx i) ∧
        p'.sel = none ∧ p'.awaiting = dropAwaits st.sources p.awaiting ∧
        p'.awaitingFailed = dropAwaits st.sources p.awaitingFailed ∧ p'.result = p.result
  | .failed e =>
      selectSpec p.mailbox p.knownResults (st.startTime.getD now) now st.sources = .fails e ∧
        p'.mailbox = p.mailbox ∧ p'.result = p.result
  | .parked =>
      selectSpec p.mailbox p.knownResults (st.startTime.getD now) now st.sources = .notReady ∧
        p'.mailbox = p.mailbox ∧ p'.awaiting = p.awaiting ∧ p'.awaitingFailed = p.awaitingFailed ∧
        p'.result = p.result ∧
        ∃ st', p'.sel = some st' ∧ Inv p.mailbox st' ∧ st'.receiving = none ∧
          st'.sources = st.sources ∧ st'.startTime = some (st.startTime.getD now)
  | .calledFilter =>
      p'.mailbox = p.mailbox ∧ p'.awaiting = p.awaiting ∧ p'.awaitingFailed = p.awaitingFailed ∧
        p'.result = p.result ∧
        ∃ st', p'.sel = some st' ∧ Inv p.mailbox st' ∧ st'.receiving.isSome ∧
          st'.sources = st.sources ∧ st'.startTime = some (st.startTime.getD now)
  | .awaitAction _ => False
  | .initialized => False
  | .panic => False

theorem reenterSelect_spec (p : Proc V) (st : SelState V) (verdict : Option (Yield V)) (now : Nat)
    (hinv : Inv p.mailbox st)
    (hv : ∀ idx m ty g, st.receiving = some (idx, m) → nthRecv st.sources idx = some (ty, some g) →
      ∃ rr, g m = .ret rr ∧ verdict = some rr)
    (p' : Proc V) (res : StepRes V) (h : reenterSelect p st verdict now = (p', res)) :
    ReenterPost p st now p' res := by
  unfold reenterSelect at h
  simp only [] at h
  have t : Thread st.sources { st with startTime := some (st.startTime.getD now) } verdict p.mailbox 0
      { st with startTime := some (st.startTime.getD now) } := by
    refine ⟨hinv.len, hinv.sound, rfl, rfl, ?_, ?_⟩
    · intro idx m hm; exact ⟨Nat.zero_le _, hm⟩
    · intro idx m hm _
      obtain ⟨ty, g, h1, h2, h3⟩ := hinv.held idx m hm
      obtain ⟨rr, h4, h5⟩ := hv idx m ty g hm h1
      exact ⟨ty, g, rr, h1, h4, h5, h2, h3⟩
  cases hscan : scanSources p.awaiting p.awaitingFailed { st with startTime := some (st.startTime.getD now) }
      verdict (st.startTime.getD now) now st.sources 0 p.mailbox
      { st with startTime := some (st.startTime.getD now) } with
  | mk mb' rest =>
    obtain ⟨st', r⟩ := rest
    have hpost := scanSources_spec st.sources p.awaiting p.awaitingFailed _ verdict _ now st.sources 0
      p.mailbox _ (fun k => by simp) t mb' st' r hscan
    rw [hscan] at h
    cases r with
    | completed y =>
      simp only [Prod.mk.injEq] at h
      obtain ⟨rfl, rfl⟩ := h
      obtain ⟨taken, h1, h2⟩ := hpost
      exact ⟨taken, h1, h2, rfl, rfl, rfl, rfl⟩
    | failed e =>
      simp only [Prod.mk.injEq] at h
      obtain ⟨rfl, rfl⟩ := h
      exact ⟨hpost.1, hpost.2, rfl⟩
    | parked =>
      simp only [Prod.mk.injEq] at h
      obtain ⟨rfl, rfl⟩ := h
      obtain ⟨h1, h2, h3, h4, h5, h6, h7⟩ := hpost
      refine ⟨h1, h2, rfl, rfl, rfl, st', rfl, ⟨by rw [h4]; exact h6, by rw [h4]; exact h7, ?_⟩, h3, h4, h5⟩
      rw [h3]; intro idx m hm; cases hm
    | calledFilter =>
      simp only [Prod.mk.injEq] at h
      obtain ⟨rfl, rfl⟩ := h
      obtain ⟨h1, h2, h3, h4, h5, h6, h7⟩ := hpost
      exact ⟨h1, rfl, rfl, rfl, st', rfl, ⟨by rw [h2]; exact h4, by rw [h2]; exact h5, by rw [h2]; exact h6⟩, h7, h2, h3⟩
    | awaitAction ts => exact hpost.elim
    | initialized => exact hpost.elim
    | panic => exact hpost.elim


/-! ### `handleSelect` on an existing state, with the verdict of a pure filter -/

theorem handleSelect_spec (p : Proc V) (st : SelState V) (now : Nat) (srcs : List (Source V)) (top : Yield V)
    (hsel : p.sel = some st) (hinv : Inv p.mailbox st) (hv : VerdictOf st top)
    (p' : Proc V) (res : StepRes V) (h : handleSelect p now srcs top = (p', res)) :
    ReenterPost p st now p' res := by
  unfold handleSelect at h
  rw [hsel] at h
  simp only [] at h
  apply reenterSelect_spec p st _ now hinv _ p' res h
  intro idx m ty g hm hn
  have hp : pendingFilterRes st = some (g m) := by simp [pendingFilterRes, hm, hn]
  have := hv (g m) hp
  exact ⟨top, this, by simp [hm]⟩

/-! ### the invariant is established by `initialize_select` and kept by arrivals -/

theorem SrcSound.zero (ty : V → Bool) (f) (mb : List V) : SrcSound ty f mb 0 := ⟨Nat.zero_le _, by simp⟩

theorem getD_replicate_zero (n k : Nat) : (List.replicate n 0).getD k 0 = 0 := by
  simp [List.getD, List.getElem?_replicate]
  split <;> rfl

theorem initializeSelect_inv (p : Proc V) (srcs : List (Source V)) (now : Nat) (p' : Proc V) (res : StepRes V)
    (h : initializeSelect p srcs now = (p', res)) :
    p'.mailbox = p.mailbox ∧ p'.result = p.result ∧
    ∃ st, p'.sel = some st ∧ Inv p.mailbox st ∧ st.sources = srcs ∧ st.receiving = none ∧
      (∀ k, st.cursors.getD k 0 = 0) ∧
      ((pidTargets srcs = [] ∧ st.startTime = some now ∧ res = .initialized ∧ p'.awaiting = p.awaiting) ∨
       (pidTargets srcs ≠ [] ∧ st.startTime = none ∧ res = .awaitAction (pidTargets srcs) ∧
         p'.awaiting = registerAwaits (pidTargets srcs) p.awaiting)) := by
  unfold initializeSelect at h
  simp only [] at h
  have hI : ∀ (stt : Option Nat), Inv p.mailbox
      { sources := srcs, cursors := List.replicate (receiveCount srcs) 0, startTime := stt, receiving := none } := by
    intro stt
    refine ⟨by simp, ?_, ?_⟩
    · intro k ty f _
      simp only []
      rw [getD_replicate_zero]; exact SrcSound.zero ty f _
    · intro idx m hm; cases hm
  by_cases ht : (pidTargets srcs).isEmpty = true
  · simp only [ht, if_true, Prod.mk.injEq] at h
    obtain ⟨rfl, rfl⟩ := h
    refine ⟨rfl, rfl, _, rfl, hI _, rfl, rfl, fun k => getD_replicate_zero _ k, Or.inl ⟨?_, rfl, rfl, rfl⟩⟩
    simpa using ht
  · simp only [ht] at h
    simp only [Bool.false_eq_true, if_false, Prod.mk.injEq] at h
    obtain ⟨rfl, rfl⟩ := h
    refine ⟨rfl, rfl, _, rfl, hI _, rfl, rfl, fun k => getD_replicate_zero _ k, Or.inr ⟨?_, rfl, rfl, rfl⟩⟩
    simpa using ht

theorem SrcSound.append (ty : V → Bool) (f) (mb : List V) (c : Nat) (m : V) (h : SrcSound ty f mb c) :
    SrcSound ty f (mb ++ [m]) c := by
  refine ⟨by have := h.le; simp; omega, ?_⟩
  intro x hx
  rw [List.take_append_of_le_length h.le] at hx
  exact h.rejected x hx

theorem Inv.pushMessage {mb : List V} {st : SelState V} (h : Inv mb st) (m : V) : Inv (mb ++ [m]) st := by
  refine ⟨h.len, ?_, ?_⟩
  · intro k ty f hk; exact (h.sound k ty f hk).append ty f mb _ m
  · intro idx m' hm
    obtain ⟨ty, g, h1, h2, h3⟩ := h.held idx m' hm
    refine ⟨ty, g, h1, h2, ?_⟩
    obtain ⟨hlt, hget⟩ := List.getElem?_eq_some_iff.mp h3
    rw [List.getElem?_append_left hlt]; exact h3

/-! ### the verdict is only inspected for nil-ness -/

theorem handleReceiveResult_value_irrel (mb : List V) (st : SelState V) (r : Nat) (m a b : V) :
    handleReceiveResult mb st r m (some (.value a)) = handleReceiveResult mb st r m (some (.value b)) := rfl

theorem handleSelectReceive_value_irrel (mb : List V) (st snap : SelState V) (r : Nat) (ty) (f) (a b : V) :
    handleSelectReceive mb st snap r ty f (some (.value a)) = handleSelectReceive mb st snap r ty f (some (.value b)) := by
  unfold handleSelectReceive
  cases snap.receiving with
  | none => rfl
  | some im => obtain ⟨idx, m⟩ := im; simp only [handleReceiveResult_value_irrel mb st r m a b]

theorem scanSources_value_irrel (aw : AMap (Option V)) (awf) (snap : SelState V) (start now : Nat) (a b : V) :
    ∀ (srcs : List (Source V)) (r : Nat) (mb : List V) (st : SelState V),
      scanSources aw awf snap (some (.value a)) start now srcs r mb st =
      scanSources aw awf snap (some (.value b)) start now srcs r mb st := by
  intro srcs
  induction srcs with
  | nil => intros; rfl
  | cons s rest ih =>
    intro r mb st
    cases s with
    | timeout ms => simp only [scanSources, ih]
    | await t => simp only [scanSources, ih]
    | invalid e => simp only [scanSources]
    | receive ty f =>
      simp only [scanSources, handleSelectReceive_value_irrel mb st snap r ty f a b, ih]


/-! ### expiry -/

theorem listMin_none : ∀ (l : List Nat), listMin l = none ↔ l = [] := by
  intro l
  cases l with
  | nil => simp [listMin]
  | cons x xs =>
    simp only [listMin]
    cases listMin xs <;> simp

theorem listMin_some : ∀ (l : List Nat) (m : Nat), listMin l = some m → m ∈ l ∧ ∀ x ∈ l, m ≤ x := by
  intro l
  induction l with
  | nil => intro m h; simp [listMin] at h
  | cons x xs ih =>
    intro m h
    simp only [listMin] at h
    cases hx : listMin xs with
    | none =>
      rw [hx] at h
      simp only [Option.some.injEq] at h
      subst h
      have : xs = [] := (listMin_none xs).mp hx
      subst this
      simp
    | some m' =>
      rw [hx] at h
      simp only [Option.some.injEq] at h
      obtain ⟨h1, h2⟩ := ih m' hx
      subst h
      constructor
      · by_cases hle : x ≤ m'
        · simp [Nat.min_eq_left hle]
        · have : min x m' = m' := Nat.min_eq_right (by omega)
          rw [this]; simp [h1]
      · intro y hy
        rcases List.mem_cons.mp hy with rfl | hy
        · exact Nat.min_le_left _ _
        · exact Nat.le_trans (Nat.min_le_right _ _) (h2 y hy)

/-- the expiry filter of `check_expired_timeouts`, spelled out -/
theorem timeoutExpired_iff (p : Proc V) (now : Nat) :
    p.timeoutExpired now = true ↔
      ∃ st s ms, p.sel = some st ∧ st.startTime = some s ∧ Source.timeout ms ∈ st.sources ∧
        effDur ms ≤ now - s := by
  cases hsel : p.sel with
  | none => simp [Proc.timeoutExpired, hsel]
  | some st =>
    cases hst : st.startTime with
    | none => simp [Proc.timeoutExpired, hsel, hst]
    | some s =>
      simp only [Proc.timeoutExpired, hsel, hst, List.any_eq_true]
      constructor
      · rintro ⟨src, hmem, hsrc⟩
        cases src with
        | timeout ms => exact ⟨st, s, ms, rfl, hst, hmem, by simpa [expired] using hsrc⟩
        | await _ => simp at hsrc
        | receive _ _ => simp at hsrc
        | invalid _ => simp at hsrc
      · rintro ⟨st', s', ms, h1, h2, h3, h4⟩
        simp only [Option.some.injEq] at h1
        subst h1
        rw [hst] at h2
        simp only [Option.some.injEq] at h2
        subst h2
        exact ⟨.timeout ms, h3, by simpa [expired] using h4⟩

theorem mem_timeoutDurs (srcs : List (Source V)) (d : Nat) :
    d ∈ srcs.filterMap Source.timeoutDur ↔ ∃ ms, Source.timeout ms ∈ srcs ∧ effDur ms = d := by
  simp only [List.mem_filterMap]
  constructor
  · rintro ⟨src, hmem, hsrc⟩
    cases src with
    | timeout ms => exact ⟨ms, hmem, by simpa [Source.timeoutDur] using hsrc⟩
    | await _ => simp [Source.timeoutDur] at hsrc
    | receive _ _ => simp [Source.timeoutDur] at hsrc
    | invalid _ => simp [Source.timeoutDur] at hsrc
  · rintro ⟨ms, hmem, rfl⟩
    exact ⟨.timeout ms, hmem, rfl⟩

/-- `next_timeout_ms` of one process: start + the least duration, saturated at `u64::MAX`. -/
theorem nextExpiry_some (p : Proc V) (e : Nat) :
    p.nextExpiry = some e ↔
      ∃ st s t, p.sel = some st ∧ st.startTime = some s ∧ e = min (s + t) u64Max ∧
        (∃ ms, Source.timeout ms ∈ st.sources ∧ effDur ms = t) ∧
        (∀ ms, Source.timeout ms ∈ st.sources → t ≤ effDur ms) := by
  cases hsel : p.sel with
  | none => simp [Proc.nextExpiry, hsel]
  | some st =>
    cases hst : st.startTime with
    | none => simp [Proc.nextExpiry, hsel, hst]
    | some s =>
      cases hm : listMin (st.sources.filterMap Source.timeoutDur) with
      | none =>
        simp only [Proc.nextExpiry, hsel, hst, hm]
        constructor
        · intro h; cases h
        · rintro ⟨st', s', t, h1, _, _, ⟨ms, h4, h5⟩, _⟩
          simp only [Option.some.injEq] at h1; subst h1
          have : effDur ms ∈ st.sources.filterMap Source.timeoutDur := (mem_timeoutDurs _ _).mpr ⟨ms, h4, rfl⟩
          rw [(listMin_none _).mp hm] at this
          simp at this
      | some t =>
        obtain ⟨h1, h2⟩ := listMin_some _ t hm
        simp only [Proc.nextExpiry, hsel, hst, hm, Option.some.injEq]
        constructor
        · intro h
          refine ⟨st, s, t, rfl, hst, h.symm, (mem_timeoutDurs _ _).mp h1, ?_⟩
          intro ms hms
          exact h2 _ ((mem_timeoutDurs _ _).mpr ⟨ms, hms, rfl⟩)
        · rintro ⟨st', s', t', h3, h4, h5, ⟨ms, h6, h7⟩, h8⟩
          subst h3
          rw [hst] at h4
          simp only [Option.some.injEq] at h4
          subst h4
          have ht : t' = t := by
            have a : t ≤ t' := by
              rw [← h7]; exact h2 _ ((mem_timeoutDurs _ _).mpr ⟨ms, h6, rfl⟩)
            obtain ⟨ms', h9, h10⟩ := (mem_timeoutDurs _ _).mp h1
            have b : t' ≤ t := by rw [← h10]; exact h8 ms' h9
            omega
          rw [h5, ht]

/-- With a clock that has not gone backwards and is below `u64::MAX`, a parked process's timeout has
    expired exactly when its `next_timeout_ms` instant has been reached. -/
theorem timeoutExpired_iff_nextExpiry_le (p : Proc V) (st : SelState V) (s now : Nat)
    (hsel : p.sel = some st) (hst : st.startTime = some s) (hmono : s ≤ now) (hnow : now < u64Max) :
    p.timeoutExpired now = true ↔ ∃ e, p.nextExpiry = some e ∧ e ≤ now := by
  rw [timeoutExpired_iff]
  constructor
  · rintro ⟨st', s', ms, h1, h2, h3, h4⟩
    rw [hsel] at h1; simp only [Option.some.injEq] at h1; subst h1
    rw [hst] at h2; simp only [Option.some.injEq] at h2; subst h2
    have hmem : effDur ms ∈ st.sources.filterMap Source.timeoutDur := (mem_timeoutDurs _ _).mpr ⟨ms, h3, rfl⟩
    cases hm : listMin (st.sources.filterMap Source.timeoutDur) with
    | none => rw [(listMin_none _).mp hm] at hmem; simp at hmem
    | some t =>
      obtain ⟨_, h6⟩ := listMin_some _ t hm
      have := h6 _ hmem
      refine ⟨min (s + t) u64Max, by simp [Proc.nextExpiry, hsel, hst, hm], ?_⟩
      have : s + t ≤ now := by omega
      exact Nat.le_trans (Nat.min_le_left _ _) this
  · rintro ⟨e, he, hle⟩
    obtain ⟨st', s', t, h1, h2, h3, ⟨ms, h4, h5⟩, _⟩ := (nextExpiry_some p e).mp he
    rw [hsel] at h1; simp only [Option.some.injEq] at h1; subst h1
    rw [hst] at h2; simp only [Option.some.injEq] at h2; subst h2
    refine ⟨st, s, ms, hsel, hst, h4, ?_⟩
    rw [h5]
    have : s + t ≤ now := by
      by_cases hc : s + t ≤ u64Max
      · rw [Nat.min_eq_left hc] at h3; omega
      · have : min (s + t) u64Max = u64Max := Nat.min_eq_right (by omega)
        rw [this] at h3; omega
    omega


theorem scanMailbox_startTime (mb : List V) (st snap : SelState V) (r : Nat) (ty) (f) :
    (scanMailbox mb st snap r ty f).2.1.startTime = st.startTime ∧
    (scanMailbox mb st snap r ty f).2.1.sources = st.sources := by
  unfold scanMailbox
  simp only []
  split
  · split
    · exact ⟨rfl, rfl⟩
    · split <;> exact ⟨rfl, rfl⟩
  · split <;> exact ⟨rfl, rfl⟩

theorem handleReceiveResult_startTime (mb : List V) (st : SelState V) (r : Nat) (m : V) (verdict) :
    (handleReceiveResult mb st r m verdict).2.1.startTime = st.startTime ∧
    (handleReceiveResult mb st r m verdict).2.1.sources = st.sources := by
  cases verdict with
  | none => exact ⟨rfl, rfl⟩
  | some y =>
    cases y with
    | value a => exact ⟨rfl, rfl⟩
    | nil =>
      simp only [handleReceiveResult]
      split <;> exact ⟨rfl, rfl⟩

theorem handleSelectReceive_startTime (mb : List V) (st snap : SelState V) (r : Nat) (ty) (f) (verdict) :
    (handleSelectReceive mb st snap r ty f verdict).2.1.startTime = st.startTime ∧
    (handleSelectReceive mb st snap r ty f verdict).2.1.sources = st.sources := by
  unfold handleSelectReceive
  cases snap.receiving with
  | none => exact scanMailbox_startTime mb st snap r ty f
  | some im =>
    obtain ⟨idx, m⟩ := im
    simp only []
    by_cases hidx : idx = r
    · simp only [hidx, if_true]
      have h0 := handleReceiveResult_startTime mb st r m verdict
      cases hrr : handleReceiveResult mb st r m verdict with
      | mk mb1 rest1 =>
        obtain ⟨st1, hr⟩ := rest1
        rw [hrr] at h0
        simp only [] at h0
        cases hr with
        | accept v => exact h0
        | rejected =>
          simp only []
          have := scanMailbox_startTime mb1 st1 snap r ty f
          exact ⟨this.1.trans h0.1, this.2.trans h0.2⟩
        | error e => exact h0
        | panic => exact h0
    · simp only [hidx, if_false]
      exact scanMailbox_startTime mb st snap r ty f

theorem scanSources_startTime (aw : AMap (Option V)) (awf) (snap : SelState V) (verdict) (start now : Nat) :
    ∀ (srcs : List (Source V)) (r : Nat) (mb : List V) (st : SelState V) mb' st' res,
      scanSources aw awf snap verdict start now srcs r mb st = (mb', st', res) →
      st'.startTime = st.startTime := by
  intro srcs
  induction srcs with
  | nil => intro r mb st mb' st' res h; simp only [scanSources, Prod.mk.injEq] at h; rw [← h.2.1]
  | cons s rest ih =>
    intro r mb st mb' st' res h
    cases s with
    | timeout ms =>
      simp only [scanSources] at h
      split at h
      · simp only [Prod.mk.injEq] at h; rw [← h.2.1]
      · exact ih r mb st mb' st' res h
    | await t =>
      simp only [scanSources] at h
      split at h
      · simp only [Prod.mk.injEq] at h; rw [← h.2.1]
      · split at h
        · simp only [Prod.mk.injEq] at h; rw [← h.2.1]
        · exact ih r mb st mb' st' res h
    | invalid e => simp only [scanSources, Prod.mk.injEq] at h; rw [← h.2.1]
    | receive ty f =>
      simp only [scanSources] at h
      have hst := (handleSelectReceive_startTime mb st snap r ty f verdict).1
      cases hres : handleSelectReceive mb st snap r ty f verdict with
      | mk mb1 rest1 =>
        obtain ⟨st1, rres⟩ := rest1
        rw [hres] at h hst
        simp only [] at hst
        cases rres with
        | complete m => simp only [Prod.mk.injEq] at h; rw [← h.2.1]; exact hst
        | called => simp only [Prod.mk.injEq] at h; rw [← h.2.1]; exact hst
        | continue_ => simp only [] at h; rw [ih (r + 1) mb1 st1 mb' st' res h]; exact hst
        | error e => simp only [Prod.mk.injEq] at h; rw [← h.2.1]; exact hst
        | panic => simp only [Prod.mk.injEq] at h; rw [← h.2.1]; exact hst


theorem verdictOf_of_pending (st : SelState V) (r : Yield V) (h : pendingFilterRes st = some (.ret r)) :
    VerdictOf st r := by
  intro fr hfr; rw [h] at hfr; simp only [Option.some.injEq] at hfr; exact hfr.symm

theorem verdictOf_of_none (st : SelState V) (r : Yield V) (h : pendingFilterRes st = none) :
    VerdictOf st r := by
  intro fr hfr; rw [h] at hfr; cases hfr

theorem stepSelect_proj (p : Proc V) (now : Nat) (srcs : List (Source V)) (top : Yield V) :
    (stepSelect p now srcs top).1.mailbox = (handleSelect p now srcs top).1.mailbox ∧
    (stepSelect p now srcs top).1.sel = (handleSelect p now srcs top).1.sel ∧
    (stepSelect p now srcs top).2 = (handleSelect p now srcs top).2 ∧
    ((stepSelect p now srcs top).1.result = none → ∀ e, (handleSelect p now srcs top).2 ≠ .failed e) := by
  unfold stepSelect
  cases handleSelect p now srcs top with
  | mk p' res => cases res <;> simp

/-- `stepSelectPure` is `stepSelect` with a faithful verdict, unless the pending filter raises. -/
theorem stepSelectPure_cases (p : Proc V) (now : Nat) (srcs : List (Source V)) :
    (∃ e, stepSelectPure p now srcs = ({ p with result := some (.err e) }, .failed e)) ∨
    (∃ top, stepSelectPure p now srcs = stepSelect p now srcs top ∧ ∀ st, p.sel = some st → VerdictOf st top) := by
  unfold stepSelectPure
  cases hsel : p.sel with
  | none => right; exact ⟨.nil, by simp, by intro st h; cases h⟩
  | some st =>
    simp only [Option.bind_some]
    cases hp : pendingFilterRes st with
    | none =>
      right; refine ⟨.nil, rfl, ?_⟩
      intro st' h; simp only [Option.some.injEq] at h; subst h; exact verdictOf_of_none _ _ hp
    | some fr =>
      cases fr with
      | fail e => left; exact ⟨e, rfl⟩
      | ret r =>
        right; refine ⟨r, rfl, ?_⟩
        intro st' h; simp only [Option.some.injEq] at h; subst h; exact verdictOf_of_pending _ _ hp


theorem amLookup_remove_self {α} (k : Nat) (m : AMap α) : amLookup k (amRemove k m) = none := by
  induction m with
  | nil => rfl
  | cons e rest ih =>
    obtain ⟨a, b⟩ := e
    by_cases h : a = k
    · simp [amRemove, h] at ih ⊢; exact ih
    · have hne : (a != k) = true := by simp [h]
      simp only [amRemove, List.filter_cons, hne, if_true, amLookup, h, if_false] at ih ⊢; exact ih

theorem amLookup_remove_none {α} (k k' : Nat) (m : AMap α) (h : amLookup k m = none) :
    amLookup k (amRemove k' m) = none := by
  by_cases hk : k = k'
  · subst hk; exact amLookup_remove_self k m
  · rw [amRemove, amLookup_filter_ne k' k m hk]; exact h

theorem amLookup_dropAwaits_none {α} : ∀ (srcs : List (Source V)) (m : AMap α) (t : Nat),
    amLookup t m = none → amLookup t (dropAwaits srcs m) = none := by
  intro srcs
  induction srcs with
  | nil => intro m t h; exact h
  | cons s rest ih =>
    intro m t h
    cases s with
    | await t' => exact ih _ t (amLookup_remove_none t t' m h)
    | receive _ _ => exact ih m t h
    | timeout _ => exact ih m t h
    | invalid _ => exact ih m t h

theorem amLookup_dropAwaits_mem {α} : ∀ (srcs : List (Source V)) (m : AMap α) (t : Nat),
    Source.await t ∈ srcs → amLookup t (dropAwaits srcs m) = none := by
  intro srcs
  induction srcs with
  | nil => intro m t h; simp at h
  | cons s rest ih =>
    intro m t h
    rcases List.mem_cons.mp h with h' | h'
    · subst h'
      exact amLookup_dropAwaits_none rest _ t (amLookup_remove_self t m)
    · cases s with
      | await t' => exact ih _ t h'
      | receive _ _ => exact ih m t h'
      | timeout _ => exact ih m t h'
      | invalid _ => exact ih m t h'


end QM.Exec
