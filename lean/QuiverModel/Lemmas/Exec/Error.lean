import QuiverModel.Core.Exec.Error
import QuiverModel.Lemmas.Exec.Select
namespace QM.Exec
variable {V : Type}

/-
Helper lemmas for Theorems/C15.lean: the awaiter loop touches one process record per awaiter.
-/
/-! ### process table -/

theorem getProc_setProc_self (ex : Exec V) (k : Nat) (p : Proc V) : (ex.setProc k p).getProc k = some p := by
  simp [Exec.getProc, Exec.setProc, amLookup_insert_self]

theorem getProc_setProc_ne (ex : Exec V) (k k' : Nat) (p : Proc V) (h : k' ≠ k) :
    (ex.setProc k p).getProc k' = ex.getProc k' := by
  simp [Exec.getProc, Exec.setProc, amLookup_insert_ne _ _ _ _ h]

theorem getProc_wake (ex : Exec V) (a k : Nat) : (ex.wake a).getProc k = ex.getProc k := by
  unfold Exec.wake; split <;> rfl

theorem mem_queue_wake (ex : Exec V) (a q : Nat) (h : q ≠ a) : q ∈ (ex.wake a).queue ↔ q ∈ ex.queue := by
  unfold Exec.wake; split <;> simp [h]

theorem mem_selecting_wake (ex : Exec V) (a q : Nat) (h : q ≠ a) : q ∈ (ex.wake a).selecting ↔ q ∈ ex.selecting := by
  unfold Exec.wake; split <;> simp [List.mem_filter, h]

theorem wake_wakes (ex : Exec V) (a : Nat) (h : a ∈ ex.selecting) :
    a ∈ (ex.wake a).queue ∧ a ∉ (ex.wake a).selecting := by
  unfold Exec.wake; simp [h, List.mem_filter]

/-- `notifyFinished` rewrites the awaiter's record by `Proc.notified` when the key is present … -/
theorem notifyFinished_getProc_self (ex : Exec V) (a pid : Nat) (r : Res V) (p : Proc V)
    (hp : ex.getProc a = some p) :
    (ex.notifyFinished a pid r).getProc a =
      some (if (amLookup pid p.awaiting).isSome then p.notified pid r else p) := by
  unfold Exec.notifyFinished
  rw [hp]
  simp only []
  split
  · cases r with
    | ok v =>
      simp only [Exec.notifyResultOk, hp, getProc_wake, getProc_setProc_self, Proc.notified]
    | err e =>
      simp only [Exec.notifyFailure, hp, Proc.notified]
      split
      · simp only [getProc_wake, getProc_setProc_self]
      · exact hp
  · exact hp

/-- … and touches no other process record. -/
theorem notifyFinished_getProc_ne (ex : Exec V) (a pid q : Nat) (r : Res V) (h : q ≠ a) :
    (ex.notifyFinished a pid r).getProc q = ex.getProc q := by
  unfold Exec.notifyFinished
  cases hp : ex.getProc a with
  | none => rfl
  | some p =>
    simp only []
    split
    · cases r with
      | ok v => simp only [Exec.notifyResultOk, hp, getProc_wake, getProc_setProc_ne _ _ _ _ h]
      | err e =>
        simp only [Exec.notifyFailure, hp]
        split
        · simp only [getProc_wake, getProc_setProc_ne _ _ _ _ h]
        · rfl
    · rfl

theorem notifyFinished_sets_ne (ex : Exec V) (a pid q : Nat) (r : Res V) (h : q ≠ a) :
    (q ∈ (ex.notifyFinished a pid r).queue ↔ q ∈ ex.queue) ∧
    (q ∈ (ex.notifyFinished a pid r).selecting ↔ q ∈ ex.selecting) := by
  unfold Exec.notifyFinished
  cases hp : ex.getProc a with
  | none => exact ⟨Iff.rfl, Iff.rfl⟩
  | some p =>
    simp only []
    split
    · cases r with
      | ok v =>
        simp only [Exec.notifyResultOk, hp]
        exact ⟨mem_queue_wake _ a q h, mem_selecting_wake _ a q h⟩
      | err e =>
        simp only [Exec.notifyFailure, hp]
        split
        · exact ⟨mem_queue_wake _ a q h, mem_selecting_wake _ a q h⟩
        · exact ⟨Iff.rfl, Iff.rfl⟩
    · exact ⟨Iff.rfl, Iff.rfl⟩

/-! ### `Proc.notified` -/

theorem amInsert_idem {α} (k : Nat) (v : α) (m : AMap α) : amInsert k v (amInsert k v m) = amInsert k v m := by
  simp [amInsert, List.filter_filter]

theorem notified_frame (p : Proc V) (pid : Nat) (r : Res V) :
    (p.notified pid r).result = p.result ∧ (p.notified pid r).mailbox = p.mailbox ∧
    (p.notified pid r).sel = p.sel := by
  cases r with
  | ok v => simp only [Proc.notified, Proc.storeResult]; split <;> exact ⟨rfl, rfl, rfl⟩
  | err e => simp only [Proc.notified]; split <;> exact ⟨rfl, rfl, rfl⟩

theorem notified_err_awaiting (p : Proc V) (pid : Nat) (e : ErrClass) :
    (p.notified pid (.err e)).awaiting = p.awaiting := by
  simp only [Proc.notified]; split <;> rfl

theorem notified_key (p : Proc V) (pid : Nat) (r : Res V) :
    (amLookup pid (p.notified pid r).awaiting).isSome = (amLookup pid p.awaiting).isSome := by
  cases r with
  | ok v =>
    simp only [Proc.notified, Proc.storeResult]
    split
    · rename_i h
      simp only [Proc.stillAwaiting, Bool.and_eq_true] at h
      simp [amLookup_insert_self, h.2]
    · rfl
  | err e => rw [notified_err_awaiting]

theorem notified_idem (p : Proc V) (pid : Nat) (r : Res V) :
    (p.notified pid r).notified pid r = p.notified pid r := by
  cases r with
  | ok v =>
    simp only [Proc.notified, Proc.storeResult]
    by_cases h : p.stillAwaiting pid = true
    · have h' : ({ p with awaiting := amInsert pid (some v) p.awaiting } : Proc V).stillAwaiting pid = true := by
        simp only [Proc.stillAwaiting, Bool.and_eq_true] at h ⊢
        exact ⟨h.1, by simp [amLookup_insert_self]⟩
      simp only [h, if_true, h', amInsert_idem]
    · simp only [h]; simp [h]
  | err e =>
    by_cases h : p.stillAwaiting pid = true
    · have h1 : p.notified pid (.err e) = p.recordFailure pid e := by simp [Proc.notified, h]
      have h' : (p.recordFailure pid e).stillAwaiting pid = true := h
      rw [h1]
      have h2 : (p.recordFailure pid e).notified pid (.err e) = (p.recordFailure pid e).recordFailure pid e := by
        simp [Proc.notified, h']
      rw [h2]
      simp only [Proc.recordFailure, amInsert_idem]
    · have h1 : p.notified pid (.err e) = p := by simp [Proc.notified, h]
      rw [h1, h1]

/-- the awaiter-loop update applied when (and only when) the key is present -/
def Proc.notifiedIfKey (p : Proc V) (pid : Nat) (r : Res V) : Proc V :=
  if (amLookup pid p.awaiting).isSome then p.notified pid r else p

theorem notifiedIfKey_idem (p : Proc V) (pid : Nat) (r : Res V) :
    (p.notifiedIfKey pid r).notifiedIfKey pid r = p.notifiedIfKey pid r := by
  unfold Proc.notifiedIfKey
  by_cases h : (amLookup pid p.awaiting).isSome = true
  · simp only [h, if_true, notified_key, notified_idem]
  · simp only [h]; simp [h]

/-! ### the awaiter loop -/

theorem notifyAll_getProc (pid : Nat) (r : Res V) : ∀ (as : List Nat) (ex : Exec V) (q : Nat),
    (notifyAll pid r as ex).getProc q =
      (ex.getProc q).map (fun p => if q ∈ as then p.notifiedIfKey pid r else p) := by
  intro as
  induction as with
  | nil => intro ex q; simp [notifyAll]
  | cons a rest ih =>
    intro ex q
    simp only [notifyAll]
    rw [ih]
    by_cases hqa : q = a
    · subst hqa
      cases hp : ex.getProc q with
      | none =>
        have : (ex.notifyFinished q pid r).getProc q = none := by
          simp [Exec.notifyFinished, hp]
        simp [this]
      | some p =>
        rw [notifyFinished_getProc_self ex q pid r p hp]
        simp only [Option.map_some, List.mem_cons, true_or, if_true]
        have : (if (amLookup pid p.awaiting).isSome then p.notified pid r else p) = p.notifiedIfKey pid r := rfl
        rw [this]
        split
        · rw [notifiedIfKey_idem]
        · rfl
    · rw [notifyFinished_getProc_ne ex a pid q r hqa]
      simp [hqa]

theorem notifyAll_sets (pid : Nat) (r : Res V) : ∀ (as : List Nat) (ex : Exec V) (q : Nat), q ∉ as →
    ((q ∈ (notifyAll pid r as ex).queue ↔ q ∈ ex.queue) ∧
     (q ∈ (notifyAll pid r as ex).selecting ↔ q ∈ ex.selecting)) := by
  intro as
  induction as with
  | nil => intro ex q _; exact ⟨Iff.rfl, Iff.rfl⟩
  | cons a rest ih =>
    intro ex q hq
    simp only [notifyAll]
    have hqa : q ≠ a := fun h => hq (by simp [h])
    have hqr : q ∉ rest := fun h => hq (by simp [h])
    obtain ⟨h1, h2⟩ := ih (ex.notifyFinished a pid r) q hqr
    obtain ⟨h3, h4⟩ := notifyFinished_sets_ne ex a pid q r hqa
    exact ⟨h1.trans h3, h2.trans h4⟩

theorem mem_awaitersOf (ex : Exec V) (pid q : Nat) (p : Proc V) (hp : ex.getProc q = some p) :
    q ∈ ex.awaitersOf pid ↔ (amLookup pid p.awaiting).isSome = true := by
  unfold Exec.awaitersOf
  simp only [List.mem_filter, hp, List.mem_map]
  constructor
  · intro h; exact h.2
  · intro h
    refine ⟨?_, h⟩
    -- `getProc q = some p` means the table has an entry for `q`
    unfold Exec.getProc at hp
    generalize ex.procs = m at hp
    induction m with
    | nil => simp [amLookup] at hp
    | cons e rest ih =>
      obtain ⟨k, v⟩ := e
      by_cases hk : k = q
      · exact ⟨(k, v), by simp, hk⟩
      · simp only [amLookup, hk, if_false] at hp
        obtain ⟨x, hx, hxe⟩ := ih hp
        exact ⟨x, by simp [hx], hxe⟩

/-- The awaiter loop, per process record. -/
theorem announce_getProc (ex : Exec V) (pid : Nat) (r : Res V) (q : Nat) (p : Proc V)
    (hp : ex.getProc q = some p) :
    (ex.announce pid r).getProc q = some (p.notifiedIfKey pid r) := by
  unfold Exec.announce
  rw [notifyAll_getProc, hp]
  simp only [Option.map_some, Option.some.injEq]
  split
  · rfl
  · rename_i h
    have : ¬ (amLookup pid p.awaiting).isSome = true := fun hk => h ((mem_awaitersOf ex pid q p hp).mpr hk)
    simp [Proc.notifiedIfKey, this]

/-! ### the worker-side await registry -/

theorem queryOne_failed (w : Worker V) (a t : Nat) (pt : Proc V) (e : ErrClass)
    (hv : w.variant.selectWaitsForAnswer = false)
    (hp : w.ex.getProc t = some pt) (hr : pt.result = some (.err e)) :
    (w.queryOne a t).2 = (t, none) ∧ (w.queryOne a t).1.ex = w.ex ∧
    t ∈ (w.queryOne a t).1.awaited ∧
    ∃ l, amLookup t (w.queryOne a t).1.awaitersFor = some l ∧ a ∈ l := by
  have hnc : w.completedValue t = none := by
    unfold Worker.completedValue
    rw [hp]; simp only [hr]
    split <;> simp_all
  have hnr : w.completedResult t = none := by
    unfold Worker.completedResult
    rw [hnc]; simp [hv]
  unfold Worker.queryOne
  rw [hnr]
  refine ⟨rfl, rfl, ?_, _, amLookup_insert_self _ _ _, by simp⟩
  simp only []
  split
  · assumption
  · simp

/-- Variant `selectWaitsForAnswer`: a target that has FAILED (and is neither queued nor parked) is answered
    with its error in the first answer; nothing is registered. -/
theorem queryOne_failed_waits (w : Worker V) (a t : Nat) (pt : Proc V) (e : ErrClass)
    (hv : w.variant.selectWaitsForAnswer = true)
    (hp : w.ex.getProc t = some pt) (hr : pt.result = some (.err e)) (hst : w.ex.status t pt = .failed) :
    w.queryOne a t = (w, (t, some (.err e))) := by
  have hnc : w.completedValue t = none := by
    unfold Worker.completedValue
    rw [hp]; simp only [hr]
    split <;> simp_all
  have hnr : w.completedResult t = some (.err e) := by
    unfold Worker.completedResult
    rw [hnc]; simp [hv, hp, hst, hr]
  unfold Worker.queryOne
  rw [hnr]

theorem checkOne_lookup_ne (w : Worker V) (pid t : Nat) (h : t ≠ pid) :
    amLookup t (w.checkOne pid).1.awaitersFor = amLookup t w.awaitersFor ∧ (w.checkOne pid).1.ex = w.ex := by
  unfold Worker.checkOne
  split
  · exact ⟨by simp only [amRemove]; exact amLookup_filter_ne pid t _ h, rfl⟩
  · exact ⟨rfl, rfl⟩

/-- `check_completed_processes` reports a target that has a result to every registered awaiter. -/
theorem checkAll_reports (t a : Nat) (r : Res V) : ∀ (l : List Nat) (w : Worker V) (aws : List Nat) (pt : Proc V),
    t ∈ l → w.ex.getProc t = some pt → pt.result = some r →
    amLookup t w.awaitersFor = some aws → a ∈ aws →
    ∃ ev ∈ (w.checkAll l).2, ev.awaiter = a ∧ ev.results = [(t, some r)] := by
  intro l
  induction l with
  | nil => intro w aws pt h; simp at h
  | cons pid rest ih =>
    intro w aws pt hmem hp hr hl ha
    simp only [Worker.checkAll]
    by_cases hpid : pid = t
    · subst hpid
      have hc : (w.checkOne pid).2 = aws.map (fun a => ({ awaiter := a, results := [(pid, some r)] } : ProcessResults V)) := by
        simp [Worker.checkOne, hp, hr, hl]
      refine ⟨{ awaiter := a, results := [(pid, some r)] }, ?_, rfl, rfl⟩
      apply List.mem_append_left
      rw [hc]
      exact List.mem_map.mpr ⟨a, ha, rfl⟩
    · have hne : t ≠ pid := fun h => hpid h.symm
      have hrest : t ∈ rest := by
        rcases List.mem_cons.mp hmem with h | h
        · exact (hne h).elim
        · exact h
      obtain ⟨h1, h2⟩ := checkOne_lookup_ne w pid t hne
      obtain ⟨ev, hev, h3, h4⟩ := ih (w.checkOne pid).1 aws pt hrest (by rw [h2]; exact hp) hr (by rw [h1]; exact hl) ha
      exact ⟨ev, List.mem_append_right _ hev, h3, h4⟩


end QM.Exec
