import QuiverModel.Lemmas.Builtins.DispatchTotal
/-
Shape independence at the level of the by-name dispatcher: two arguments of the same structure whose
binaries have equal content (whatever their rope shapes) give the same outcome for every builtin —
same integer / nil / error class, result binaries of equal content. Owner: C12.
-/
namespace QM.Builtins
open QM.Bytes QM.Bytes.Rope QM.Builtins.Spec

/-- same integer, or binaries of equal content -/
def BArg.binSame : BArg → BArg → Prop
  | .int x, .int y => x = y
  | .bin r, .bin s => r.bytes = s.bytes
  | _, _ => False

def sameList : List BArg → List BArg → Prop
  | [], [] => True
  | a :: as, b :: bs => a.binSame b ∧ sameList as bs
  | _, _ => False

/-- the two arguments differ at most in the rope shapes of their binaries -/
def BArg.same : BArg → BArg → Prop
  | .tup fs, .tup gs => sameList fs gs
  | a, b => a.binSame b

/-- results: same integer, binaries of equal content, or both nil -/
def BArg.resSame : BArg → BArg → Prop
  | .int x, .int y => x = y
  | .bin r, .bin s => r.bytes = s.bytes
  | .tup [], .tup [] => True
  | _, _ => False

/-- the two outcomes are observably the same (and neither is a panic) -/
def outSame : Outcome BArg → Outcome BArg → Prop
  | .ok v, .ok w => v.resSame w
  | .err e, .err f => e = f
  | _, _ => False

/-- lifting a relation on values to outcomes (`panic` related to nothing) -/
def rel {α : Type} (R : α → α → Prop) : Outcome α → Outcome α → Prop
  | .ok x, .ok y => R x y
  | .err e, .err f => e = f
  | _, _ => False

/-! ### inversion of `same` -/

theorem binSame_symm {a b : BArg} (h : a.binSame b) : b.binSame a := by
  cases a <;> cases b <;> simp_all [BArg.binSame]

theorem sameList_symm : ∀ {as bs : List BArg}, sameList as bs → sameList bs as
  | [], [], _ => trivial
  | _ :: _, _ :: _, h => ⟨binSame_symm h.1, sameList_symm h.2⟩
  | [], _ :: _, h => h.elim
  | _ :: _, [], h => h.elim

theorem same_symm {a b : BArg} (h : a.same b) : b.same a := by
  cases a <;> cases b <;> simp_all [BArg.same, BArg.binSame]
  exact sameList_symm h

theorem binSame_bin_left {r : Rope} {g : BArg} (h : (BArg.bin r).binSame g) :
    ∃ s, g = .bin s ∧ r.bytes = s.bytes := by
  cases g <;> simp_all [BArg.binSame]

theorem binSame_int_left {x : Int} {g : BArg} (h : (BArg.int x).binSame g) : g = .int x := by
  cases g <;> simp_all [BArg.binSame]

theorem sameList_cons_left {a : BArg} {as gs : List BArg} (h : sameList (a :: as) gs) :
    ∃ g gs', gs = g :: gs' ∧ a.binSame g ∧ sameList as gs' := by
  cases gs with
  | nil => exact h.elim
  | cons g gs' => exact ⟨g, gs', rfl, h.1, h.2⟩

theorem sameList_nil_left {gs : List BArg} (h : sameList [] gs) : gs = [] := by
  cases gs with
  | nil => rfl
  | cons _ _ => exact h.elim

theorem same_tup_left {fs : List BArg} {b : BArg} (h : (BArg.tup fs).same b) :
    ∃ gs, b = .tup gs ∧ sameList fs gs := by
  cases b <;> simp_all [BArg.same, BArg.binSame]

theorem same_bin_left {r : Rope} {b : BArg} (h : (BArg.bin r).same b) :
    ∃ s, b = .bin s ∧ r.bytes = s.bytes := by
  cases b <;> simp_all [BArg.same, BArg.binSame]

theorem same_int_left {x : Int} {b : BArg} (h : (BArg.int x).same b) : b = .int x := by
  cases b <;> simp_all [BArg.same, BArg.binSame]

theorem sameList_length : ∀ {as bs : List BArg}, sameList as bs → as.length = bs.length
  | [], [], _ => rfl
  | _ :: _, _ :: _, h => by simp [sameList_length h.2]
  | [], _ :: _, h => h.elim
  | _ :: _, [], h => h.elim

/-! ### forward lemmas: a successful extraction on one side succeeds on the other -/

theorem argB_fwd {a₁ a₂ : BArg} (hs : a₁.same a₂) {r₁ : Rope} (h : argB a₁ = .ok r₁) :
    ∃ r₂, argB a₂ = .ok r₂ ∧ r₁.bytes = r₂.bytes := by
  unfold argB at h; split at h
  · cases h
    obtain ⟨s, rfl, hb⟩ := same_bin_left hs
    exact ⟨s, rfl, hb⟩
  · cases h

theorem argBB_fwd {a₁ a₂ : BArg} (hs : a₁.same a₂) {r₁ s₁ : Rope} (h : argBB a₁ = .ok (r₁, s₁)) :
    ∃ r₂ s₂, argBB a₂ = .ok (r₂, s₂) ∧ r₁.bytes = r₂.bytes ∧ s₁.bytes = s₂.bytes := by
  unfold argBB at h; split at h
  · cases h
    obtain ⟨gs, rfl, hl0⟩ := same_tup_left hs
    obtain ⟨g1, gs1, rfl, hb1, hl1⟩ := sameList_cons_left hl0
    obtain ⟨r₂, rfl, hr⟩ := binSame_bin_left hb1
    obtain ⟨g2, gs2, rfl, hb2, hl2⟩ := sameList_cons_left hl1
    obtain ⟨s₂, rfl, hs'⟩ := binSame_bin_left hb2
    have := sameList_nil_left hl2; subst this
    exact ⟨r₂, s₂, rfl, hr, hs'⟩
  · cases h

theorem argBI_fwd {a₁ a₂ : BArg} (hs : a₁.same a₂) {r₁ : Rope} {x : Int} (h : argBI a₁ = .ok (r₁, x)) :
    ∃ r₂, argBI a₂ = .ok (r₂, x) ∧ r₁.bytes = r₂.bytes := by
  unfold argBI at h; split at h
  · cases h
    obtain ⟨gs, rfl, hl0⟩ := same_tup_left hs
    obtain ⟨g1, gs1, rfl, hb1, hl1⟩ := sameList_cons_left hl0
    obtain ⟨r₂, rfl, hr⟩ := binSame_bin_left hb1
    obtain ⟨g2, gs2, rfl, hb2, hl2⟩ := sameList_cons_left hl1
    have := binSame_int_left hb2; subst this
    have := sameList_nil_left hl2; subst this
    exact ⟨r₂, rfl, hr⟩
  · cases h

theorem argBII_fwd {a₁ a₂ : BArg} (hs : a₁.same a₂) {r₁ : Rope} {x y : Int}
    (h : argBII a₁ = .ok (r₁, x, y)) : ∃ r₂, argBII a₂ = .ok (r₂, x, y) ∧ r₁.bytes = r₂.bytes := by
  unfold argBII at h; split at h
  · cases h
    obtain ⟨gs, rfl, hl0⟩ := same_tup_left hs
    obtain ⟨g1, gs1, rfl, hb1, hl1⟩ := sameList_cons_left hl0
    obtain ⟨r₂, rfl, hr⟩ := binSame_bin_left hb1
    obtain ⟨g2, gs2, rfl, hb2, hl2⟩ := sameList_cons_left hl1
    have := binSame_int_left hb2; subst this
    obtain ⟨g3, gs3, rfl, hb3, hl3⟩ := sameList_cons_left hl2
    have := binSame_int_left hb3; subst this
    have := sameList_nil_left hl3; subst this
    exact ⟨r₂, rfl, hr⟩
  · cases h

theorem argBIII_fwd {a₁ a₂ : BArg} (hs : a₁.same a₂) {r₁ : Rope} {x y z : Int}
    (h : argBIII a₁ = .ok (r₁, x, y, z)) :
    ∃ r₂, argBIII a₂ = .ok (r₂, x, y, z) ∧ r₁.bytes = r₂.bytes := by
  unfold argBIII at h; split at h
  · cases h
    obtain ⟨gs, rfl, hl0⟩ := same_tup_left hs
    obtain ⟨g1, gs1, rfl, hb1, hl1⟩ := sameList_cons_left hl0
    obtain ⟨r₂, rfl, hr⟩ := binSame_bin_left hb1
    obtain ⟨g2, gs2, rfl, hb2, hl2⟩ := sameList_cons_left hl1
    have := binSame_int_left hb2; subst this
    obtain ⟨g3, gs3, rfl, hb3, hl3⟩ := sameList_cons_left hl2
    have := binSame_int_left hb3; subst this
    obtain ⟨g4, gs4, rfl, hb4, hl4⟩ := sameList_cons_left hl3
    have := binSame_int_left hb4; subst this
    have := sameList_nil_left hl4; subst this
    exact ⟨r₂, rfl, hr⟩
  · cases h

theorem argBIIII_fwd {a₁ a₂ : BArg} (hs : a₁.same a₂) {r₁ : Rope} {x y z u : Int}
    (h : argBIIII a₁ = .ok (r₁, x, y, z, u)) :
    ∃ r₂, argBIIII a₂ = .ok (r₂, x, y, z, u) ∧ r₁.bytes = r₂.bytes := by
  unfold argBIIII at h; split at h
  · cases h
    obtain ⟨gs, rfl, hl0⟩ := same_tup_left hs
    obtain ⟨g1, gs1, rfl, hb1, hl1⟩ := sameList_cons_left hl0
    obtain ⟨r₂, rfl, hr⟩ := binSame_bin_left hb1
    obtain ⟨g2, gs2, rfl, hb2, hl2⟩ := sameList_cons_left hl1
    have := binSame_int_left hb2; subst this
    obtain ⟨g3, gs3, rfl, hb3, hl3⟩ := sameList_cons_left hl2
    have := binSame_int_left hb3; subst this
    obtain ⟨g4, gs4, rfl, hb4, hl4⟩ := sameList_cons_left hl3
    have := binSame_int_left hb4; subst this
    obtain ⟨g5, gs5, rfl, hb5, hl5⟩ := sameList_cons_left hl4
    have := binSame_int_left hb5; subst this
    have := sameList_nil_left hl5; subst this
    exact ⟨r₂, rfl, hr⟩
  · cases h

theorem argBBI_fwd {a₁ a₂ : BArg} (hs : a₁.same a₂) {r₁ s₁ : Rope} {x : Int}
    (h : argBBI a₁ = .ok (r₁, s₁, x)) :
    ∃ r₂ s₂, argBBI a₂ = .ok (r₂, s₂, x) ∧ r₁.bytes = r₂.bytes ∧ s₁.bytes = s₂.bytes := by
  unfold argBBI at h; split at h
  · cases h
    obtain ⟨gs, rfl, hl0⟩ := same_tup_left hs
    obtain ⟨g1, gs1, rfl, hb1, hl1⟩ := sameList_cons_left hl0
    obtain ⟨r₂, rfl, hr⟩ := binSame_bin_left hb1
    obtain ⟨g2, gs2, rfl, hb2, hl2⟩ := sameList_cons_left hl1
    obtain ⟨s₂, rfl, hs'⟩ := binSame_bin_left hb2
    obtain ⟨g3, gs3, rfl, hb3, hl3⟩ := sameList_cons_left hl2
    have := binSame_int_left hb3; subst this
    have := sameList_nil_left hl3; subst this
    exact ⟨r₂, s₂, rfl, hr, hs'⟩
  · cases h

theorem argBIB_fwd {a₁ a₂ : BArg} (hs : a₁.same a₂) {r₁ s₁ : Rope} {x : Int}
    (h : argBIB a₁ = .ok (r₁, x, s₁)) :
    ∃ r₂ s₂, argBIB a₂ = .ok (r₂, x, s₂) ∧ r₁.bytes = r₂.bytes ∧ s₁.bytes = s₂.bytes := by
  unfold argBIB at h; split at h
  · cases h
    obtain ⟨gs, rfl, hl0⟩ := same_tup_left hs
    obtain ⟨g1, gs1, rfl, hb1, hl1⟩ := sameList_cons_left hl0
    obtain ⟨r₂, rfl, hr⟩ := binSame_bin_left hb1
    obtain ⟨g2, gs2, rfl, hb2, hl2⟩ := sameList_cons_left hl1
    have := binSame_int_left hb2; subst this
    obtain ⟨g3, gs3, rfl, hb3, hl3⟩ := sameList_cons_left hl2
    obtain ⟨s₂, rfl, hs'⟩ := binSame_bin_left hb3
    have := sameList_nil_left hl3; subst this
    exact ⟨r₂, s₂, rfl, hr, hs'⟩
  · cases h


/-! ### extraction is shape independent -/

theorem rel_of_fwd {α : Type} {R : α → α → Prop} {ex : BArg → Outcome α}
    (hnp : ∀ a, ex a ≠ .panic) (herr : ∀ a e, ex a = .err e → e = .typeMismatch)
    (fwd : ∀ {a b : BArg} {x : α}, a.same b → ex a = .ok x → ∃ y, ex b = .ok y ∧ R x y)
    (bwd : ∀ {a b : BArg} {y : α}, a.same b → ex b = .ok y → ∃ x, ex a = .ok x)
    {a₁ a₂ : BArg} (hs : a₁.same a₂) : rel R (ex a₁) (ex a₂) := by
  cases h1 : ex a₁ with
  | ok x =>
    obtain ⟨y, hy, hr⟩ := fwd hs h1
    rw [hy]; exact hr
  | err e =>
    cases h2 : ex a₂ with
    | ok y =>
      obtain ⟨x, hx⟩ := bwd hs h2
      rw [hx] at h1; cases h1
    | err f => rw [herr _ _ h1, herr _ _ h2]; rfl
    | panic => exact absurd h2 (hnp _)
  | panic => exact absurd h1 (hnp _)

def RB (x y : Rope) : Prop := x.bytes = y.bytes
def RBB (x y : Rope × Rope) : Prop := x.1.bytes = y.1.bytes ∧ x.2.bytes = y.2.bytes
def RBI (x y : Rope × Int) : Prop := x.1.bytes = y.1.bytes ∧ x.2 = y.2
def RBII (x y : Rope × Int × Int) : Prop := x.1.bytes = y.1.bytes ∧ x.2 = y.2
def RBIII (x y : Rope × Int × Int × Int) : Prop := x.1.bytes = y.1.bytes ∧ x.2 = y.2
def RBIIII (x y : Rope × Int × Int × Int × Int) : Prop := x.1.bytes = y.1.bytes ∧ x.2 = y.2
def RBBI (x y : Rope × Rope × Int) : Prop :=
  x.1.bytes = y.1.bytes ∧ x.2.1.bytes = y.2.1.bytes ∧ x.2.2 = y.2.2
def RBIB (x y : Rope × Int × Rope) : Prop :=
  x.1.bytes = y.1.bytes ∧ x.2.1 = y.2.1 ∧ x.2.2.bytes = y.2.2.bytes

theorem argB_err {a : BArg} {e} (h : argB a = .err e) : e = .typeMismatch := by
  unfold argB at h; split at h <;> cases h; rfl
theorem argBB_err {a : BArg} {e} (h : argBB a = .err e) : e = .typeMismatch := by
  unfold argBB at h; split at h <;> cases h; rfl
theorem argBI_err {a : BArg} {e} (h : argBI a = .err e) : e = .typeMismatch := by
  unfold argBI at h; split at h <;> cases h; rfl
theorem argBII_err {a : BArg} {e} (h : argBII a = .err e) : e = .typeMismatch := by
  unfold argBII at h; split at h <;> cases h; rfl
theorem argBIII_err {a : BArg} {e} (h : argBIII a = .err e) : e = .typeMismatch := by
  unfold argBIII at h; split at h <;> cases h; rfl
theorem argBIIII_err {a : BArg} {e} (h : argBIIII a = .err e) : e = .typeMismatch := by
  unfold argBIIII at h; split at h <;> cases h; rfl
theorem argBBI_err {a : BArg} {e} (h : argBBI a = .err e) : e = .typeMismatch := by
  unfold argBBI at h; split at h <;> cases h; rfl
theorem argBIB_err {a : BArg} {e} (h : argBIB a = .err e) : e = .typeMismatch := by
  unfold argBIB at h; split at h <;> cases h; rfl

theorem argB_np (a : BArg) : argB a ≠ .panic := by unfold argB; split <;> simp
theorem argBB_np (a : BArg) : argBB a ≠ .panic := by unfold argBB; split <;> simp
theorem argBI_np (a : BArg) : argBI a ≠ .panic := by unfold argBI; split <;> simp
theorem argBII_np (a : BArg) : argBII a ≠ .panic := by unfold argBII; split <;> simp
theorem argBIII_np (a : BArg) : argBIII a ≠ .panic := by unfold argBIII; split <;> simp
theorem argBIIII_np (a : BArg) : argBIIII a ≠ .panic := by unfold argBIIII; split <;> simp
theorem argBBI_np (a : BArg) : argBBI a ≠ .panic := by unfold argBBI; split <;> simp
theorem argBIB_np (a : BArg) : argBIB a ≠ .panic := by unfold argBIB; split <;> simp

section rels
variable {a₁ a₂ : BArg} (hs : a₁.same a₂)
include hs

theorem argB_rel : rel RB (argB a₁) (argB a₂) :=
  rel_of_fwd argB_np (fun _ _ => argB_err)
    (fun hs h => let ⟨r, h2, hb⟩ := argB_fwd hs h; ⟨r, h2, hb⟩)
    (fun hs h => let ⟨r, h2, _⟩ := argB_fwd (same_symm hs) h; ⟨r, h2⟩) hs

theorem argBB_rel : rel RBB (argBB a₁) (argBB a₂) :=
  rel_of_fwd argBB_np (fun _ _ => argBB_err)
    (fun {_ _ x} hs h => let ⟨r, s, h2, hb, hc⟩ := argBB_fwd (r₁ := x.1) (s₁ := x.2) hs h; ⟨(r, s), h2, hb, hc⟩)
    (fun {_ _ y} hs h => let ⟨r, s, h2, _⟩ := argBB_fwd (r₁ := y.1) (s₁ := y.2) (same_symm hs) h; ⟨(r, s), h2⟩) hs

theorem argBI_rel : rel RBI (argBI a₁) (argBI a₂) :=
  rel_of_fwd argBI_np (fun _ _ => argBI_err)
    (fun {_ _ x} hs h => let ⟨r, h2, hb⟩ := argBI_fwd (r₁ := x.1) (x := x.2) hs h; ⟨(r, x.2), h2, hb, rfl⟩)
    (fun {_ _ y} hs h => let ⟨r, h2, _⟩ := argBI_fwd (r₁ := y.1) (x := y.2) (same_symm hs) h; ⟨(r, y.2), h2⟩) hs

theorem argBII_rel : rel RBII (argBII a₁) (argBII a₂) :=
  rel_of_fwd argBII_np (fun _ _ => argBII_err)
    (fun {_ _ x} hs h => let ⟨r, h2, hb⟩ := argBII_fwd (r₁ := x.1) (x := x.2.1) (y := x.2.2) hs h; ⟨(r, x.2), h2, hb, rfl⟩)
    (fun {_ _ y} hs h => let ⟨r, h2, _⟩ := argBII_fwd (r₁ := y.1) (x := y.2.1) (y := y.2.2) (same_symm hs) h; ⟨(r, y.2), h2⟩) hs

theorem argBIII_rel : rel RBIII (argBIII a₁) (argBIII a₂) :=
  rel_of_fwd argBIII_np (fun _ _ => argBIII_err)
    (fun {_ _ x} hs h => let ⟨r, h2, hb⟩ := argBIII_fwd (r₁ := x.1) (x := x.2.1) (y := x.2.2.1) (z := x.2.2.2) hs h; ⟨(r, x.2), h2, hb, rfl⟩)
    (fun {_ _ y} hs h => let ⟨r, h2, _⟩ := argBIII_fwd (r₁ := y.1) (x := y.2.1) (y := y.2.2.1) (z := y.2.2.2) (same_symm hs) h; ⟨(r, y.2), h2⟩) hs

theorem argBIIII_rel : rel RBIIII (argBIIII a₁) (argBIIII a₂) :=
  rel_of_fwd argBIIII_np (fun _ _ => argBIIII_err)
    (fun {_ _ x} hs h => let ⟨r, h2, hb⟩ := argBIIII_fwd (r₁ := x.1) (x := x.2.1) (y := x.2.2.1) (z := x.2.2.2.1) (u := x.2.2.2.2) hs h; ⟨(r, x.2), h2, hb, rfl⟩)
    (fun {_ _ y} hs h => let ⟨r, h2, _⟩ := argBIIII_fwd (r₁ := y.1) (x := y.2.1) (y := y.2.2.1) (z := y.2.2.2.1) (u := y.2.2.2.2) (same_symm hs) h; ⟨(r, y.2), h2⟩) hs

theorem argBBI_rel : rel RBBI (argBBI a₁) (argBBI a₂) :=
  rel_of_fwd argBBI_np (fun _ _ => argBBI_err)
    (fun {_ _ x} hs h => let ⟨r, s, h2, hb, hc⟩ := argBBI_fwd (r₁ := x.1) (s₁ := x.2.1) (x := x.2.2) hs h; ⟨(r, s, x.2.2), h2, hb, hc, rfl⟩)
    (fun {_ _ y} hs h => let ⟨r, s, h2, _⟩ := argBBI_fwd (r₁ := y.1) (s₁ := y.2.1) (x := y.2.2) (same_symm hs) h; ⟨(r, s, y.2.2), h2⟩) hs

theorem argBIB_rel : rel RBIB (argBIB a₁) (argBIB a₂) :=
  rel_of_fwd argBIB_np (fun _ _ => argBIB_err)
    (fun {_ _ x} hs h => let ⟨r, s, h2, hb, hc⟩ := argBIB_fwd (r₁ := x.1) (x := x.2.1) (s₁ := x.2.2) hs h; ⟨(r, x.2.1, s), h2, hb, rfl, hc⟩)
    (fun {_ _ y} hs h => let ⟨r, s, h2, _⟩ := argBIB_fwd (r₁ := y.1) (x := y.2.1) (s₁ := y.2.2) (same_symm hs) h; ⟨(r, y.2.1, s), h2⟩) hs
end rels


/-! ### results -/

theorem retBin_same {o₁ o₂ : Outcome Rope} {s : Outcome (List UInt8)}
    (h₁ : RefinesBin o₁ s) (h₂ : RefinesBin o₂ s) : outSame (retBin o₁) (retBin o₂) := by
  cases o₁ <;> cases o₂ <;> cases s <;>
    simp_all [RefinesBin, retBin, outSame, Outcome.map, Outcome.bind, BArg.resSame]

theorem retOptBin_same {o₁ o₂ : Outcome (Option Rope)} {s : Outcome (Option (List UInt8))}
    (h₁ : RefinesOptBin o₁ s) (h₂ : RefinesOptBin o₂ s) : outSame (retOptBin o₁) (retOptBin o₂) := by
  cases o₁ with
  | ok x => cases o₂ with
    | ok y => cases s with
      | ok z => cases x <;> cases y <;> cases z <;>
          simp_all [RefinesOptBin, retOptBin, outSame, Outcome.map, Outcome.bind, BArg.resSame, BArg.nil]
      | err _ => cases x <;> simp_all [RefinesOptBin]
      | panic => cases x <;> simp_all [RefinesOptBin]
    | err _ => cases s with
      | ok z => simp_all [RefinesOptBin]
      | err _ => cases x <;> simp_all [RefinesOptBin]
      | panic => cases x <;> simp_all [RefinesOptBin]
    | panic => cases s <;> simp_all [RefinesOptBin]
  | err _ => cases o₂ with
    | ok y => cases s with
      | ok z => simp_all [RefinesOptBin]
      | err _ => cases y <;> simp_all [RefinesOptBin]
      | panic => simp_all [RefinesOptBin]
    | err _ => cases s <;> simp_all [RefinesOptBin, retOptBin, outSame, Outcome.map, Outcome.bind]
    | panic => cases s <;> simp_all [RefinesOptBin]
  | panic => cases s <;> simp_all [RefinesOptBin]

theorem retInt_same {o₁ o₂ : Outcome Int} (h : o₁ = o₂) (hnp : o₁ ≠ .panic) :
    outSame (retInt o₁) (retInt o₂) := by
  subst h; cases o₁ <;> simp_all [retInt, outSame, Outcome.map, Outcome.bind, BArg.resSame]

theorem liftInt_same {o₁ o₂ : Outcome Int} (h : o₁ = o₂) (hnp : o₁ ≠ .panic) :
    outSame (liftInt o₁) (liftInt o₂) := by
  subst h; cases o₁ <;> simp_all [liftInt, outSame, Outcome.map, Outcome.bind, BArg.resSame]

theorem retOptInt_same {o₁ o₂ : Outcome (Option Int)} (h : o₁ = o₂) (hnp : o₁ ≠ .panic) :
    outSame (retOptInt o₁) (retOptInt o₂) := by
  subst h
  cases o₁ with
  | ok x => cases x <;> simp [retOptInt, outSame, Outcome.map, Outcome.bind, BArg.resSame, BArg.nil]
  | err e => simp [retOptInt, outSame, Outcome.map, Outcome.bind]
  | panic => exact absurd rfl hnp

theorem retOptNat_same {o₁ o₂ : Outcome (Option Nat)} (h : o₁ = o₂) (hnp : o₁ ≠ .panic) :
    outSame (retOptNat o₁) (retOptNat o₂) := by
  subst h
  cases o₁ with
  | ok x => cases x <;> simp [retOptNat, outSame, Outcome.map, Outcome.bind, BArg.resSame, BArg.nil]
  | err e => simp [retOptNat, outSame, Outcome.map, Outcome.bind]
  | panic => exact absurd rfl hnp

/-- both sides extract related arguments, and the builtin respects the relation -/
theorem outSame_bind {α β : Type} {R : α → α → Prop} {o₁ o₂ : Outcome α} {f : α → Outcome β}
    {g : Outcome β → Outcome BArg} (hg : ∀ e, g (.err e) = .err e)
    (hr : rel R o₁ o₂)
    (hf : ∀ x y, o₁ = .ok x → o₂ = .ok y → R x y → outSame (g (f x)) (g (f y))) :
    outSame (g (o₁.bind f)) (g (o₂.bind f)) := by
  cases o₁ with
  | ok x => cases o₂ with
    | ok y => exact hf x y rfl rfl hr
    | err _ => exact hr.elim
    | panic => exact hr.elim
  | err e => cases o₂ with
    | ok _ => exact hr.elim
    | err f' =>
      have : e = f' := hr
      subst this
      simp only [Outcome.bind, hg]; rfl
    | panic => exact hr.elim
  | panic => cases o₂ <;> exact hr.elim

theorem retBin_err (e) : retBin (.err e) = .err e := rfl
theorem retInt_err (e) : retInt (.err e) = .err e := rfl
theorem liftInt_err (e) : liftInt (.err e) = .err e := rfl
theorem retOptBin_err (e) : retOptBin (.err e) = .err e := rfl
theorem retOptInt_err (e) : retOptInt (.err e) = .err e := rfl
theorem retOptNat_err (e) : retOptNat (.err e) = .err e := rfl

/-! ### the integer family does not look inside binaries -/

theorem oneInt_same {a₁ a₂ : BArg} (hs : a₁.same a₂) : oneInt a₁ = oneInt a₂ := by
  cases a₁ with
  | int x => rw [same_int_left hs]
  | bin r => obtain ⟨s, rfl, _⟩ := same_bin_left hs; rfl
  | tup fs => obtain ⟨gs, rfl, _⟩ := same_tup_left hs; rfl

theorem twoInts_same {a₁ a₂ : BArg} (hs : a₁.same a₂) : twoInts a₁ = twoInts a₂ := by
  cases a₁ with
  | int x => rw [same_int_left hs]
  | bin r => obtain ⟨s, rfl, _⟩ := same_bin_left hs; rfl
  | tup fs =>
    obtain ⟨gs, rfl, hl⟩ := same_tup_left hs
    rcases fs with _ | ⟨f1, _ | ⟨f2, _ | ⟨f3, fs'⟩⟩⟩ <;>
      rcases gs with _ | ⟨g1, _ | ⟨g2, _ | ⟨g3, gs'⟩⟩⟩ <;>
      simp_all [sameList, twoInts]
    obtain ⟨h1, h2⟩ := hl
    cases f1 <;> cases g1 <;> simp_all [BArg.binSame] <;>
      (cases f2 <;> cases g2 <;> simp_all [BArg.binSame])

theorem twoIntsNarrowed_same {a₁ a₂ : BArg} (hs : a₁.same a₂) :
    twoIntsNarrowed a₁ = twoIntsNarrowed a₂ := by
  cases a₁ with
  | int x => rw [same_int_left hs]
  | bin r => obtain ⟨s, rfl, _⟩ := same_bin_left hs; rfl
  | tup fs =>
    obtain ⟨gs, rfl, hl⟩ := same_tup_left hs
    rcases fs with _ | ⟨f1, _ | ⟨f2, _ | ⟨f3, fs'⟩⟩⟩ <;>
      rcases gs with _ | ⟨g1, _ | ⟨g2, _ | ⟨g3, gs'⟩⟩⟩ <;>
      simp_all [sameList, twoIntsNarrowed]
    obtain ⟨h1, h2⟩ := hl
    cases f1 <;> cases g1 <;> simp_all [BArg.binSame] <;>
      (cases f2 <;> cases g2 <;> simp_all [BArg.binSame])


/-! ### the three families -/

theorem liftInt_ok_int {o : Outcome Int} {v : BArg} (h : liftInt o = .ok v) : ∃ z, v = .int z := by
  cases o <;> simp [liftInt, Outcome.map, Outcome.bind] at h; exact ⟨_, h.symm⟩

theorem callInteger_ok_int {name : String} {a v : BArg} (h : callInteger name a = some (.ok v)) :
    ∃ z, v = .int z := by
  unfold callInteger at h
  split at h <;> first | exact liftInt_ok_int (Option.some.inj h) | cases h

theorem callInteger_same (name : String) {a₁ a₂ : BArg} (hs : a₁.same a₂) (o₁ : Outcome BArg)
    (h : callInteger name a₁ = some o₁) : ∃ o₂, callInteger name a₂ = some o₂ ∧ outSame o₁ o₂ := by
  have hnp := callInteger_total name a₁ o₁ h
  refine ⟨o₁, ?_, ?_⟩
  · rw [← h]; unfold callInteger
    simp only [oneInt_same hs, twoInts_same hs, twoIntsNarrowed_same hs]
  · cases o₁ with
    | ok v => obtain ⟨z, rfl⟩ := callInteger_ok_int h; rfl
    | err e => rfl
    | panic => exact absurd rfl hnp

theorem callInteger_none_same (name : String) {a₁ a₂ : BArg} (h : callInteger name a₁ = none) :
    callInteger name a₂ = none := by
  unfold callInteger at h ⊢
  split at h <;> first | (cases h; done) | rfl

section fam
variable {a₁ a₂ : BArg} (h₁ : a₁.Stored) (h₂ : a₂.Stored) (hs : a₁.same a₂)
include h₁ h₂ hs

theorem callBinary_same (name : String) (o₁ : Outcome BArg)
    (h : callBinary name a₁ = some o₁) : ∃ o₂, callBinary name a₂ = some o₂ ∧ outSame o₁ o₂ := by
  have sB₁ := (argB_spec h₁).2; have sB₂ := (argB_spec h₂).2
  have sBB₁ := (argBB_spec h₁).2; have sBB₂ := (argBB_spec h₂).2
  have sBI₁ := (argBI_spec h₁).2; have sBI₂ := (argBI_spec h₂).2
  have sBII₁ := (argBII_spec h₁).2; have sBII₂ := (argBII_spec h₂).2
  have sBIII₁ := (argBIII_spec h₁).2; have sBIII₂ := (argBIII_spec h₂).2
  have sBIIII₁ := (argBIIII_spec h₁).2; have sBIIII₂ := (argBIIII_spec h₂).2
  unfold callBinary at h
  split at h <;> (try cases h)
  · refine ⟨_, rfl, ?_⟩
    rw [oneInt_same hs]
    cases hx : oneInt a₂ with
    | ok x => exact retBin_same (binaryNew_refines x) (binaryNew_refines x)
    | err e => rfl
    | panic => exact absurd hx (oneInt_ne_panic _)
  · refine ⟨_, rfl, ?_⟩
    exact outSame_bind retInt_err (argB_rel hs) (fun x y hx hy hr =>
      retInt_same (by rw [binaryLength_eq (sB₁ _ hx).1, binaryLength_eq (sB₂ _ hy).1, show x.bytes = y.bytes from hr])
        (binaryLength_total x))
  · refine ⟨_, rfl, ?_⟩
    exact outSame_bind retBin_err (argBB_rel hs) (fun ⟨xa, xb⟩ ⟨ya, yb⟩ hx hy hr => by
      obtain ⟨hb1, hb2⟩ := hr
      simp only at hb1 hb2
      refine retBin_same (binaryConcat_refines (sBB₁ _ _ hx).1 (sBB₁ _ _ hx).2) ?_
      rw [hb1, hb2]; exact binaryConcat_refines (sBB₂ _ _ hy).1 (sBB₂ _ _ hy).2)
  · refine ⟨_, rfl, ?_⟩
    exact outSame_bind retBin_err (argBI_rel hs) (fun ⟨xr, xi⟩ ⟨yr, yi⟩ hx hy hr => by
      obtain ⟨hb, he⟩ := hr
      simp only at hb he
      subst he
      refine retBin_same (binaryRepeat_refines (sBI₁ _ _ hx) xi) ?_
      rw [hb]; exact binaryRepeat_refines (sBI₂ _ _ hy) xi)
  · refine ⟨_, rfl, ?_⟩
    exact outSame_bind retBin_err (argBB_rel hs) (fun ⟨xa, xb⟩ ⟨ya, yb⟩ hx hy hr => by
      obtain ⟨hb1, hb2⟩ := hr
      simp only at hb1 hb2
      refine retBin_same (binaryAnd_refines (sBB₁ _ _ hx).1 (sBB₁ _ _ hx).2) ?_
      rw [hb1, hb2]; exact binaryAnd_refines (sBB₂ _ _ hy).1 (sBB₂ _ _ hy).2)
  · refine ⟨_, rfl, ?_⟩
    exact outSame_bind retBin_err (argBB_rel hs) (fun ⟨xa, xb⟩ ⟨ya, yb⟩ hx hy hr => by
      obtain ⟨hb1, hb2⟩ := hr
      simp only at hb1 hb2
      refine retBin_same (padZip_refines _ (sBB₁ _ _ hx).1 (sBB₁ _ _ hx).2) ?_
      rw [hb1, hb2]; exact padZip_refines _ (sBB₂ _ _ hy).1 (sBB₂ _ _ hy).2)
  · refine ⟨_, rfl, ?_⟩
    exact outSame_bind retBin_err (argBB_rel hs) (fun ⟨xa, xb⟩ ⟨ya, yb⟩ hx hy hr => by
      obtain ⟨hb1, hb2⟩ := hr
      simp only at hb1 hb2
      refine retBin_same (padZip_refines _ (sBB₁ _ _ hx).1 (sBB₁ _ _ hx).2) ?_
      rw [hb1, hb2]; exact padZip_refines _ (sBB₂ _ _ hy).1 (sBB₂ _ _ hy).2)
  · refine ⟨_, rfl, ?_⟩
    exact outSame_bind retBin_err (argB_rel hs) (fun x y hx hy hr =>
      retBin_same (binaryNot_refines (sB₁ _ hx))
        (by rw [show x.bytes = y.bytes from hr]; exact binaryNot_refines (sB₂ _ hy)))
  · refine ⟨_, rfl, ?_⟩
    exact outSame_bind retBin_err (argBI_rel hs) (fun ⟨xr, xi⟩ ⟨yr, yi⟩ hx hy hr => by
      obtain ⟨hb, he⟩ := hr
      simp only at hb he
      subst he
      refine retBin_same (binaryShift_refines (sBI₁ _ _ hx) xi) ?_
      rw [hb]; exact binaryShift_refines (sBI₂ _ _ hy) xi)
  · refine ⟨_, rfl, ?_⟩
    exact outSame_bind retInt_err (argB_rel hs) (fun x y hx hy hr =>
      retInt_same (by rw [binaryPopcount_eq (sB₁ _ hx), binaryPopcount_eq (sB₂ _ hy), show x.bytes = y.bytes from hr])
        (binaryPopcount_total (sB₁ _ hx)))
  · refine ⟨_, rfl, ?_⟩
    exact outSame_bind retInt_err (argBIII_rel hs) (fun ⟨xr, x1, x2, x3⟩ ⟨yr, y1, y2, y3⟩ hx hy hr => by
      obtain ⟨hb, he⟩ := hr
      simp only at hb he
      cases he
      exact retInt_same (by dsimp only; rw [binaryGet_eq (sBIII₁ _ _ _ _ hx), binaryGet_eq (sBIII₂ _ _ _ _ hy), hb])
        (binaryGet_total (sBIII₁ _ _ _ _ hx) _ _ _))
  · refine ⟨_, rfl, ?_⟩
    exact outSame_bind retBin_err (argBIIII_rel hs) (fun ⟨xr, x1, x2, x3, x4⟩ ⟨yr, y1, y2, y3, y4⟩ hx hy hr => by
      obtain ⟨hb, he⟩ := hr
      simp only at hb he
      cases he
      refine retBin_same (binarySet_refines (sBIIII₁ _ _ _ _ _ hx) x1 x2 x3 x4) ?_
      rw [hb]; exact binarySet_refines (sBIIII₂ _ _ _ _ _ hy) x1 x2 x3 x4)
  · refine ⟨_, rfl, ?_⟩
    exact outSame_bind retBin_err (argBII_rel hs) (fun ⟨xr, x1, x2⟩ ⟨yr, y1, y2⟩ hx hy hr => by
      obtain ⟨hb, he⟩ := hr
      simp only at hb he
      cases he
      refine retBin_same (binarySlice_refines (sBII₁ _ _ _ hx) x1 x2) ?_
      rw [hb]; exact binarySlice_refines (sBII₂ _ _ _ hy) x1 x2)
  · refine ⟨_, rfl, ?_⟩
    exact outSame_bind retOptNat_err (argBII_rel hs) (fun ⟨xr, x1, x2⟩ ⟨yr, y1, y2⟩ hx hy hr => by
      obtain ⟨hb, he⟩ := hr
      simp only at hb he
      cases he
      exact retOptNat_same (by dsimp only; rw [binaryIndex_eq (sBII₁ _ _ _ hx).1, binaryIndex_eq (sBII₂ _ _ _ hy).1, hb])
        (binaryIndex_total (sBII₁ _ _ _ hx) _ _))
  · refine ⟨_, rfl, ?_⟩
    exact outSame_bind retInt_err (argB_rel hs) (fun x y hx hy hr =>
      retInt_same (by rw [binaryHash32_eq (sB₁ _ hx).1, binaryHash32_eq (sB₂ _ hy).1, show x.bytes = y.bytes from hr])
        (binaryHash32_total (sB₁ _ hx)))
  · refine ⟨_, rfl, ?_⟩
    exact outSame_bind retInt_err (argB_rel hs) (fun x y hx hy hr =>
      retInt_same (by rw [binaryHash64_eq (sB₁ _ hx).1, binaryHash64_eq (sB₂ _ hy).1, show x.bytes = y.bytes from hr])
        (binaryHash64_total (sB₁ _ hx)))
  · refine ⟨_, rfl, ?_⟩
    exact outSame_bind retBin_err (argBII_rel hs) (fun ⟨xr, x1, x2⟩ ⟨yr, y1, y2⟩ hx hy hr => by
      obtain ⟨hb, he⟩ := hr
      simp only at hb he
      cases he
      refine retBin_same (binaryAppend_refines (sBII₁ _ _ _ hx) x1 x2) ?_
      rw [hb]; exact binaryAppend_refines (sBII₂ _ _ _ hy) x1 x2)

theorem callVector_same (name : String) (o₁ : Outcome BArg)
    (h : callVector name a₁ = some o₁) : ∃ o₂, callVector name a₂ = some o₂ ∧ outSame o₁ o₂ := by
  have sBI₁ := (argBI_spec h₁).2; have sBI₂ := (argBI_spec h₂).2
  have sBII₁ := (argBII_spec h₁).2; have sBII₂ := (argBII_spec h₂).2
  have sBBI₁ := (argBBI_spec h₁).2; have sBBI₂ := (argBBI_spec h₂).2
  have sBIB₁ := (argBIB_spec h₁).2; have sBIB₂ := (argBIB_spec h₂).2
  have el : ∀ f : Int → Int → Int,
      outSame (retOptBin ((argBBI a₁).bind fun (a, b, w) => elementwise (checked f) a b w))
        (retOptBin ((argBBI a₂).bind fun (a, b, w) => elementwise (checked f) a b w)) := fun f =>
    outSame_bind retOptBin_err (argBBI_rel hs) (fun ⟨xa, xb, xw⟩ ⟨ya, yb, yw⟩ hx hy hr => by
      obtain ⟨hb1, hb2, he⟩ := hr
      simp only at hb1 hb2 he
      subst he
      refine retOptBin_same (elementwise_refines f (sBBI₁ _ _ _ hx).1 (sBBI₁ _ _ _ hx).2 xw) ?_
      rw [hb1, hb2]; exact elementwise_refines f (sBBI₂ _ _ _ hy).1 (sBBI₂ _ _ _ hy).2 xw)
  have cm : ∀ p : Int → Int → Bool,
      outSame (retOptBin ((argBBI a₁).bind fun (a, b, w) => compare p a b w))
        (retOptBin ((argBBI a₂).bind fun (a, b, w) => compare p a b w)) := fun p =>
    outSame_bind retOptBin_err (argBBI_rel hs) (fun ⟨xa, xb, xw⟩ ⟨ya, yb, yw⟩ hx hy hr => by
      obtain ⟨hb1, hb2, he⟩ := hr
      simp only at hb1 hb2 he
      subst he
      refine retOptBin_same (compare_refines p (sBBI₁ _ _ _ hx).1 (sBBI₁ _ _ _ hx).2 xw) ?_
      rw [hb1, hb2]; exact compare_refines p (sBBI₂ _ _ _ hy).1 (sBBI₂ _ _ _ hy).2 xw)
  unfold callVector at h
  split at h <;> (try cases h)
  · exact ⟨_, rfl, el _⟩
  · exact ⟨_, rfl, el _⟩
  · exact ⟨_, rfl, el _⟩
  · exact ⟨_, rfl, cm _⟩
  · exact ⟨_, rfl, cm _⟩
  · exact ⟨_, rfl, cm _⟩
  -- vector_dot
  · refine ⟨_, rfl, ?_⟩
    exact outSame_bind retOptInt_err (argBBI_rel hs) (fun ⟨xa, xb, xw⟩ ⟨ya, yb, yw⟩ hx hy hr => by
      obtain ⟨hb1, hb2, he⟩ := hr
      simp only at hb1 hb2 he
      subst he
      exact retOptInt_same (by
        dsimp only
        rw [vectorDot_eq (sBBI₁ _ _ _ hx).1 (sBBI₁ _ _ _ hx).2, vectorDot_eq (sBBI₂ _ _ _ hy).1 (sBBI₂ _ _ _ hy).2, hb1, hb2])
        (vectorDot_total (sBBI₁ _ _ _ hx).1 (sBBI₁ _ _ _ hx).2 _))
  -- vector_take
  · refine ⟨_, rfl, ?_⟩
    exact outSame_bind retOptBin_err (argBIB_rel hs) (fun ⟨xa, xw, xb⟩ ⟨ya, yw, yb⟩ hx hy hr => by
      obtain ⟨hb1, he, hb2⟩ := hr
      simp only at hb1 hb2 he
      subst he
      refine retOptBin_same (vectorTake_refines (sBIB₁ _ _ _ hx).1 (sBIB₁ _ _ _ hx).2 xw) ?_
      rw [hb1, hb2]; exact vectorTake_refines (sBIB₂ _ _ _ hy).1 (sBIB₂ _ _ _ hy).2 xw)
  -- vector_get
  · refine ⟨_, rfl, ?_⟩
    exact outSame_bind retOptInt_err (argBII_rel hs) (fun ⟨xr, x1, x2⟩ ⟨yr, y1, y2⟩ hx hy hr => by
      obtain ⟨hb, he⟩ := hr
      simp only at hb he
      cases he
      exact retOptInt_same (by dsimp only; rw [vectorGet_eq (sBII₁ _ _ _ hx), vectorGet_eq (sBII₂ _ _ _ hy), hb])
        (vectorGet_total (sBII₁ _ _ _ hx) _ _))
  -- vector_push
  · refine ⟨_, rfl, ?_⟩
    exact outSame_bind retOptBin_err (argBII_rel hs) (fun ⟨xr, x1, x2⟩ ⟨yr, y1, y2⟩ hx hy hr => by
      obtain ⟨hb, he⟩ := hr
      simp only at hb he
      cases he
      refine retOptBin_same (vectorPush_refines (sBII₁ _ _ _ hx) x1 x2) ?_
      rw [hb]; exact vectorPush_refines (sBII₂ _ _ _ hy) x1 x2)
  -- vector_sum
  · refine ⟨_, rfl, ?_⟩
    exact outSame_bind retOptInt_err (argBI_rel hs) (fun ⟨xr, xi⟩ ⟨yr, yi⟩ hx hy hr => by
      obtain ⟨hb, he⟩ := hr
      simp only at hb he
      subst he
      exact retOptInt_same (by dsimp only; rw [vectorSum_eq (sBI₁ _ _ hx), vectorSum_eq (sBI₂ _ _ hy), hb])
        (vectorSum_total (sBI₁ _ _ hx) _))

/-- **Shape independence of every builtin**: arguments that differ only in the rope shapes of their
    binaries give observably the same outcome. -/
theorem callBuiltin_same (name : String) (o₁ : Outcome BArg)
    (h : callBuiltin name a₁ = some o₁) : ∃ o₂, callBuiltin name a₂ = some o₂ ∧ outSame o₁ o₂ := by
  unfold callBuiltin at h ⊢
  cases hi : callInteger name a₁ with
  | some oi =>
    rw [hi] at h; cases h
    obtain ⟨o₂, ho₂, hsame⟩ := callInteger_same name hs _ hi
    exact ⟨o₂, by rw [ho₂], hsame⟩
  | none =>
    rw [hi] at h; simp only at h
    rw [callInteger_none_same name (a₂ := a₂) hi]; simp only
    cases hb : callBinary name a₁ with
    | some ob =>
      rw [hb] at h; cases h
      obtain ⟨o₂, ho₂, hsame⟩ := callBinary_same h₁ h₂ hs name _ hb
      exact ⟨o₂, by rw [ho₂], hsame⟩
    | none =>
      rw [hb] at h
      have hb2 : callBinary name a₂ = none := by
        cases hb' : callBinary name a₂ with
        | none => rfl
        | some ob' =>
          obtain ⟨o, ho, _⟩ := callBinary_same h₂ h₁ (same_symm hs) name ob' hb'
          rw [hb] at ho; cases ho
      rw [hb2]; simp only
      exact callVector_same h₁ h₂ hs name o₁ h

end fam

end QM.Builtins
