import QuiverModel.Core.Builtins.Dispatch
import QuiverModel.Lemmas.Builtins.SetField
import QuiverModel.Lemmas.Builtins.Shift
import QuiverModel.Lemmas.Builtins.VectorRefine
/-
Totality at the level of the by-name dispatcher: whatever the name and whatever the argument
(ill-typed ones included), `callBuiltin` never answers `panic`, provided the binaries inside the
argument are stored ropes. Owner: C12.
-/
namespace QM.Builtins
open QM.Bytes QM.Bytes.Rope QM.Builtins.Spec

/-- a binary inside an argument is a rope as the executor heap stores them -/
def BArg.binStored : BArg → Prop
  | .bin r => r.Stored
  | _ => True

/-- every binary (top level or tuple field) of the argument is a stored rope -/
def BArg.Stored : BArg → Prop
  | .tup fs => ∀ f ∈ fs, f.binStored
  | a => a.binStored

/-! ### per-builtin totality (from the refinement lemmas) -/

theorem ok_or_err_ne_panic {α} {o : Outcome α} {c : Prop} [Decidable c] {v : α} {e : ErrClass}
    (h : o = if c then .ok v else .err e) : o ≠ .panic := by
  rw [h]; split <;> simp

section perBuiltin
variable {r a b : Rope}

theorem binaryNew_total (size : Int) : binaryNew size ≠ .panic := (binaryNew_refines size).not_panic
theorem binaryLength_total (r : Rope) : binaryLength r ≠ .panic := by simp [binaryLength]
theorem binaryConcat_total (ha : a.Stored) (hb : b.Stored) : binaryConcat a b ≠ .panic :=
  (binaryConcat_refines ha hb).not_panic
theorem binaryRepeat_total (hr : r.Stored) (c : Int) : binaryRepeat r c ≠ .panic :=
  (binaryRepeat_refines hr c).not_panic
theorem binaryAnd_total (ha : a.Stored) (hb : b.Stored) : binaryAnd a b ≠ .panic :=
  (binaryAnd_refines ha hb).not_panic
theorem binaryOr_total (ha : a.Stored) (hb : b.Stored) : binaryOr a b ≠ .panic :=
  (padZip_refines _ ha hb).not_panic
theorem binaryXor_total (ha : a.Stored) (hb : b.Stored) : binaryXor a b ≠ .panic :=
  (padZip_refines _ ha hb).not_panic
theorem binaryNot_total (hr : r.Stored) : binaryNot r ≠ .panic := (binaryNot_refines hr).not_panic
theorem binaryShift_total (hr : r.Stored) (s : Int) : binaryShift r s ≠ .panic :=
  (binaryShift_refines hr s).not_panic
theorem binaryPopcount_total (hr : r.Stored) : binaryPopcount r ≠ .panic := by
  rw [binaryPopcount_eq hr]; simp
theorem binaryGet_total (hr : r.Stored) (x y z : Int) : binaryGet r x y z ≠ .panic := by
  rw [binaryGet_eq hr]; unfold Spec.binaryGet; split <;> simp
theorem binarySet_total (hr : r.Stored) (x y v z : Int) : binarySet r x y v z ≠ .panic :=
  (binarySet_refines hr x y v z).not_panic
theorem binarySlice_total (hr : r.Stored) (s e : Int) : binarySlice r s e ≠ .panic :=
  (binarySlice_refines hr s e).not_panic
theorem binaryIndex_total (hr : r.Stored) (x o : Int) : binaryIndex r x o ≠ .panic := by
  rw [binaryIndex_eq hr.1]; unfold Spec.binaryIndex; split <;> simp
theorem binaryHash32_total (hr : r.Stored) : binaryHash32 r ≠ .panic := by
  rw [binaryHash32_eq hr.1]; simp
theorem binaryHash64_total (hr : r.Stored) : binaryHash64 r ≠ .panic := by
  rw [binaryHash64_eq hr.1]; simp
theorem binaryAppend_total (hr : r.Stored) (v n : Int) : binaryAppend r v n ≠ .panic :=
  (binaryAppend_refines hr v n).not_panic

theorem elementwise_total (f : Int → Int → Int) (ha : a.Stored) (hb : b.Stored) (w : Int) :
    elementwise (checked f) a b w ≠ .panic := (elementwise_refines f ha hb w).not_panic
theorem compare_total (p : Int → Int → Bool) (ha : a.Stored) (hb : b.Stored) (w : Int) :
    compare p a b w ≠ .panic := (compare_refines p ha hb w).not_panic
theorem vectorTake_total (ha : a.Stored) (hb : b.Stored) (w : Int) : vectorTake a w b ≠ .panic :=
  (vectorTake_refines ha hb w).not_panic
theorem vectorPush_total (hr : r.Stored) (w v : Int) : vectorPush r w v ≠ .panic :=
  (vectorPush_refines hr w v).not_panic
theorem vectorGet_total (hr : r.Stored) (w i : Int) : vectorGet r w i ≠ .panic := by
  rw [vectorGet_eq hr]; unfold Spec.vectorGet; split
  · simp only; split <;> simp
  · simp
theorem vectorSum_total (hr : r.Stored) (w : Int) : vectorSum r w ≠ .panic := by
  rw [vectorSum_eq hr]; unfold Spec.vectorSum; split
  · simp only; split <;> simp
  · simp
theorem vectorDot_total (ha : a.Stored) (hb : b.Stored) (w : Int) : vectorDot a b w ≠ .panic := by
  rw [vectorDot_eq ha hb]; unfold Spec.vectorDot; split
  · simp only; split <;> simp
  · simp
end perBuiltin

/-! ### argument extraction never panics and hands out stored ropes -/

theorem map_ne_panic {α β} {o : Outcome α} (g : α → β) (h : o ≠ .panic) : o.map g ≠ .panic := by
  cases o <;> simp_all [Outcome.map, Outcome.bind]

theorem bind_ne_panic {α β} {o : Outcome α} {f : α → Outcome β} (ho : o ≠ .panic)
    (hf : ∀ x, o = .ok x → f x ≠ .panic) : o.bind f ≠ .panic := by
  cases o with
  | ok x => simpa [Outcome.bind] using hf x rfl
  | err e => simp [Outcome.bind]
  | panic => exact absurd rfl ho

theorem stored_mem {fs : List BArg} (h : (BArg.tup fs).Stored) {r : Rope} (hm : BArg.bin r ∈ fs) :
    r.Stored := h _ hm

theorem argB_spec {arg : BArg} (h : arg.Stored) :
    argB arg ≠ .panic ∧ ∀ r, argB arg = .ok r → r.Stored := by
  unfold argB; split
  · exact ⟨by simp, fun r hr => by cases hr; exact h⟩
  · exact ⟨by simp, fun r hr => by cases hr⟩

theorem argBB_spec {arg : BArg} (h : arg.Stored) :
    argBB arg ≠ .panic ∧ ∀ a b, argBB arg = .ok (a, b) → a.Stored ∧ b.Stored := by
  unfold argBB; split
  · refine ⟨by simp, fun a b hr => ?_⟩
    cases hr
    exact ⟨stored_mem h (by simp), stored_mem h (by simp)⟩
  · exact ⟨by simp, fun a b hr => by cases hr⟩

theorem argBI_spec {arg : BArg} (h : arg.Stored) :
    argBI arg ≠ .panic ∧ ∀ a x, argBI arg = .ok (a, x) → a.Stored := by
  unfold argBI; split
  · refine ⟨by simp, fun a x hr => ?_⟩
    cases hr; exact stored_mem h (by simp)
  · exact ⟨by simp, fun a x hr => by cases hr⟩

theorem argBII_spec {arg : BArg} (h : arg.Stored) :
    argBII arg ≠ .panic ∧ ∀ a x y, argBII arg = .ok (a, x, y) → a.Stored := by
  unfold argBII; split
  · refine ⟨by simp, fun a x y hr => ?_⟩
    cases hr; exact stored_mem h (by simp)
  · exact ⟨by simp, fun a x y hr => by cases hr⟩

theorem argBIII_spec {arg : BArg} (h : arg.Stored) :
    argBIII arg ≠ .panic ∧ ∀ a x y z, argBIII arg = .ok (a, x, y, z) → a.Stored := by
  unfold argBIII; split
  · refine ⟨by simp, fun a x y z hr => ?_⟩
    cases hr; exact stored_mem h (by simp)
  · exact ⟨by simp, fun a x y z hr => by cases hr⟩

theorem argBIIII_spec {arg : BArg} (h : arg.Stored) :
    argBIIII arg ≠ .panic ∧ ∀ a x y z u, argBIIII arg = .ok (a, x, y, z, u) → a.Stored := by
  unfold argBIIII; split
  · refine ⟨by simp, fun a x y z u hr => ?_⟩
    cases hr; exact stored_mem h (by simp)
  · exact ⟨by simp, fun a x y z u hr => by cases hr⟩

theorem argBBI_spec {arg : BArg} (h : arg.Stored) :
    argBBI arg ≠ .panic ∧ ∀ a b x, argBBI arg = .ok (a, b, x) → a.Stored ∧ b.Stored := by
  unfold argBBI; split
  · refine ⟨by simp, fun a b x hr => ?_⟩
    cases hr; exact ⟨stored_mem h (by simp), stored_mem h (by simp)⟩
  · exact ⟨by simp, fun a b x hr => by cases hr⟩

theorem argBIB_spec {arg : BArg} (h : arg.Stored) :
    argBIB arg ≠ .panic ∧ ∀ a x b, argBIB arg = .ok (a, x, b) → a.Stored ∧ b.Stored := by
  unfold argBIB; split
  · refine ⟨by simp, fun a x b hr => ?_⟩
    cases hr; exact ⟨stored_mem h (by simp), stored_mem h (by simp)⟩
  · exact ⟨by simp, fun a x b hr => by cases hr⟩

theorem oneInt_ne_panic (arg : BArg) : oneInt arg ≠ .panic := by unfold oneInt; split <;> simp
theorem twoInts_ne_panic (arg : BArg) : twoInts arg ≠ .panic := by
  unfold twoInts; split
  · split
    · simp
    · split <;> simp
  · simp

theorem toI64_ne_panic (z : Int) : toI64 z ≠ .panic := by unfold toI64; split <;> simp

theorem twoIntsNarrowed_ne_panic (arg : BArg) : twoIntsNarrowed arg ≠ .panic := by
  unfold twoIntsNarrowed; split
  · split
    · simp
    · split
      · apply bind_ne_panic (toI64_ne_panic _)
        intro _ _; split <;> simp
      · simp
  · simp

/-! ### the integer family is total (no hypothesis at all) -/

theorem two64_ne_panic (a b : Int) : two64 a b ≠ .panic := by
  unfold two64 toI64
  by_cases ha : FitsI64 a <;> by_cases hb : FitsI64 b <;> simp [ha, hb]

theorem integerShift_ne_panic (a b : Int) : integerShift a b ≠ .panic := by
  unfold integerShift
  cases h : two64 a b with
  | panic => exact absurd h (two64_ne_panic a b)
  | err e => simp
  | ok p =>
    simp only
    by_cases h0 : b = 0
    · simp [h0]
    · by_cases h1 : b.natAbs ≥ 64 <;> by_cases h2 : b > 0 <;> simp [h0, h1, h2]

theorem callInteger_total (name : String) (arg : BArg) :
    ∀ o, callInteger name arg = some o → o ≠ .panic := by
  intro o ho
  have un : ∀ f : Int → Outcome Int, (∀ z, f z ≠ .panic) → liftInt ((oneInt arg).bind f) ≠ .panic :=
    fun f hf => map_ne_panic _ (bind_ne_panic (oneInt_ne_panic _) (fun x _ => hf x))
  have bi : ∀ f : Int → Int → Outcome Int, (∀ x y, f x y ≠ .panic) →
      liftInt ((twoInts arg).bind (fun (a, b) => f a b)) ≠ .panic :=
    fun f hf => map_ne_panic _ (bind_ne_panic (twoInts_ne_panic _) (fun x _ => hf x.1 x.2))
  have bw : ∀ f : Int → Int → Outcome Int, (∀ x y, f x y ≠ .panic) →
      liftInt ((twoIntsNarrowed arg).bind (fun (a, b) => f a b)) ≠ .panic :=
    fun f hf => map_ne_panic _ (bind_ne_panic (twoIntsNarrowed_ne_panic _) (fun x _ => hf x.1 x.2))
  have hmap2 : ∀ (g : BitVec 64 × BitVec 64 → Int) (a b : Int), (two64 a b).map g ≠ .panic :=
    fun g a b => map_ne_panic _ (two64_ne_panic a b)
  unfold callInteger at ho
  split at ho <;> (try cases ho)
  · exact un _ (fun z => by simp [integerAbs])
  · exact un _ (fun z => by unfold integerSqrt; split <;> simp)
  · exact bi _ (fun x y => by simp [integerAdd])
  · exact bi _ (fun x y => by simp [integerSubtract])
  · exact bi _ (fun x y => by simp [integerMultiply])
  · exact bi _ (fun x y => by unfold integerDivide; split <;> simp)
  · exact bi _ (fun x y => by unfold integerModulo; split <;> simp)
  · exact bi _ (fun x y => by simp [integerGcd])
  · exact bi _ (fun x y => by simp [integerCompare])
  · exact bw _ (fun x y => hmap2 _ x y)
  · exact bw _ (fun x y => hmap2 _ x y)
  · exact bw _ (fun x y => hmap2 _ x y)
  · exact un _ (fun z => map_ne_panic _ (toI64_ne_panic z))
  · exact bw _ integerShift_ne_panic
  · exact un _ (fun z => map_ne_panic _ (toI64_ne_panic z))

/-! ### binary and vector families -/

theorem callBinary_total (name : String) (arg : BArg) (h : arg.Stored) :
    ∀ o, callBinary name arg = some o → o ≠ .panic := by
  intro o ho
  have hB := argB_spec h; have hBB := argBB_spec h; have hBI := argBI_spec h
  have hBII := argBII_spec h; have hBIII := argBIII_spec h; have hBIIII := argBIIII_spec h
  unfold callBinary at ho
  split at ho <;> (try cases ho)
  · exact map_ne_panic _ (bind_ne_panic (oneInt_ne_panic _) (fun x _ => binaryNew_total x))
  · exact map_ne_panic _ (bind_ne_panic hB.1 (fun x _ => binaryLength_total x))
  · exact map_ne_panic _ (bind_ne_panic hBB.1 (fun x hx => binaryConcat_total (hBB.2 _ _ hx).1 (hBB.2 _ _ hx).2))
  · exact map_ne_panic _ (bind_ne_panic hBI.1 (fun x hx => binaryRepeat_total (hBI.2 _ _ hx) _))
  · exact map_ne_panic _ (bind_ne_panic hBB.1 (fun x hx => binaryAnd_total (hBB.2 _ _ hx).1 (hBB.2 _ _ hx).2))
  · exact map_ne_panic _ (bind_ne_panic hBB.1 (fun x hx => binaryOr_total (hBB.2 _ _ hx).1 (hBB.2 _ _ hx).2))
  · exact map_ne_panic _ (bind_ne_panic hBB.1 (fun x hx => binaryXor_total (hBB.2 _ _ hx).1 (hBB.2 _ _ hx).2))
  · exact map_ne_panic _ (bind_ne_panic hB.1 (fun x hx => binaryNot_total (hB.2 _ hx)))
  · exact map_ne_panic _ (bind_ne_panic hBI.1 (fun x hx => binaryShift_total (hBI.2 _ _ hx) _))
  · exact map_ne_panic _ (bind_ne_panic hB.1 (fun x hx => binaryPopcount_total (hB.2 _ hx)))
  · exact map_ne_panic _ (bind_ne_panic hBIII.1 (fun x hx => binaryGet_total (hBIII.2 _ _ _ _ hx) _ _ _))
  · exact map_ne_panic _ (bind_ne_panic hBIIII.1 (fun x hx => binarySet_total (hBIIII.2 _ _ _ _ _ hx) _ _ _ _))
  · exact map_ne_panic _ (bind_ne_panic hBII.1 (fun x hx => binarySlice_total (hBII.2 _ _ _ hx) _ _))
  · exact map_ne_panic _ (bind_ne_panic hBII.1 (fun x hx => binaryIndex_total (hBII.2 _ _ _ hx) _ _))
  · exact map_ne_panic _ (bind_ne_panic hB.1 (fun x hx => binaryHash32_total (hB.2 _ hx)))
  · exact map_ne_panic _ (bind_ne_panic hB.1 (fun x hx => binaryHash64_total (hB.2 _ hx)))
  · exact map_ne_panic _ (bind_ne_panic hBII.1 (fun x hx => binaryAppend_total (hBII.2 _ _ _ hx) _ _))

theorem callVector_total (name : String) (arg : BArg) (h : arg.Stored) :
    ∀ o, callVector name arg = some o → o ≠ .panic := by
  intro o ho
  have hBI := argBI_spec h; have hBII := argBII_spec h
  have hBBI := argBBI_spec h; have hBIB := argBIB_spec h
  have el : ∀ f : Int → Int → Int,
      retOptBin ((argBBI arg).bind fun (a, b, w) => elementwise (checked f) a b w) ≠ .panic :=
    fun f => map_ne_panic _ (bind_ne_panic hBBI.1
      (fun x hx => elementwise_total f (hBBI.2 _ _ _ hx).1 (hBBI.2 _ _ _ hx).2 _))
  have cm : ∀ p : Int → Int → Bool,
      retOptBin ((argBBI arg).bind fun (a, b, w) => compare p a b w) ≠ .panic :=
    fun p => map_ne_panic _ (bind_ne_panic hBBI.1
      (fun x hx => compare_total p (hBBI.2 _ _ _ hx).1 (hBBI.2 _ _ _ hx).2 _))
  unfold callVector at ho
  split at ho <;> (try cases ho)
  · exact el _
  · exact el _
  · exact el _
  · exact cm _
  · exact cm _
  · exact cm _
  · exact map_ne_panic _ (bind_ne_panic hBBI.1 (fun x hx => vectorDot_total (hBBI.2 _ _ _ hx).1 (hBBI.2 _ _ _ hx).2 _))
  · exact map_ne_panic _ (bind_ne_panic hBIB.1 (fun x hx => vectorTake_total (hBIB.2 _ _ _ hx).1 (hBIB.2 _ _ _ hx).2 _))
  · exact map_ne_panic _ (bind_ne_panic hBII.1 (fun x hx => vectorGet_total (hBII.2 _ _ _ hx) _ _))
  · exact map_ne_panic _ (bind_ne_panic hBII.1 (fun x hx => vectorPush_total (hBII.2 _ _ _ hx) _ _))
  · exact map_ne_panic _ (bind_ne_panic hBI.1 (fun x hx => vectorSum_total (hBI.2 _ _ hx) _))

end QM.Builtins
