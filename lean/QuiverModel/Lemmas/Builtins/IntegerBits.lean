import Mathlib.Tactic.Ring
import Mathlib.Tactic.Linarith
import QuiverModel.Core.Builtins.Integer
/-
64-bit word lemmas for the integer bitwise family: the shift is multiplication / floor division,
popcount counts the one bits. Owner: C12.
-/
namespace QM.Builtins

theorem toI64_ok' {z : Int} (h : FitsI64 z) : toI64 z = .ok (BitVec.ofInt 64 z) := if_pos h
theorem ofInt_toInt_fits {z : Int} (h : FitsI64 z) : (BitVec.ofInt 64 z).toInt = z := by
  rw [BitVec.toInt_ofInt]; obtain ⟨h1, h2⟩ := h
  apply Int.bmod_eq_of_le_mul_two <;> omega

/-- the plain meaning of a 64-bit shift: left = multiply and wrap to i64, right = floor division -/
def shiftRef (v a : Int) : Int :=
  if a ≥ 0 then Int.bmod (v * 2 ^ a.toNat) (2 ^ 64) else v / 2 ^ (-a).toNat

theorem shl_toInt (v : Int) (n : Nat) :
    ((BitVec.ofInt 64 v) <<< n).toInt = Int.bmod (v * 2 ^ n) (2 ^ 64) := by
  rw [BitVec.toInt_shiftLeft, BitVec.toNat_ofInt, Nat.shiftLeft_eq]
  generalize hM : (2:Nat) ^ 64 = M
  have hMpos : (0:Int) < (M : Int) := by rw [← hM]; norm_num
  rw [Int.natCast_mul, Int.toNat_of_nonneg (Int.emod_nonneg _ (by omega)), Int.natCast_pow]
  rw [← Int.bmod_mul_bmod, Int.emod_bmod, Int.bmod_mul_bmod]; rfl

theorem integerShift_eq (v a : Int) (hv : FitsI64 v) (ha : FitsI64 a) :
    integerShift v a = .ok (shiftRef v a) := by
  have hx := ofInt_toInt_fits hv
  unfold integerShift two64 shiftRef
  rw [toI64_ok' hv, toI64_ok' ha]; simp only
  by_cases h0 : a = 0
  · rw [if_pos h0, hx, h0]; simp
    obtain ⟨h1, h2⟩ := hv
    symm; apply Int.bmod_eq_of_le_mul_two <;> omega
  · rw [if_neg h0]
    by_cases hbig : a.natAbs ≥ 64
    · rw [if_pos hbig]
      by_cases hpos : a > 0
      · rw [if_pos hpos, if_pos (show a ≥ 0 by omega)]
        have : (2:Int) ^ a.toNat = 2 ^ (a.toNat - 64) * ((2 ^ 64 : Nat) : Int) := by
          rw [show ((2 ^ 64 : Nat) : Int) = 2 ^ 64 by norm_num, ← pow_add]; congr 1; omega
        rw [this, ← mul_assoc, Int.mul_bmod_left]
      · rw [if_neg hpos, if_neg (show ¬ a ≥ 0 by omega), hx]
        have hn : (-a).toNat ≥ 64 := by omega
        have hp : (2:Int) ^ 64 ≤ 2 ^ (-a).toNat := pow_le_pow_right₀ (by norm_num) hn
        obtain ⟨h1, h2⟩ := hv
        congr 1
        by_cases hv0 : v ≥ 0
        · rw [if_pos hv0]; symm; apply Int.ediv_eq_zero_of_lt hv0; omega
        · rw [if_neg hv0]; symm
          have hpp : (0:Int) < 2 ^ (-a).toNat := by positivity
          exact ((Int.ediv_emod_unique (r := v + 2 ^ (-a).toNat) hpp).2 ⟨by ring, by omega, by omega⟩).1
    · rw [if_neg hbig]
      by_cases hpos : a > 0
      · rw [if_pos hpos, if_pos (show a ≥ 0 by omega), shl_toInt, show a.toNat = a.natAbs by omega]
      · rw [if_neg hpos, if_neg (show ¬ a ≥ 0 by omega), BitVec.toInt_sshiftRight, hx, Int.shiftRight_eq_div_pow,
          show (-a).toNat = a.natAbs by omega]
        push_cast; rfl

theorem popcountNat_eq (fuel n : Nat) :
    popcountNat fuel n = ((List.range fuel).map (fun i => (n.testBit i).toNat)).sum := by
  induction fuel generalizing n with
  | zero => simp [popcountNat]
  | succ fuel ih =>
    simp only [popcountNat]
    rw [List.range_succ_eq_map, List.map_cons, List.sum_cons, List.map_map]
    by_cases h0 : n = 0
    · rw [if_pos h0, h0]
      have : ∀ (l : List Nat), (List.map ((fun _ => (0:Nat)) ∘ Nat.succ) l).sum = 0 := by
        intro l; induction l with
        | nil => rfl
        | cons x xs ih' => rw [List.map_cons, List.sum_cons, ih']; rfl
      simp [this]
    · rw [if_neg h0, ih (n / 2)]
      congr 1
      · rw [Nat.testBit_zero]
        rcases Nat.mod_two_eq_zero_or_one n with h | h <;> simp [h]
      · congr 1
        apply List.map_congr_left
        intro i _
        simp [Nat.testBit_succ]

/-- `integer_popcount` counts the one bits of the 64-bit two's-complement word -/
theorem integerPopcount_eq (a : Int) (h : FitsI64 a) :
    integerPopcount a = .ok (Int.ofNat
      (((List.range 64).map fun i => ((BitVec.ofInt 64 a).getLsbD i).toNat).sum)) := by
  unfold integerPopcount toI64
  rw [if_pos h]; simp only [Outcome.map, Outcome.bind, popcount64, popcountNat_eq]
  rfl

end QM.Builtins
