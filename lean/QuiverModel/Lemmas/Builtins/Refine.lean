import QuiverModel.Core.Builtins.Spec
import QuiverModel.Lemmas.Bytes.Basic
import QuiverModel.Lemmas.Bytes.Cons
import QuiverModel.Lemmas.Bytes.Find
/-
Refinement relations between the branch-by-branch builtin models (ropes, machine arithmetic,
`panic` possible) and the plain reference specifications (flat bytes, no `panic`), and the
refinement lemmas of the "simple" binary builtins. Owner: C12.
-/
namespace QM.Builtins
open QM.Bytes QM.Bytes.Rope

/-- the model outcome `o` refines the flat specification outcome `s`: same error class, or a
    stored (well-formed, within the size limit) rope with exactly the specified content.
    `panic` refines nothing. -/
def RefinesBin (o : Outcome Rope) (s : Outcome (List UInt8)) : Prop :=
  match o, s with
  | .ok r, .ok v => r.Stored ∧ r.bytes = v
  | .err e, .err e' => e = e'
  | _, _ => False

def RefinesOptBin (o : Outcome (Option Rope)) (s : Outcome (Option (List UInt8))) : Prop :=
  match o, s with
  | .ok (some r), .ok (some v) => r.Stored ∧ r.bytes = v
  | .ok none, .ok none => True
  | .err e, .err e' => e = e'
  | _, _ => False

theorem RefinesBin.not_panic {o s} (h : RefinesBin o s) : o ≠ .panic := by
  intro hp; subst hp; cases s <;> exact h

theorem RefinesOptBin.not_panic {o s} (h : RefinesOptBin o s) : o ≠ .panic := by
  intro hp; subst hp; cases s <;> exact h

/-- two model outcomes refining the same specification have the same observable content -/
theorem RefinesBin.same {o₁ o₂ s} (h₁ : RefinesBin o₁ s) (h₂ : RefinesBin o₂ s) :
    o₁.map Rope.bytes = o₂.map Rope.bytes := by
  cases o₁ <;> cases o₂ <;> cases s <;>
    simp_all [RefinesBin, Outcome.map, Outcome.bind]

theorem RefinesOptBin.same {o₁ o₂ s} (h₁ : RefinesOptBin o₁ s) (h₂ : RefinesOptBin o₂ s) :
    o₁.map (Option.map Rope.bytes) = o₂.map (Option.map Rope.bytes) := by
  cases o₁ with
  | ok x => cases o₂ with
    | ok y => cases s with
      | ok z => cases x <;> cases y <;> cases z <;> simp_all [RefinesOptBin, Outcome.map, Outcome.bind]
      | err _ => cases x <;> simp_all [RefinesOptBin]
      | panic => cases x <;> simp_all [RefinesOptBin]
    | err _ => cases s with
      | ok z => simp_all [RefinesOptBin]
      | err _ => cases x <;> simp_all [RefinesOptBin]
      | panic => cases x <;> simp_all [RefinesOptBin]
    | panic => cases s <;> simp_all [RefinesOptBin]
  | err _ => cases o₂ with
    | ok y => cases s with
      | ok z => simp_all [RefinesOptBin]
      | err _ => cases y <;> simp_all [RefinesOptBin]
      | panic => simp_all [RefinesOptBin]
    | err _ => cases s <;> simp_all [RefinesOptBin, Outcome.map, Outcome.bind]
    | panic => cases s <;> simp_all [RefinesOptBin]
  | panic => cases s <;> simp_all [RefinesOptBin]

theorem _root_.QM.Bytes.Rope.Stored.wf {r : Rope} (h : r.Stored) : r.WF := h.1
theorem _root_.QM.Bytes.Rope.Stored.length_le {r : Rope} (h : r.Stored) : r.bytes.length ≤ 16777216 := by
  rw [← h.1.len_eq]; exact h.2

theorem allocData_ok {r : Rope} (h : r.len ≤ 16777216) : allocData r = .ok r := by
  unfold allocData; rw [if_neg (by omega)]
theorem allocData_err {r : Rope} (h : ¬ r.len ≤ 16777216) : allocData r = .err .invalidArgument := by
  unfold allocData; rw [if_pos (by omega)]

theorem alloc_refines {bs : List UInt8} (h : bs.length ≤ 16777216) : RefinesBin (alloc bs) (.ok bs) := by
  unfold alloc; rw [allocData_ok (by simpa [len] using h)]
  exact ⟨⟨by simp only [WF]; omega, by simpa [len] using h⟩, rfl⟩

theorem allocData_refines {r : Rope} (hw : r.WF) (h : r.len ≤ 16777216) : RefinesBin (allocData r) (.ok r.bytes) := by
  rw [allocData_ok h]; exact ⟨⟨hw, h⟩, rfl⟩

theorem mapMO_ok {α β : Type} (g : α → β) (xs : List α) : mapMO (fun x => Outcome.ok (g x)) xs = .ok (xs.map g) := by
  induction xs with
  | nil => rfl
  | cons x xs ih => simp [mapMO, ih, Outcome.bind]

theorem mapMO_congr {α β : Type} {f g : α → Outcome β} {xs : List α} (h : ∀ x ∈ xs, f x = g x) :
    mapMO f xs = mapMO g xs := by
  induction xs with
  | nil => rfl
  | cons x xs ih =>
    simp only [mapMO]
    rw [h x (by simp), ih (fun y hy => h y (by simp [hy]))]

/-! ### construction -/

theorem binaryNew_refines (size : Int) : RefinesBin (binaryNew size) (Spec.binaryNew size) := by
  unfold binaryNew Spec.binaryNew toUsize
  by_cases h0 : size < 0
  · rw [if_pos h0, if_neg (by omega)]; rfl
  · rw [if_neg h0]
    by_cases h1 : 0 ≤ size ∧ size < 18446744073709551616
    · rw [if_pos h1]; simp only [Outcome.bind]
      by_cases h2 : size.toNat > 16777216
      · rw [if_pos h2, if_neg (by omega)]; rfl
      · rw [if_neg h2, if_pos (by omega), allocData_ok (by simp only [len]; omega)]
        exact ⟨⟨by simp only [WF]; omega, by simp only [len]; omega⟩, rfl⟩
    · rw [if_neg h1, if_neg (by omega)]; rfl

theorem binaryLength_eq {r : Rope} (h : r.WF) : binaryLength r = .ok (Int.ofNat r.bytes.length) := by
  unfold binaryLength; rw [h.len_eq]

theorem binaryConcat_refines {a b : Rope} (ha : a.Stored) (hb : b.Stored) :
    RefinesBin (binaryConcat a b) (Spec.binaryConcat a.bytes b.bytes) := by
  have hla := ha.2; have hlb := hb.2
  have hea := ha.1.len_eq; have heb := hb.1.len_eq
  unfold binaryConcat Spec.binaryConcat
  rw [uadd_ok (by omega)]; simp only [Outcome.bind]
  by_cases h : a.len + b.len > 16777216
  · rw [if_pos h, if_neg (by omega)]; rfl
  · rw [if_neg h, if_pos (by omega)]
    obtain ⟨c, hc, hwf, hbytes, hlen⟩ := mkConcat_ok ha.1 hb.1 (by omega)
    rw [hc]; simp only
    rw [allocData_ok (by omega)]
    exact ⟨⟨hwf, by omega⟩, hbytes⟩

theorem binaryRepeat_refines {r : Rope} (hr : r.Stored) (count : Int) :
    RefinesBin (binaryRepeat r count) (Spec.binaryRepeat r.bytes count) := by
  have hl := hr.2; have he := hr.1.len_eq
  unfold binaryRepeat Spec.binaryRepeat toUsize
  by_cases h0 : count < 0
  · rw [if_pos h0, if_neg (by omega)]; rfl
  · rw [if_neg h0]
    by_cases h1 : 0 ≤ count ∧ count < 18446744073709551616
    · rw [if_pos h1]; simp only [Outcome.bind]
      by_cases h2 : r.len * count.toNat ≤ 16777216
      · rw [if_pos ⟨h1.1, h1.2, by rw [← he]; exact h2⟩]
        obtain ⟨hwf, hbytes⟩ := mkTiled_spec hr.1 (c := count.toNat) (by omega)
        have hlen := mkTiled_len hr.1 count.toNat
        rw [satMul_of_lt (by omega)] at hlen
        rw [allocData_ok (by omega)]
        exact ⟨⟨hwf, by omega⟩, hbytes⟩
      · rw [if_neg (by rw [← he]; omega)]
        have hlen := mkTiled_len hr.1 count.toNat
        rw [allocData_err (by rw [hlen, satMul_lt_iff (by omega)]; exact h2)]; rfl
    · rw [if_neg h1, if_neg (by omega)]; rfl

/-! ### bytewise logic -/

theorem binaryAnd_refines {a b : Rope} (ha : a.Stored) (hb : b.Stored) :
    RefinesBin (binaryAnd a b) (.ok (Spec.binaryAnd a.bytes b.bytes)) := by
  unfold binaryAnd Spec.binaryAnd
  rw [ha.1.iter_eq, hb.1.iter_eq]; simp only [Outcome.bind]
  apply alloc_refines
  have := ha.length_le; simp only [List.length_zipWith]; omega

theorem byteOrZero_eq {r : Rope} (h : r.WF) (i : Nat) : byteOrZero r i = .ok (r.bytes.getD i 0) := by
  unfold byteOrZero
  rw [h.byteAt_eq, h.len_eq]
  by_cases hi : i < r.bytes.length
  · rw [if_pos hi, List.getElem?_eq_getElem hi]; simp [List.getD, List.getElem?_eq_getElem hi]
  · rw [if_neg hi]; simp [List.getD, List.getElem?_eq_none (Nat.le_of_not_lt hi)]

theorem padZip_refines (f : UInt8 → UInt8 → UInt8) {a b : Rope} (ha : a.Stored) (hb : b.Stored) :
    RefinesBin (padZip f a b) (.ok (Spec.padZip f a.bytes b.bytes)) := by
  unfold padZip Spec.padZip
  have hf : (fun i => (byteOrZero a i).bind fun x => (byteOrZero b i).bind fun y => Outcome.ok (f x y))
      = fun i => Outcome.ok (f (a.bytes.getD i 0) (b.bytes.getD i 0)) := by
    funext i; rw [byteOrZero_eq ha.1, byteOrZero_eq hb.1]; rfl
  rw [hf, mapMO_ok, ha.1.len_eq, hb.1.len_eq]; simp only [Outcome.bind]
  apply alloc_refines
  have := ha.length_le; have := hb.length_le
  simp only [List.length_map, List.length_range]; omega

theorem binaryNot_refines {r : Rope} (hr : r.Stored) :
    RefinesBin (binaryNot r) (.ok (r.bytes.map (~~~ ·))) := by
  unfold binaryNot; rw [hr.1.iter_eq]; simp only [Outcome.bind]
  apply alloc_refines; simpa using hr.length_le

theorem binaryIndex_eq {r : Rope} (hr : r.WF) (byte off : Int) :
    binaryIndex r byte off = Spec.binaryIndex r.bytes byte off := by
  unfold binaryIndex Spec.binaryIndex toU8 toUsize
  by_cases h0 : 0 ≤ byte ∧ byte ≤ 255
  · rw [if_pos h0]; simp only [Outcome.bind]
    by_cases h1 : off < 0
    · rw [if_pos h1, if_neg (by omega)]
    · rw [if_neg h1]
      by_cases h2 : 0 ≤ off ∧ off < 18446744073709551616
      · rw [if_pos h2, if_pos ⟨h0.1, h0.2, h2.1, h2.2⟩]; simp only; rw [hr.findByte_eq]
      · rw [if_neg h2, if_neg (by omega)]
  · rw [if_neg h0]; simp only [Outcome.bind]; rw [if_neg (by omega)]

/-! ### slice, popcount, hash -/

theorem binarySlice_refines {r : Rope} (hr : r.Stored) (start stop : Int) :
    RefinesBin (binarySlice r start stop) (Spec.binarySlice r.bytes start stop) := by
  have hl := hr.2; have he := hr.1.len_eq
  unfold binarySlice Spec.binarySlice toUsize
  by_cases h0 : start < 0 ∨ stop < 0
  · rw [if_pos h0, if_neg (by omega)]; rfl
  · rw [if_neg h0]
    by_cases h1 : 0 ≤ start ∧ start < 18446744073709551616
    · rw [if_pos h1]; simp only [Outcome.bind]
      by_cases h2 : 0 ≤ stop ∧ stop < 18446744073709551616
      · rw [if_pos h2]; simp only
        by_cases h3 : start.toNat > r.len ∨ stop.toNat > r.len
        · rw [if_pos h3, if_neg (by omega)]; rfl
        · rw [if_neg h3]
          by_cases h4 : start.toNat > stop.toNat
          · rw [if_pos h4, if_neg (by omega)]; rfl
          · rw [if_neg h4, if_pos (by omega)]
            obtain ⟨s, hs, hwf, hbytes, hlen⟩ :=
              mkSlice_some hr.1 (off := start.toNat) (l := stop.toNat - start.toNat) (by omega)
            rw [hs]; simp only
            rw [allocData_ok (by omega)]
            exact ⟨⟨hwf, by omega⟩, hbytes⟩
      · rw [if_neg h2]; simp only [Outcome.bind]; rw [if_neg (by omega)]; rfl
    · rw [if_neg h1]; simp only [Outcome.bind]; rw [if_neg (by omega)]; rfl

theorem popcountNat_le (fuel n : Nat) : popcountNat fuel n ≤ fuel := by
  induction fuel generalizing n with
  | zero => simp [popcountNat]
  | succ fuel ih =>
    simp only [popcountNat]; split
    · omega
    · have := ih (n / 2); have := Nat.mod_lt n (show 0 < 2 by omega); omega

theorem popcount_le (v : List UInt8) : Spec.popcount v ≤ 8 * v.length := by
  unfold Spec.popcount
  induction v with
  | nil => simp
  | cons b bs ih =>
    have := popcountNat_le 8 b.toNat
    simp only [List.map_cons, List.sum_cons, List.length_cons]; omega

theorem binaryPopcount_eq {r : Rope} (hr : r.Stored) :
    binaryPopcount r = .ok (Int.ofNat (Spec.popcount r.bytes)) := by
  unfold binaryPopcount; rw [hr.1.iter_eq]; simp only [Outcome.bind]
  have h1 := popcount_le r.bytes; have h2 := hr.length_le
  simp only [Spec.popcount] at h1 ⊢
  rw [if_pos (by omega)]

theorem binaryHash32_eq {r : Rope} (hr : r.WF) :
    binaryHash32 r = .ok (Int.ofNat (fnv1a32 fnv32Offset fnv32Prime r.bytes)) := by
  unfold binaryHash32; rw [hr.iter_eq]; rfl

/-- the 64-bit FNV-1a hash of the content, reinterpreted as a signed word (`hash as i64`) -/
theorem binaryHash64_eq {r : Rope} (hr : r.WF) :
    binaryHash64 r = .ok (let h := fnv1a64 fnv64Offset fnv64Prime r.bytes
      if h ≥ 9223372036854775808 then (h : Int) - 18446744073709551616 else (h : Int)) := by
  unfold binaryHash64; rw [hr.iter_eq]; rfl

end QM.Builtins
