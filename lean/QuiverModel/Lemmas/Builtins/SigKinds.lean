import QuiverModel.Core.Builtins.Sig
import QuiverModel.Core.Builtins.Dispatch
/-
The model's own signature table `modelSig` is what `callBuiltin` implements: a successful result has
the stated kind. (Independent of the regenerated registry table, so never rebuilt by `pregen`.)
Owner: C12.
-/
namespace QM.Builtins

def RKind.holds : RKind → BArg → Prop
  | .int, .int _ => True
  | .bin, .bin _ => True
  | .intOrNil, .int _ => True
  | .intOrNil, .tup [] => True
  | .binOrNil, .bin _ => True
  | .binOrNil, .tup [] => True
  | _, _ => False

/-- inhabitation of a (flat) `TypeSpec` by a builtin result value -/
def inhAtom : TSpec → BArg → Bool
  | .integer, .int _ => true
  | .binary, .bin _ => true
  | .tuple none [], .tup [] => true
  | _, _ => false

def inh : TSpec → BArg → Bool
  | .union vs, v => vs.any (inhAtom · v)
  | t, v => inhAtom t v

/-- the declared result spec `t` is (syntactically) the spec of kind `k` -/
def kindFits : RKind → TSpec → Bool
  | .int, .integer => true
  | .bin, .binary => true
  | .intOrNil, .union [.integer, .tuple none []] => true
  | .binOrNil, .union [.binary, .tuple none []] => true
  | _, _ => false

theorem kindFits_sound {k : RKind} {t : TSpec} {v : BArg} (hf : kindFits k t = true) (hv : k.holds v) :
    inh t v = true := by
  unfold kindFits at hf
  split at hf <;> try cases hf
  · cases v <;> first | rfl | exact hv.elim
  · cases v <;> first | rfl | exact hv.elim
  · cases v with
    | int z => rfl
    | bin r => exact hv.elim
    | tup fs => cases fs with
      | nil => rfl
      | cons _ _ => exact hv.elim
  · cases v with
    | int z => exact hv.elim
    | bin r => rfl
    | tup fs => cases fs with
      | nil => rfl
      | cons _ _ => exact hv.elim

theorem retInt_holds {o : Outcome Int} {v : BArg} (h : retInt o = .ok v) : RKind.holds .int v := by
  cases o <;> simp [retInt, Outcome.map, Outcome.bind] at h; subst h; trivial
theorem liftInt_holds {o : Outcome Int} {v : BArg} (h : liftInt o = .ok v) : RKind.holds .int v := by
  cases o <;> simp [liftInt, Outcome.map, Outcome.bind] at h; subst h; trivial
theorem retBin_holds {o : Outcome QM.Bytes.Rope} {v : BArg} (h : retBin o = .ok v) : RKind.holds .bin v := by
  cases o <;> simp [retBin, Outcome.map, Outcome.bind] at h; subst h; trivial
theorem retOptBin_holds {o : Outcome (Option QM.Bytes.Rope)} {v : BArg} (h : retOptBin o = .ok v) :
    RKind.holds .binOrNil v := by
  cases o with
  | ok x => cases x <;> simp [retOptBin, Outcome.map, Outcome.bind, BArg.nil] at h <;> subst h <;> trivial
  | err e => simp [retOptBin, Outcome.map, Outcome.bind] at h
  | panic => simp [retOptBin, Outcome.map, Outcome.bind] at h
theorem retOptInt_holds {o : Outcome (Option Int)} {v : BArg} (h : retOptInt o = .ok v) :
    RKind.holds .intOrNil v := by
  cases o with
  | ok x => cases x <;> simp [retOptInt, Outcome.map, Outcome.bind, BArg.nil] at h <;> subst h <;> trivial
  | err e => simp [retOptInt, Outcome.map, Outcome.bind] at h
  | panic => simp [retOptInt, Outcome.map, Outcome.bind] at h
theorem retOptNat_holds {o : Outcome (Option Nat)} {v : BArg} (h : retOptNat o = .ok v) :
    RKind.holds .intOrNil v := by
  cases o with
  | ok x => cases x <;> simp [retOptNat, Outcome.map, Outcome.bind, BArg.nil] at h <;> subst h <;> trivial
  | err e => simp [retOptNat, Outcome.map, Outcome.bind] at h
  | panic => simp [retOptNat, Outcome.map, Outcome.bind] at h

/-- a successful result of a modelled builtin has the kind the model's signature table states -/
theorem callBuiltin_result_kind (name : String) (arg v : BArg) (p : PKind) (k : RKind)
    (hs : modelSig name = some (p, k)) (h : callBuiltin name arg = some (.ok v)) : k.holds v := by
  unfold modelSig at hs
  split at hs <;> (try cases hs)
  all_goals
    first
      | exact liftInt_holds (Option.some.inj h)
      | exact retInt_holds (Option.some.inj h)
      | exact retBin_holds (Option.some.inj h)
      | exact retOptBin_holds (Option.some.inj h)
      | exact retOptInt_holds (Option.some.inj h)
      | exact retOptNat_holds (Option.some.inj h)

end QM.Builtins
