import QuiverModel.Lemmas.Builtins.Bits
/-
`binary_shift`: refinement of the flat algorithm and its numeric meaning (the whole string read as
one big-endian number is multiplied / divided by `2^|amount|`). Owner: C12.
-/
namespace QM.Builtins
open QM.Bytes QM.Bytes.Rope QM.Builtins.Spec

@[simp] theorem length_shlBits (k : Nat) (xs : List UInt8) : (shlBits k xs).1.length = xs.length := by
  induction xs with
  | nil => rfl
  | cons x xs ih => simp [shlBits, ih]

@[simp] theorem length_shrBits (k : Nat) (xs : List UInt8) (c : UInt8) :
    (shrBits k xs c).length = xs.length := by
  induction xs generalizing c with
  | nil => rfl
  | cons x xs ih => simp [shrBits, ih]

theorem length_shiftBytes (v : List UInt8) (amt : Int) : (shiftBytes v amt).length = v.length := by
  unfold shiftBytes
  simp only
  split
  · rfl
  · split
    · simp
    · rename_i h0 hb
      have : amt.natAbs / 8 < v.length := by omega
      split <;> split <;> simp <;> omega

/-! the five cases of the flat algorithm -/
theorem shiftBytes_zero (v : List UInt8) : shiftBytes v 0 = v := by simp [shiftBytes]

theorem shiftBytes_big {v : List UInt8} {amt : Int} (h0 : amt ≠ 0) (hb : amt.natAbs ≥ 8 * v.length) :
    shiftBytes v amt = List.replicate v.length 0 := by
  unfold shiftBytes; simp only; rw [if_neg h0, if_pos hb]

theorem shiftBytes_left_aligned {v : List UInt8} {amt : Int} (hp : amt > 0)
    (hb : ¬ amt.natAbs ≥ 8 * v.length) (hk : amt.natAbs % 8 = 0) :
    shiftBytes v amt = v.drop (amt.natAbs / 8) ++ List.replicate (amt.natAbs / 8) 0 := by
  unfold shiftBytes; simp only; rw [if_neg (by omega), if_neg hb, if_pos hp, if_pos hk]

theorem shiftBytes_left_bits {v : List UInt8} {amt : Int} (hp : amt > 0)
    (hb : ¬ amt.natAbs ≥ 8 * v.length) (hk : ¬ amt.natAbs % 8 = 0) :
    shiftBytes v amt = (shlBits (amt.natAbs % 8) (v.drop (amt.natAbs / 8))).1 ++
      List.replicate (amt.natAbs / 8) 0 := by
  unfold shiftBytes; simp only; rw [if_neg (by omega), if_neg hb, if_pos hp, if_neg hk]

theorem shiftBytes_right_aligned {v : List UInt8} {amt : Int} (hp : amt < 0)
    (hb : ¬ amt.natAbs ≥ 8 * v.length) (hk : amt.natAbs % 8 = 0) :
    shiftBytes v amt = List.replicate (amt.natAbs / 8) 0 ++ v.take (v.length - amt.natAbs / 8) := by
  unfold shiftBytes; simp only; rw [if_neg (by omega), if_neg hb, if_neg (by omega), if_pos hk]

theorem shiftBytes_right_bits {v : List UInt8} {amt : Int} (hp : amt < 0)
    (hb : ¬ amt.natAbs ≥ 8 * v.length) (hk : ¬ amt.natAbs % 8 = 0) :
    shiftBytes v amt = List.replicate (amt.natAbs / 8) 0 ++
      shrBits (amt.natAbs % 8) (v.take (v.length - amt.natAbs / 8)) 0 := by
  unfold shiftBytes; simp only; rw [if_neg (by omega), if_neg hb, if_neg (by omega), if_neg hk]

theorem binaryShift_refines {r : Rope} (hr : r.Stored) (amt : Int) :
    RefinesBin (binaryShift r amt) (Spec.binaryShift r.bytes amt) := by
  have hn := hr.length_le
  unfold binaryShift Spec.binaryShift toI64Int
  by_cases hf : FitsI64 amt
  · rw [if_pos hf, if_pos hf]; simp only [Outcome.bind]
    by_cases h0 : amt = 0
    · rw [if_pos h0, h0, shiftBytes_zero]; exact ⟨hr, rfl⟩
    · rw [if_neg h0, hr.1.toVec_eq]; simp only
      rw [umul_ok (by omega)]; simp only
      have hlen := length_shiftBytes r.bytes amt
      by_cases hb : amt.natAbs ≥ r.bytes.length * 8
      · rw [if_pos hb, shiftBytes_big h0 (by omega)]
        exact alloc_refines (by simpa using hn)
      · rw [if_neg hb]
        have hb' : ¬ amt.natAbs ≥ 8 * r.bytes.length := by omega
        have hbs : amt.natAbs / 8 < r.bytes.length := by omega
        by_cases hpos : amt > 0
        · rw [if_pos hpos, Nat.min_eq_left (by omega)]
          by_cases hk : amt.natAbs % 8 = 0
          · rw [if_pos hk]
            rw [shiftBytes_left_aligned hpos hb' hk] at hlen ⊢
            exact alloc_refines (by omega)
          · rw [if_neg hk]
            rw [shiftBytes_left_bits hpos hb' hk] at hlen ⊢
            exact alloc_refines (by omega)
        · rw [if_neg hpos]
          have hneg : amt < 0 := by omega
          by_cases hk : amt.natAbs % 8 = 0
          · rw [if_pos hk, usub_ok (by omega)]; simp only
            rw [shiftBytes_right_aligned hneg hb' hk] at hlen ⊢
            exact alloc_refines (by omega)
          · rw [if_neg hk, Nat.min_eq_left (by omega)]
            rw [shiftBytes_right_bits hneg hb' hk] at hlen ⊢
            exact alloc_refines (by omega)
  · rw [if_neg hf, if_neg hf]; rfl

/-! ### numeric meaning -/

theorem toUInt8_toNat {k : Nat} (h : k < 256) : k.toUInt8.toNat = k := by
  simp [Nat.toUInt8]; omega

theorem toNat_shl (x : UInt8) {k : Nat} (hk : k < 8) : (x <<< k.toUInt8).toNat = (x.toNat * 2 ^ k) % 256 := by
  rw [UInt8.toNat_shiftLeft, toUInt8_toNat (by omega), Nat.mod_eq_of_lt hk, Nat.shiftLeft_eq]

theorem toNat_shr (x : UInt8) {k : Nat} (hk : k < 8) : (x >>> k.toUInt8).toNat = x.toNat / 2 ^ k := by
  rw [UInt8.toNat_shiftRight, toUInt8_toNat (by omega), Nat.mod_eq_of_lt hk, Nat.shiftRight_eq_div_pow]

theorem toNat_or_disjoint (a c : UInt8) (k q : Nat) (ha : a.toNat = q * 2 ^ k) (hc : c.toNat < 2 ^ k) :
    (a ||| c).toNat = a.toNat + c.toNat := by
  rw [UInt8.toNat_or, ha, ← Nat.shiftLeft_eq, Nat.shiftLeft_add_eq_or_of_lt hc]

/-- a byte shifted left by `k`, split into what stays and what is carried out -/
theorem byte_shl_split (x k : Nat) (hk1 : 1 ≤ k) (hk7 : k ≤ 7) :
    (x * 2 ^ k) % 256 = (x % 2 ^ (8 - k)) * 2 ^ k ∧ x * 2 ^ k = (x / 2 ^ (8 - k)) * 256 + (x * 2 ^ k) % 256 := by
  have h256 : 256 = 2 ^ (8 - k) * 2 ^ k := by
    rw [← Nat.pow_add, show 8 - k + k = 8 by omega]
  constructor
  · rw [h256, Nat.mul_mod_mul_right]
  · have := Nat.div_add_mod (x * 2 ^ k) 256
    have hd : x * 2 ^ k / 256 = x / 2 ^ (8 - k) := by
      rw [h256, Nat.mul_div_mul_right _ _ (Nat.pow_pos (by omega))]
    rw [hd] at this; omega

theorem shlBits_spec (k : Nat) (hk1 : 1 ≤ k) (hk7 : k ≤ 7) (xs : List UInt8) :
    (shlBits k xs).2.toNat * 256 ^ xs.length + beNat (shlBits k xs).1 = beNat xs * 2 ^ k ∧
      (shlBits k xs).2.toNat < 2 ^ k := by
  induction xs with
  | nil => simp [shlBits, beNat]
  | cons x xs ih =>
    obtain ⟨ih1, ih2⟩ := ih
    simp only [shlBits, beNat, List.length_cons, length_shlBits]
    obtain ⟨hs1, hs2⟩ := byte_shl_split x.toNat k hk1 hk7
    have hx := x.toNat_lt
    have hshl := toNat_shl x (show k < 8 by omega)
    have hshr := toNat_shr x (show 8 - k < 8 by omega)
    have hor := toNat_or_disjoint (x <<< k.toUInt8) (shlBits k xs).2 k (x.toNat % 2 ^ (8 - k))
      (by rw [hshl, hs1]) ih2
    rw [hor, hshl, hshr]
    constructor
    · rw [Nat.pow_succ]
      generalize (shlBits k xs).2.toNat = c at *
      generalize beNat (shlBits k xs).1 = Y at *
      generalize 256 ^ xs.length = B at *
      generalize beNat xs = X at *
      generalize x.toNat / 2 ^ (8 - k) = hi at *
      generalize x.toNat * 2 ^ k % 256 = lo at *
      have : (x.toNat * B + X) * 2 ^ k = x.toNat * 2 ^ k * B + X * 2 ^ k := by ring
      rw [this, hs2, ← ih1]; ring
    · have h28 : (2:Nat) ^ 8 = 2 ^ (8 - k) * 2 ^ k := by
        rw [← Nat.pow_add, show 8 - k + k = 8 by omega]
      apply Nat.div_lt_of_lt_mul; rw [← h28]; exact hx

theorem shrBits_spec (k : Nat) (hk1 : 1 ≤ k) (hk7 : k ≤ 7) (xs : List UInt8) (c : UInt8) (cin : Nat)
    (hc : c.toNat = cin * 2 ^ (8 - k)) (hcin : cin < 2 ^ k) :
    beNat (shrBits k xs c) = (cin * 256 ^ xs.length + beNat xs) / 2 ^ k := by
  induction xs generalizing c cin with
  | nil => simp [shrBits, beNat, Nat.div_eq_of_lt hcin]
  | cons x xs ih =>
    simp only [shrBits, beNat, List.length_cons, length_shrBits]
    have hx := x.toNat_lt
    have hshr := toNat_shr x (show k < 8 by omega)
    have hshl := toNat_shl x (show 8 - k < 8 by omega)
    obtain ⟨hs1, _⟩ := byte_shl_split x.toNat (8 - k) (by omega) (by omega)
    rw [show 8 - (8 - k) = k by omega] at hs1
    have h28 : (2:Nat) ^ 8 = 2 ^ k * 2 ^ (8 - k) := by
      rw [← Nat.pow_add, show k + (8 - k) = 8 by omega]
    have hsmall : (x >>> k.toUInt8).toNat < 2 ^ (8 - k) := by
      rw [hshr]; apply Nat.div_lt_of_lt_mul; rw [← h28]; exact hx
    have hor : (x >>> k.toUInt8 ||| c).toNat = (x >>> k.toUInt8).toNat + c.toNat := by
      rw [UInt8.or_comm, toNat_or_disjoint c (x >>> k.toUInt8) (8 - k) cin hc hsmall, Nat.add_comm]
    rw [hor, hshr, hc]
    rw [ih (x <<< (8 - k).toUInt8) (x.toNat % 2 ^ k) (by rw [hshl, hs1])
      (Nat.mod_lt _ (Nat.pow_pos (by omega)))]
    have hdm := Nat.div_add_mod x.toNat (2 ^ k)
    have h256 : 256 = 2 ^ (8 - k) * 2 ^ k := by
      rw [← Nat.pow_add, show 8 - k + k = 8 by omega]
    rw [Nat.pow_succ]
    generalize 256 ^ xs.length = B at *
    generalize beNat xs = X at *
    generalize hq : x.toNat / 2 ^ k = q at *
    generalize hr : x.toNat % 2 ^ k = r at *
    have : cin * (B * 256) + (x.toNat * B + X)
        = 2 ^ k * (B * (cin * 2 ^ (8 - k) + q)) + (r * B + X) := by
      rw [h256, ← hdm]; ring
    rw [this, Nat.mul_add_div (Nat.pow_pos (by omega))]; ring

theorem beNat_zeros_append (n : Nat) (xs : List UInt8) : beNat (List.replicate n 0 ++ xs) = beNat xs := by
  rw [beNat_append, beNat_replicate_zero]; simp

theorem beNat_append_zeros (n : Nat) (xs : List UInt8) :
    beNat (xs ++ List.replicate n 0) = beNat xs * 256 ^ n := by
  rw [beNat_append, beNat_replicate_zero]; simp

/-- left shift, common part: the kept bytes `D` (value `Dn`), shifted by `k` bits into `Ys` with
    carry `c`, then moved up by `bs` whole bytes -/
theorem shl_arith (N P Dn Ys c n bs k : Nat) (hbs : bs ≤ n)
    (hN : N = P * 256 ^ (n - bs) + Dn) (hY : Ys < 256 ^ (n - bs))
    (hc : c * 256 ^ (n - bs) + Ys = Dn * 2 ^ k) :
    (N * 2 ^ (8 * bs + k)) % 2 ^ (8 * n) = Ys * 256 ^ bs := by
  have hn : (256 : Nat) ^ n = 256 ^ (n - bs) * 256 ^ bs := by
    rw [← Nat.pow_add, show n - bs + bs = n by omega]
  rw [← pow256, Nat.pow_add, ← pow256, hN]
  have : (P * 256 ^ (n - bs) + Dn) * (256 ^ bs * 2 ^ k)
      = 256 ^ n * (P * 2 ^ k + c) + Ys * 256 ^ bs := by
    have h2 : Dn * 2 ^ k * 256 ^ bs = (c * 256 ^ (n - bs) + Ys) * 256 ^ bs := by rw [hc]
    rw [hn]
    have h3 : (P * 256 ^ (n - bs) + Dn) * (256 ^ bs * 2 ^ k)
        = P * 2 ^ k * (256 ^ (n - bs) * 256 ^ bs) + Dn * 2 ^ k * 256 ^ bs := by ring
    rw [h3, h2]; ring
  rw [this, Nat.mul_add_mod, Nat.mod_eq_of_lt]
  rw [hn]; exact Nat.mul_lt_mul_of_pos_right hY (Nat.pow_pos (by omega))

/-- **`binary_shift` computes the logical shift of the big-endian number** (for every amount,
    including |amount| ≥ 2^32 — the case broken before commit 90ea795). -/
theorem beNat_shiftBytes (v : List UInt8) (amt : Int) : beNat (shiftBytes v amt) = shiftValue v amt := by
  have hlt := beNat_lt v
  by_cases h0 : amt = 0
  · subst h0; rw [shiftBytes_zero]; unfold shiftValue
    simp only [ge_iff_le, Int.le_refl, if_true, Int.toNat_zero, Nat.pow_zero, Nat.mul_one]
    rw [← pow256, Nat.mod_eq_of_lt hlt]
  · by_cases hb : amt.natAbs ≥ 8 * v.length
    · rw [shiftBytes_big h0 hb, beNat_replicate_zero]; unfold shiftValue
      have hp : (2 : Nat) ^ amt.natAbs = 2 ^ (8 * v.length) * 2 ^ (amt.natAbs - 8 * v.length) := by
        rw [← Nat.pow_add, show 8 * v.length + (amt.natAbs - 8 * v.length) = amt.natAbs by omega]
      split
      · rw [show amt.toNat = amt.natAbs by omega, hp, ← Nat.mul_assoc, Nat.mul_comm (beNat v),
          Nat.mul_assoc, Nat.mul_mod_right]
      · rw [show (-amt).toNat = amt.natAbs by omega]
        symm; apply Nat.div_eq_of_lt
        rw [pow256] at hlt
        have : (2 : Nat) ^ (8 * v.length) ≤ 2 ^ amt.natAbs := Nat.pow_le_pow_right (by omega) hb
        omega
    · have hbs : amt.natAbs / 8 < v.length := by omega
      have hdm := Nat.div_add_mod amt.natAbs 8
      by_cases hpos : amt > 0
      · -- left
        have hsv : shiftValue v amt = (beNat v * 2 ^ (8 * (amt.natAbs / 8) + amt.natAbs % 8)) % 2 ^ (8 * v.length) := by
          unfold shiftValue; rw [if_pos (by omega), show amt.toNat = amt.natAbs by omega, hdm]
        have hsplit := beNat_split v (amt.natAbs / 8)
        have hD := beNat_lt (v.drop (amt.natAbs / 8))
        rw [List.length_drop] at hD
        by_cases hk : amt.natAbs % 8 = 0
        · rw [shiftBytes_left_aligned hpos hb hk, beNat_append_zeros, hsv]
          symm
          exact shl_arith _ _ _ _ 0 _ _ _ (by omega) hsplit hD (by rw [hk]; simp)
        · rw [shiftBytes_left_bits hpos hb hk, beNat_append_zeros, hsv]
          obtain ⟨hs1, hs2⟩ := shlBits_spec (amt.natAbs % 8) (by omega) (by omega) (v.drop (amt.natAbs / 8))
          have hY := beNat_lt (shlBits (amt.natAbs % 8) (v.drop (amt.natAbs / 8))).1
          rw [length_shlBits, List.length_drop] at hY
          rw [List.length_drop] at hs1
          symm
          exact shl_arith _ _ _ _ _ _ _ _ (by omega) hsplit hY hs1
      · -- right
        have hneg : amt < 0 := by omega
        have hsv : shiftValue v amt = beNat v / 256 ^ (amt.natAbs / 8) / 2 ^ (amt.natAbs % 8) := by
          unfold shiftValue; rw [if_neg (by omega), show (-amt).toNat = amt.natAbs by omega]
          conv => lhs; rw [← hdm]
          rw [Nat.pow_add, ← pow256, Nat.div_div_eq_div_mul]
        have hsplit := beNat_split v (v.length - amt.natAbs / 8)
        rw [show v.length - (v.length - amt.natAbs / 8) = amt.natAbs / 8 by omega] at hsplit
        have hR := beNat_lt (v.drop (v.length - amt.natAbs / 8))
        rw [List.length_drop, show v.length - (v.length - amt.natAbs / 8) = amt.natAbs / 8 by omega] at hR
        have hT : beNat v / 256 ^ (amt.natAbs / 8) = beNat (v.take (v.length - amt.natAbs / 8)) := by
          rw [hsplit, Nat.add_comm, Nat.add_mul_div_right _ _ (Nat.pow_pos (by omega)),
            Nat.div_eq_of_lt hR, Nat.zero_add]
        by_cases hk : amt.natAbs % 8 = 0
        · rw [shiftBytes_right_aligned hneg hb hk, beNat_zeros_append, hsv, hT, hk]; simp
        · rw [shiftBytes_right_bits hneg hb hk, beNat_zeros_append, hsv, hT,
            shrBits_spec (amt.natAbs % 8) (by omega) (by omega) _ 0 0 (by simp) (Nat.pow_pos (by omega))]
          simp
end QM.Builtins
