import QuiverModel.Lemmas.Builtins.Window
/-
Refinement of `binary_set` to the flat algorithm `Spec.setBytes`. Owner: C12.
-/
namespace QM.Builtins
open QM.Bytes QM.Bytes.Rope QM.Builtins.Spec

/-- the four ways `binary_set` reassembles the result rope all denote
    `take bo v ++ newBytes ++ drop last v` and stay within the size limit -/
theorem setAssemble_refines {r : Rope} (hr : r.Stored) (bo last : Nat) (newBytes : List UInt8)
    (h1 : bo < last) (h2 : last ≤ r.len) (hnb : newBytes.length = last - bo) :
    RefinesBin
      ((if bo = 0 ∧ last = r.len then Outcome.ok (Rope.owned newBytes)
        else if bo = 0 then
          (usub r.len last).bind fun rest =>
          match Rope.mkSlice r last rest with
          | some right => Rope.mkConcat (.owned newBytes) right
          | none => .panic
        else if last = r.len then
          match Rope.mkSlice r 0 bo with
          | some left => Rope.mkConcat left (.owned newBytes)
          | none => .panic
        else
          (usub r.len last).bind fun rest =>
          match Rope.mkSlice r 0 bo, Rope.mkSlice r last rest with
          | some left, some right =>
            (Rope.mkConcat left (.owned newBytes)).bind fun withMiddle =>
              Rope.mkConcat withMiddle right
          | _, _ => .panic).bind allocData)
      (.ok (r.bytes.take bo ++ newBytes ++ r.bytes.drop last)) := by
  have hl := hr.2; have he := hr.1.len_eq
  have hwn : (Rope.owned newBytes).WF := by simp only [WF]; omega
  have hln : (Rope.owned newBytes).len = last - bo := by simp only [len]; exact hnb
  by_cases hc1 : bo = 0 ∧ last = r.len
  · rw [if_pos hc1]; simp only [Outcome.bind]
    rw [allocData_ok (by simp only [len]; omega)]
    refine ⟨⟨hwn, by simp only [len]; omega⟩, ?_⟩
    obtain ⟨hb, hlast⟩ := hc1
    subst hb
    have hd : r.bytes.drop last = [] := List.drop_eq_nil_of_le (by omega)
    rw [hd]; simp [bytes]
  · rw [if_neg hc1]
    by_cases hc2 : bo = 0
    · rw [if_pos hc2, usub_ok h2]; simp only [Outcome.bind]
      obtain ⟨right, hs, hwr, hbr, hlr⟩ := mkSlice_some hr.1 (off := last) (l := r.len - last) (by omega)
      rw [hs]; simp only
      obtain ⟨c, hcc, hwc, hbc, hlc⟩ := mkConcat_ok hwn hwr (by omega)
      rw [hcc]; simp only
      rw [allocData_ok (by omega)]
      refine ⟨⟨hwc, by omega⟩, ?_⟩
      rw [hbc, hbr, hc2]; simp only [bytes, List.take_zero, List.nil_append]
      rw [List.take_of_length_le (by simp only [List.length_drop]; omega)]
    · rw [if_neg hc2]
      by_cases hc3 : last = r.len
      · rw [if_pos hc3]
        obtain ⟨left, hs, hwl, hbl, hll⟩ := mkSlice_some hr.1 (off := 0) (l := bo) (by omega)
        rw [hs]; simp only
        obtain ⟨c, hcc, hwc, hbc, hlc⟩ := mkConcat_ok hwl hwn (by omega)
        rw [hcc]; simp only [Outcome.bind]
        rw [allocData_ok (by omega)]
        refine ⟨⟨hwc, by omega⟩, ?_⟩
        have hd : r.bytes.drop last = [] := List.drop_eq_nil_of_le (by omega)
        rw [hbc, hbl, hd]; simp [bytes]
      · rw [if_neg hc3, usub_ok h2]; simp only [Outcome.bind]
        obtain ⟨left, hs1, hwl, hbl, hll⟩ := mkSlice_some hr.1 (off := 0) (l := bo) (by omega)
        obtain ⟨right, hs2, hwr, hbr, hlr⟩ := mkSlice_some hr.1 (off := last) (l := r.len - last) (by omega)
        rw [hs1, hs2]; simp only
        obtain ⟨c1, hcc1, hwc1, hbc1, hlc1⟩ := mkConcat_ok hwl hwn (by omega)
        rw [hcc1]; simp only
        obtain ⟨c2, hcc2, hwc2, hbc2, hlc2⟩ := mkConcat_ok hwc1 hwr (by omega)
        rw [hcc2]; simp only
        rw [allocData_ok (by omega)]
        refine ⟨⟨hwc2, by omega⟩, ?_⟩
        rw [hbc2, hbc1, hbl, hbr]; simp only [bytes, List.drop_zero]
        rw [List.take_of_length_le (l := List.drop last r.bytes) (by simp only [List.length_drop]; omega)]

theorem binarySet_refines {r : Rope} (hr : r.Stored) (bo bi value nb : Int) :
    RefinesBin (binarySet r bo bi value nb) (Spec.binarySet r.bytes bo bi value nb) := by
  have hn := hr.length_le; have he := hr.1.len_eq
  unfold binarySet Spec.binarySet
  rw [windowArgs_eq]
  by_cases hC : WindowArgsOK bo bi nb
  · rw [if_pos hC]; simp only [Outcome.bind]
    have hC' := hC
    obtain ⟨f1, f2, f3, h0, h1, h2, h3, h4⟩ := hC'
    by_cases hwin : 8 * bo.toNat + bi.toNat + nb.toNat ≤ 8 * r.bytes.length
    · have hlast := lastByteNeeded_eq hn (show bi.toNat ≤ 7 by omega) (show nb.toNat ≤ 64 by omega) hwin
      have hiw := (inWindow_iff hC).2 hwin
      rw [hlast, if_neg (by rw [he]; omega)]
      unfold toI64Int
      by_cases hfv : FitsI64 value
      · rw [if_pos hfv]; simp only
        have hpw : 0 < 2 ^ nb.toNat := Nat.pow_pos (by omega)
        by_cases hv : value < 0 ∨ value.toNat > 2 ^ nb.toNat - 1
        · rw [if_pos hv, if_neg (fun hd => by unfold SetDomain at hd; omega)]; rfl
        · rw [if_neg hv, if_pos ⟨hiw, by omega, by omega, by unfold FitsI64 at hfv; omega⟩]
          unfold setBytes; simp only
          generalize hL : (8 * bo.toNat + bi.toNat + nb.toNat + 7) / 8 = L
          have hL1 : bo.toNat < L := by omega
          have hL2 : L ≤ r.bytes.length := by omega
          have hL3 : 8 * L ≥ 8 * bo.toNat + bi.toNat + nb.toNat := by omega
          have hL4 : 8 * L < 8 * bo.toNat + bi.toNat + nb.toNat + 8 := by omega
          rw [usub_ok (by omega)]; simp only
          rw [readWide_eq hr.1 bo.toNat (L - bo.toNat) 0 0 0 (by simp) (by omega) (by omega)]
          simp only [Nat.zero_mul, Nat.zero_add, Nat.add_zero]
          rw [umul_ok (by omega)]; simp only
          rw [usub_ok (by omega)]; simp only
          rw [usub_ok (by omega)]; simp only
          rw [if_neg (by omega)]
          have := setAssemble_refines hr bo.toNat L
            (beBytes (L - bo.toNat)
              (beNat (List.take (L - bo.toNat) (List.drop bo.toNat r.bytes)) &&&
                  340282366920938463463374607431768211456 - 1 -
                    (2 ^ nb.toNat - 1) * 2 ^ ((L - bo.toNat) * 8 - bi.toNat - nb.toNat) %
                      340282366920938463463374607431768211456 |||
                value.toNat * 2 ^ ((L - bo.toNat) * 8 - bi.toNat - nb.toNat) %
                  340282366920938463463374607431768211456))
            hL1 (by omega) (by simp)
          exact this
      · rw [if_neg hfv]; simp only
        rw [if_neg (fun hd => by unfold SetDomain at hd; unfold FitsI64 at hfv; omega)]; rfl
    · have hgt := (lastByteNeeded_gt_iff hn (show bi.toNat ≤ 7 by omega) (show nb.toNat ≤ 64 by omega)
        (bo := bo.toNat)).2 (by omega)
      rw [if_pos (by rw [he]; exact hgt),
        if_neg (fun hd => hwin ((inWindow_iff hC).1 hd.1))]; rfl
  · rw [if_neg hC]; simp only [Outcome.bind]
    rw [if_neg (fun hd => hC (inWindow_argsOK hn hd.1))]; rfl

end QM.Builtins
