import QuiverModel.Lemmas.Builtins.Window
/-
Refinement of `binary_set` to the flat algorithm `Spec.setBytes`. Owner: C12.
-/
namespace QM.Builtins
open QM.Bytes QM.Bytes.Rope QM.Builtins.Spec

/-- the four ways `binary_set` reassembles the result rope all denote
    `take bo v ++ newBytes ++ drop last v` and stay within the size limit -/
theorem setAssemble_refines {r : Rope} (hr : r.Stored) (bo last : Nat) (newBytes : List UInt8)
    (h1 : bo < last) (h2 : last ≤ r.len) (hnb : newBytes.length = last - bo) :
    RefinesBin
      ((if bo = 0 ∧ last = r.len then Outcome.ok (Rope.owned newBytes)
        else if bo = 0 then
          (usub r.len last).bind fun rest =>
          match Rope.mkSlice r last rest with
          | some right => Rope.mkConcat (.owned newBytes) right
          | none => .panic
        else if last = r.len then
          match Rope.mkSlice r 0 bo with
          | some left => Rope.mkConcat left (.owned newBytes)
          | none => .panic
        else
          (usub r.len last).bind fun rest =>
          match Rope.mkSlice r 0 bo, Rope.mkSlice r last rest with
          | some left, some right =>
            (Rope.mkConcat left (.owned newBytes)).bind fun withMiddle =>
              Rope.mkConcat withMiddle right
          | _, _ => .panic).bind allocData)
      (.ok (r.bytes.take bo ++ newBytes ++ r.bytes.drop last)) := by
  have hl := hr.2; have he := hr.1.len_eq
  have hwn : (Rope.owned newBytes).WF := by simp only [WF]; omega
  have hln : (Rope.owned newBytes).len = last - bo := by simp only [len]; exact hnb
  by_cases hc1 : bo = 0 ∧ last = r.len
  · rw [if_pos hc1]; simp only [Outcome.bind]
    rw [allocData_ok (by simp only [len]; omega)]
    refine ⟨⟨hwn, by simp only [len]; omega⟩, ?_⟩
    obtain ⟨hb, hlast⟩ := hc1
    subst hb
    have hd : r.bytes.drop last = [] := List.drop_eq_nil_of_le (by omega)
    rw [hd]; simp [bytes]
  · rw [if_neg hc1]
    by_cases hc2 : bo = 0
    · rw [if_pos hc2, usub_ok h2]; simp only [Outcome.bind]
      obtain ⟨right, hs, hwr, hbr, hlr⟩ := mkSlice_some hr.1 (off := last) (l := r.len - last) (by omega)
      rw [hs]; simp only
      obtain ⟨c, hcc, hwc, hbc, hlc⟩ := mkConcat_ok hwn hwr (by omega)
      rw [hcc]; simp only
      rw [allocData_ok (by omega)]
      refine ⟨⟨hwc, by omega⟩, ?_⟩
      rw [hbc, hbr, hc2]; simp only [bytes, List.take_zero, List.nil_append]
      rw [List.take_of_length_le (by simp only [List.length_drop]; omega)]
    · rw [if_neg hc2]
      by_cases hc3 : last = r.len
      · rw [if_pos hc3]
        obtain ⟨left, hs, hwl, hbl, hll⟩ := mkSlice_some hr.1 (off := 0) (l := bo) (by omega)
        rw [hs]; simp only
        obtain ⟨c, hcc, hwc, hbc, hlc⟩ := mkConcat_ok hwl hwn (by omega)
        rw [hcc]; simp only [Outcome.bind]
        rw [allocData_ok (by omega)]
        refine ⟨⟨hwc, by omega⟩, ?_⟩
        have hd : r.bytes.drop last = [] := List.drop_eq_nil_of_le (by omega)
        rw [hbc, hbl, hd]; simp [bytes]
      · rw [if_neg hc3, usub_ok h2]; simp only [Outcome.bind]
        obtain ⟨left, hs1, hwl, hbl, hll⟩ := mkSlice_some hr.1 (off := 0) (l := bo) (by omega)
        obtain ⟨right, hs2, hwr, hbr, hlr⟩ := mkSlice_some hr.1 (off := last) (l := r.len - last) (by omega)
        rw [hs1, hs2]; simp only
        obtain ⟨c1, hcc1, hwc1, hbc1, hlc1⟩ := mkConcat_ok hwl hwn (by omega)
        rw [hcc1]; simp only
        obtain ⟨c2, hcc2, hwc2, hbc2, hlc2⟩ := mkConcat_ok hwc1 hwr (by omega)
        rw [hcc2]; simp only
        rw [allocData_ok (by omega)]
        refine ⟨⟨hwc2, by omega⟩, ?_⟩
        rw [hbc2, hbc1, hbl, hbr]; simp only [bytes, List.drop_zero]
        rw [List.take_of_length_le (l := List.drop last r.bytes) (by simp only [List.length_drop]; omega)]

theorem binarySet_refines {r : Rope} (hr : r.Stored) (bo bi value nb : Int) :
    RefinesBin (binarySet r bo bi value nb) (Spec.binarySet r.bytes bo bi value nb) := by
  have hn := hr.length_le; have he := hr.1.len_eq
  unfold binarySet Spec.binarySet
  rw [windowArgs_eq]
  by_cases hC : WindowArgsOK bo bi nb
  · rw [if_pos hC]; simp only [Outcome.bind]
    have hC' := hC
    obtain ⟨f1, f2, f3, h0, h1, h2, h3, h4⟩ := hC'
    by_cases hwin : 8 * bo.toNat + bi.toNat + nb.toNat ≤ 8 * r.bytes.length
    · have hlast := lastByteNeeded_eq hn (show bi.toNat ≤ 7 by omega) (show nb.toNat ≤ 64 by omega) hwin
      have hiw := (inWindow_iff hC).2 hwin
      rw [hlast, if_neg (by rw [he]; omega)]
      unfold toI64Int
      by_cases hfv : FitsI64 value
      · rw [if_pos hfv]; simp only
        have hpw : 0 < 2 ^ nb.toNat := Nat.pow_pos (by omega)
        by_cases hv : value < 0 ∨ value.toNat > 2 ^ nb.toNat - 1
        · rw [if_pos hv, if_neg (fun hd => by unfold SetDomain at hd; omega)]; rfl
        · rw [if_neg hv, if_pos ⟨hiw, by omega, by omega, by unfold FitsI64 at hfv; omega⟩]
          unfold setBytes; simp only
          generalize hL : (8 * bo.toNat + bi.toNat + nb.toNat + 7) / 8 = L
          have hL1 : bo.toNat < L := by omega
          have hL2 : L ≤ r.bytes.length := by omega
          have hL3 : 8 * L ≥ 8 * bo.toNat + bi.toNat + nb.toNat := by omega
          have hL4 : 8 * L < 8 * bo.toNat + bi.toNat + nb.toNat + 8 := by omega
          rw [usub_ok (by omega)]; simp only
          rw [readWide_eq hr.1 bo.toNat (L - bo.toNat) 0 0 0 (by simp) (by omega) (by omega)]
          simp only [Nat.zero_mul, Nat.zero_add, Nat.add_zero]
          rw [umul_ok (by omega)]; simp only
          rw [usub_ok (by omega)]; simp only
          rw [usub_ok (by omega)]; simp only
          rw [if_neg (by omega)]
          have := setAssemble_refines hr bo.toNat L
            (beBytes (L - bo.toNat)
              (beNat (List.take (L - bo.toNat) (List.drop bo.toNat r.bytes)) &&&
                  340282366920938463463374607431768211456 - 1 -
                    (2 ^ nb.toNat - 1) * 2 ^ ((L - bo.toNat) * 8 - bi.toNat - nb.toNat) %
                      340282366920938463463374607431768211456 |||
                value.toNat * 2 ^ ((L - bo.toNat) * 8 - bi.toNat - nb.toNat) %
                  340282366920938463463374607431768211456))
            hL1 (by omega) (by simp)
          exact this
      · rw [if_neg hfv]; simp only
        rw [if_neg (fun hd => by unfold SetDomain at hd; unfold FitsI64 at hfv; omega)]; rfl
    · have hgt := (lastByteNeeded_gt_iff hn (show bi.toNat ≤ 7 by omega) (show nb.toNat ≤ 64 by omega)
        (bo := bo.toNat)).2 (by omega)
      rw [if_pos (by rw [he]; exact hgt),
        if_neg (fun hd => hwin ((inWindow_iff hC).1 hd.1))]; rfl
  · rw [if_neg hC]; simp only [Outcome.bind]
    rw [if_neg (fun hd => hC (inWindow_argsOK hn hd.1))]; rfl

/-! ### numeric meaning -/

/-- clearing an `nb`-bit window at bit `ba` of `cur` and or-ing in `V` replaces the field -/
theorem replace_field (cur V ba nb : Nat) (hcur : cur < 2 ^ 128) (hw : ba + nb ≤ 128) (hV : V < 2 ^ nb) :
    (cur &&& (2 ^ 128 - 1 - (2 ^ nb - 1) * 2 ^ ba)) ||| (V * 2 ^ ba)
      = 2 ^ ba * (2 ^ nb * (cur / 2 ^ (ba + nb)) + V) + cur % 2 ^ ba := by
  have hL : cur % 2 ^ ba < 2 ^ ba := Nat.mod_lt _ (Nat.pow_pos (by omega))
  have hfield : (2 ^ nb - 1) * 2 ^ ba < 2 ^ 128 := by
    have h1 : (2 ^ nb - 1) * 2 ^ ba < 2 ^ nb * 2 ^ ba :=
      Nat.mul_lt_mul_of_pos_right (by have := Nat.pow_pos (n := nb) (show 0 < 2 by omega); omega)
        (Nat.pow_pos (by omega))
    have h2 : 2 ^ nb * 2 ^ ba ≤ 2 ^ 128 := by
      rw [← Nat.pow_add]; exact Nat.pow_le_pow_right (by omega) (by omega)
    omega
  have hsub : 2 ^ 128 - 1 - (2 ^ nb - 1) * 2 ^ ba = 2 ^ 128 - ((2 ^ nb - 1) * 2 ^ ba + 1) := by omega
  apply Nat.eq_of_testBit_eq
  intro i
  rw [Nat.testBit_or, Nat.testBit_and, hsub, Nat.testBit_two_pow_sub_succ hfield,
    Nat.testBit_mul_two_pow, Nat.testBit_two_pow_sub_one, Nat.testBit_mul_two_pow,
    Nat.testBit_two_pow_mul_add _ hL, Nat.testBit_mod_two_pow]
  have hhi : ∀ j, 128 ≤ j → cur.testBit j = false := fun j hj =>
    Nat.testBit_lt_two_pow (Nat.lt_of_lt_of_le hcur (Nat.pow_le_pow_right (by omega) hj))
  by_cases h1 : i < ba
  · rw [if_pos h1]
    have : ¬ ba ≤ i := by omega
    by_cases h128 : i < 128
    · simp [h1, this, h128]
    · simp [h1, this, hhi i (by omega)]
  · rw [if_neg h1]
    have hge : ba ≤ i := by omega
    rw [Nat.add_comm (2 ^ nb * _) V, Nat.add_comm V, Nat.testBit_two_pow_mul_add _ hV,
      Nat.testBit_div_two_pow]
    by_cases h2 : i - ba < nb
    · rw [if_pos h2]; simp [hge, h2]
    · rw [if_neg h2]
      have hVf : V.testBit (i - ba) = false :=
        Nat.testBit_lt_two_pow (Nat.lt_of_lt_of_le hV (Nat.pow_le_pow_right (by omega) (by omega)))
      rw [show i - ba - nb + (ba + nb) = i by omega, hVf]
      by_cases h128 : i < 128
      · simp [hge, h2, h128]
      · simp [hge, h2, hhi i (by omega)]

/-- **`binary_set` writes the field**: the result denotes the old number with the `nb`-bit field
    at bit `8*bo + bi` replaced by `value` (and has the same length). -/
theorem beNat_setBytes (v : List UInt8) (bo bi value nb : Nat)
    (hwin : 8 * bo + bi + nb ≤ 8 * v.length) (hbi : bi ≤ 7) (h1 : 1 ≤ nb) (h64 : nb ≤ 64)
    (hV : value < 2 ^ nb) :
    beNat (setBytes v bo bi value nb)
      = beNat v - ((beNat v / 2 ^ (8 * v.length - (8 * bo + bi + nb))) % 2 ^ nb) *
            2 ^ (8 * v.length - (8 * bo + bi + nb))
          + value * 2 ^ (8 * v.length - (8 * bo + bi + nb)) := by
  unfold setBytes
  simp only
  generalize hL : (8 * bo + bi + nb + 7) / 8 = L
  have hL1 : bo < L := by omega
  have hL2 : L ≤ v.length := by omega
  have hL3 : 8 * L ≥ 8 * bo + bi + nb := by omega
  have hL4 : 8 * L < 8 * bo + bi + nb + 8 := by omega
  generalize hcnt : L - bo = cnt
  have hc9 : cnt ≤ 9 := by omega
  have hc1 : 1 ≤ cnt := by omega
  generalize hba : cnt * 8 - bi - nb = ba
  have hba' : ba + bi + nb = 8 * cnt := by omega
  -- the window value
  have hcur := beNat_lt ((v.drop bo).take cnt)
  rw [List.length_take, List.length_drop, Nat.min_eq_left (by omega)] at hcur
  generalize hcurdef : beNat ((v.drop bo).take cnt) = cur at *
  have h72 : (256 : Nat) ^ cnt ≤ 2 ^ 72 := by
    rw [pow256]; exact Nat.pow_le_pow_right (by omega) (by omega)
  have hcur128 : cur < 2 ^ 128 := by
    have : (2 : Nat) ^ 72 ≤ 2 ^ 128 := Nat.pow_le_pow_right (by omega) (by omega)
    omega
  have e128 : (340282366920938463463374607431768211456 : Nat) = 2 ^ 128 := by norm_num
  have hpnb : 0 < 2 ^ nb := Nat.pow_pos (by omega)
  have hbanb : (2 : Nat) ^ nb * 2 ^ ba ≤ 2 ^ 128 := by
    rw [← Nat.pow_add]; exact Nat.pow_le_pow_right (by omega) (by omega)
  have hf1 : (2 ^ nb - 1) * 2 ^ ba < 2 ^ 128 := by
    have : (2 ^ nb - 1) * 2 ^ ba < 2 ^ nb * 2 ^ ba :=
      Nat.mul_lt_mul_of_pos_right (by omega) (Nat.pow_pos (by omega))
    omega
  have hf2 : value * 2 ^ ba < 2 ^ 128 := by
    have : value * 2 ^ ba < 2 ^ nb * 2 ^ ba := Nat.mul_lt_mul_of_pos_right hV (Nat.pow_pos (by omega))
    omega
  rw [e128, Nat.mod_eq_of_lt hf1, Nat.mod_eq_of_lt hf2,
    replace_field cur value ba nb hcur128 (by omega) hV]
  -- decomposition of the window value
  generalize hH : cur / 2 ^ (ba + nb) = H
  generalize hLo : cur % 2 ^ ba = Lo
  have hLo_lt : Lo < 2 ^ ba := by rw [← hLo]; exact Nat.mod_lt _ (Nat.pow_pos (by omega))
  have hq : cur / 2 ^ ba = 2 ^ nb * H + (cur / 2 ^ ba) % 2 ^ nb := by
    rw [← hH, Nat.pow_add, ← Nat.div_div_eq_div_mul]; exact (Nat.div_add_mod _ _).symm
  generalize hold : (cur / 2 ^ ba) % 2 ^ nb = old at hq
  have hcurdec : cur = 2 ^ ba * (2 ^ nb * H + old) + Lo := by
    rw [← hq, ← hLo]; exact (Nat.div_add_mod _ _).symm
  -- the new window value fits `cnt` bytes
  have hHlt : H < 2 ^ (bi) := by
    rw [← hH]; apply Nat.div_lt_of_lt_mul
    rw [← Nat.pow_add, show ba + nb + bi = 8 * cnt by omega, ← pow256]; exact hcur
  have hnew_lt : 2 ^ ba * (2 ^ nb * H + value) + Lo < 256 ^ cnt := by
    have h256 : (256 : Nat) ^ cnt = 2 ^ ba * (2 ^ nb * 2 ^ bi) := by
      rw [pow256, ← Nat.pow_add, ← Nat.pow_add]; congr 1; omega
    have ha : 2 ^ nb * H + value < 2 ^ nb * 2 ^ bi := by
      have : 2 ^ nb * (H + 1) ≤ 2 ^ nb * 2 ^ bi := Nat.mul_le_mul_left _ hHlt
      rw [Nat.mul_succ] at this; omega
    have hb : 2 ^ ba * (2 ^ nb * H + value + 1) ≤ 2 ^ ba * (2 ^ nb * 2 ^ bi) := Nat.mul_le_mul_left _ ha
    rw [Nat.mul_succ] at hb; omega
  -- value of the result
  have hout : beNat (v.take bo ++ beBytes cnt (2 ^ ba * (2 ^ nb * H + value) + Lo) ++ v.drop L)
      = beNat (v.take bo) * 256 ^ (v.length - bo)
        + (2 ^ ba * (2 ^ nb * H + value) + Lo) * 256 ^ (v.length - L) + beNat (v.drop L) := by
    rw [List.append_assoc, beNat_append, beNat_append, beNat_beBytes_of_lt hnew_lt]
    simp only [List.length_append, length_beBytes, List.length_drop]
    rw [show cnt + (v.length - L) = v.length - bo by omega]; ring
  rw [hout]
  -- value of the argument
  have hsplit1 := beNat_split v bo
  have hsplit2 := beNat_split (v.drop bo) cnt
  rw [List.length_drop, List.drop_drop, hcurdef, show bo + cnt = L by omega,
    show v.length - bo - cnt = v.length - L by omega] at hsplit2
  have hv : beNat v = beNat (v.take bo) * 256 ^ (v.length - bo) + cur * 256 ^ (v.length - L)
      + beNat (v.drop L) := by rw [hsplit1, hsplit2]; ring
  -- the old field, read from the whole number
  have hsh : 8 * v.length - (8 * bo + bi + nb) = 8 * (v.length - bo - cnt) + ba := by omega
  have hwa := window_arith v bo cnt ba nb (by omega) (by omega) h64
  rw [hcurdef] at hwa
  have e64 : (18446744073709551616 : Nat) = 2 ^ 64 := by norm_num
  rw [e64, Nat.mod_mod_of_dvd _ (Nat.pow_dvd_pow 2 h64), hold] at hwa
  rw [hsh, hwa, show v.length - bo - cnt = v.length - L by omega, Nat.pow_add, ← pow256, hv, hcurdec]
  generalize beNat (v.take bo) * 256 ^ (v.length - bo) = X
  generalize beNat (v.drop L) = S
  generalize (256 : Nat) ^ (v.length - L) = B
  generalize (2 : Nat) ^ ba = E
  generalize (2 : Nat) ^ nb = Q
  have h1 : X + (E * (Q * H + old) + Lo) * B + S = (X + (E * (Q * H) + Lo) * B + S) + old * (B * E) := by ring
  rw [h1, Nat.add_sub_cancel]; ring
end QM.Builtins
