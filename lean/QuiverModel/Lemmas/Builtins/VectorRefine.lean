import QuiverModel.Lemmas.Builtins.Bits
/-
Refinement of the packed-vector kernels to the lane-level reference specifications. Owner: C12.
-/
namespace QM.Builtins
open QM.Bytes QM.Bytes.Rope QM.Builtins.Spec

theorem materialize_eq {r : Rope} (h : r.WF) : materialize r = .ok (r.bytes, .owned r.bytes) := by
  cases r <;> (simp [materialize, h.toVec_eq, Outcome.bind]; try rfl)

theorem flat_eq {r : Rope} (h : r.WF) : flat r = .ok r.bytes := by
  unfold flat; rw [materialize_eq h]; rfl

theorem checkedWidth_eq (w : Int) :
    checkedWidth w = if WidthOK w then .ok w.toNat else .err .invalidArgument := by
  unfold checkedWidth toI64Int
  by_cases hw : WidthOK w
  · have hw' : w = 4 ∨ w = 8 := hw
    have hf : FitsI64 w := by unfold FitsI64; omega
    rw [if_pos hf, if_pos hw]; simp only [Outcome.bind]; rw [if_pos hw']
  · have hw' : ¬ (w = 4 ∨ w = 8) := hw
    rw [if_neg hw]
    by_cases hf : FitsI64 w
    · rw [if_pos hf]; simp only [Outcome.bind]; rw [if_neg hw']
    · rw [if_neg hf]; rfl

theorem widthOK_cases {w : Int} (h : WidthOK w) : w.toNat = 4 ∨ w.toNat = 8 := by
  unfold WidthOK at h; omega

theorem lane_eq {bytes : List UInt8} {w i : Nat} (hw : w = 4 ∨ w = 8)
    (hmax : bytes.length ≤ 16777216) (h : (i + 1) * w ≤ bytes.length) :
    lane bytes w i = .ok (laneAt w bytes i) := by
  unfold lane laneAt
  have h1 : i * w + w ≤ bytes.length := by rw [Nat.succ_mul] at h; exact h
  rw [umul_ok (by omega)]; simp only [Outcome.bind]
  rw [if_neg (by omega), uadd_ok (by omega)]; simp only
  rw [if_pos h1]

@[simp] theorem length_leBytes (n x : Nat) : (leBytes n x).length = n := by
  induction n generalizing x with
  | zero => rfl
  | succ n ih => simp [leBytes, ih]

@[simp] theorem length_pushLane (w : Nat) (v : Int) : (pushLane w v).length = w := by
  simp [pushLane]

theorem length_encode (w : Nat) (xs : List Int) : (encode w xs).length = xs.length * w := by
  induction xs with
  | nil => simp [encode]
  | cons x xs ih =>
    simp only [encode, List.flatMap_cons, List.length_append, length_pushLane, List.length_cons] at ih ⊢
    rw [ih, Nat.succ_mul]; omega

theorem laneOK4 (z : Int) : LaneOK 4 z ↔ (-2147483648 ≤ z ∧ z ≤ 2147483647) := by
  unfold LaneOK; norm_num; omega

theorem laneOK8 (z : Int) : LaneOK 8 z ↔ FitsI64 z := by
  unfold LaneOK FitsI64; norm_num; omega

theorem checked_filter {w : Nat} (hw : w = 4 ∨ w = 8) (f : Int → Int → Int) (x y : Int) :
    ((checked f x y).filter (fits w)) = if LaneOK w (f x y) then some (f x y) else none := by
  unfold checked fits
  rcases hw with hw | hw <;> subst hw
  · by_cases h1 : FitsI64 (f x y)
    · rw [if_pos h1]
      by_cases h2 : LaneOK 4 (f x y)
      · rw [if_pos h2]; simp [Option.filter, (laneOK4 _).1 h2]
      · rw [if_neg h2]
        have : ¬ (-2147483648 ≤ f x y ∧ f x y ≤ 2147483647) := fun h => h2 ((laneOK4 _).2 h)
        simp [Option.filter, this]
    · rw [if_neg h1, if_neg (fun h => h1 (by have := (laneOK4 _).1 h; unfold FitsI64; omega))]; rfl
  · by_cases h1 : FitsI64 (f x y)
    · rw [if_pos h1, if_pos ((laneOK8 _).2 h1)]; simp [Option.filter]
    · rw [if_neg h1, if_neg (fun h => h1 ((laneOK8 _).1 h))]; rfl

/-- the lane-wise results of lanes `i, …, i + fuel - 1` -/
def zipLanes (f : Int → Int → Int) (w : Nat) (a b : List UInt8) (i fuel : Nat) : List Int :=
  (List.range' i fuel).map fun j => f (laneAt w a j) (laneAt w b j)

theorem elementwiseLoop_eq (f : Int → Int → Int) {a b : List UInt8} {w : Nat} (hw : w = 4 ∨ w = 8)
    (ha : a.length ≤ 16777216) (hb : b.length ≤ 16777216) (fuel i : Nat)
    (hia : (i + fuel) * w ≤ a.length) (hib : (i + fuel) * w ≤ b.length) :
    elementwiseLoop (checked f) a b w fuel i =
      .ok (if ∀ z ∈ zipLanes f w a b i fuel, LaneOK w z then some (encode w (zipLanes f w a b i fuel))
        else none) := by
  induction fuel generalizing i with
  | zero => simp [elementwiseLoop, zipLanes, encode]
  | succ fuel ih =>
    have hmono : (i + 1) * w ≤ (i + (fuel + 1)) * w := Nat.mul_le_mul_right _ (by omega)
    simp only [elementwiseLoop]
    rw [lane_eq hw ha (by omega), lane_eq hw hb (by omega)]; simp only [Outcome.bind]
    rw [checked_filter hw]
    have hz : zipLanes f w a b i (fuel + 1) =
        f (laneAt w a i) (laneAt w b i) :: zipLanes f w a b (i + 1) fuel := by
      simp [zipLanes, List.range'_succ]
    rw [hz]
    by_cases hok : LaneOK w (f (laneAt w a i) (laneAt w b i))
    · rw [if_pos hok]; simp only
      rw [ih (i + 1) (by rw [show i + 1 + fuel = i + (fuel + 1) by omega]; exact hia)
        (by rw [show i + 1 + fuel = i + (fuel + 1) by omega]; exact hib)]
      simp only [Outcome.map, Outcome.bind]
      by_cases hall : ∀ z ∈ zipLanes f w a b (i + 1) fuel, LaneOK w z
      · rw [if_pos hall, if_pos (by intro z hz'; rcases List.mem_cons.mp hz' with h | h; · rw [h]; exact hok
                                    · exact hall z h)]
        simp [encode]
      · rw [if_neg hall, if_neg (fun h => hall (fun z hz' => h z (List.mem_cons_of_mem _ hz')))]
        rfl
    · rw [if_neg hok]; simp only
      rw [if_neg (fun h => hok (h _ (List.mem_cons_self ..)))]

theorem zipWith_lanes (f : Int → Int → Int) (w : Nat) (a b : List UInt8) (h : a.length = b.length) :
    List.zipWith f (lanes w a) (lanes w b) = zipLanes f w a b 0 (a.length / w) := by
  unfold lanes zipLanes
  rw [← h, List.zipWith_map, List.zipWith_self, List.range_eq_range']

theorem elementwise_refines (f : Int → Int → Int) {a b : Rope} (ha : a.Stored) (hb : b.Stored) (width : Int) :
    RefinesOptBin (elementwise (checked f) a b width) (Spec.elementwise f a.bytes b.bytes width) := by
  have hla := ha.length_le; have hlb := hb.length_le
  unfold elementwise Spec.elementwise
  rw [checkedWidth_eq]
  by_cases hw : WidthOK width
  · rw [if_pos hw, if_pos hw]; simp only [Outcome.bind]
    have hw' := widthOK_cases hw
    rw [flat_eq ha.1, flat_eq hb.1]; simp only
    by_cases hal : Aligned width.toNat a.bytes b.bytes
    · obtain ⟨h1, h2⟩ := hal
      rw [if_neg (by omega), if_pos ⟨h1, h2⟩]
      have hdiv : (0 + a.bytes.length / width.toNat) * width.toNat ≤ a.bytes.length := by
        rw [Nat.zero_add]; exact Nat.div_mul_le_self _ _
      rw [elementwiseLoop_eq f hw' hla hlb _ 0 hdiv (by rw [← h1]; exact hdiv)]
      simp only
      rw [zipWith_lanes f _ _ _ h1]
      by_cases hall : ∀ z ∈ zipLanes f width.toNat a.bytes b.bytes 0 (a.bytes.length / width.toNat), LaneOK width.toNat z
      · rw [if_pos hall, if_pos hall]; simp only
        have hlen : (encode width.toNat (zipLanes f width.toNat a.bytes b.bytes 0 (a.bytes.length / width.toNat))).length
            ≤ 16777216 := by
          rw [length_encode]; simp only [zipLanes, List.length_map, List.length_range']
          have := Nat.div_mul_le_self a.bytes.length width.toNat; omega
        have hr := alloc_refines hlen
        unfold alloc at hr ⊢
        rw [allocData_ok (by simpa [len] using hlen)] at hr ⊢
        exact hr
      · rw [if_neg hall, if_neg hall]; trivial
    · rw [if_pos (by unfold Aligned at hal; omega), if_neg hal]; trivial
  · rw [if_neg hw, if_neg hw]; rfl


/-! ### comparison masks -/

def maskLanes (pred : Int → Int → Bool) (w : Nat) (a b : List UInt8) (i fuel : Nat) : List UInt8 :=
  (List.range' i fuel).map fun j => if pred (laneAt w a j) (laneAt w b j) then (1 : UInt8) else 0

theorem compareLoop_eq (pred : Int → Int → Bool) {a b : List UInt8} {w : Nat} (hw : w = 4 ∨ w = 8)
    (ha : a.length ≤ 16777216) (hb : b.length ≤ 16777216) (fuel i : Nat)
    (hia : (i + fuel) * w ≤ a.length) (hib : (i + fuel) * w ≤ b.length) :
    compareLoop pred a b w fuel i = .ok (maskLanes pred w a b i fuel) := by
  induction fuel generalizing i with
  | zero => simp [compareLoop, maskLanes]
  | succ fuel ih =>
    have hmono : (i + 1) * w ≤ (i + (fuel + 1)) * w := Nat.mul_le_mul_right _ (by omega)
    simp only [compareLoop]
    rw [lane_eq hw ha (by omega), lane_eq hw hb (by omega)]; simp only [Outcome.bind]
    rw [ih (i + 1) (by rw [show i + 1 + fuel = i + (fuel + 1) by omega]; exact hia)
      (by rw [show i + 1 + fuel = i + (fuel + 1) by omega]; exact hib)]
    simp [Outcome.map, Outcome.bind, maskLanes, List.range'_succ]

theorem compare_refines (pred : Int → Int → Bool) {a b : Rope} (ha : a.Stored) (hb : b.Stored) (width : Int) :
    RefinesOptBin (compare pred a b width) (Spec.compare pred a.bytes b.bytes width) := by
  have hla := ha.length_le; have hlb := hb.length_le
  unfold compare Spec.compare
  rw [checkedWidth_eq]
  by_cases hw : WidthOK width
  · rw [if_pos hw, if_pos hw]; simp only [Outcome.bind]
    have hw' := widthOK_cases hw
    rw [flat_eq ha.1, flat_eq hb.1]; simp only
    by_cases hal : Aligned width.toNat a.bytes b.bytes
    · obtain ⟨h1, h2⟩ := hal
      rw [if_neg (by omega), if_pos ⟨h1, h2⟩]
      have hdiv : (0 + a.bytes.length / width.toNat) * width.toNat ≤ a.bytes.length := by
        rw [Nat.zero_add]; exact Nat.div_mul_le_self _ _
      rw [compareLoop_eq pred hw' hla hlb _ 0 hdiv (by rw [← h1]; exact hdiv)]
      simp only
      have hspec : List.zipWith (fun x y => if pred x y then (1 : UInt8) else 0)
          (lanes width.toNat a.bytes) (lanes width.toNat b.bytes)
          = maskLanes pred width.toNat a.bytes b.bytes 0 (a.bytes.length / width.toNat) := by
        unfold lanes maskLanes
        rw [← h1, List.zipWith_map, List.zipWith_self, List.range_eq_range']
      rw [hspec]
      have hlen : (maskLanes pred width.toNat a.bytes b.bytes 0 (a.bytes.length / width.toNat)).length
          ≤ 16777216 := by
        simp only [maskLanes, List.length_map, List.length_range']
        have := Nat.div_le_self a.bytes.length width.toNat; omega
      have hr := alloc_refines hlen
      unfold alloc at hr ⊢
      rw [allocData_ok (by simpa [len] using hlen)] at hr ⊢
      exact hr
    · rw [if_pos (by unfold Aligned at hal; omega), if_neg hal]; trivial
  · rw [if_neg hw, if_neg hw]; rfl

/-! ### gather -/

theorem length_takeChunks_le (w : Nat) (mask data : List UInt8) :
    (takeChunks w mask data).length ≤ data.length := by
  induction mask generalizing data with
  | nil => simp [takeChunks]
  | cons m ms ih =>
    simp only [takeChunks, List.length_append]
    have := ih (data.drop w)
    rw [List.length_drop] at this
    split
    · simp only [List.length_take]; omega
    · simp only [List.length_nil]; omega

theorem takeLoop_eq {data : List UInt8} {w : Nat} (hw : w = 4 ∨ w = 8) (hmax : data.length ≤ 16777216)
    (mask : List UInt8) (i : Nat) (h : (i + mask.length) * w ≤ data.length) :
    takeLoop data w mask i = .ok (takeChunks w mask (data.drop (i * w))) := by
  induction mask generalizing i with
  | nil => simp [takeLoop, takeChunks]
  | cons sel rest ih =>
    have hmono : (i + 1) * w ≤ (i + (rest.length + 1)) * w := Nat.mul_le_mul_right _ (by omega)
    have hsucc : (i + 1) * w = i * w + w := Nat.succ_mul _ _
    simp only [List.length_cons] at h
    have ih' := ih (i + 1) (by rw [show i + 1 + rest.length = i + (rest.length + 1) by omega]; exact h)
    simp only [takeLoop, takeChunks]
    have hdrop : List.drop w (List.drop (i * w) data) = List.drop ((i + 1) * w) data := by
      rw [List.drop_drop, hsucc]
    rw [hdrop]
    by_cases hs : sel ≠ 0
    · rw [if_pos hs, if_pos hs, umul_ok (by omega)]; simp only [Outcome.bind]
      rw [umul_ok (by omega)]; simp only
      rw [if_pos ⟨by omega, by omega⟩, ih']
      simp only [Outcome.map, Outcome.bind]
      rw [show (i + 1) * w - i * w = w by omega]
    · rw [if_neg hs, if_neg hs, ih']; simp

theorem vectorTake_refines {d m : Rope} (hd : d.Stored) (hm : m.Stored) (width : Int) :
    RefinesOptBin (vectorTake d width m) (Spec.vectorTake d.bytes width m.bytes) := by
  have hld := hd.length_le; have hlm := hm.length_le
  unfold vectorTake Spec.vectorTake
  rw [checkedWidth_eq]
  by_cases hw : WidthOK width
  · rw [if_pos hw, if_pos hw]; simp only [Outcome.bind]
    have hw' := widthOK_cases hw
    rw [flat_eq hd.1, flat_eq hm.1]; simp only
    by_cases hal : d.bytes.length % width.toNat = 0 ∧ m.bytes.length = d.bytes.length / width.toNat
    · rw [if_neg (by omega), if_pos hal]
      have hdiv : (0 + m.bytes.length) * width.toNat ≤ d.bytes.length := by
        rw [Nat.zero_add, hal.2]; exact Nat.div_mul_le_self _ _
      rw [takeLoop_eq hw' hld _ 0 hdiv]; simp only [Nat.zero_mul, List.drop_zero]
      have hlen : (takeChunks width.toNat m.bytes d.bytes).length ≤ 16777216 := by
        have := length_takeChunks_le width.toNat m.bytes d.bytes; omega
      have hr := alloc_refines hlen
      unfold alloc at hr ⊢
      rw [allocData_ok (by simpa [len] using hlen)] at hr ⊢
      exact hr
    · rw [if_pos (by omega), if_neg hal]; trivial
  · rw [if_neg hw, if_neg hw]; rfl

/-! ### get, push -/

theorem vectorGet_eq {r : Rope} (hr : r.Stored) (width index : Int) :
    vectorGet r width index = Spec.vectorGet r.bytes width index := by
  have hl := hr.length_le
  unfold vectorGet Spec.vectorGet
  rw [checkedWidth_eq]
  by_cases hw : WidthOK width
  · rw [if_pos hw, if_pos hw]; simp only [Outcome.bind]
    have hw' := widthOK_cases hw
    have hwpos : 0 < width.toNat := by omega
    rw [flat_eq hr.1]; simp only
    have hq : r.bytes.length / width.toNat ≤ r.bytes.length := Nat.div_le_self _ _
    by_cases hi : 0 ≤ index ∧ index < 18446744073709551616
    · rw [if_pos hi]
      by_cases hin : r.bytes.length % width.toNat = 0 ∧ index < (r.bytes.length / width.toNat : Nat)
      · have hlt : index.toNat < r.bytes.length / width.toNat := by omega
        have hmul : (index.toNat + 1) * width.toNat ≤ r.bytes.length := by
          have h1 : (index.toNat + 1) * width.toNat ≤ (r.bytes.length / width.toNat) * width.toNat :=
            Nat.mul_le_mul_right _ hlt
          have h2 := Nat.div_mul_le_self r.bytes.length width.toNat
          omega
        have hsa : satAdd index.toNat 1 = index.toNat + 1 := by unfold satAdd; rw [if_pos (by omega)]
        have hsm : satMul (index.toNat + 1) width.toNat = (index.toNat + 1) * width.toNat :=
          satMul_of_lt (by omega)
        rw [if_pos ⟨hin.1, by rw [hsa, hsm]; exact hmul⟩,
          if_pos ⟨hi.1, hin.1, hin.2⟩, lane_eq hw' hl hmul]; rfl
      · have hno : ¬ (r.bytes.length % width.toNat = 0 ∧
            satMul (satAdd index.toNat 1) width.toNat ≤ r.bytes.length) := by
          intro ⟨h1, h2⟩
          apply hin; refine ⟨h1, ?_⟩
          unfold satAdd at h2
          by_cases hs : index.toNat + 1 < 18446744073709551616
          · rw [if_pos hs, satMul_lt_iff (by omega)] at h2
            have := (Nat.le_div_iff_mul_le hwpos).2 h2
            omega
          · rw [if_neg hs] at h2
            unfold satMul at h2
            split at h2 <;> omega
        rw [if_neg hno, if_neg (fun h => hin ⟨h.2.1, h.2.2⟩)]
    · rw [if_neg hi, if_neg (fun h => hi ⟨h.1, by have := h.2.2; omega⟩)]
  · rw [if_neg hw, if_neg hw]; rfl

theorem laneOK_fits {w : Nat} (hw : w = 4 ∨ w = 8) (v : Int) :
    (FitsI64 v ∧ fits w v = true) ↔ LaneOK w v := by
  unfold fits
  rcases hw with hw | hw <;> subst hw
  · rw [laneOK4]; unfold FitsI64; simp; omega
  · rw [laneOK8]; simp

theorem vectorPush_refines {r : Rope} (hr : r.Stored) (width value : Int) :
    RefinesOptBin (vectorPush r width value) (Spec.vectorPush r.bytes width value) := by
  have hl := hr.length_le; have he := hr.1.len_eq; have hlen := hr.2
  unfold vectorPush Spec.vectorPush
  rw [checkedWidth_eq]
  by_cases hw : WidthOK width
  · rw [if_pos hw, if_pos hw]; simp only [Outcome.bind]
    have hw' := widthOK_cases hw
    by_cases hfit : FitsI64 value ∧ fits width.toNat value = true
    · rw [if_pos hfit]
      have hok := (laneOK_fits hw' value).1 hfit
      by_cases hrag : r.len % width.toNat ≠ 0
      · rw [if_pos hrag, if_neg (fun h => hrag (by rw [he]; exact h.2))]; trivial
      · rw [if_neg hrag, if_pos (show LaneOK width.toNat value ∧ r.bytes.length % width.toNat = 0 from
            ⟨hok, by rw [← he]; omega⟩)]
        have hwn : (Rope.owned (pushLane width.toNat value)).WF := by simp only [WF, length_pushLane]; omega
        by_cases hempty : r.len = 0
        · rw [if_pos hempty]; simp only
          rw [allocData_ok (by simp only [len, length_pushLane]; omega), if_pos (by omega)]
          simp only [Outcome.map, Outcome.bind]
          refine ⟨⟨hwn, by simp only [len, length_pushLane]; omega⟩, ?_⟩
          have : r.bytes = [] := List.eq_nil_of_length_eq_zero (by omega)
          rw [this]; rfl
        · rw [if_neg hempty]
          by_cases hsz : r.bytes.length + width.toNat ≤ 16777216
          · obtain ⟨c, hc, hwc, hbc, hlc⟩ := mkConcat_ok hr.1 hwn
              (by simp only [len, length_pushLane]; omega)
            simp only [len, length_pushLane] at hlc
            rw [hc]; simp only
            rw [allocData_ok (by omega), if_pos hsz]
            exact ⟨⟨hwc, by omega⟩, hbc⟩
          · have hpc : mkConcat r (.owned (pushLane width.toNat value)) =
                .ok (.concat r (.owned (pushLane width.toNat value)) (r.len + width.toNat)) := by
              unfold mkConcat; simp only [len, length_pushLane]; rw [uadd_ok (by omega)]
            rw [hpc]; simp only
            rw [allocData_err (by simp only [len]; omega), if_neg hsz]; rfl
    · rw [if_neg hfit, if_neg (fun h => hfit ((laneOK_fits hw' value).2 h.1))]; trivial
  · rw [if_neg hw, if_neg hw]; rfl

/-! ### reductions -/

theorem sumLoop_eq {bytes : List UInt8} {w : Nat} (hw : w = 4 ∨ w = 8) (hmax : bytes.length ≤ 16777216)
    (fuel i : Nat) (acc : Int) (h : (i + fuel) * w ≤ bytes.length) :
    sumLoop bytes w fuel i acc = .ok (acc + ((List.range' i fuel).map (laneAt w bytes)).sum) := by
  induction fuel generalizing i acc with
  | zero => simp [sumLoop]
  | succ fuel ih =>
    have hmono : (i + 1) * w ≤ (i + (fuel + 1)) * w := Nat.mul_le_mul_right _ (by omega)
    simp only [sumLoop]
    rw [lane_eq hw hmax (by omega)]; simp only [Outcome.bind]
    rw [ih (i + 1) _ (by rw [show i + 1 + fuel = i + (fuel + 1) by omega]; exact h)]
    simp [List.range'_succ, Int.add_assoc]

theorem vectorSum_eq {r : Rope} (hr : r.Stored) (width : Int) :
    vectorSum r width = Spec.vectorSum r.bytes width := by
  have hl := hr.length_le
  unfold vectorSum Spec.vectorSum
  rw [checkedWidth_eq]
  by_cases hw : WidthOK width
  · rw [if_pos hw, if_pos hw]; simp only [Outcome.bind]
    have hw' := widthOK_cases hw
    rw [flat_eq hr.1]; simp only
    by_cases hal : r.bytes.length % width.toNat = 0
    · rw [if_neg (by omega), if_pos hal]
      rw [sumLoop_eq hw' hl _ 0 0 (by rw [Nat.zero_add]; exact Nat.div_mul_le_self _ _)]
      simp [Outcome.map, Outcome.bind, lanes, List.range_eq_range']
    · rw [if_pos hal, if_neg hal]
  · rw [if_neg hw, if_neg hw]; rfl

theorem dotLoop_eq {a b : List UInt8} {w : Nat} (hw : w = 4 ∨ w = 8)
    (ha : a.length ≤ 16777216) (hb : b.length ≤ 16777216) (fuel i : Nat) (acc : Int)
    (hia : (i + fuel) * w ≤ a.length) (hib : (i + fuel) * w ≤ b.length) :
    dotLoop a b w fuel i acc = .ok (acc + (zipLanes (· * ·) w a b i fuel).sum) := by
  induction fuel generalizing i acc with
  | zero => simp [dotLoop, zipLanes]
  | succ fuel ih =>
    have hmono : (i + 1) * w ≤ (i + (fuel + 1)) * w := Nat.mul_le_mul_right _ (by omega)
    simp only [dotLoop]
    rw [lane_eq hw ha (by omega), lane_eq hw hb (by omega)]; simp only [Outcome.bind]
    rw [ih (i + 1) _ (by rw [show i + 1 + fuel = i + (fuel + 1) by omega]; exact hia)
      (by rw [show i + 1 + fuel = i + (fuel + 1) by omega]; exact hib)]
    simp [zipLanes, List.range'_succ, Int.add_assoc]

theorem vectorDot_eq {a b : Rope} (ha : a.Stored) (hb : b.Stored) (width : Int) :
    vectorDot a b width = Spec.vectorDot a.bytes b.bytes width := by
  have hla := ha.length_le; have hlb := hb.length_le
  unfold vectorDot Spec.vectorDot
  rw [checkedWidth_eq]
  by_cases hw : WidthOK width
  · rw [if_pos hw, if_pos hw]; simp only [Outcome.bind]
    have hw' := widthOK_cases hw
    rw [flat_eq ha.1, flat_eq hb.1]; simp only
    by_cases hal : Aligned width.toNat a.bytes b.bytes
    · obtain ⟨h1, h2⟩ := hal
      rw [if_neg (by omega), if_pos ⟨h1, h2⟩]
      have hdiv : (0 + a.bytes.length / width.toNat) * width.toNat ≤ a.bytes.length := by
        rw [Nat.zero_add]; exact Nat.div_mul_le_self _ _
      rw [dotLoop_eq hw' hla hlb _ 0 0 hdiv (by rw [← h1]; exact hdiv), zipWith_lanes _ _ _ _ h1]
      simp [Outcome.map, Outcome.bind]
    · rw [if_pos (by unfold Aligned at hal; omega), if_neg hal]
  · rw [if_neg hw, if_neg hw]; rfl

/-! ### encode / decode -/

theorem leNat_leBytes (n x : Nat) : leNat (leBytes n x) = x % 256 ^ n := by
  induction n generalizing x with
  | zero => simp [leBytes, leNat, Nat.mod_one]
  | succ n ih =>
    simp only [leBytes, leNat, ih]
    rw [toNat_ofNat_lt (Nat.mod_lt _ (by omega)), Nat.pow_succ, Nat.mul_comm (256 ^ n) 256, Nat.mod_mul]

/-- decoding an encoded lane gives the value back (two's complement round trip) -/
theorem signedOf_pushLane {w : Nat} (hw : w = 4 ∨ w = 8) {x : Int} (h : LaneOK w x) :
    signedOf (8 * w) (leNat (pushLane w x)) = x := by
  unfold pushLane signedOf
  rw [leNat_leBytes, ← pow256]
  unfold LaneOK at h
  rcases hw with hw | hw <;> subst hw <;> norm_num at h ⊢ <;> omega

theorem lanes_append {w : Nat} (hw : 0 < w) (a rest : List UInt8) (ha : a.length = w) :
    lanes w (a ++ rest) = signedOf (8 * w) (leNat a) :: lanes w rest := by
  unfold lanes
  rw [List.length_append, ha, Nat.add_div_left _ hw, List.range_succ_eq_map,
    List.map_cons, List.map_map]
  congr 1
  · unfold laneAt; simp [ha]
  · apply List.map_congr_left
    intro i _
    simp only [Function.comp, laneAt]
    have hi : i.succ * w = w + i * w := by rw [Nat.succ_mul, Nat.add_comm]
    rw [hi, ← List.drop_drop, List.drop_left' ha]

/-- **decode ∘ encode = id** on lane values that fit the width -/
theorem lanes_encode {w : Nat} (hw : w = 4 ∨ w = 8) (zs : List Int) (h : ∀ z ∈ zs, LaneOK w z) :
    lanes w (encode w zs) = zs := by
  induction zs with
  | nil => simp [encode, lanes]
  | cons z zs ih =>
    have hpos : 0 < w := by omega
    simp only [encode, List.flatMap_cons]
    rw [lanes_append hpos _ _ (length_pushLane w z), signedOf_pushLane hw (h z (by simp))]
    congr 1
    exact ih (fun y hy => h y (List.mem_cons_of_mem _ hy))
end QM.Builtins
