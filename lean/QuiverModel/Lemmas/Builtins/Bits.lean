import Mathlib.Tactic.Ring
import Mathlib.Tactic.Linarith
import QuiverModel.Lemmas.Builtins.Refine
/-
Number-level lemmas for the bit-window builtins (`binary_get`, `binary_set`, `binary_append`,
`binary_shift`): big-endian values of byte strings, the window arithmetic, the byte reader.
Owner: C12. (Imports the Mathlib tactics `ring`/`linarith` only.)
-/
namespace QM.Builtins
open QM.Bytes QM.Bytes.Rope QM.Builtins.Spec

theorem pow256 (m : Nat) : 256 ^ m = 2 ^ (8 * m) := by rw [Nat.pow_mul]

theorem toNat_ofNat_lt {x : Nat} (h : x < 256) : (UInt8.ofNat x).toNat = x := by
  simp; omega

theorem beNat_lt (v : List UInt8) : beNat v < 256 ^ v.length := by
  induction v with
  | nil => simp [beNat]
  | cons b bs ih =>
    have hb := b.toNat_lt
    simp only [beNat, List.length_cons, Nat.pow_succ]
    have : b.toNat * 256 ^ bs.length ≤ 255 * 256 ^ bs.length := Nat.mul_le_mul_right _ (by omega)
    omega

theorem beNat_append (a b : List UInt8) : beNat (a ++ b) = beNat a * 256 ^ b.length + beNat b := by
  induction a with
  | nil => simp [beNat]
  | cons x xs ih =>
    simp only [List.cons_append, beNat, ih, List.length_append, Nat.pow_add]; ring

theorem beNat_replicate_zero (n : Nat) : beNat (List.replicate n 0) = 0 := by
  induction n with
  | zero => rfl
  | succ n ih => simp [List.replicate_succ, beNat, ih]

/-- splitting a string at `k` -/
theorem beNat_split (v : List UInt8) (k : Nat) :
    beNat v = beNat (v.take k) * 256 ^ (v.length - k) + beNat (v.drop k) := by
  conv => lhs; rw [← List.take_append_drop k v]
  rw [beNat_append, List.length_drop]

@[simp] theorem length_beBytes (n x : Nat) : (beBytes n x).length = n := by
  induction n with
  | zero => rfl
  | succ n ih => simp [beBytes, ih]

/-- `n` big-endian bytes of `x` denote `x` modulo `256^n` -/
theorem beNat_beBytes (n x : Nat) : beNat (beBytes n x) = x % 256 ^ n := by
  induction n with
  | zero => simp [beBytes, beNat, Nat.mod_one]
  | succ n ih =>
    simp only [beBytes, beNat, length_beBytes, ih]
    rw [toNat_ofNat_lt (Nat.mod_lt _ (by omega)), Nat.mul_comm n 8, ← pow256, Nat.mod_pow_succ]; ring

theorem beNat_beBytes_of_lt {n x : Nat} (h : x < 256 ^ n) : beNat (beBytes n x) = x := by
  rw [beNat_beBytes, Nat.mod_eq_of_lt h]

/-- the byte reader of `binary_get/set` accumulates the big-endian value of the bytes it reads
    (no `u128` truncation for up to 16 bytes, no `unwrap` failure inside the content) -/
theorem readWide_eq {r : Rope} (h : r.WF) (bo fuel i w k : Nat)
    (hw : w < 256 ^ k) (hk : k + fuel ≤ 16) (hin : bo + i + fuel ≤ r.bytes.length) :
    readWide r bo fuel i w = .ok (w * 256 ^ fuel + beNat ((r.bytes.drop (bo + i)).take fuel)) := by
  induction fuel generalizing i w k with
  | zero => simp [readWide, beNat]
  | succ fuel ih =>
    have hlen := h.len_lt; have he := h.len_eq
    have hlt : bo + i < r.bytes.length := by omega
    simp only [readWide]
    rw [uadd_ok (by omega)]; simp only [Outcome.bind]
    rw [h.byteAt_eq, List.getElem?_eq_getElem hlt]; simp only
    have hle : k + 1 ≤ 16 := by omega
    have hk' : k + 1 + fuel ≤ 16 := by omega
    have hin' : bo + (i + 1) + fuel ≤ r.bytes.length := by omega
    have hb := (r.bytes[bo + i]).toNat_lt
    have hwn : w * 256 + (r.bytes[bo + i]).toNat < 256 ^ (k + 1) := by rw [Nat.pow_succ]; omega
    have hw' : w * 256 < 340282366920938463463374607431768211456 := by
      have h1 : w * 256 < 256 ^ (k + 1) := Nat.lt_of_le_of_lt (Nat.le_add_right _ _) hwn
      have h2 : (256 : Nat) ^ (k + 1) ≤ 256 ^ 16 := Nat.pow_le_pow_right (by decide) hle
      have h3 : (256 : Nat) ^ 16 = 340282366920938463463374607431768211456 := by norm_num
      rw [h3] at h2; exact Nat.lt_of_lt_of_le h1 h2
    rw [Nat.mod_eq_of_lt hw']
    rw [ih (i + 1) (w * 256 + (r.bytes[bo + i]).toNat) (k + 1) hwn hk' hin']
    rw [List.drop_eq_getElem_cons hlt, List.take_succ_cons]
    simp only [beNat, List.length_take, List.length_drop]
    rw [show bo + (i + 1) = bo + i + 1 by omega, Nat.min_eq_left (by omega), Nat.pow_succ]
    congr 1; ring

/-- `last_byte_needed > len` is exactly "the window sticks out" (also when `byte_offset * 8`
    does not fit a `usize`: the F4 half of commit 258da96) -/
theorem lastByteNeeded_gt_iff {n bo bi nb : Nat} (hn : n ≤ 16777216) (hbi : bi ≤ 7) (hnb : nb ≤ 64) :
    lastByteNeeded bo bi nb > n ↔ 8 * bo + bi + nb > 8 * n := by
  unfold lastByteNeeded
  split
  · split
    · omega
    · omega
  · omega

theorem lastByteNeeded_eq {n bo bi nb : Nat} (hn : n ≤ 16777216) (hbi : bi ≤ 7) (hnb : nb ≤ 64)
    (h : 8 * bo + bi + nb ≤ 8 * n) : lastByteNeeded bo bi nb = (8 * bo + bi + nb + 7) / 8 := by
  unfold lastByteNeeded
  rw [if_pos (by omega), if_pos (by omega)]; congr 1; omega

/-- the field read through the 9-byte window is the field of the whole number -/
theorem window_arith (v : List UInt8) (bo cnt ba nb : Nat)
    (h1 : bo + cnt ≤ v.length) (h2 : ba + nb ≤ 8 * cnt) (hnb : nb ≤ 64) :
    (beNat v / 2 ^ (8 * (v.length - bo - cnt) + ba)) % 2 ^ nb
      = ((beNat ((v.drop bo).take cnt) / 2 ^ ba) % 18446744073709551616) % 2 ^ nb := by
  have e64 : (18446744073709551616 : Nat) = 2 ^ 64 := by norm_num
  rw [e64, Nat.mod_mod_of_dvd _ (Nat.pow_dvd_pow 2 hnb)]
  -- v = P ++ W ++ S
  have hsplit1 := beNat_split v bo
  have hsplit2 := beNat_split (v.drop bo) cnt
  rw [List.length_drop, List.drop_drop] at hsplit2
  have hS := beNat_lt (v.drop (bo + cnt))
  rw [List.length_drop] at hS
  generalize beNat (v.take bo) = P at *
  generalize beNat ((v.drop bo).take cnt) = W at *
  generalize beNat (v.drop (bo + cnt)) = S at *
  generalize hm : v.length - bo - cnt = m at *
  have hm' : v.length - (bo + cnt) = m := by omega
  have hm'' : v.length - bo = cnt + m := by omega
  rw [hm''] at hsplit1
  -- beNat v = (P * 256^cnt + W) * 256^m + S
  have hv : beNat v = (P * 256 ^ cnt + W) * 256 ^ m + S := by
    rw [hsplit1, hsplit2, Nat.pow_add]; ring
  rw [hv, Nat.pow_add, ← Nat.div_div_eq_div_mul, ← pow256]
  have hpos : 0 < 256 ^ m := Nat.pow_pos (by omega)
  rw [hm'] at hS
  rw [Nat.add_comm _ S, Nat.add_mul_div_right _ _ hpos, Nat.div_eq_of_lt hS, Nat.zero_add]
  -- (P * 256^cnt + W) / 2^ba % 2^nb
  have hc : 256 ^ cnt = 2 ^ ba * (2 ^ nb * 2 ^ (8 * cnt - ba - nb)) := by
    rw [pow256, ← Nat.pow_add, ← Nat.pow_add]; congr 1; omega
  rw [hc, show P * (2 ^ ba * (2 ^ nb * 2 ^ (8 * cnt - ba - nb))) + W
        = 2 ^ ba * (2 ^ nb * (P * 2 ^ (8 * cnt - ba - nb))) + W by ring]
  rw [Nat.mul_add_div (Nat.pow_pos (by omega)), Nat.mul_add_mod]

end QM.Builtins
