import QuiverModel.Lemmas.Builtins.Bits
/-
Refinement of `binary_get` and `binary_append` (and the argument checks shared with
`binary_set`). Owner: C12.
-/
namespace QM.Builtins
open QM.Bytes QM.Bytes.Rope QM.Builtins.Spec

/-- the argument checks of `binary_get/set` as one condition -/
def WindowArgsOK (bo bi nb : Int) : Prop :=
  FitsI64 bo ∧ FitsI64 bi ∧ FitsI64 nb ∧ 0 ≤ bo ∧ 0 ≤ bi ∧ bi ≤ 7 ∧ 1 ≤ nb ∧ nb ≤ 64

instance (bo bi nb : Int) : Decidable (WindowArgsOK bo bi nb) := by unfold WindowArgsOK; exact inferInstance

theorem windowArgs_eq (bo bi nb : Int) : windowArgs bo bi nb =
    if WindowArgsOK bo bi nb then .ok (bo.toNat, bi.toNat, nb.toNat) else .err .invalidArgument := by
  unfold windowArgs toI64Int WindowArgsOK
  by_cases h1 : FitsI64 bo <;> by_cases h2 : FitsI64 bi <;> by_cases h3 : FitsI64 nb <;>
    simp only [h1, h2, h3, if_true, if_false, Outcome.bind, true_and, false_and]
  split <;> split <;> first | rfl | omega | (split <;> first | rfl | omega | (split <;> first | rfl | omega))

theorem inWindow_argsOK {n : Nat} (hn : n ≤ 16777216) {bo bi nb : Int} (h : InWindow n bo bi nb) :
    WindowArgsOK bo bi nb := by
  unfold InWindow at h; unfold WindowArgsOK FitsI64; omega

theorem inWindow_iff {n : Nat} {bo bi nb : Int} (h : WindowArgsOK bo bi nb) :
    InWindow n bo bi nb ↔ 8 * bo.toNat + bi.toNat + nb.toNat ≤ 8 * n := by
  unfold WindowArgsOK at h; unfold InWindow; omega

theorem binaryGet_eq {r : Rope} (hr : r.Stored) (bo bi nb : Int) :
    binaryGet r bo bi nb = Spec.binaryGet r.bytes bo bi nb := by
  have hn := hr.length_le; have he := hr.1.len_eq
  unfold binaryGet Spec.binaryGet
  rw [windowArgs_eq]
  by_cases hC : WindowArgsOK bo bi nb
  · rw [if_pos hC]; simp only [Outcome.bind]
    have hC' := hC
    obtain ⟨f1, f2, f3, h0, h1, h2, h3, h4⟩ := hC'
    by_cases hwin : 8 * bo.toNat + bi.toNat + nb.toNat ≤ 8 * r.bytes.length
    · have hlast := lastByteNeeded_eq hn (show bi.toNat ≤ 7 by omega) (show nb.toNat ≤ 64 by omega) hwin
      rw [hlast, if_neg (by rw [he]; omega), if_pos ((inWindow_iff hC).2 hwin)]
      generalize hL : (8 * bo.toNat + bi.toNat + nb.toNat + 7) / 8 = L
      have hL1 : bo.toNat < L := by omega
      have hL2 : L ≤ r.bytes.length := by omega
      have hL3 : 8 * L ≥ 8 * bo.toNat + bi.toNat + nb.toNat := by omega
      have hL4 : 8 * L < 8 * bo.toNat + bi.toNat + nb.toNat + 8 := by omega
      rw [usub_ok (by omega)]; simp only
      rw [readWide_eq hr.1 bo.toNat (L - bo.toNat) 0 0 0 (by simp) (by omega) (by omega)]
      simp only [Nat.zero_mul, Nat.zero_add, Nat.add_zero]
      rw [umul_ok (by omega)]; simp only
      rw [usub_ok (by omega)]; simp only
      rw [usub_ok (by omega)]; simp only
      rw [if_neg (by omega)]
      congr 2
      have := window_arith r.bytes bo.toNat (L - bo.toNat) ((L - bo.toNat) * 8 - bi.toNat - nb.toNat) nb.toNat
        (by omega) (by omega) (by omega)
      rw [← this]
      congr 3
      unfold bitsRight; omega
    · have hgt := (lastByteNeeded_gt_iff hn (show bi.toNat ≤ 7 by omega) (show nb.toNat ≤ 64 by omega)
        (bo := bo.toNat)).2 (by omega)
      rw [if_pos (by rw [he]; exact hgt), if_neg (fun hw => hwin ((inWindow_iff hC).1 hw))]
  · rw [if_neg hC]; simp only [Outcome.bind]
    rw [if_neg (fun hw => hC (inWindow_argsOK hn hw))]

theorem binaryAppend_refines {r : Rope} (hr : r.Stored) (value nb : Int) :
    RefinesBin (binaryAppend r value nb) (Spec.binaryAppend r.bytes value nb) := by
  have hn := hr.length_le; have he := hr.1.len_eq; have hl := hr.2
  unfold binaryAppend Spec.binaryAppend toI64Int
  by_cases h1 : FitsI64 nb
  · rw [if_pos h1]; simp only [Outcome.bind]
    by_cases h2 : 1 ≤ nb ∧ nb ≤ 8
    · rw [if_neg (by omega)]
      by_cases h3 : value < 0
      · rw [if_pos h3, if_neg (fun hd => by unfold AppendDomain at hd; omega)]; rfl
      · rw [if_neg h3]
        by_cases h4 : FitsI64 value
        · rw [if_pos h4]; simp only
          have hp : 0 < 2 ^ (nb.toNat * 8) := Nat.pow_pos (by omega)
          have hmax : (if nb.toNat = 8 then 18446744073709551615 else 2 ^ (nb.toNat * 8) - 1) < 2 ^ (nb.toNat * 8) := by
            split
            · rename_i h8; rw [h8]; norm_num
            · omega
          by_cases h5 : value.toNat > (if nb.toNat = 8 then 18446744073709551615 else 2 ^ (nb.toNat * 8) - 1)
          · rw [if_pos h5, if_neg]; · rfl
            intro hd; unfold AppendDomain at hd
            have hlt := hd.2.2.2.2.1; rw [Nat.mul_comm] at hlt
            split at h5
            · rename_i h8; rw [h8] at hlt; norm_num at hlt; unfold FitsI64 at h4; omega
            · omega
          · rw [if_neg h5]
            have hv : value.toNat < 2 ^ (8 * nb.toNat) := by
              rw [Nat.mul_comm]
              split at h5
              · rename_i h8; rw [h8]; norm_num; unfold FitsI64 at h4; omega
              · omega
            by_cases h6 : r.len + nb.toNat ≤ 16777216
            · obtain ⟨c, hc, hwf, hbytes, hlen⟩ :=
                mkConcat_ok hr.1 (r := .owned (beBytes nb.toNat value.toNat)) (by simp [WF]; omega)
                  (by simp only [len, length_beBytes]; omega)
              simp only [len, length_beBytes] at hlen
              rw [hc]; simp only; rw [allocData_ok (by omega)]
              rw [if_pos ⟨h2.1, h2.2, by omega, by unfold FitsI64 at h4; omega, hv, by omega⟩]
              exact ⟨⟨hwf, by omega⟩, hbytes⟩
            · have hpc : mkConcat r (.owned (beBytes nb.toNat value.toNat)) =
                  .ok (.concat r (.owned (beBytes nb.toNat value.toNat)) (r.len + nb.toNat)) := by
                unfold mkConcat; simp only [len, length_beBytes]; rw [uadd_ok (by omega)]
              rw [hpc]; simp only
              rw [allocData_err (by simp only [len]; omega),
                if_neg (fun hd => by unfold AppendDomain at hd; omega)]; rfl
        · rw [if_neg h4]; simp only
          rw [if_neg (fun hd => by unfold AppendDomain at hd; unfold FitsI64 at h4; omega)]; rfl
    · rw [if_pos (by omega), if_neg (fun hd => by unfold AppendDomain at hd; omega)]; rfl
  · rw [if_neg h1]; simp only [Outcome.bind]
    rw [if_neg (fun hd => by unfold AppendDomain at hd; unfold FitsI64 at h1; omega)]; rfl

end QM.Builtins
