import QuiverModel.Lemmas.VM.Shape
/-
Index renaming (owner: C07): `tree_shake` and the environment's merge renumber constants, tuples,
types, functions and builtins. `transfer_rename`: the checker's transfer function is invariant
under a consistent renaming.
-/
namespace QM.VM

/-- Index renaming of the five tables (as `tree_shake` and the environment's merge apply). -/
structure Renaming where
  const : Nat → Nat
  tuple : Nat → Nat
  type : Nat → Nat
  func : Nat → Nat
  builtin : Nat → Nat

/-- The instruction with its static indices renamed. -/
def Renaming.instr (ρ : Renaming) : Instr → Instr
  | .constant i => .constant (ρ.const i)
  | .tuple id => .tuple (ρ.tuple id)
  | .isType id => .isType (ρ.type id)
  | .function i => .function (ρ.func i)
  | .builtin i => .builtin (ρ.builtin i)
  | .process pid f => .process pid (ρ.func f)
  | i => i

/-- `P'` contains `P` under `ρ`: every index valid in `P` is mapped to a valid index of `P'` with
the same meaning (same tuple arity; the function at the new index is the renamed old function with
the same number of captures). -/
structure Renames (ρ : Renaming) (P P' : Prog) : Prop where
  const : ∀ i, i < P.constants.size → ρ.const i < P'.constants.size
  tuple : ∀ id a, P.tuples[id]? = some a → P'.tuples[ρ.tuple id]? = some a
  type : ∀ id, id < P.types → ρ.type id < P'.types
  func : ∀ i fn, P.functions[i]? = some fn →
    ∃ fn', P'.functions[ρ.func i]? = some fn' ∧ fn'.captures = fn.captures ∧
      fn'.instructions = fn.instructions.map ρ.instr
  builtin : ∀ i, i < P.builtins → ρ.builtin i < P'.builtins

theorem transfer_rename {ρ : Renaming} {P P' : Prog} (h : Renames ρ P P') {n caps pc : Nat} {a : Ann}
    {i : Instr} {succs : List (Nat × Ann)} (ht : transfer P n caps pc a i = .ok succs) :
    transfer P' n caps pc a (ρ.instr i) = .ok succs := by
  cases i with
  | constant k =>
    simp only [transfer, Renaming.instr] at ht ⊢
    split at ht <;> cases ht
    simp [h.const k (by assumption)]
  | tuple id =>
    simp only [transfer, Renaming.instr] at ht ⊢
    split at ht
    · cases ht
    · rename_i ar har
      rw [h.tuple id ar har]
      exact ht
  | isType id =>
    simp only [transfer, Renaming.instr] at ht ⊢
    split at ht
    · simp [h.type id (by assumption)]
      exact ht
    · cases ht
  | function k =>
    simp only [transfer, Renaming.instr] at ht ⊢
    split at ht
    · cases ht
    · rename_i fn hfn
      obtain ⟨fn', hfn', hc, _⟩ := h.func k fn hfn
      rw [hfn']
      simp only [hc]
      exact ht
  | builtin k =>
    simp only [transfer, Renaming.instr] at ht ⊢
    split at ht <;> cases ht
    simp [h.builtin k (by assumption)]
  | process q k =>
    simp only [transfer, Renaming.instr] at ht ⊢
    split at ht <;> cases ht
    rename_i hk
    have : P.functions[k]? = some P.functions[k] := by simp [hk]
    obtain ⟨fn', hfn', _, _⟩ := h.func k _ this
    have hlt : ρ.func k < P'.functions.size := (Array.getElem?_eq_some_iff.mp hfn').1
    simp [hlt]
  | tailCall r => cases r <;> (simp only [transfer, Renaming.instr] at ht ⊢; exact ht)
  | _ => simp only [transfer, Renaming.instr] at ht ⊢; exact ht

end QM.VM
