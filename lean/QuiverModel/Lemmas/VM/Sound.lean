import QuiverModel.Lemmas.VM.Shape
import QuiverModel.Core.VM.Inv
/-
Soundness of M-Check for M-VM — the bytecode-verifier argument (owner: C07; used by C16).

`inv_step`: one `transition` (any event, any well-formed oracle) from a state satisfying `Inv`
either is not enabled, or fails with a non-structural error, or leads to a state satisfying `Inv`.
`checkAnn_sound_full`: hence every state reachable from an entry state satisfies `Inv` and no
transition from it fails structurally. The pieces (`run_simple`, `run_call`, `run_tailCall`,
`run_spawn`, `run_select`, `run_pop`, `run_finish`, `ev_resume`, `ev_wake`, `ev_deliver`) are
exported for C16.
-/
namespace QM.VM
/-! ## Well-formedness API -/

theorem ValList.wf_iff {P : Prog} : (l : ValList) → (ValList.wf P l = true ↔ AllWF P l.toList)
  | .nil => by simp [ValList.wf, AllWF]
  | .cons v vs => by
    have ih := ValList.wf_iff (P := P) vs
    simp [ValList.wf, AllWF, ih]

theorem AllWF.nil {P : Prog} : AllWF P [] := by simp [AllWF]

@[simp] theorem AllWF.cons_iff {P : Prog} {v : Val} {l : List Val} :
    AllWF P (v :: l) ↔ v.wf P = true ∧ AllWF P l := by simp [AllWF]

@[simp] theorem AllWF.append_iff {P : Prog} {l l' : List Val} :
    AllWF P (l ++ l') ↔ AllWF P l ∧ AllWF P l' := by
  simp only [AllWF, List.mem_append]
  constructor
  · intro h; exact ⟨fun v hv => h v (Or.inl hv), fun v hv => h v (Or.inr hv)⟩
  · rintro ⟨h1, h2⟩ v (hv | hv)
    · exact h1 v hv
    · exact h2 v hv

theorem AllWF.sublist {P : Prog} {l l' : List Val} (hs : l'.Sublist l) (h : AllWF P l) : AllWF P l' :=
  fun v hv => h v (hs.subset hv)

theorem AllWF.take {P : Prog} {l : List Val} (n : Nat) (h : AllWF P l) : AllWF P (l.take n) :=
  h.sublist (List.take_sublist n l)

theorem AllWF.drop {P : Prog} {l : List Val} (n : Nat) (h : AllWF P l) : AllWF P (l.drop n) :=
  h.sublist (List.drop_sublist n l)

theorem AllWF.eraseIdx {P : Prog} {l : List Val} (n : Nat) (h : AllWF P l) : AllWF P (l.eraseIdx n) :=
  h.sublist (List.eraseIdx_sublist l n)

theorem AllWF.reverse {P : Prog} {l : List Val} (h : AllWF P l) : AllWF P l.reverse :=
  fun v hv => h v (List.mem_reverse.mp hv)

theorem AllWF.getElem? {P : Prog} {l : List Val} {n : Nat} {v : Val} (h : AllWF P l)
    (hv : l[n]? = some v) : v.wf P = true :=
  h v (List.mem_of_getElem? hv)

@[simp] theorem Val.wf_nil {P : Prog} : Val.nil.wf P = true := by simp [Val.nil, Val.wf, ValList.wf]
@[simp] theorem Val.wf_ok {P : Prog} : Val.ok.wf P = true := by simp [Val.ok, Val.wf, ValList.wf]

theorem Val.wf_tup {P : Prog} {id : Nat} {l : List Val} (h : AllWF P l) :
    (Val.tup id (ValList.ofList l)).wf P = true := by
  simp [Val.wf, ValList.wf_iff, h]

theorem Val.wf_fn {P : Prog} {i : Nat} {fn : Function} {l : List Val}
    (hfn : P.functions[i]? = some fn) (hlen : l.length = fn.captures) (h : AllWF P l) :
    (Val.fn i (ValList.ofList l)).wf P = true := by
  simp [Val.wf, ValList.wf_iff, h, hfn, hlen]

theorem Val.wf_fn_inv {P : Prog} {i : Nat} {caps : ValList} (h : (Val.fn i caps).wf P = true) :
    ∃ fn, P.functions[i]? = some fn ∧ caps.toList.length = fn.captures ∧ AllWF P caps.toList := by
  simp only [Val.wf, Bool.and_eq_true] at h
  obtain ⟨h1, h2⟩ := h
  split at h1
  · rename_i fn hfn
    exact ⟨fn, hfn, by simpa using h1, (ValList.wf_iff caps).mp h2⟩
  · cases h1

theorem Val.wf_tup_inv {P : Prog} {id : Nat} {els : ValList} (h : (Val.tup id els).wf P = true) :
    AllWF P els.toList := by
  simp only [Val.wf] at h
  exact (ValList.wf_iff els).mp h

theorem selectSources_wf {P : Prog} {v : Val} (h : v.wf P = true) : AllWF P (selectSources v) := by
  cases v with
  | tup id els => exact Val.wf_tup_inv h
  | _ => simp_all [selectSources, AllWF]

/-! ## Field lemmas for the process helpers -/

@[simp] theorem Proc.bump_stack (p : Proc) : p.bump.stack = p.stack := by
  unfold Proc.bump; split <;> rfl
@[simp] theorem Proc.bump_locals (p : Proc) : p.bump.locals = p.locals := by
  unfold Proc.bump; split <;> rfl
@[simp] theorem Proc.bump_sel (p : Proc) : p.bump.selectState = p.selectState := by
  unfold Proc.bump; split <;> rfl
@[simp] theorem Proc.bump_park (p : Proc) : p.bump.park = p.park := by
  unfold Proc.bump; split <;> rfl
@[simp] theorem Proc.bump_result (p : Proc) : p.bump.result = p.result := by
  unfold Proc.bump; split <;> rfl
@[simp] theorem Proc.setCounter_stack (p : Proc) (c : Nat) : (p.setCounter c).stack = p.stack := by
  unfold Proc.setCounter; split <;> rfl
@[simp] theorem Proc.setCounter_locals (p : Proc) (c : Nat) : (p.setCounter c).locals = p.locals := by
  unfold Proc.setCounter; split <;> rfl
@[simp] theorem Proc.push_stack (p : Proc) (v : Val) : (p.push v).stack = v :: p.stack := rfl
@[simp] theorem Proc.push_locals (p : Proc) (v : Val) : (p.push v).locals = p.locals := rfl

theorem AllWF.of_getElem?_cons {P : Prog} {l : List Val} {n : Nat} {v : Val} (h : AllWF P l)
    (hv : l[n]? = some v) : AllWF P (v :: l) :=
  AllWF.cons_iff.mpr ⟨h.getElem? hv, h⟩

/-- Instructions that stay in the frame keep all values well-formed. -/
theorem simple_step_wf {O : Oracle} {P : Prog} {p p' : Proc} {i : Instr} {act : Option Action}
    (hsimple : i.simple = true) (hs : AllWF P p.stack) (hl : AllWF P p.locals)
    (h : stepInstr O P p i = .ok (p', act)) : AllWF P p'.stack ∧ AllWF P p'.locals := by
  cases i <;> simp only [Instr.simple] at hsimple <;>
    simp only [stepInstr, handleConstant, handlePop, handleDuplicate, handlePick, handleRotate,
      handleReset, handleLoad, handleStore, handleTuple, handleGet, handleIsType, handleJump,
      handleJumpIf, handleFunction, handleBuiltin, handleEqual, handleNot, handleSend, handleSelf,
      handleProcessRef, ok] at h
  all_goals (repeat' split at h)
  all_goals (try cases h)
  all_goals (try (cases hsimple; done))
  all_goals (try simp only [Proc.bump_stack, Proc.bump_locals, Proc.push_stack, Proc.push_locals,
    Proc.setCounter_stack, Proc.setCounter_locals])
  all_goals (try (rename_i heq; rw [heq] at hs))
  all_goals (first
    | (exact ⟨hs, hl⟩)
    | (refine ⟨?_, ?_⟩ <;> simp_all [Val.wf, AllWF.take, AllWF.drop, AllWF.eraseIdx] <;> done)
    | skip)
  -- pick
  · rename_i hv; exact ⟨hs.of_getElem?_cons hv, hl⟩
  -- rotate
  · rename_i hv
    exact ⟨AllWF.cons_iff.mpr ⟨hs.getElem? hv, hs.eraseIdx _⟩, hl⟩
  -- load
  · rename_i hv; exact ⟨AllWF.cons_iff.mpr ⟨hl.getElem? hv, hs⟩, hl⟩
  -- store
  · simp_all [AllWF.nil]
  -- tuple
  · exact ⟨AllWF.cons_iff.mpr ⟨Val.wf_tup (hs.take _).reverse, hs.drop _⟩, hl⟩
  -- get
  · rw [‹p.stack = _›] at hs
    have := AllWF.cons_iff.mp hs
    exact ⟨AllWF.cons_iff.mpr ⟨(Val.wf_tup_inv this.1).getElem? ‹_[_]? = some _›, this.2⟩, hl⟩
  -- function
  · rename_i fn hfn hlen
    refine ⟨AllWF.cons_iff.mpr ⟨Val.wf_fn hfn ?_ (hs.take _).reverse, hs.drop _⟩, hl⟩
    simp [List.length_take]; omega

/-! ## Structural lemmas about the invariant -/

/-- `Below` does not depend on the select state as long as it points at or above the frame on top
of the suspended ones. -/
theorem Below.change_sel {P : Prog} {A : Array Anns} {sel sel' : Option SelectState} :
    ∀ {rest : List Frame} {sb lb : Nat},
      (∀ st, sel = some st → rest.length ≤ st.frame) →
      (∀ st, sel' = some st → rest.length ≤ st.frame) →
      Below P A s0 sel rest sb lb → Below P A s0 sel' rest sb lb
  | [], _, _, _, _, h => h
  | g :: rest, sb, lb, h1, h2, h => by
    obtain ⟨fn, a, i, sbg, hat, hl, hcase, hrec⟩ := h
    refine ⟨fn, a, i, sbg, hat, hl, ?_, ?_⟩
    · rcases hcase with ⟨hi, hs, _⟩ | ⟨_, _, st, hst, hk, _, _⟩
      · left
        refine ⟨hi, hs, ?_⟩
        intro st hst hk
        have := h2 st hst
        simp at this
        omega
      · have := h1 st hst
        simp at this
        omega
    · exact Below.change_sel (fun st hst => by have := h1 st hst; simp at this; omega)
        (fun st hst => by have := h2 st hst; simp at this; omega) hrec

theorem FrameAt.lt_size {P : Prog} {A : Array Anns} {g : Frame} {fn : Function} {a : Ann} {i : Instr}
    (h : FrameAt P A g fn a i) : g.functionIndex < P.functions.size ∧ g.counter < fn.instructions.size :=
  ⟨(Array.getElem?_eq_some_iff.mp h.hfn).1, (Array.getElem?_eq_some_iff.mp h.hinstr).1⟩

theorem checked_of {P : Prog} {A : Array Anns} (hA : AllChecked P A) {fi : Nat} {fn : Function}
    (hfn : P.functions[fi]? = some fn) : Checked P fn (annsOf A fi) := by
  have hlt : fi < P.functions.size := (Array.getElem?_eq_some_iff.mp hfn).1
  have := hA fi hlt
  unfold checkAnn at this
  rw [hfn] at this
  exact checkFn_spec this

/-- What the checker guarantees at a frame sitting on an annotated instruction. -/
theorem FrameAt.transfer {P : Prog} {A : Array Anns} (hA : AllChecked P A) {g : Frame} {fn : Function}
    {a : Ann} {i : Instr} (h : FrameAt P A g fn a i) :
    ∃ succs, QM.VM.transfer P fn.instructions.size fn.captures g.counter a i = .ok succs ∧
      ∀ s ∈ succs, flowsTo fn.instructions.size (annsOf A g.functionIndex) s.1 s.2 = true :=
  (checked_of hA h.hfn).local_ _ a i h.hann h.hinstr

/-- A state flowing into `pc'` of a checked function gives the current frame a `TopShape`. -/
theorem top_of_flow {P : Prog} {A : Array Anns} (hA : AllChecked P A) {f : Frame} {fn : Function}
    {pc' : Nat} {out : Ann} {k sb : Nat} {stk : List Val} {lLen : Nat} {park : Park}
    {sel : Option SelectState}
    (hfn : P.functions[f.functionIndex]? = some fn) (hcc : CapsOK f fn)
    (hflow : flowsTo fn.instructions.size (annsOf A f.functionIndex) pc' out = true)
    (hs : stk.length = sb + out.height) (hl : f.localsBase + out.locals ≤ lLen)
    (hg : GuardSem f.localsBase lLen out.guard stk)
    (hpark : park = .none) (hsel : SelNotAt sel k) :
    TopShape P A { f with counter := pc' } k sb stk lLen park sel := by
  have hC := checked_of hA hfn
  unfold flowsTo at hflow
  split at hflow
  · rename_i hpc
    simp at hflow
    exact .exhausted fn hfn hpc (by omega) (by simp; omega) hpark hsel
  · split at hflow
    · rename_i b hb
      simp at hflow
      have hlt : pc' < fn.instructions.size := by
        have := (Array.getElem?_eq_some_iff.mp hb).1
        rw [hC.size] at this
        exact this
      have hi : fn.instructions[pc']? = some fn.instructions[pc'] := by simp [hlt]
      exact .normal fn b _ ⟨hfn, hcc, hb, hi⟩ (by simp; omega) (by omega) hpark hsel
        (guard_of_flows hflow.2 hl hg)
    · cases hflow

/-! ## Preservation, piece by piece -/

/-- Assemble `Inv` for a process with at least one frame. -/
theorem Inv.intro {P : Prog} {A : Array Anns} {p : Proc} {f : Frame} {rest : List Frame} {sb : Nat}
    (hfr : p.frames = f :: rest)
    (hsw : AllWF P p.stack) (hlw : AllWF P p.locals)
    (hselw : ∀ st, p.selectState = some st → AllWF P st.sources)
    (hselb : ∀ st, p.selectState = some st → st.frame < rest.length + 1)
    (hres : p.result = none)
    (htop : TopShape P A f rest.length sb p.stack p.locals.length p.park p.selectState)
    (hbelow : Below P A s0 p.selectState rest sb f.localsBase) : Inv P A s0 p where
  stackWF := hsw
  localsWF := hlw
  selWF := hselw
  selBound := by rw [hfr]; simpa using hselb
  noErr := by rw [hres]; simp
  shape := by rw [hfr]; exact ⟨hres, sb, htop, hbelow⟩

/-- Unpack `Inv` for a process with at least one frame. -/
theorem Inv.unpack {P : Prog} {A : Array Anns} {p : Proc} {f : Frame} {rest : List Frame}
    (h : Inv P A s0 p) (hfr : p.frames = f :: rest) :
    p.result = none ∧ ∃ sb,
      TopShape P A f rest.length sb p.stack p.locals.length p.park p.selectState ∧
      Below P A s0 p.selectState rest sb f.localsBase := by
  have := h.shape
  rw [hfr] at this
  exact this

theorem inv_entry {P : Prog} {A : Array Anns} (hA : AllChecked P A) {p : Proc} (h : EntryWF P s0 p) :
    Inv P A s0 p := by
  obtain ⟨f, fn, hfr, hc, hfn, hcc, hl⟩ := h.frame
  have hC := checked_of hA hfn
  have hne := h.stack
  cases hst : p.stack with
  | nil => simp [hst] at hne
  | cons v s =>
    have hslen : s.length = s0 := by simp [hst] at hne; exact hne
    have htop := top_of_flow (k := 0) (sb := s.length) (stk := p.stack) (lLen := p.locals.length)
      (park := p.park) (sel := p.selectState) hA hfn hcc hC.entry (by simp [hst]) (by simpa using hl)
      (by simp) h.park (by simp [SelNotAt, h.sel])
    have hf : ({ f with counter := 0 } : Frame) = f := by cases f; simp_all
    rw [hf] at htop
    exact Inv.intro (rest := []) hfr h.stackWF h.localsWF (by simp [h.sel]) (by simp [h.sel]) h.result htop hslen

/-- A simple instruction from a `normal` top frame. -/
theorem run_simple {P : Prog} {A : Array Anns} (hA : AllChecked P A) {O : Oracle} {p : Proc}
    {f : Frame} {rest : List Frame} {fn : Function} {a : Ann} {i : Instr} {sb : Nat}
    (hinv : Inv P A s0 p) (hfr : p.frames = f :: rest) (hres : p.result = none)
    (hat : FrameAt P A f fn a i) (hsimple : i.simple = true)
    (hl : f.localsBase + a.locals ≤ p.locals.length) (hs : p.stack.length = sb + a.height)
    (hg : GuardSem f.localsBase p.locals.length a.guard p.stack)
    (hpark : p.park = .none) (hsel : SelNotAt p.selectState rest.length)
    (hbelow : Below P A s0 p.selectState rest sb f.localsBase) :
    match stepInstr O P p i with
    | .error e => e.isStructural = false
    | .ok (p', _) => Inv P A s0 p' := by
  obtain ⟨succs, htr, hflow⟩ := hat.transfer hA
  have hC := checked_of hA hat.hfn
  have h1 := simple_step_sound (O := O) hfr htr hs hl hg hsimple hC.small hat.lt_size.2
  cases hstep : stepInstr O P p i with
  | error e => rw [hstep] at h1; exact h1
  | ok r =>
    obtain ⟨p', act⟩ := r
    rw [hstep] at h1
    obtain ⟨s, hsm, hst⟩ := h1
    have hwf := simple_step_wf hsimple hinv.stackWF hinv.localsWF hstep
    have htop := top_of_flow (f := f) (k := rest.length) (sb := sb) (stk := p'.stack)
      (lLen := p'.locals.length) (park := p'.park) (sel := p'.selectState) hA hat.hfn hat.hcc
      (hflow s hsm) hst.stack hst.locals hst.guard (by rw [hst.park, hpark]) (by rw [hst.sel]; exact hsel)
    exact Inv.intro hst.frames hwf.1 hwf.2 (by rw [hst.sel]; exact hinv.selWF)
      (by rw [hst.sel]; intro st h; have := hinv.selBound st h; rw [hfr] at this; simpa using this)
      (by rw [hst.result, hres]) htop (by rw [hst.sel]; exact hbelow)

theorem transfer_call {P : Prog} {n caps pc : Nat} {a : Ann} {succs : List (Nat × Ann)}
    (h : transfer P n caps pc a .call = .ok succs) :
    2 ≤ a.height ∧ succs = [(pc + 1, ⟨a.height - 1, a.locals, .none⟩)] := by
  simp only [transfer] at h
  split at h <;> cases h
  exact ⟨by assumption, rfl⟩

/-- Entering function `fi` (checked) with a fresh frame gives the new frame a `TopShape`. -/
theorem top_of_entry {P : Prog} {A : Array Anns} (hA : AllChecked P A) {fi lb cc : Nat} {fn : Function}
    {k sb : Nat} {stk : List Val} {lLen : Nat} {park : Park} {sel : Option SelectState}
    (hfn : P.functions[fi]? = some fn) (hcc : cc = fn.captures)
    (hs : stk.length = sb + 1) (hl : lb + fn.captures ≤ lLen)
    (hpark : park = .none) (hsel : SelNotAt sel k) :
    TopShape P A (Frame.new fi lb cc) k sb stk lLen park sel := by
  have hC := checked_of hA hfn
  exact top_of_flow (f := Frame.new fi lb cc) hA hfn (fun _ => hcc) hC.entry (by simp [hs])
    (by simpa [Frame.new] using hl) (by simp) hpark hsel

theorem run_call {P : Prog} {A : Array Anns} (hA : AllChecked P A) {O : Oracle} (hO : OracleWF P O)
    {p : Proc} {f : Frame} {rest : List Frame} {fn : Function} {a : Ann} {sb : Nat}
    (hinv : Inv P A s0 p) (hfr : p.frames = f :: rest) (hres : p.result = none)
    (hat : FrameAt P A f fn a .call)
    (hl : f.localsBase + a.locals ≤ p.locals.length) (hs : p.stack.length = sb + a.height)
    (hpark : p.park = .none) (hsel : SelNotAt p.selectState rest.length)
    (hbelow : Below P A s0 p.selectState rest sb f.localsBase) :
    match handleCall O P p with
    | .error e => e.isStructural = false
    | .ok (p', _) => Inv P A s0 p' := by
  obtain ⟨succs, htr, hflow⟩ := hat.transfer hA
  obtain ⟨hh, rfl⟩ := transfer_call htr
  have hflow1 := hflow _ (List.mem_cons_self)
  have hselb : ∀ st, p.selectState = some st → st.frame < rest.length + 1 := by
    intro st h; have := hinv.selBound st h; rw [hfr] at this; simpa using this
  cases hst : p.stack with
  | nil => simp [hst] at hs; omega
  | cons fv s =>
    have hsw := hinv.stackWF
    rw [hst] at hsw
    obtain ⟨hfv, hsw'⟩ := AllWF.cons_iff.mp hsw
    cases s with
    | nil => simp [hst] at hs; omega
    | cons param s' =>
      obtain ⟨hparam, hsw''⟩ := AllWF.cons_iff.mp hsw'
      have hlen : s'.length + 2 = sb + a.height := by simp [hst] at hs; omega
      cases fv with
      | fn fi caps =>
        obtain ⟨fn', hfn', hcaps, hcw⟩ := Val.wf_fn_inv hfv
        simp only [handleCall, hst, hfn', ok]
        -- the new frame
        have hselk : SelNotAt p.selectState (f :: rest).length := by
          intro st h hk
          have := hselb st h
          simp at hk
          omega
        refine Inv.intro (f := Frame.new fi p.locals.length caps.toList.length) (rest := f :: rest)
          (sb := s'.length) (by simp [hfr]) ?_ ?_ hinv.selWF ?_ hres ?_ ?_
        · exact AllWF.cons_iff.mpr ⟨hparam, hsw''⟩
        · exact AllWF.append_iff.mpr ⟨hinv.localsWF, hcw⟩
        · intro st h; have := hselb st h; simp; omega
        · exact top_of_entry hA hfn' hcaps (by simp) (by simp [hcaps]) hpark hselk
        · exact ⟨fn, a, .call, sb, hat, by simpa [Frame.new] using hl,
            Or.inl ⟨rfl, by omega, hsel⟩, hbelow⟩
      | builtin id =>
        simp only [handleCall, hst]
        cases hb : O.builtin id param with
        | unrecognised => simp [Err.isStructural]
        | fail cls => simp [Err.isStructural]
        | value v =>
          simp only [ok]
          have hv := hO.1 id param v hb
          have htop := top_of_flow (f := f) (k := rest.length) (sb := sb) (stk := v :: s')
            (lLen := p.locals.length) (park := p.park) (sel := p.selectState) hA hat.hfn hat.hcc
            hflow1 (by simp; omega) (by simpa using hl) (by simp) hpark hsel
          refine Inv.intro (f := { f with counter := f.counter + 1 }) (rest := rest) (sb := sb)
            (by simp [Proc.bump, hfr]) ?_ ?_ ?_ ?_ ?_ ?_ ?_
          · simpa using ⟨hv, hsw''⟩
          · simpa using hinv.localsWF
          · simpa using hinv.selWF
          · simpa using hselb
          · simpa using hres
          · simpa using htop
          · simpa using hbelow
        | action =>
          refine Inv.intro (f := f) (rest := rest) (sb := sb) hfr ?_ hinv.localsWF hinv.selWF hselb hres ?_ hbelow
          · exact hsw''
          · exact .effecting fn a hat hl (by simp; omega) rfl hsel
      | _ => simp [handleCall, hst, Err.isStructural]

theorem transfer_tailCall_true {P : Prog} {n caps pc : Nat} {a : Ann} {succs : List (Nat × Ann)}
    (h : transfer P n caps pc a (.tailCall true) = .ok succs) : a.height = 1 ∧ caps ≤ a.locals := by
  simp only [transfer] at h
  split at h
  · split at h <;> cases h
    exact ⟨by assumption, by assumption⟩
  · cases h

theorem transfer_tailCall_false {P : Prog} {n caps pc : Nat} {a : Ann} {succs : List (Nat × Ann)}
    (h : transfer P n caps pc a (.tailCall false) = .ok succs) : a.height = 2 := by
  simp only [transfer] at h
  split at h <;> cases h
  assumption

theorem Frame.new_eq (fi lb cc : Nat) : Frame.new fi lb cc = ⟨fi, lb, cc, 0⟩ := rfl

theorem run_tailCall {P : Prog} {A : Array Anns} (hA : AllChecked P A)
    {p : Proc} {f : Frame} {rest : List Frame} {fn : Function} {a : Ann} {sb : Nat} {r : Bool}
    (hinv : Inv P A s0 p) (hfr : p.frames = f :: rest) (hres : p.result = none)
    (hat : FrameAt P A f fn a (.tailCall r))
    (hl : f.localsBase + a.locals ≤ p.locals.length) (hs : p.stack.length = sb + a.height)
    (hpark : p.park = .none) (hsel : SelNotAt p.selectState rest.length)
    (hbelow : Below P A s0 p.selectState rest sb f.localsBase) :
    match handleTailCall P p r with
    | .error e => e.isStructural = false
    | .ok (p', _) => Inv P A s0 p' := by
  obtain ⟨succs, htr, _⟩ := hat.transfer hA
  have hselb : ∀ st, p.selectState = some st → st.frame < rest.length + 1 := by
    intro st h; have := hinv.selBound st h; rw [hfr] at this; simpa using this
  cases r with
  | true =>
    obtain ⟨hh, hcaps⟩ := transfer_tailCall_true htr
    cases hst : p.stack with
    | nil => simp [hst] at hs; omega
    | cons arg s =>
      have hsw := hinv.stackWF
      rw [hst] at hsw
      simp only [handleTailCall, hst, hfr, ok, if_true]
      have hslen : s.length = sb := by simp [hst] at hs; omega
      refine Inv.intro (f := Frame.new f.functionIndex f.localsBase f.capturesCount) (rest := rest)
        (sb := sb) rfl hsw (hinv.localsWF.take _) hinv.selWF hselb hres ?_ hbelow
      have hself : fn.selfTail = true := by
        have hi := hat.hinstr
        obtain ⟨hlt, hget⟩ := Array.getElem?_eq_some_iff.mp hi
        simp only [Function.selfTail, List.contains_iff_mem]
        rw [← hget]
        exact Array.getElem_mem_toList hlt
      have hcc := hat.hcc hself
      refine top_of_entry hA hat.hfn hcc (by simp [hslen]) ?_ hpark hsel
      simp [List.length_take, hcc]
      omega
  | false =>
    have hh := transfer_tailCall_false htr
    cases hst : p.stack with
    | nil => simp [hst] at hs; omega
    | cons fv s =>
      cases s with
      | nil => simp [hst] at hs; omega
      | cons arg s' =>
        have hsw := hinv.stackWF
        rw [hst] at hsw
        obtain ⟨hfv, hsw'⟩ := AllWF.cons_iff.mp hsw
        have hslen : s'.length = sb := by simp [hst] at hs; omega
        cases fv with
        | fn fi caps =>
          obtain ⟨fn', hfn', hcl, hcw⟩ := Val.wf_fn_inv hfv
          simp only [handleTailCall, hst, hfn', hfr, ok, Bool.false_eq_true, if_false]
          refine Inv.intro (f := Frame.new fi f.localsBase caps.toList.length) (rest := rest)
            (sb := sb) rfl hsw' (AllWF.append_iff.mpr ⟨hinv.localsWF.take _, hcw⟩) hinv.selWF hselb hres ?_
            hbelow
          refine top_of_entry hA hfn' hcl (by simp [hslen]) ?_ hpark hsel
          simp [List.length_take, hcl]
          omega
        | _ => simp [handleTailCall, hst, Err.isStructural]

theorem transfer_spawn {P : Prog} {n caps pc : Nat} {a : Ann} {succs : List (Nat × Ann)}
    (h : transfer P n caps pc a .spawn = .ok succs) :
    2 ≤ a.height ∧ succs = [(pc + 1, ⟨a.height - 1, a.locals, .none⟩)] := by
  simp only [transfer] at h
  split at h <;> cases h
  exact ⟨by assumption, rfl⟩

theorem run_spawn {P : Prog} {A : Array Anns} (hA : AllChecked P A)
    {p : Proc} {f : Frame} {rest : List Frame} {fn : Function} {a : Ann} {sb : Nat}
    (hinv : Inv P A s0 p) (hfr : p.frames = f :: rest) (hres : p.result = none)
    (hat : FrameAt P A f fn a .spawn)
    (hl : f.localsBase + a.locals ≤ p.locals.length) (hs : p.stack.length = sb + a.height)
    (hsel : SelNotAt p.selectState rest.length)
    (hbelow : Below P A s0 p.selectState rest sb f.localsBase) :
    match handleSpawn p with
    | .error e => e.isStructural = false
    | .ok (p', _) => Inv P A s0 p' := by
  obtain ⟨succs, htr, _⟩ := hat.transfer hA
  obtain ⟨hh, _⟩ := transfer_spawn htr
  have hselb : ∀ st, p.selectState = some st → st.frame < rest.length + 1 := by
    intro st h; have := hinv.selBound st h; rw [hfr] at this; simpa using this
  by_cases hr : p.isReceiving
  · simp [handleSpawn, hr, Err.isStructural]
  · cases hst : p.stack with
    | nil => simp [hst] at hs; omega
    | cons fv s =>
      cases s with
      | nil => simp [hst] at hs; omega
      | cons arg s' =>
        have hsw := hinv.stackWF
        rw [hst] at hsw
        cases fv with
        | fn fi caps =>
          simp only [handleSpawn, hr, hst, Bool.false_eq_true, if_false]
          refine Inv.intro (f := f) (rest := rest) (sb := sb) hfr ?_ hinv.localsWF hinv.selWF hselb hres ?_ hbelow
          · exact (AllWF.cons_iff.mp (AllWF.cons_iff.mp hsw).2).2
          · refine .spawning fn a hat hl ?_ rfl hsel
            simp [hst] at hs ⊢
            omega
        | _ => simp [handleSpawn, hr, hst, Err.isStructural]

theorem transfer_select {P : Prog} {n caps pc : Nat} {a : Ann} {succs : List (Nat × Ann)}
    (h : transfer P n caps pc a .select = .ok succs) :
    1 ≤ a.height ∧ succs = [(pc + 1, ⟨a.height, a.locals, .none⟩)] := by
  simp only [transfer] at h
  split at h <;> cases h
  exact ⟨by assumption, rfl⟩

theorem run_pop {P : Prog} {A : Array Anns} (hA : AllChecked P A)
    {p : Proc} {f : Frame} {rest : List Frame} {sb : Nat}
    (hinv : Inv P A s0 p) (hfr : p.frames = f :: rest) (hres : p.result = none)
    (hs : p.stack.length = sb + 1) (hl : f.localsBase ≤ p.locals.length)
    (hpark : p.park = .none) (hsel : SelNotAt p.selectState rest.length)
    (hbelow : Below P A s0 p.selectState rest sb f.localsBase) :
    Inv P A s0 (popFrame p) := by
  have hselb : ∀ st, p.selectState = some st → st.frame < rest.length + 1 := by
    intro st h; have := hinv.selBound st h; rw [hfr] at this; simpa using this
  have hselb' : ∀ st, p.selectState = some st → st.frame < rest.length := by
    intro st h; have := hselb st h; have := hsel st h; omega
  cases rest with
  | nil =>
    have hnone : p.selectState = none := by
      cases h : p.selectState with
      | none => rfl
      | some st => have := hselb' st h; simp at this
    have hsb0 : sb = s0 := hbelow
    constructor
    · simpa [popFrame, hfr, hnone] using hinv.stackWF
    · simp only [popFrame, hfr, hnone]
      split
      · exact hinv.localsWF.take _
      · exact hinv.localsWF
    · simp [popFrame, hfr, hnone]
    · simp [popFrame, hfr, hnone]
    · simp [popFrame, hfr, hnone, hres]
    · simp [popFrame, hfr, hnone, hpark, hs, hsb0]
  | cons g r =>
    obtain ⟨fng, ag, ig, sbg, hatg, hlg, hcase, hrec⟩ := hbelow
    obtain ⟨succs, htr, hflow⟩ := hatg.transfer hA
    rcases hcase with ⟨rfl, hsb, hselg⟩ | ⟨rfl, hsb, st, hst, hk, hpcst, hrecv⟩
    · -- returning to a `Call`: counter incremented, one value replaced the two operands
      obtain ⟨hh, rfl⟩ := transfer_call htr
      have hflow1 := hflow _ (List.mem_cons_self)
      have hlen : (p.locals.take f.localsBase).length = f.localsBase := by
        simp [List.length_take]; omega
      have hpop : popFrame p = { p with frames := { g with counter := g.counter + 1 } :: r,
                                        locals := p.locals.take f.localsBase } := by
        simp only [popFrame, hfr]
        cases hsel' : p.selectState with
        | none => simp
        | some st => have := hselg st hsel'; simp [this]
      rw [hpop]
      refine Inv.intro (f := { g with counter := g.counter + 1 }) (rest := r) (sb := sbg) rfl
        hinv.stackWF (hinv.localsWF.take _) hinv.selWF ?_ hres ?_ hrec
      · intro st h; have := hselb' st h; simpa using this
      · exact top_of_flow (f := g) hA hatg.hfn hatg.hcc hflow1 (by simp; omega) (by simp [hlen]; omega)
          (by simp) hpark hselg
    · -- returning the verdict of a filter function to the active `Select`: counter unchanged
      obtain ⟨hh, _⟩ := transfer_select htr
      have hlen : (p.locals.take f.localsBase).length = f.localsBase := by
        simp [List.length_take]; omega
      have hpop : popFrame p = { p with frames := g :: r, locals := p.locals.take f.localsBase } := by
        simp only [popFrame, hfr, hst]
        simp [hk, hpcst]
      rw [hpop]
      refine Inv.intro (f := g) (rest := r) (sb := sbg) rfl
        hinv.stackWF (hinv.localsWF.take _) hinv.selWF ?_ hres ?_ hrec
      · intro st' h; have := hselb' st' h; simpa using this
      · exact .selecting fng ag hatg (by simp [hlen]; omega) st hst hk hpcst
          (Or.inr ⟨hrecv, by simp; omega, hpark⟩)

theorem run_finish {P : Prog} {A : Array Anns} {p : Proc}
    (hinv : Inv P A s0 p) (hfr : p.frames = []) : Inv P A s0 (finish p) := by
  have hsh := hinv.shape
  rw [hfr] at hsh
  obtain ⟨hpark, hne⟩ := hsh
  have hsb := hinv.selBound
  rw [hfr] at hsb
  cases hres : p.result with
  | some r => simpa [finish, hres] using hinv
  | none =>
    cases hst : p.stack with
    | nil => have := hne hres; simp [hst] at this
    | cons v s =>
      have hsw := hinv.stackWF
      rw [hst] at hsw
      constructor
      · simpa [finish, hres, hst] using (AllWF.cons_iff.mp hsw).2
      · simpa [finish, hres, hst] using hinv.localsWF
      · simpa [finish, hres, hst] using hinv.selWF
      · simpa [finish, hres, hst, hfr] using hsb
      · simp [finish, hres, hst]
      · simp [finish, hres, hst, hfr, hpark]

/-- `TopShape` only looks at sizes, parking and select state. -/
theorem TopShape.park_of_selecting {P : Prog} {A : Array Anns} {f : Frame} {k sb : Nat}
    {stk : List Val} {lLen : Nat} {sel : Option SelectState}
    (h : TopShape P A f k sb stk lLen .selecting sel) :
    TopShape P A f k sb stk lLen .none sel := by
  cases h with
  | exhausted _ _ _ _ _ hpark => cases hpark
  | normal _ _ _ _ _ _ hpark => cases hpark
  | spawning _ _ _ _ _ hpark => cases hpark
  | effecting _ _ _ _ _ hpark => cases hpark
  | selecting fn a hat hl st hst hk hpc hs =>
    refine .selecting fn a hat hl st hst hk hpc ?_
    rcases hs with ⟨h1, h2, _⟩ | ⟨_, _, h3⟩
    · exact Or.inl ⟨h1, h2, Or.inl rfl⟩
    · cases h3

theorem ev_wake {P : Prog} {A : Array Anns} {p : Proc} (hinv : Inv P A s0 p) (hpark : p.park = .selecting) :
    Inv P A s0 ({ p with park := .none }) := by
  cases hfr : p.frames with
  | nil =>
    have := hinv.shape
    rw [hfr] at this
    rw [this.1] at hpark
    cases hpark
  | cons f rest =>
    rw [← hfr]
    obtain ⟨hres, sb, htop, hbelow⟩ := hinv.unpack hfr
    rw [hpark] at htop
    exact Inv.intro (p := { p with park := .none }) hfr hinv.stackWF hinv.localsWF hinv.selWF
      (by intro st h; have := hinv.selBound st h; rw [hfr] at this; simpa using this)
      hres htop.park_of_selecting hbelow

theorem ev_deliver {P : Prog} {A : Array Anns} {p : Proc} (hinv : Inv P A s0 p) (m : Val) :
    Inv P A s0 (Proc.mk p.pid p.stack p.locals p.frames (p.mailbox ++ [m]) p.persistent p.result
      p.selectState (if p.park = .selecting then .none else p.park)) := by
  by_cases hpark : p.park = .selecting
  · have := ev_wake hinv hpark
    simp only [hpark, if_true]
    exact ⟨this.stackWF, this.localsWF, this.selWF, this.selBound, this.noErr, this.shape⟩
  · simp only [hpark, if_false]
    exact ⟨hinv.stackWF, hinv.localsWF, hinv.selWF, hinv.selBound, hinv.noErr, hinv.shape⟩

/-- Resuming from `Spawn` / an effect: the pending value is pushed and the counter incremented. -/
theorem ev_resume {P : Prog} {A : Array Anns} (hA : AllChecked P A) {p : Proc} {v : Val}
    (hinv : Inv P A s0 p) (hv : v.wf P = true) (hpark : p.park = .spawning ∨ p.park = .effecting) :
    Inv P A s0 ({ p with stack := v :: p.stack, park := .none }.bump) := by
  cases hfr : p.frames with
  | nil =>
    have := hinv.shape
    rw [hfr] at this
    rw [this.1] at hpark
    rcases hpark with h | h <;> cases h
  | cons f rest =>
    rw [← hfr]
    obtain ⟨hres, sb, htop, hbelow⟩ := hinv.unpack hfr
    have hselb : ∀ st, p.selectState = some st → st.frame < rest.length + 1 := by
      intro st h; have := hinv.selBound st h; rw [hfr] at this; simpa using this
    have key : ∀ (fn : Function) (a : Ann) (i : Instr), FrameAt P A f fn a i →
        (i = .spawn ∨ i = .call) →
        f.localsBase + a.locals ≤ p.locals.length → p.stack.length + 2 = sb + a.height →
        SelNotAt p.selectState rest.length →
        Inv P A s0 ({ p with stack := v :: p.stack, park := .none }.bump) := by
      intro fn a i hat hi hl hs hsel
      obtain ⟨succs, htr, hflow⟩ := hat.transfer hA
      have hsucc : 2 ≤ a.height ∧ succs = [(f.counter + 1, ⟨a.height - 1, a.locals, .none⟩)] := by
        rcases hi with rfl | rfl
        · exact transfer_spawn htr
        · exact transfer_call htr
      obtain ⟨hh, rfl⟩ := hsucc
      have hflow1 := hflow _ (List.mem_cons_self)
      have htop' := top_of_flow (f := f) (k := rest.length) (sb := sb) (stk := v :: p.stack)
        (lLen := p.locals.length) (park := Park.none) (sel := p.selectState) hA hat.hfn hat.hcc
        hflow1 (by simp; omega) (by simpa using hl) (by simp) rfl hsel
      refine Inv.intro (f := { f with counter := f.counter + 1 }) (rest := rest) (sb := sb)
        (by simp [Proc.bump, hfr]) ?_ ?_ ?_ ?_ ?_ ?_ ?_
      · simpa using ⟨hv, hinv.stackWF⟩
      · simpa using hinv.localsWF
      · simpa using hinv.selWF
      · simpa using hselb
      · simpa using hres
      · simpa using htop'
      · simpa using hbelow
    cases htop with
    | exhausted _ _ _ _ _ hp => rw [hp] at hpark; rcases hpark with h | h <;> cases h
    | normal _ _ _ _ _ _ hp => rw [hp] at hpark; rcases hpark with h | h <;> cases h
    | spawning fn a hat hl hs _ hsel => exact key fn a _ hat (Or.inl rfl) hl hs hsel
    | effecting fn a hat hl hs _ hsel => exact key fn a _ hat (Or.inr rfl) hl hs hsel
    | selecting _ _ _ _ _ _ _ _ hs =>
      rcases hs with ⟨_, _, h | h⟩ | ⟨_, _, h⟩ <;> rw [h] at hpark <;> rcases hpark with h' | h' <;> cases h'

theorem run_selectDecide {P : Prog} {A : Array Anns} (hA : AllChecked P A) {O : Oracle} (hO : OracleWF P O)
    {q : Proc} {st : SelectState} {f : Frame} {rest : List Frame} {fn : Function} {a : Ann} {sb : Nat}
    (hfr : q.frames = f :: rest) (hres : q.result = none)
    (hat : FrameAt P A f fn a .select) (hl : f.localsBase + a.locals ≤ q.locals.length)
    (hsw : AllWF P q.stack) (hlw : AllWF P q.locals) (hsrc : AllWF P st.sources)
    (hsel : q.selectState = some st) (hk : st.frame = rest.length) (hpc : st.instruction = f.counter)
    (hs : q.stack.length + 1 = sb + a.height) (hpark : q.park = .none)
    (hbelow : Below P A s0 q.selectState rest sb f.localsBase) :
    match selectDecide O P q st with
    | .error e => e.isStructural = false
    | .ok (p', _) => Inv P A s0 p' := by
  obtain ⟨succs, htr, hflow⟩ := hat.transfer hA
  obtain ⟨hh, rfl⟩ := transfer_select htr
  have hflow1 := hflow _ (List.mem_cons_self)
  have hge : ∀ st', q.selectState = some st' → rest.length ≤ st'.frame := by
    intro st' h; rw [hsel] at h; cases h; omega
  unfold selectDecide
  cases hdec : O.select with
  | complete v =>
    simp only [ok]
    have hv := hO.2.1 v hdec
    have htop := top_of_flow (f := f) (k := rest.length) (sb := sb) (stk := v :: q.stack)
      (lLen := q.locals.length) (park := q.park) (sel := none) hA hat.hfn hat.hcc
      hflow1 (by simp; omega) (by simpa using hl) (by simp) hpark (by simp [SelNotAt])
    refine Inv.intro (f := { f with counter := f.counter + 1 }) (rest := rest) (sb := sb)
      (by simp [Proc.bump, hfr]) ?_ ?_ ?_ ?_ ?_ ?_ ?_
    · simpa using ⟨hv, hsw⟩
    · simpa using hlw
    · simp
    · simp
    · simpa using hres
    · simpa using htop
    · simpa using hbelow.change_sel hge (by simp)
  | callReceive k msg =>
    have hmsg := hO.2.2 k msg hdec
    simp only
    cases hsk : st.sources[k]? with
    | none => simp [Err.isStructural]
    | some src =>
      cases src with
      | fn fi caps =>
        have hsrcw := hsrc.getElem? hsk
        obtain ⟨fn', hfn', hcaps, hcw⟩ := Val.wf_fn_inv hsrcw
        simp only [handleCall, hfn', ok]
        refine Inv.intro (f := Frame.new fi q.locals.length caps.toList.length) (rest := f :: rest)
          (sb := q.stack.length) (by simp [hfr]) ?_ ?_ ?_ ?_ hres ?_ ?_
        · exact AllWF.cons_iff.mpr ⟨hmsg, hsw⟩
        · exact AllWF.append_iff.mpr ⟨hlw, hcw⟩
        · simpa using hsrc
        · simp [hk]; omega
        · exact top_of_entry hA hfn' hcaps (by simp) (by simp [hcaps]) hpark (by simp [SelNotAt, hk])
        · refine ⟨fn, a, .select, sb, hat, by simpa [Frame.new] using hl,
            Or.inr ⟨rfl, by simpa using hs, _, rfl, hk, hpc, rfl⟩, ?_⟩
          exact hbelow.change_sel hge (by simp [hk])
      | _ => simp [Err.isStructural]
  | park =>
    simp only [ok]
    refine Inv.intro (f := f) (rest := rest) (sb := sb) hfr hsw hlw ?_ ?_ hres ?_ ?_
    · simpa using hsrc
    · simp [hk]
    · exact .selecting fn a hat hl _ rfl hk hpc (Or.inl ⟨rfl, hs, Or.inr rfl⟩)
    · exact hbelow.change_sel hge (by simp [hk])
  | failType => simp [Err.isStructural]
  | failInvalid => simp [Err.isStructural]
  | failAwaited cls => simp [Err.isStructural]

theorem run_select {P : Prog} {A : Array Anns} (hA : AllChecked P A) {O : Oracle} (hO : OracleWF P O)
    {p : Proc} {f : Frame} {rest : List Frame} {fn : Function} {a : Ann} {sb : Nat}
    (hinv : Inv P A s0 p) (hfr : p.frames = f :: rest) (hres : p.result = none)
    (hat : FrameAt P A f fn a .select) (hl : f.localsBase + a.locals ≤ p.locals.length)
    (hpark : p.park = .none)
    (hbelow : Below P A s0 p.selectState rest sb f.localsBase)
    (hcase : (p.stack.length = sb + a.height ∧ SelNotAt p.selectState rest.length) ∨
      (∃ st, p.selectState = some st ∧ st.frame = rest.length ∧ st.instruction = f.counter ∧
        ((st.receiving = none ∧ p.stack.length + 1 = sb + a.height) ∨
         (st.receiving.isSome = true ∧ p.stack.length = sb + a.height)))) :
    match handleSelect O P p with
    | .error e => e.isStructural = false
    | .ok (p', _) => Inv P A s0 p' := by
  obtain ⟨succs, htr, _⟩ := hat.transfer hA
  obtain ⟨hh, _⟩ := transfer_select htr
  have hcur : p.curCounter = f.counter := by simp [Proc.curCounter, hfr]
  have hflen : p.frames.length - 1 = rest.length := by simp [hfr]
  rcases hcase with ⟨hs, hsel⟩ | ⟨st, hst, hk, hpc, hs⟩
  · -- first execution: initialise (or a stale foreign select state: InvalidArgument)
    cases hss : p.selectState with
    | some st =>
      have := hsel st hss
      simp [handleSelect, hss, hflen, this, Err.isStructural]
    | none =>
      cases hstk : p.stack with
      | nil => simp [hstk] at hs; omega
      | cons v s =>
        have hsw := hinv.stackWF
        rw [hstk] at hsw
        obtain ⟨hv, hsw'⟩ := AllWF.cons_iff.mp hsw
        have hslen : s.length + 1 = sb + a.height := by simp [hstk] at hs; omega
        have hb : Below P A s0 (some (SelectState.mk rest.length f.counter (selectSources v) none))
            rest sb f.localsBase := by
          rw [hss] at hbelow
          exact hbelow.change_sel (by simp) (by simp)
        simp only [handleSelect, hss, hstk, hflen, hcur]
        by_cases ht : (pidTargets (selectSources v)).isEmpty
        · simp only [ht, if_true, ok]
          refine Inv.intro (f := f) (rest := rest) (sb := sb) hfr hsw' hinv.localsWF ?_ ?_ hres ?_ hb
          · simpa using selectSources_wf hv
          · simp
          · exact .selecting fn a hat hl _ rfl rfl rfl (Or.inl ⟨rfl, hslen, Or.inl hpark⟩)
        · simp only [ht, Bool.false_eq_true, if_false]
          refine Inv.intro (f := f) (rest := rest) (sb := sb) hfr hsw' hinv.localsWF ?_ ?_ hres ?_ hb
          · simpa using selectSources_wf hv
          · simp
          · exact .selecting fn a hat hl _ rfl rfl rfl (Or.inl ⟨rfl, hslen, Or.inr rfl⟩)
  · -- continuing the active select
    have hsrc := hinv.selWF st hst
    have hcheck : ¬ (st.frame ≠ p.frames.length - 1 ∨ st.instruction ≠ p.curCounter) := by
      rw [hflen, hcur]; simp [hk, hpc]
    simp only [handleSelect, hst, hcheck, if_false]
    rcases hs with ⟨hrn, hs⟩ | ⟨hrs, hs⟩
    · rw [hrn]
      exact run_selectDecide hA hO hfr hres hat hl hinv.stackWF hinv.localsWF hsrc hst hk hpc hs hpark hbelow
    · cases hrecv : st.receiving with
      | none => rw [hrecv] at hrs; cases hrs
      | some rm =>
        cases hstk : p.stack with
        | nil => simp [hstk] at hs; omega
        | cons verdict s =>
          have hsw := hinv.stackWF
          rw [hstk] at hsw
          simp only
          exact run_selectDecide (q := { p with stack := s }) hA hO hfr hres hat hl
            (AllWF.cons_iff.mp hsw).2 hinv.localsWF hsrc hst hk hpc
            (by simp [hstk] at hs; simpa using hs) hpark hbelow

theorem lift_res {P : Prog} {A : Array Anns} {r : Res}
    (h : match r with
      | .error e => e.isStructural = false
      | .ok (p', _) => Inv P A s0 p') :
    match (some r : Option Res) with
    | none => True
    | some (.error e) => e.isStructural = false
    | some (.ok (p', _)) => Inv P A s0 p' := by
  cases r with
  | error e => exact h
  | ok x => exact h

/-- **One transition preserves the invariant and does not fail structurally.** -/
theorem inv_step {P : Prog} {A : Array Anns} (hA : AllChecked P A) {p : Proc} {ev : Event}
    (hinv : Inv P A s0 p) (hev : EventWF P ev) :
    match transition P p ev with
    | none => True
    | some (.error e) => e.isStructural = false
    | some (.ok (p', _)) => Inv P A s0 p' := by
  cases ev with
  | run O =>
    have hO : OracleWF P O := hev
    by_cases hguard : p.park ≠ .none ∨ p.result.isSome
    · simp [transition, hguard]
    · have hpark : p.park = .none := by
        by_cases h : p.park = .none
        · exact h
        · exact absurd (Or.inl h) hguard
      simp only [transition, hguard, if_false]
      cases hfr : p.frames with
      | nil => exact run_finish hinv hfr
      | cons f rest =>
        obtain ⟨hres, sb, htop, hbelow⟩ := hinv.unpack hfr
        cases htop with
        | exhausted fn hfn hpc hs hl _ hsel =>
          have hi : fn.instructions[f.counter]? = none := by simp [hpc]
          simp only [hfn, hi, ok]
          exact run_pop hA hinv hfr hres hs hl hpark hsel hbelow
        | normal fn a i hat hl hs _ hsel hg =>
          simp only [hat.hfn, hat.hinstr]
          by_cases hsimple : i.simple = true
          · exact lift_res <| run_simple hA hinv hfr hres hat hsimple hl hs hg hpark hsel hbelow
          · cases i with
            | call => exact lift_res (r := stepInstr O P p .call) <| run_call hA hO hinv hfr hres hat hl hs hpark hsel hbelow
            | tailCall r => exact lift_res (r := stepInstr O P p (.tailCall r)) <| run_tailCall hA hinv hfr hres hat hl hs hpark hsel hbelow
            | spawn => exact lift_res (r := stepInstr O P p .spawn) <| run_spawn hA hinv hfr hres hat hl hs hsel hbelow
            | select => exact lift_res (r := stepInstr O P p .select) <| run_select hA hO hinv hfr hres hat hl hpark hbelow (Or.inl ⟨hs, hsel⟩)
            | _ => simp [Instr.simple] at hsimple
        | spawning _ _ _ _ _ hp => rw [hp] at hpark; cases hpark
        | effecting _ _ _ _ _ hp => rw [hp] at hpark; cases hpark
        | selecting fn a hat hl st hst hk hpc hs =>
          simp only [hat.hfn, hat.hinstr]
          refine lift_res (r := stepInstr O P p .select) <| run_select hA hO hinv hfr hres hat hl hpark hbelow (Or.inr ⟨st, hst, hk, hpc, ?_⟩)
          rcases hs with ⟨h1, h2, _⟩ | ⟨h1, h2, _⟩
          · exact Or.inl ⟨h1, h2⟩
          · exact Or.inr ⟨h1, h2⟩
  | spawned v =>
    by_cases hp : p.park = .spawning
    · simp only [transition, hp, if_true, ok]
      exact ev_resume hA hinv hev (Or.inl hp)
    · simp [transition, hp]
  | effectDone r =>
    by_cases hp : p.park = .effecting
    · cases r with
      | none => simp [transition, hp, Err.isStructural]
      | some v =>
        simp only [transition, hp, if_true, ok]
        exact ev_resume hA hinv hev (Or.inr hp)
    · simp [transition, hp]
  | wake =>
    by_cases hp : p.park = .selecting
    · simp only [transition, hp, if_true, ok]
      exact ev_wake hinv hp
    · simp [transition, hp]
  | deliver m =>
    simp only [transition, ok]
    exact ev_deliver hinv m

/-- **Soundness of the checker (full statement).** -/
theorem checkAnn_sound_full {P : Prog} {A : Array Anns} (hA : AllChecked P A) {p0 p : Proc}
    (h0 : EntryWF P s0 p0) (hr : ReachWF P p0 p) :
    Inv P A s0 p ∧
    ∀ ev, EventWF P ev → ∀ e, transition P p ev = some (.error e) → e.isStructural = false := by
  have hinv : Inv P A s0 p := by
    induction hr with
    | refl => exact inv_entry hA h0
    | step _ hev htr ih =>
      have := inv_step hA ih hev
      rw [htr] at this
      exact this
  refine ⟨hinv, ?_⟩
  intro ev hev e htr
  have := inv_step hA hinv hev
  rw [htr] at this
  exact this

end QM.VM
