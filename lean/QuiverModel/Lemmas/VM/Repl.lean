import QuiverModel.Lemmas.VM.Sound
/-
REPL continuation lines (owner: C07): the program view `P.withCaptures f0 n`, the fact that `P` and
the view take the same transitions as long as no `Function(f0)` instruction exists
(`transition_withCaptures`), and the entry state of a continuation line.
-/
namespace QM.VM

/-- `P` with the `captures` of function `f0` replaced by `n` — the view under which a REPL
continuation line (which starts with the session's `n` variables as locals) is certified. -/
def Prog.withCaptures (P : Prog) (f0 n : Nat) : Prog :=
  { P with functions := P.functions.modify f0 (fun fn => { fn with captures := n }) }

theorem withCaptures_get (P : Prog) (f0 n i : Nat) :
    (P.withCaptures f0 n).functions[i]? =
      (P.functions[i]?).map (fun fn => if f0 = i then { fn with captures := n } else fn) := by
  simp only [Prog.withCaptures, Array.getElem?_modify]
  cases P.functions[i]? with
  | none => simp
  | some v => by_cases h : f0 = i <;> simp [h]

theorem withCaptures_get_none {P : Prog} {f0 n i : Nat} (h : P.functions[i]? = none) :
    (P.withCaptures f0 n).functions[i]? = none := by simp [withCaptures_get, h]

theorem withCaptures_get_some {P : Prog} {f0 n i : Nat} {fn : Function} (h : P.functions[i]? = some fn) :
    ∃ fn', (P.withCaptures f0 n).functions[i]? = some fn' ∧ fn'.instructions = fn.instructions ∧
      (i ≠ f0 → fn' = fn) := by
  rw [withCaptures_get, h]
  by_cases hi : f0 = i
  · exact ⟨{ fn with captures := n }, by simp [hi], rfl, fun hne => absurd hi.symm hne⟩
  · exact ⟨fn, by simp [hi], rfl, fun _ => rfl⟩

theorem handleCall_withCaptures (O : Oracle) (P : Prog) (f0 n : Nat) (p : Proc) :
    handleCall O (P.withCaptures f0 n) p = handleCall O P p := by
  cases hst : p.stack with
  | nil => simp [handleCall, hst]
  | cons v s =>
    cases v with
    | fn fi caps =>
      cases h : P.functions[fi]? with
      | none => simp [handleCall, hst, h, withCaptures_get_none h]
      | some fn =>
        obtain ⟨fn', h', _, _⟩ := withCaptures_get_some (f0 := f0) (n := n) h
        simp [handleCall, hst, h, h']
    | _ => simp [handleCall, hst]

theorem handleTailCall_withCaptures (P : Prog) (f0 n : Nat) (p : Proc) (r : Bool) :
    handleTailCall (P.withCaptures f0 n) p r = handleTailCall P p r := by
  cases r with
  | true => rfl
  | false =>
    cases hst : p.stack with
    | nil => simp [handleTailCall, hst]
    | cons v s =>
      cases s with
      | nil => simp [handleTailCall, hst]
      | cons a s' =>
        cases v with
        | fn fi caps =>
          cases h : P.functions[fi]? with
          | none => simp [handleTailCall, hst, h, withCaptures_get_none h]
          | some fn =>
            obtain ⟨fn', h', _, _⟩ := withCaptures_get_some (f0 := f0) (n := n) h
            simp [handleTailCall, hst, h, h']
        | _ => simp [handleTailCall, hst]

theorem stepInstr_withCaptures (O : Oracle) (P : Prog) (f0 n : Nat) (p : Proc) (i : Instr)
    (hi : i ≠ .function f0) : stepInstr O (P.withCaptures f0 n) p i = stepInstr O P p i := by
  cases i with
  | call => exact handleCall_withCaptures O P f0 n p
  | tailCall r => exact handleTailCall_withCaptures P f0 n p r
  | function k =>
    have hk : k ≠ f0 := fun h => hi (by rw [h])
    simp only [stepInstr, handleFunction]
    cases h : P.functions[k]? with
    | none => simp [withCaptures_get_none h]
    | some fn =>
      obtain ⟨fn', h', _, heq⟩ := withCaptures_get_some (f0 := f0) (n := n) h
      rw [h', heq hk]
  | select =>
    simp only [stepInstr, handleSelect, selectDecide, handleCall_withCaptures]
  | _ => rfl

theorem transition_withCaptures (P : Prog) (f0 n : Nat)
    (hno : ∀ (f : Nat) (fn : Function), P.functions[f]? = some fn → Instr.function f0 ∉ fn.instructions.toList)
    (p : Proc) (ev : Event) : transition (P.withCaptures f0 n) p ev = transition P p ev := by
  cases ev with
  | run O =>
    simp only [transition]
    split
    · rfl
    · split
      · rfl
      · rename_i f rest hfr
        cases h : P.functions[f.functionIndex]? with
        | none => simp [withCaptures_get_none h]
        | some fn0 =>
          obtain ⟨fn', h', hins, _⟩ := withCaptures_get_some (f0 := f0) (n := n) h
          simp only [h', hins]
          cases hi : fn0.instructions[f.counter]? with
          | none => rfl
          | some i =>
            simp only
            rw [stepInstr_withCaptures]
            intro heq
            have hmem : i ∈ fn0.instructions.toList := by
              obtain ⟨hlt, hget⟩ := Array.getElem?_eq_some_iff.mp hi
              rw [← hget]; exact Array.getElem_mem_toList hlt
            rw [heq] at hmem
            exact hno _ fn0 h hmem
  | _ => rfl

/-- Entry state of a REPL continuation line: the persistent process resumes with one frame of the
line's function `f0` (`Frame::new(f0, 0, 0)` in `resume_process`, any `captures_count`), the
previous result on the stack, and the session's variables — at least `n` of them — as locals. The
line's function contains no bare `^` (the compiler rejects it at top level). Values are well-formed
for the view `P.withCaptures f0 n`. -/
structure ReplEntry (P : Prog) (f0 n s0 : Nat) (p : Proc) : Prop where
  frame : ∃ f fn, p.frames = [f] ∧ f.counter = 0 ∧ f.functionIndex = f0 ∧ P.functions[f0]? = some fn ∧
    fn.selfTail = false ∧ f.localsBase + n ≤ p.locals.length
  stack : p.stack.length = s0 + 1
  stackWF : AllWF (P.withCaptures f0 n) p.stack
  localsWF : AllWF (P.withCaptures f0 n) p.locals
  park : p.park = .none
  result : p.result = none
  sel : p.selectState = none

/-- Reachability in `P` (the program the executor runs) under events that are well-formed for the
view `P.withCaptures f0 n`. -/
inductive ReplReach (P : Prog) (f0 n : Nat) : Proc → Proc → Prop
  | refl (p : Proc) : ReplReach P f0 n p p
  | step {p0 p p' : Proc} {ev : Event} {act : Option Action} :
      ReplReach P f0 n p0 p → EventWF (P.withCaptures f0 n) ev →
      transition P p ev = some (.ok (p', act)) → ReplReach P f0 n p0 p'

theorem replEntry_entryWF {P : Prog} {f0 n s0 : Nat} {p : Proc} (h : ReplEntry P f0 n s0 p) :
    EntryWF (P.withCaptures f0 n) s0 p := by
  obtain ⟨f, fn, hfr, hc, hf0, hfn, hself, hl⟩ := h.frame
  have hget : (P.withCaptures f0 n).functions[f.functionIndex]? = some { fn with captures := n } := by
    rw [hf0, withCaptures_get, hfn]; simp
  refine ⟨⟨f, _, hfr, hc, hget, ?_, by simpa using hl⟩, h.stack, h.stackWF, h.localsWF, h.park, h.result, h.sel⟩
  intro hs
  simp [Function.selfTail] at hs hself
  exact absurd hs hself

end QM.VM
