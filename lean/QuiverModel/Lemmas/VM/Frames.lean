import QuiverModel.Lemmas.VM.Sound
/-
Frame-list lemmas for M-VM (owner: C07/C16): what instructions, frame pops and events do to
`Proc.frames` — unconditionally, at the model level — and the preservation of an *activation*.
-/
namespace QM.VM

/-- What one instruction can do to the frame list (model level, unconditional): change the current
frame's counter, push one frame on top, or replace the current frame by one with the same locals
base. -/
inductive FramesStep (f : Frame) (rest : List Frame) (frames' : List Frame) : Prop
  | counter (c : Nat) (h : frames' = { f with counter := c } :: rest)
  | push (g : Frame) (h : frames' = g :: f :: rest)
  | replace (g : Frame) (h : frames' = g :: rest) (hlb : g.localsBase = f.localsBase)

theorem handleCall_frames {O : Oracle} {P : Prog} {p p' : Proc} {act : Option Action} {f : Frame} {rest : List Frame}
    (hfr : p.frames = f :: rest) (h : handleCall O P p = .ok (p', act)) : FramesStep f rest p'.frames := by
  unfold handleCall at h
  repeat' split at h
  all_goals (try cases h)
  · exact .push _ (by rw [hfr])
  · exact .counter (f.counter + 1) (by simp [Proc.bump, hfr])
  · exact .counter f.counter (by simp [hfr])

theorem stepInstr_frames {O : Oracle} {P : Prog} {p p' : Proc} {i : Instr} {act : Option Action}
    {f : Frame} {rest : List Frame}
    (hfr : p.frames = f :: rest) (h : stepInstr O P p i = .ok (p', act)) :
    FramesStep f rest p'.frames := by
  cases i
  case call => exact handleCall_frames hfr h
  case select =>
    simp only [stepInstr, handleSelect] at h
    have hdec : ∀ (q : Proc) (st : SelectState), q.frames = f :: rest →
        selectDecide O P q st = .ok (p', act) → FramesStep f rest p'.frames := by
      intro q st hq hd
      unfold selectDecide at hd
      split at hd
      · cases hd; exact .counter (f.counter + 1) (by simp [Proc.bump, hq])
      · split at hd
        · exact handleCall_frames (by simpa using hq) hd
        · cases hd
      · cases hd; exact .counter f.counter (by simp [hq])
      · cases hd
      · cases hd
      · cases hd
    split at h
    · split at h
      · cases h
      · split at h
        · split at h
          · cases h
          · exact hdec _ _ (by simpa using hfr) h
        · exact hdec _ _ hfr h
    · split at h
      · cases h
      · split at h
        · cases h; exact .counter f.counter (by simp [hfr])
        · cases h; exact .counter f.counter (by simp [hfr])
  all_goals (cases p; simp only at hfr; subst hfr)
  all_goals
    simp only [stepInstr, handleConstant, handlePop, handleDuplicate, handlePick, handleRotate,
      handleReset, handleLoad, handleStore, handleTuple, handleGet, handleIsType, handleJump,
      handleJumpIf, handleFunction, handleBuiltin, handleEqual, handleNot, handleSend, handleSelf,
      handleProcessRef, handleTailCall, handleSpawn, ok] at h
  all_goals (repeat' split at h)
  all_goals (try cases h)
  all_goals (first
    | (refine FramesStep.counter (f.counter + 1) ?_; simp [Proc.bump, Proc.push]; done)
    | (refine FramesStep.counter f.counter ?_; simp; done)
    | (refine FramesStep.counter _ ?_; simp [Proc.setCounter]; rfl)
    | (exact FramesStep.replace _ rfl rfl)
    | skip)

theorem popFrame_frames {p : Proc} {g : Frame} {r : List Frame} (hfr : p.frames = g :: r) :
    (popFrame p).frames = r ∨
    ∃ h t, r = h :: t ∧ (popFrame p).frames = { h with counter := h.counter + 1 } :: t := by
  simp only [popFrame, hfr]
  cases hsel : p.selectState with
  | none =>
    cases r with
    | nil => left; simp
    | cons h t => right; exact ⟨h, t, rfl, by simp⟩
  | some st =>
    cases r with
    | nil => left; simp
    | cons h t =>
      simp only
      split
      · left; rfl
      · right; exact ⟨h, t, rfl, rfl⟩

/-- *The activation* `(rest, lb)`: some frame with locals base `lb` sits directly on top of the
suspended frames `rest` (possibly below further frames it has called). -/
def InActivation (rest : List Frame) (lb : Nat) (p : Proc) : Prop :=
  ∃ top f, p.frames = top ++ f :: rest ∧ f.localsBase = lb

/-- As long as the frame stack does not drop below the activation's depth, the activation — its
suspended frames and its locals base — is preserved by every transition: calls push above it,
returns pop back to it, tail calls replace its frame in place. -/
theorem transition_activation {P : Prog} {p p' : Proc} {ev : Event} {act : Option Action}
    {rest : List Frame} {lb : Nat}
    (hact : InActivation rest lb p) (htr : transition P p ev = some (.ok (p', act)))
    (hdepth : rest.length + 1 ≤ p'.frames.length) : InActivation rest lb p' := by
  obtain ⟨top, f, hfr, hlb⟩ := hact
  -- effect of "bump the head's counter" / "replace the head keeping its base" on the activation
  have hhead : ∀ (g : Frame) (r : List Frame) (g' : Frame), top ++ f :: rest = g :: r →
      g'.localsBase = g.localsBase → ∃ top' f', g' :: r = top' ++ f' :: rest ∧ f'.localsBase = lb := by
    intro g r g' h hg
    cases top with
    | nil =>
      simp at h
      obtain ⟨rfl, rfl⟩ := h
      exact ⟨[], g', rfl, by rw [hg, hlb]⟩
    | cons t top' =>
      simp at h
      obtain ⟨rfl, rfl⟩ := h
      exact ⟨g' :: top', f, rfl, hlb⟩
  cases ev with
  | run O =>
    simp only [transition] at htr
    split at htr
    · cases htr
    · cases hfr' : p.frames with
      | nil => rw [hfr'] at hfr; cases top <;> simp at hfr
      | cons g r =>
        rw [hfr'] at hfr
        have hfr := hfr.symm
        simp only [hfr'] at htr
        split at htr
        · cases htr
        · split at htr
          · -- frame pop
            simp only [ok, Option.some.injEq, Except.ok.injEq, Prod.mk.injEq] at htr
            obtain ⟨rfl, _⟩ := htr
            cases top with
            | nil =>
              have hr : r = rest := (List.cons.inj hfr).2.symm
              rcases popFrame_frames hfr' with h | ⟨h, t, hrt, h2⟩
              · rw [h, hr] at hdepth; omega
              · rw [h2] at hdepth
                have : rest.length = t.length + 1 := by rw [← hr, hrt]; rfl
                simp at hdepth; omega
            | cons t top' =>
              have hr : r = top' ++ f :: rest := (List.cons.inj hfr).2.symm
              rcases popFrame_frames hfr' with h | ⟨h, t', hrt, h2⟩
              · exact ⟨top', f, by rw [h, hr], hlb⟩
              · have hact' : ∃ top'' f', ({ h with counter := h.counter + 1 } : Frame) :: t' = top'' ++ f' :: rest ∧
                    f'.localsBase = lb := by
                  cases top' with
                  | nil =>
                    simp at hr
                    rw [hr] at hrt
                    obtain ⟨rfl, rfl⟩ := List.cons.inj hrt
                    exact ⟨[], _, rfl, hlb⟩
                  | cons u top'' =>
                    simp at hr
                    rw [hr] at hrt
                    obtain ⟨rfl, rfl⟩ := List.cons.inj hrt
                    exact ⟨_ :: top'', f, rfl, hlb⟩
                obtain ⟨top'', f', h3, h4⟩ := hact'
                exact ⟨top'', f', by rw [h2, h3], h4⟩
          · -- one instruction
            simp only [Option.some.injEq] at htr
            cases stepInstr_frames hfr' htr with
            | counter c h =>
              obtain ⟨top', f', h3, h4⟩ := hhead g r { g with counter := c } hfr rfl
              exact ⟨top', f', by rw [h, h3], h4⟩
            | push g' h => exact ⟨g' :: top, f, by rw [h, ← hfr]; rfl, hlb⟩
            | replace g' h hg =>
              obtain ⟨top', f', h3, h4⟩ := hhead g r g' hfr hg
              exact ⟨top', f', by rw [h, h3], h4⟩
  | spawned v =>
    simp only [transition] at htr
    split at htr
    · simp only [ok, Option.some.injEq, Except.ok.injEq, Prod.mk.injEq] at htr
      obtain ⟨rfl, _⟩ := htr
      cases hfr' : p.frames with
      | nil => rw [hfr'] at hfr; cases top <;> simp at hfr
      | cons g r =>
        rw [hfr'] at hfr
        obtain ⟨top', f', h3, h4⟩ := hhead g r { g with counter := g.counter + 1 } hfr.symm rfl
        exact ⟨top', f', by simp [Proc.bump, h3], h4⟩
    · cases htr
  | effectDone rv =>
    simp only [transition] at htr
    split at htr
    · cases rv with
      | none => cases htr
      | some v =>
        simp only [ok, Option.some.injEq, Except.ok.injEq, Prod.mk.injEq] at htr
        obtain ⟨rfl, _⟩ := htr
        cases hfr' : p.frames with
        | nil => rw [hfr'] at hfr; cases top <;> simp at hfr
        | cons g r =>
          rw [hfr'] at hfr
          obtain ⟨top', f', h3, h4⟩ := hhead g r { g with counter := g.counter + 1 } hfr.symm rfl
          exact ⟨top', f', by simp [Proc.bump, h3], h4⟩
    · cases htr
  | wake =>
    simp only [transition] at htr
    split at htr
    · simp only [ok, Option.some.injEq, Except.ok.injEq, Prod.mk.injEq] at htr
      obtain ⟨rfl, _⟩ := htr
      exact ⟨top, f, hfr, hlb⟩
    · cases htr
  | deliver m =>
    simp only [transition, ok, Option.some.injEq, Except.ok.injEq, Prod.mk.injEq] at htr
    obtain ⟨rfl, _⟩ := htr
    exact ⟨top, f, hfr, hlb⟩

end QM.VM
