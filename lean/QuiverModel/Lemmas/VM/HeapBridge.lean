import QuiverModel.Theorems.C06
import QuiverModel.Theorems.C16
/-
Bridge between M-Heap (C06: `Core/Heap`, `Lemmas/Heap`, imported read-only) and M-VM (C07) for the
heap half of C16 (owner: C16): what the choke points and `handle_tail_call` do to the process table
of an M-Heap state (`RootsUpd`), the roots a tail call removes, "slots in use ≤ reachable + pending",
and the agreement of the two models on `handle_tail_call` (`Bridge.tailcall_agrees`).
-/
namespace C16
open QM.Heap QM.Heap.State

/-! ### what the choke points do to the process table -/

theorem aset_aset {α : Type} (m : List (Nat × α)) (k : Nat) (a b : α) : aset (aset m k a) k b = aset m k b := by
  induction m with
  | nil => simp [aset]
  | cons e m ih =>
    obtain ⟨k', v'⟩ := e
    by_cases h : k' = k
    · simp [aset, h]
    · simp [aset, h, ih]

/-- `t` is `s` with process `pid` replaced by `p'` as far as the roots are concerned. -/
structure RootsUpd (s t : State) (pid : Nat) (p' : Proc) : Prop where
  procs : t.procs = aset s.procs pid p'
  consts : t.constantBinaries = s.constantBinaries
  transit : t.transit = s.transit

theorem RootsUpd.getProc {s t : State} {pid : Nat} {p' : Proc} (h : RootsUpd s t pid p') :
    t.getProc pid = some p' := by simp [State.getProc, h.procs, aget_aset_same]

theorem RootsUpd.getProc_ne {s t : State} {pid q : Nat} {p' : Proc} (h : RootsUpd s t pid p') (hq : q ≠ pid) :
    t.getProc q = s.getProc q := by simp [State.getProc, h.procs, aget_aset_ne _ _ _ _ hq]

theorem RootsUpd.trans {s t u : State} {pid : Nat} {p' p'' : Proc}
    (h1 : RootsUpd s t pid p') (h2 : RootsUpd t u pid p'') : RootsUpd s u pid p'' :=
  ⟨by rw [h2.procs, h1.procs, aset_aset], h2.consts.trans h1.consts, h2.transit.trans h1.transit⟩

theorem RootsUpd.of_sameRoots {s t u : State} {pid : Nat} {p' : Proc}
    (h1 : RootsUpd s t pid p') (h2 : SameRoots t u) : RootsUpd s u pid p' :=
  ⟨h2.procs.trans h1.procs, h2.consts.trans h1.consts, h2.transit.trans h1.transit⟩

theorem rootsUpd_setProc (s : State) (pid : Nat) (p' : Proc) : RootsUpd s (s.setProc pid p') pid p' :=
  ⟨rfl, rfl, rfl⟩

theorem rootsUpd_sameRoots_setProc {s t : State} (h : SameRoots s t) (pid : Nat) (p' : Proc) :
    RootsUpd s (t.setProc pid p') pid p' :=
  ⟨by simp [State.setProc, h.procs], by simp [State.setProc, h.consts], by simp [State.setProc, h.transit]⟩

/-- the reference count of slot `i` over all roots changes by the difference of the process's own
contribution -/
theorem RootsUpd.countRefs {s t : State} {pid : Nat} {p p' : Proc} (h : RootsUpd s t pid p')
    (hp : s.getProc pid = some p) (i : Nat) :
    t.countRefs i + p.count i = s.countRefs i + p'.count i := by
  have := procsCount_aset s.procs pid p p' i hp
  simp only [State.countRefs, State.constCount, h.procs, h.consts]
  omega

theorem rootsUpd_pushValue {s : State} {pid : Nat} {p : Proc} (hp : s.getProc pid = some p) (v : Val) :
    RootsUpd s (pushValue s pid v) pid { p with stack := v :: p.stack } := by
  simp only [pushValue, hp]
  exact rootsUpd_sameRoots_setProc (sameRoots_retain s v) pid _

theorem rootsUpd_pushLocal {s : State} {pid : Nat} {p : Proc} (hp : s.getProc pid = some p) (v : Val) :
    RootsUpd s (pushLocal s pid v) pid { p with locals := p.locals ++ [v] } := by
  simp only [pushLocal, hp]
  exact rootsUpd_sameRoots_setProc (sameRoots_retain s v) pid _

theorem popValue_cons {s : State} {pid : Nat} {p : Proc} {v : Val} {rest : List Val}
    (hp : s.getProc pid = some p) (hs : p.stack = v :: rest) :
    (popValue s pid).1 = some v ∧ RootsUpd s (popValue s pid).2 pid { p with stack := rest } := by
  constructor
  · simp [popValue, hp, hs]
  · simp only [popValue, hp, hs]
    exact (rootsUpd_setProc s pid _).of_sameRoots (sameRoots_release _ v)

theorem rootsUpd_truncateLocals {s : State} {pid : Nat} {p : Proc} (hp : s.getProc pid = some p) (len : Nat) :
    RootsUpd s (truncateLocals s pid len) pid { p with locals := p.locals.take len } := by
  simp only [truncateLocals, hp]
  split
  · exact (rootsUpd_setProc s pid _).of_sameRoots (sameRoots_releaseList _ _)
  · rename_i hlen
    have : p.locals.take len = p.locals := List.take_of_length_le (by omega)
    rw [this]
    refine ⟨?_, rfl, rfl⟩
    -- replacing a process by itself
    have : ∀ (m : List (Nat × Proc)), aget m pid = some p → aset m pid p = m := by
      intro m
      induction m with
      | nil => intro h; simp [aget] at h
      | cons e m ih =>
        obtain ⟨k, q⟩ := e
        intro h
        by_cases hk : k = pid
        · simp [aget, hk] at h; subst h; simp [aset, hk]
        · simp [aget, hk] at h; simp [aset, hk, ih h]
    exact (this s.procs hp).symm

theorem rootsUpd_pushLocals {pid : Nat} : ∀ (vs : List Val) {s : State} {p : Proc}, s.getProc pid = some p →
    RootsUpd s (pushLocals s pid vs) pid { p with locals := p.locals ++ vs }
  | [], s, p, hp => by
    simp only [pushLocals, List.append_nil]
    have h := rootsUpd_truncateLocals hp p.locals.length
    simp only [List.take_length] at h
    -- (truncating to the full length changes nothing)
    have ht : truncateLocals s pid p.locals.length = s := by simp [truncateLocals, hp]
    rw [ht] at h
    exact h
  | v :: vs, s, p, hp => by
    have h1 := rootsUpd_pushLocal hp v
    have h2 := rootsUpd_pushLocals vs h1.getProc
    simp only [pushLocals]
    have := h1.trans h2
    simpa [List.append_assoc] using this

theorem rootsUpd_modFrames {s : State} {pid : Nat} {p : Proc} (hp : s.getProc pid = some p)
    (g : List Frame → List Frame) : RootsUpd s (modFrames s pid g) pid { p with frames := g p.frames } := by
  simp only [modFrames, hp]
  exact rootsUpd_setProc s pid _

/-- **`handle_tail_call(recurse = true)` on M-Heap**: the argument is popped and pushed back, the
locals are truncated to the captures, the frame is reset — nothing else moves. -/
theorem tailcall_self_spec {s : State} {pid : Nat} {p : Proc} {arg : Val} {st : List Val} {f : Frame}
    {rest : List Frame} (fx : Nat → Bool)
    (hp : s.getProc pid = some p) (hs : p.stack = arg :: st) (hf : p.frames = f :: rest) :
    (handleTailCall s pid true fx).2 = .ok ∧
    RootsUpd s (handleTailCall s pid true fx).1 pid
      { p with stack := arg :: st, locals := p.locals.take (f.localsBase + f.capturesCount),
               frames := ⟨f.fn, f.localsBase, f.capturesCount, 0⟩ :: rest } := by
  obtain ⟨hpop, hu1⟩ := popValue_cons hp hs
  have hfr : framesOf (popValue s pid).2 pid = f :: rest := by simp [framesOf, hu1.getProc, hf]
  have hu2 := rootsUpd_truncateLocals hu1.getProc (f.localsBase + f.capturesCount)
  have hu3 := rootsUpd_pushValue hu2.getProc arg
  have hu4 := rootsUpd_modFrames hu3.getProc (replaceTop ⟨f.fn, f.localsBase, f.capturesCount, 0⟩)
  have hall := ((hu1.trans hu2).trans hu3).trans hu4
  unfold handleTailCall
  simp only [if_true]
  cases hpv : popValue s pid with
  | mk o s1 =>
    rw [hpv] at hpop hfr hall
    simp only at hpop
    subst hpop
    simp only [hfr]
    refine ⟨trivial, ?_⟩
    simpa [replaceTop, hf] using hall

/-- **`handle_tail_call(recurse = false)` on M-Heap** (`^f`, `^~`): function value and argument are
popped, the locals are truncated to the frame's base and the target's captures appended, the
argument is pushed back, the frame is replaced. -/
theorem tailcall_named_spec {s : State} {pid : Nat} {p : Proc} {fi : Nat} {caps : List Val} {arg : Val}
    {st : List Val} {f : Frame} {rest : List Frame} (fx : Nat → Bool) (hfx : fx fi = true)
    (hp : s.getProc pid = some p) (hs : p.stack = .func fi caps :: arg :: st) (hf : p.frames = f :: rest) :
    (handleTailCall s pid false fx).2 = .ok ∧
    RootsUpd s (handleTailCall s pid false fx).1 pid
      { p with stack := arg :: st, locals := p.locals.take f.localsBase ++ caps,
               frames := ⟨fi, f.localsBase, caps.length, 0⟩ :: rest } := by
  obtain ⟨hpop1, hu1⟩ := popValue_cons hp hs
  obtain ⟨hpop2, hu2⟩ := popValue_cons (p := { p with stack := arg :: st }) hu1.getProc rfl
  have hu12 := hu1.trans hu2
  have hfr : framesOf (popValue (popValue s pid).2 pid).2 pid = f :: rest := by
    simp [framesOf, hu12.getProc, hf]
  have hu3 := rootsUpd_truncateLocals hu12.getProc f.localsBase
  have hu123 := hu12.trans hu3
  have hu4 := rootsUpd_pushLocals caps hu123.getProc
  have hu1234 := hu123.trans hu4
  have hu5 := rootsUpd_pushValue hu1234.getProc arg
  have hu12345 := hu1234.trans hu5
  have hu6 := rootsUpd_modFrames hu12345.getProc (replaceTop ⟨fi, f.localsBase, caps.length, 0⟩)
  have hall := hu12345.trans hu6
  unfold handleTailCall
  simp only [Bool.false_eq_true, if_false]
  generalize hpv1 : popValue s pid = r1 at *
  obtain ⟨o1, s1⟩ := r1
  simp only at hpop1
  subst hpop1
  simp only
  generalize hpv2 : popValue s1 pid = r2 at *
  obtain ⟨o2, s2⟩ := r2
  simp only at hpop2
  subst hpop2
  simp only [hfx, Bool.not_true, Bool.false_eq_true, if_false]
  simp only at hfr
  simp only [hfr]
  refine ⟨trivial, ?_⟩
  simpa [replaceTop, hf] using hall

/-! ### slots in use, before and after reclamation -/

/-- a slot in use (allocated and not freed) is reachable, or queued for reclamation, or a
never-retained allocation: **slots in use ≤ live + pending (+ fresh)** -/
theorem in_use_live_or_pending {s : State} (h : Inv s) (ht : s.transit = []) (i : Nat)
    (hi : i < s.heap.size) (hf : s.isFreed i = false) :
    i ∈ s.reachable ∨ i ∈ s.pendingFree ∨ i ∈ s.fresh := by
  by_cases hr : i ∈ s.reachable
  · exact Or.inl hr
  · right
    have hz : s.rc i = 0 := by
      cases hc : s.rc i with
      | zero => rfl
      | succ n => exact absurd ((C06.positive_iff_reachable h ht i).mp (by omega)) hr
    exact h.queued i hi hz hf

/-- after `process_pending_free` (the start of the next `step`) a slot in use is reachable or a
never-retained allocation: **pending is drained** -/
theorem in_use_after_reclaim {s : State} (h : Inv s) (ht : s.transit = []) (i : Nat)
    (hi : i < s.heap.size) (hf : (processPendingFree s).isFreed i = false) :
    i ∈ s.reachable ∨ i ∈ s.fresh := by
  have hnf : s.isFreed i = false := by
    cases hq : s.isFreed i with
    | false => rfl
    | true => rw [(ppf_frame h).2.2.2.2.2 i hq] at hf; cases hf
  rcases in_use_live_or_pending h ht i hi hnf with hr | hq | hfr
  · exact Or.inl hr
  · by_cases hr : i ∈ s.reachable
    · exact Or.inl hr
    · have hz : s.rc i = 0 := by
        cases hc : s.rc i with
        | zero => rfl
        | succ n => exact absurd ((C06.positive_iff_reachable h ht i).mp (by omega)) hr
      rw [ppf_frees h i hq hz] at hf
      cases hf
  · exact Or.inr hfr

/-! ### the roots after a tail call -/

/-- **A self tail call removes exactly the iteration's locals from the roots**: for every slot, the
number of references from all roots after the call plus the references from the dropped locals
(everything above the captures) is the number before. -/
theorem tailcall_self_countRefs {s : State} {pid : Nat} {p : Proc} {arg : Val} {st : List Val} {f : Frame}
    {rest : List Frame} (fx : Nat → Bool)
    (hp : s.getProc pid = some p) (hs : p.stack = arg :: st) (hf : p.frames = f :: rest) (i : Nat) :
    (handleTailCall s pid true fx).1.countRefs i
        + countList i (p.locals.drop (f.localsBase + f.capturesCount)) = s.countRefs i := by
  have h := (tailcall_self_spec fx hp hs hf).2.countRefs hp i
  have htd := countList_take_drop i (f.localsBase + f.capturesCount) p.locals
  simp only [Proc.count_eq, hs] at h
  omega

/-- … and a named / ripple tail call replaces the frame's locals (old captures included) by the
target's captures and drops the function value. -/
theorem tailcall_named_countRefs {s : State} {pid : Nat} {p : Proc} {fi : Nat} {caps : List Val} {arg : Val}
    {st : List Val} {f : Frame} {rest : List Frame} (fx : Nat → Bool) (hfx : fx fi = true)
    (hp : s.getProc pid = some p) (hs : p.stack = .func fi caps :: arg :: st) (hf : p.frames = f :: rest)
    (i : Nat) :
    (handleTailCall s pid false fx).1.countRefs i + countList i (p.locals.drop f.localsBase)
      = s.countRefs i := by
  have h := (tailcall_named_spec fx hfx hp hs hf).2.countRefs hp i
  have htd := countList_take_drop i f.localsBase p.locals
  simp only [Proc.count_eq, hs, countList_cons, countList_append, count_func] at h
  omega

/-- Number of heap slots in use (allocated and not in the reuse pool). -/
def slotsInUse (s : State) : Nat := ((List.range s.heap.size).filter (fun i => !s.isFreed i)).length

/-- **Slots in use after reclamation ≤ reachable (+ never-retained allocations)**, counting
reachable handles with multiplicity. -/
theorem slotsInUse_after_reclaim_le {s : State} (h : Inv s) (ht : s.transit = []) :
    slotsInUse (processPendingFree s) ≤ s.reachable.length + s.fresh.length := by
  unfold slotsInUse
  rw [(ppf_frame h).1, ← List.length_append]
  apply List.Nodup.length_le_of_subset
  · exact List.Nodup.sublist List.filter_sublist List.nodup_range
  · intro i hi
    simp only [List.mem_filter, List.mem_range, Bool.not_eq_eq_eq_not, Bool.not_true] at hi
    rcases in_use_after_reclaim h ht i hi.1 hi.2 with h1 | h1
    · exact List.mem_append_left _ h1
    · exact List.mem_append_right _ h1

/-! ### M-Heap processes and M-VM processes (same code, two models) -/

namespace Bridge
open QM.VM (Prog Anns AllChecked)

mutual
/-- An M-Heap value read as an M-VM value (same constructors; payload lists become `ValList`). -/
def toVM : QM.Heap.Val → QM.VM.Val
  | .int z => .int z
  | .bin (.const i) => .bin (.const i)
  | .bin (.heap i) => .bin (.heap i)
  | .ref r => .ref r
  | .tuple id fs => .tup id (toVMList fs)
  | .func id cs => .fn id (toVMList cs)
  | .builtin id => .builtin id
  | .proc a b => .proc a b
  | .resource a b => .res a b
def toVMList : List QM.Heap.Val → QM.VM.ValList
  | [] => .nil
  | v :: vs => .cons (toVM v) (toVMList vs)
end

theorem toVMList_toList : ∀ vs : List QM.Heap.Val, (toVMList vs).toList = vs.map toVM
  | [] => by simp [toVMList]
  | v :: vs => by simp [toVMList, toVMList_toList vs]

def toVMFrame (f : QM.Heap.Frame) : QM.VM.Frame := ⟨f.fn, f.localsBase, f.capturesCount, f.counter⟩

/-- `vp` (M-VM) and `p` (M-Heap) describe the same process: same stack, locals and frames. -/
structure Shadows (vp : QM.VM.Proc) (p : QM.Heap.Proc) : Prop where
  stack : vp.stack = p.stack.map toVM
  locals : vp.locals = p.locals.map toVM
  frames : vp.frames = p.frames.map toVMFrame

/-- **The two models agree on `handle_tail_call`**: if the M-VM handler succeeds on a process, the
M-Heap handler succeeds on any state holding the same process, and the results describe the same
process again. -/
theorem tailcall_agrees {P : Prog} {vp vp' : QM.VM.Proc} {act : Option QM.VM.Action} {r : Bool}
    (hstep : QM.VM.handleTailCall P vp r = .ok (vp', act))
    {s : QM.Heap.State} {pid : Nat} {p : QM.Heap.Proc} (hp : s.getProc pid = some p) (hsh : Shadows vp p)
    (fx : Nat → Bool) (hfx : ∀ i, (P.functions[i]?).isSome = true → fx i = true) :
    (QM.Heap.handleTailCall s pid r fx).2 = .ok ∧
    ∃ p', (QM.Heap.handleTailCall s pid r fx).1.getProc pid = some p' ∧ Shadows vp' p' ∧
      (∀ i, (QM.Heap.handleTailCall s pid r fx).1.countRefs i + p.count i = s.countRefs i + p'.count i) ∧
      p'.mailbox = p.mailbox ∧ p'.result = p.result ∧ p'.selectState = p.selectState ∧
      p'.awaiting = p.awaiting := by
  cases r with
  | true =>
    simp only [QM.VM.handleTailCall, if_true] at hstep
    cases hvs : vp.stack with
    | nil => simp [hvs] at hstep
    | cons varg vst =>
      cases hvf : vp.frames with
      | nil => simp [hvs, hvf] at hstep
      | cons vf vrest =>
        simp only [hvs, hvf, QM.VM.ok, Except.ok.injEq, Prod.mk.injEq] at hstep
        obtain ⟨rfl, _⟩ := hstep
        -- the heap side has the same shape
        cases hs : p.stack with
        | nil => have := hsh.stack; simp [hvs, hs] at this
        | cons arg st =>
          cases hf : p.frames with
          | nil => have := hsh.frames; simp [hvf, hf] at this
          | cons f rest =>
            have h1 := hsh.stack; rw [hvs, hs] at h1
            have h2 := hsh.frames; rw [hvf, hf] at h2
            simp only [List.map_cons, List.cons.injEq] at h1 h2
            obtain ⟨hok, hu⟩ := tailcall_self_spec fx hp hs hf
            refine ⟨hok, _, hu.getProc, ⟨?_, ?_, ?_⟩, fun i => hu.countRefs hp i, rfl, rfl, rfl, rfl⟩
            · simp [h1.1, h1.2]
            · simp [hsh.locals, List.map_take, h2.1, toVMFrame]
            · simp [h2.1, h2.2, toVMFrame, QM.VM.Frame.new]
  | false =>
    simp only [QM.VM.handleTailCall, Bool.false_eq_true, if_false] at hstep
    cases hvs : vp.stack with
    | nil => simp [hvs] at hstep
    | cons vfv vs1 =>
      cases vs1 with
      | nil => simp [hvs] at hstep
      | cons varg vst =>
        cases vfv with
        | fn fi vcaps =>
          simp only [hvs] at hstep
          cases hfn : P.functions[fi]? with
          | none => simp [hfn] at hstep
          | some fn =>
            cases hvf : vp.frames with
            | nil => simp [hfn, hvf] at hstep
            | cons vf vrest =>
              simp only [hfn, hvf, QM.VM.ok, Except.ok.injEq, Prod.mk.injEq] at hstep
              obtain ⟨rfl, _⟩ := hstep
              cases hs : p.stack with
              | nil => have := hsh.stack; simp [hvs, hs] at this
              | cons hfv st1 =>
                cases st1 with
                | nil => have := hsh.stack; simp [hvs, hs] at this
                | cons arg st =>
                  cases hf : p.frames with
                  | nil => have := hsh.frames; simp [hvf, hf] at this
                  | cons f rest =>
                    have h1 := hsh.stack; rw [hvs, hs] at h1
                    have h2 := hsh.frames; rw [hvf, hf] at h2
                    simp only [List.map_cons, List.cons.injEq] at h1 h2
                    -- the function value on the heap side
                    cases hfv with
                    | func fi' caps =>
                      have h11 := h1.1
                      simp only [toVM, QM.VM.Val.fn.injEq] at h11
                      obtain ⟨rfl, hcaps⟩ := h11
                      have hfxi : fx fi = true := hfx fi (by simp [hfn])
                      obtain ⟨hok, hu⟩ := tailcall_named_spec fx hfxi hp hs hf
                      refine ⟨hok, _, hu.getProc, ⟨?_, ?_, ?_⟩, fun i => hu.countRefs hp i, rfl, rfl, rfl, rfl⟩
                      · simp [h1.2.1, h1.2.2]
                      · simp [hsh.locals, List.map_take, h2.1, toVMFrame, hcaps, toVMList_toList]
                      · simp [h2.1, h2.2, toVMFrame, QM.VM.Frame.new, hcaps, toVMList_toList]
                    | bin b => cases b <;> simp [toVM] at h1
                    | _ => simp [toVM] at h1
        | _ => simp [hvs] at hstep

end Bridge

theorem fresh_setProc (s : State) (pid : Nat) (p : Proc) : (s.setProc pid p).fresh = s.fresh := rfl

theorem fresh_popValue (s : State) (pid : Nat) : (popValue s pid).2.fresh = s.fresh := by
  unfold popValue
  split
  · split
    · simp [fresh_release, fresh_setProc]
    · rfl
  · rfl

theorem fresh_truncateLocals (s : State) (pid len : Nat) : (truncateLocals s pid len).fresh = s.fresh := by
  unfold truncateLocals
  split
  · split
    · simp [fresh_releaseList, fresh_setProc]
    · rfl
  · rfl

theorem fresh_pushValue_sub (s : State) (pid : Nat) (v : Val) (i : Nat)
    (h : i ∈ (pushValue s pid v).fresh) : i ∈ s.fresh := by
  unfold pushValue at h
  split at h
  · rw [fresh_setProc] at h; exact fresh_retain_sub s v i h
  · exact h

theorem fresh_modFrames (s : State) (pid : Nat) (g : List Frame → List Frame) :
    (modFrames s pid g).fresh = s.fresh := by
  unfold modFrames
  split <;> rfl

/-- a self tail call allocates nothing -/
theorem fresh_tailcall_self_sub (s : State) (pid : Nat) (fx : Nat → Bool) (i : Nat)
    (h : i ∈ (handleTailCall s pid true fx).1.fresh) : i ∈ s.fresh := by
  unfold handleTailCall at h
  simp only [if_true] at h
  have hpop := fresh_popValue s pid
  generalize popValue s pid = r1 at *
  obtain ⟨o1, s1⟩ := r1
  cases o1 with
  | none => simp only at h hpop; rw [← hpop]; exact h
  | some arg =>
    simp only at h hpop
    split at h
    · simp only at h; rw [← hpop]; exact h
    · simp only [fresh_modFrames] at h
      have := fresh_pushValue_sub _ _ _ _ h
      rw [fresh_truncateLocals, hpop] at this
      exact this


end C16
