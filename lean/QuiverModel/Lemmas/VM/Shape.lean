import QuiverModel.Core.VM.Inv
/-
Shape lemmas for M-VM × M-Check (owner: C07): what one instruction does to the *sizes* of the
process (stack length, locals length, current frame's counter), stated against the checker's
abstract `transfer`. Used by `Theorems/C07.lean` and `Theorems/C16.lean`.
-/
namespace QM.VM

/-- Instructions that neither push/replace a frame nor park the process. -/
def Instr.simple : Instr → Bool
  | .call | .tailCall _ | .spawn | .select => false
  | _ => true

theorem jumpTarget_eq {pc n : Nat} {off : Int} (hn : n < maxCode) (_hpc : pc < n)
    (h0 : 0 ≤ staticTarget pc off) (h1 : staticTarget pc off ≤ n) :
    jumpTarget pc off = (staticTarget pc off).toNat := by
  unfold jumpTarget staticTarget at *
  unfold maxCode at hn
  have : ((pc : Int) + off + 1) % (2 ^ 64 : Int) = (pc : Int) + off + 1 := by
    apply Int.emod_eq_of_lt h0
    omega
  rw [this]

@[simp] theorem GuardSem.none_iff {lb lLen : Nat} {stk : List Val} :
    GuardSem lb lLen .none stk ↔ True := by simp [GuardSem]

@[simp] theorem Val.isNil_ok : Val.ok.isNil = false := rfl
@[simp] theorem Val.isNil_nil : Val.nil.isNil = true := rfl

/-- Shape effect of an instruction that stays in the current frame: the frame's counter becomes
`pc'`, the stack has `sb + out.height` cells, there are at least `out.locals` frame-relative
locals, the guard of `out` holds, nothing else that the invariant looks at changes. -/
structure StepsTo (p p' : Proc) (fr : Frame) (rest : List Frame) (sb : Nat) (pc' : Nat) (out : Ann) : Prop where
  frames : p'.frames = { fr with counter := pc' } :: rest
  stack : p'.stack.length = sb + out.height
  locals : fr.localsBase + out.locals ≤ p'.locals.length
  guard : GuardSem fr.localsBase p'.locals.length out.guard p'.stack
  park : p'.park = p.park
  sel : p'.selectState = p.selectState
  result : p'.result = p.result
  persistent : p'.persistent = p.persistent
  pid : p'.pid = p.pid

macro "shape_fin" : tactic =>
  `(tactic| (constructor <;> (first | rfl | (simp_all; done) | (simp_all; omega) | omega)))

/-- **Local soundness of the transfer function** for instructions that stay in the frame: from a
state of the annotated shape the instruction does not fail structurally, and its result has the
shape `transfer` predicts for one of the successors. -/
theorem simple_step_sound {O : Oracle} {P : Prog} {p : Proc} {fr : Frame} {rest : List Frame}
    {n caps : Nat} {a : Ann} {i : Instr} {succs : List (Nat × Ann)} {sb : Nat}
    (hfr : p.frames = fr :: rest)
    (htr : transfer P n caps fr.counter a i = .ok succs)
    (hs : p.stack.length = sb + a.height)
    (hl : fr.localsBase + a.locals ≤ p.locals.length)
    (hg : GuardSem fr.localsBase p.locals.length a.guard p.stack)
    (hsimple : i.simple = true)
    (hn : n < maxCode) (hpcn : fr.counter < n) :
    match stepInstr O P p i with
    | .error e => e.isStructural = false
    | .ok (p', _) => ∃ s ∈ succs, StepsTo p p' fr rest sb s.1 s.2 := by
  cases i with
  | constant k =>
    simp only [transfer] at htr
    split at htr <;> cases htr
    rename_i hk
    have : P.constants[k]? = some P.constants[k] := by simp [hk]
    cases hc : P.constants[k] <;>
      simp [stepInstr, handleConstant, this, hc, ok, Proc.bump, Proc.push, hfr] <;>
      shape_fin
  | pop =>
    simp only [transfer] at htr
    split at htr <;> cases htr
    cases hst : p.stack with
    | nil => simp_all; omega
    | cons v s =>
      simp [stepInstr, handlePop, hst, ok, Proc.bump, hfr]
      shape_fin
  | duplicate =>
    simp only [transfer] at htr
    split at htr <;> cases htr
    cases hst : p.stack with
    | nil => simp_all; omega
    | cons v s =>
      have hgd : GuardSem fr.localsBase p.locals.length
          (match a.guard with
            | .top g => .dup (max g a.locals)
            | _ => .dup a.locals) (v :: v :: s) := by
        cases hga : a.guard with
        | top g =>
          rw [hga] at hg
          exact ⟨v, s, rfl, fun hv => by have := hg v s hst hv; omega⟩
        | _ => exact ⟨v, s, rfl, fun _ => hl⟩
      simp [stepInstr, handleDuplicate, hst, ok, Proc.bump, hfr]
      constructor <;> (first | exact hgd | rfl | (simp_all; done) | (simp_all; omega) | omega)
  | pick k =>
    simp only [transfer] at htr
    split at htr <;> cases htr
    rename_i hk
    have hk' : k < p.stack.length := by omega
    simp [stepInstr, handlePick, hk', ok, Proc.bump, Proc.push, hfr]
    shape_fin
  | rotate k =>
    simp only [transfer] at htr
    split at htr <;> cases htr
    rename_i hk
    have hk' : ¬ p.stack.length < k := by omega
    cases k with
    | zero => omega
    | succ j =>
      have hj : j < p.stack.length := by omega
      have he : (p.stack.eraseIdx j).length = p.stack.length - 1 := by
        simp [List.length_eraseIdx, hj]
      simp [stepInstr, handleRotate, hk', hj, ok, Proc.bump, hfr]
      constructor <;> (first | rfl | (simp_all; done) | (simp_all; omega) | omega)
  | reset k =>
    simp only [transfer] at htr
    split at htr <;> cases htr
    rename_i hk
    have hk' : ¬ fr.localsBase + k > p.locals.length := by omega
    simp [stepInstr, handleReset, hfr, hk', ok, Proc.bump]
    constructor <;> (first | rfl | (simp_all; done) | (simp_all [List.length_take]; omega) | omega)
  | load k =>
    simp only [transfer] at htr
    split at htr <;> cases htr
    rename_i hk
    have hk' : fr.localsBase + k < p.locals.length := by omega
    simp [stepInstr, handleLoad, hfr, hk', ok, Proc.bump, Proc.push]
    shape_fin
  | store =>
    simp only [transfer] at htr
    split at htr <;> cases htr
    cases hst : p.stack with
    | nil => simp_all; omega
    | cons v s =>
      simp [stepInstr, handleStore, hst, ok, Proc.bump, hfr]
      shape_fin
  | tuple id =>
    simp only [transfer] at htr
    split at htr
    · cases htr
    · rename_i arity har
      split at htr <;> cases htr
      rename_i hle
      have hk' : ¬ p.stack.length < arity := by omega
      simp [stepInstr, handleTuple, har, hk', ok, Proc.bump, hfr]
      constructor <;> (first | rfl | (simp_all; done) | (simp_all [List.length_drop]; omega) | omega)
  | get k =>
    simp only [transfer] at htr
    split at htr <;> cases htr
    cases hst : p.stack with
    | nil => simp_all; omega
    | cons v s =>
      cases v with
      | tup id els =>
        simp only [stepInstr, handleGet, hst]
        cases hg : els.toList[k]? with
        | none => simp [Err.isStructural]
        | some e =>
          simp [ok, Proc.bump, hfr]
          shape_fin
      | _ => simp [stepInstr, handleGet, hst, Err.isStructural]
  | isType id =>
    simp only [transfer] at htr
    split at htr
    · split at htr <;> cases htr
      cases hst : p.stack with
      | nil => simp_all; omega
      | cons v s =>
        simp [stepInstr, handleIsType, hst, ok, Proc.bump, hfr]
        shape_fin
    · cases htr
  | jump off =>
    simp only [transfer] at htr
    split at htr <;> cases htr
    rename_i hj
    have ht := jumpTarget_eq (off := off) hn hpcn hj.1 hj.2.1
    simp [stepInstr, handleJump, hj.2.2, hfr, ok, Proc.setCounter, ht]
    constructor <;> (first | exact hg | rfl | (simp_all; done) | (simp_all; omega) | omega)
  | jumpIf off =>
    simp only [transfer] at htr
    split at htr
    · rename_i hh
      split at htr
      · rename_i hj
        have ht := jumpTarget_eq (off := off) hn hpcn hj.1 hj.2.1
        cases hst : p.stack with
        | nil => simp_all; omega
        | cons v s =>
          cases hga : a.guard with
          | neg g =>
            rw [hga] at hg htr
            simp only at htr
            cases htr
            obtain ⟨n', w, s', hstk, hneg, himp⟩ := hg
            rw [hst] at hstk
            obtain ⟨rfl, rfl⟩ := List.cons.inj hstk
            simp only [stepInstr, handleJumpIf, hst]
            by_cases hv : v.isNil
            · -- not taken: `Not w` is nil, so `w` is non-nil and the guarded locals are there
              have hw : w.isNil = false := by rw [hv] at hneg; simpa using hneg.symm
              have hgl := himp hw
              simp [hv, ok, Proc.bump, hfr]
              right
              constructor <;> (first | rfl | (simp_all; done) | (simp_all; omega) | omega)
            · -- taken: `w` is nil
              have hw : w.isNil = true := by
                have : v.isNil = false := by simpa using hv
                rw [this] at hneg; simpa using hneg.symm
              simp [hv, hj.2.2, ok, Proc.setCounter, hfr, ht]
              left
              constructor <;> (first | exact ⟨w, s', rfl, hw⟩ | rfl | (simp_all; done) | (simp_all; omega) | omega)
          | none | top _ | dup _ | nilTop =>
            rw [hga] at htr
            simp only at htr
            cases htr
            simp only [stepInstr, handleJumpIf, hst]
            by_cases hv : v.isNil
            · simp [hv, ok, Proc.bump, hfr]
              right
              shape_fin
            · simp [hv, hj.2.2, ok, Proc.setCounter, hfr, ht]
              left
              shape_fin
      · cases htr
    · cases htr
  | call => simp [Instr.simple] at hsimple
  | tailCall r => simp [Instr.simple] at hsimple
  | function k =>
    simp only [transfer] at htr
    split at htr
    · cases htr
    · rename_i fn hfn
      split at htr <;> cases htr
      rename_i hle
      have hk' : ¬ p.stack.length < fn.captures := by omega
      simp [stepInstr, handleFunction, hfn, hk', ok, Proc.bump, hfr]
      constructor <;> (first | rfl | (simp_all; done) | (simp_all [List.length_drop]; omega) | omega)
  | builtin k =>
    simp only [transfer] at htr
    split at htr <;> cases htr
    rename_i hk
    have hk' : ¬ k ≥ P.builtins := by omega
    simp [stepInstr, handleBuiltin, hk', ok, Proc.bump, Proc.push, hfr]
    shape_fin
  | equal k =>
    simp only [transfer] at htr
    split at htr <;> cases htr
    rename_i hk
    have hk' : ¬ k > p.stack.length := by omega
    simp only [stepInstr, handleEqual, hk', if_false]
    cases hrev : (p.stack.take k).reverse with
    | nil =>
      have h2 := congrArg List.length hrev
      rw [List.length_reverse, List.length_take, List.length_nil] at h2
      omega
    | cons first rest' =>
      simp [ok, Proc.bump, hfr]
      constructor <;> (first | rfl | (simp_all; done) | (simp_all [List.length_drop]; omega) | omega)
  | not =>
    simp only [transfer] at htr
    split at htr <;> cases htr
    cases hst : p.stack with
    | nil => simp_all; omega
    | cons v s =>
      have hgd : GuardSem fr.localsBase p.locals.length
          (match a.guard with
            | .dup g => .neg g
            | _ => .none) ((if v.isNil then Val.ok else Val.nil) :: s) := by
        cases hga : a.guard with
        | dup g =>
          rw [hga] at hg
          obtain ⟨w, s', hstk, himp⟩ := hg
          rw [hst] at hstk
          obtain ⟨rfl, rfl⟩ := List.cons.inj hstk
          refine ⟨_, v, s', rfl, ?_, himp⟩
          cases v.isNil <;> simp
        | _ => simp
      simp [stepInstr, handleNot, hst, ok, Proc.bump, hfr]
      constructor <;> (first | exact hgd | rfl | (simp_all; done) | (simp_all; omega) | omega)
  | spawn => simp [Instr.simple] at hsimple
  | send =>
    simp only [transfer] at htr
    split at htr <;> cases htr
    by_cases hr : p.isReceiving
    · simp [stepInstr, handleSend, hr, Err.isStructural]
    · cases hst : p.stack with
      | nil => simp_all; omega
      | cons t s =>
        cases s with
        | nil => simp_all; omega
        | cons m s' =>
          cases t <;> simp [stepInstr, handleSend, hr, hst, Err.isStructural, Proc.bump, hfr]
          shape_fin
  | self_ =>
    simp only [transfer] at htr
    cases htr
    simp [stepInstr, handleSelf, ok, Proc.bump, Proc.push, hfr]
    shape_fin
  | select => simp [Instr.simple] at hsimple
  | process q fidx =>
    simp only [transfer] at htr
    split at htr <;> cases htr
    simp [stepInstr, handleProcessRef, ok, Proc.bump, Proc.push, hfr]
    shape_fin

/-- What `checkFn` establishes, unpacked. -/
structure Checked (P : Prog) (fn : Function) (anns : Anns) : Prop where
  size : anns.size = fn.instructions.size
  small : fn.instructions.size < maxCode
  entry : flowsTo fn.instructions.size anns 0 ⟨1, fn.captures, .none⟩ = true
  local_ : ∀ pc a i, anns[pc]? = some (some a) → fn.instructions[pc]? = some i →
    ∃ succs, transfer P fn.instructions.size fn.captures pc a i = .ok succs ∧
      ∀ s ∈ succs, flowsTo fn.instructions.size anns s.1 s.2 = true

theorem checkFn_spec {P : Prog} {fn : Function} {anns : Anns} (h : checkFn P fn anns = true) :
    Checked P fn anns := by
  unfold checkFn at h
  simp only [Bool.and_eq_true, beq_iff_eq, decide_eq_true_eq, List.all_eq_true, List.mem_range] at h
  obtain ⟨⟨⟨h1, h2⟩, h3⟩, h4⟩ := h
  refine ⟨h1, h2, h3, ?_⟩
  intro pc a i ha hi
  have hpc : pc < fn.instructions.size := by
    have := (Array.getElem?_eq_some_iff.mp hi).1
    exact this
  have := h4 pc hpc
  unfold checkPc at this
  rw [ha, hi] at this
  simp only at this
  split at this
  · cases this
  · rename_i succs hs
    refine ⟨succs, hs, ?_⟩
    intro s hs'
    have := List.all_eq_true.mp this s hs'
    exact this

/-- What `out` knows about the top of the stack implies what an annotation it flows into claims. -/
theorem guard_of_flows {out b : Ann} {lb lLen : Nat} {stk : List Val}
    (hf : guardFlows out b = true) (hl : lb + out.locals ≤ lLen)
    (hg : GuardSem lb lLen out.guard stk) : GuardSem lb lLen b.guard stk := by
  unfold guardFlows at hf
  cases hb : b.guard with
  | none => simp
  | top g =>
    rw [hb] at hf
    intro v s hstk hv
    simp only [Bool.or_eq_true, beq_iff_eq, decide_eq_true_eq] at hf
    rcases hf with hz | hle
    · rw [hz] at hg
      obtain ⟨v', s', hstk', hv'⟩ := hg
      rw [hstk] at hstk'
      obtain ⟨rfl, _⟩ := List.cons.inj hstk'
      rw [hv] at hv'; cases hv'
    · unfold Ann.eff at hle
      cases ho : out.guard with
      | top g' =>
        rw [ho] at hg hle
        have := hg v s hstk hv
        simp only at hle
        omega
      | dup g' =>
        rw [ho] at hg hle
        obtain ⟨w, s', hstk', himp⟩ := hg
        rw [hstk] at hstk'
        obtain ⟨rfl, _⟩ := List.cons.inj hstk'
        have := himp hv
        simp only at hle
        omega
      | none => rw [ho] at hle; simp only at hle; omega
      | neg _ => rw [ho] at hle; simp only at hle; omega
      | nilTop => rw [ho] at hle; simp only at hle; omega
  | dup g =>
    rw [hb] at hf
    cases ho : out.guard with
    | dup g' =>
      rw [ho] at hf hg
      simp only [decide_eq_true_eq] at hf
      obtain ⟨w, s', hstk', himp⟩ := hg
      exact ⟨w, s', hstk', fun hv => by have := himp hv; omega⟩
    | _ => rw [ho] at hf; simp at hf
  | neg g =>
    rw [hb] at hf
    cases ho : out.guard with
    | neg g' =>
      rw [ho] at hf hg
      simp only [decide_eq_true_eq] at hf
      obtain ⟨n, w, s', hstk', hneg, himp⟩ := hg
      exact ⟨n, w, s', hstk', hneg, fun hv => by have := himp hv; omega⟩
    | _ => rw [ho] at hf; simp at hf
  | nilTop =>
    rw [hb] at hf
    simp only [beq_iff_eq] at hf
    rw [hf] at hg
    exact hg

/-- The abstract state at `pc` admits a concrete frame whose stack is `stk` over a base of `sb` and
whose locals number `lLen` over a base of `lb`: either the frame is exhausted (`pc = n`) with
exactly one value over the base, or `pc` is annotated, the height is the annotated one, there are
at least the annotated locals and the annotated guard holds. -/
def AtPc (n : Nat) (anns : Anns) (pc : Nat) (stk : List Val) (lLen sb lb : Nat) : Prop :=
  (pc = n ∧ stk.length = sb + 1) ∨
  (∃ a, anns[pc]? = some (some a) ∧ stk.length = sb + a.height ∧ lb + a.locals ≤ lLen ∧
    GuardSem lb lLen a.guard stk)

theorem flowsTo_atPc {n : Nat} {anns : Anns} {pc' : Nat} {out : Ann} {stk : List Val} {lLen sb lb : Nat}
    (h : flowsTo n anns pc' out = true) (hs : stk.length = sb + out.height) (hl : lb + out.locals ≤ lLen)
    (hg : GuardSem lb lLen out.guard stk) :
    AtPc n anns pc' stk lLen sb lb := by
  unfold flowsTo at h
  split at h
  · left
    simp at h
    omega
  · right
    split at h
    · rename_i b hb
      simp at h
      exact ⟨b, hb, by omega, by omega, guard_of_flows h.2 hl hg⟩
    · cases h

end QM.VM
