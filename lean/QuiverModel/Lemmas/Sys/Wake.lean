import QuiverModel.Lemmas.Sys.Sched
/-
No lost wake-up (`WInv`): a process parked in `selecting` has no ready source in its local state
(no accepted message in its mailbox, no awaited result or failure stored), or something that will
re-queue it is in flight: a DeliverMessage / UpdateAwaitResults for it, or a link of its await chain
(AwaitAction → QueryAndAwait → ProcessResults → UpdateAwaitResults).
-/
namespace QM.Sys
set_option linter.unusedSectionVars false
variable [Cfg]

/-- is this source ready in the process's local state, clock aside? -/
def srcLocal (x : Proc) : Src → Bool
  | .proc r => decide (x.reg r ∈ x.awaitFailed) ||
      (match alookup x.awaiting (x.reg r) with | some (some _) => true | _ => false)
  | .recv f => (firstAccepted f x.mailbox).isSome
  | .timeout _ => false

/-- the select the process is parked at has a source that is ready in its local state -/
def LocalReady (prog : Prog) (x : Proc) : Prop :=
  (∃ srcs, currentSelect prog x = some srcs ∧ ∃ src ∈ srcs, srcLocal x src = true) ∧
  -- variant `selectWaits`: … and the select is allowed to evaluate: every target has been answered
  ¬ (Cfg.selectWaits = true ∧ x.unanswered.isEmpty = false)

def mentionsC (p : Pid) : Cmd → Bool
  | .deliver t _ => decide (t = p)
  | .updateAwait a _ => decide (a = p)
  | .queryAwait a _ => decide (a = p)
  | _ => false

def mentionsE (p : Pid) : Evt → Bool
  | .await a _ => decide (a = p)
  | .procResults a _ => decide (a = p)
  | _ => false

/-- something that will (transitively) re-queue `p` is in flight -/
def WakePending (s : Sys) (p : Pid) : Prop :=
  (∃ w c, c ∈ s.cmdQ w ∧ mentionsC p c = true) ∨ (∃ w e, e ∈ s.evtQ w ∧ mentionsE p e = true)

/-- worker `w` still owes the environment an answer to `p`'s await query -/
def InFlightFrom (s : Sys) (p : Pid) (w : Wid) : Prop :=
  (∃ ts, Cmd.queryAwait p ts ∈ s.cmdQ w) ∨ (∃ rs, Evt.procResults p rs ∈ s.evtQ w)

structure WCore (s : Sys) : Prop where
  neA : ∀ w a ts, Evt.await a ts ∈ s.evtQ w → ts ≠ []
  neQ : ∀ w a ts, Cmd.queryAwait a ts ∈ s.cmdQ w → ts ≠ []
  neR : ∀ w a rs, Evt.procResults a rs ∈ s.evtQ w → rs ≠ []
  pend : ∀ p pa, s.env.pending p = some pa → ∀ w ∈ pa.expected, InFlightFrom s p w
  wake : ∀ w p x, p ∈ (s.wk w).selecting → (s.wk w).procs p = some x → ¬ LocalReady s.prog x ∨ WakePending s p

def isSpawnEvt (c : Pid) : Evt → Bool
  | .spawn c' _ _ _ => decide (c' = c)
  | _ => false
def isNotify (c : Pid) : Cmd → Bool
  | .notifySpawn c' _ => decide (c' = c)
  | _ => false

/-- **Spawn pairing**: a process is parked in `spawning` iff exactly one SpawnAction / NotifySpawn for
it is in flight at its worker; otherwise none is. -/
def SPair (s : Sys) : Prop :=
  ∀ w c, (s.evtQ w).countP (isSpawnEvt c) + (s.cmdQ w).countP (isNotify c) = if c ∈ (s.wk w).spawning then 1 else 0

structure WInv (s : Sys) : Prop where
  si : SInv s
  core : WCore s
  pair : SPair s

/-! ### monotonicity -/

theorem WakePending.mono {s s' : Sys} {p : Pid} (hc : ∀ w c, c ∈ s.cmdQ w → c ∈ s'.cmdQ w)
    (he : ∀ w e, e ∈ s.evtQ w → e ∈ s'.evtQ w) (h : WakePending s p) : WakePending s' p := by
  rcases h with ⟨w, c, h1, h2⟩ | ⟨w, e, h1, h2⟩
  · exact Or.inl ⟨w, c, hc w c h1, h2⟩
  · exact Or.inr ⟨w, e, he w e h1, h2⟩

theorem InFlightFrom.mono {s s' : Sys} {p : Pid} {w : Wid} (hc : ∀ c, c ∈ s.cmdQ w → c ∈ s'.cmdQ w)
    (he : ∀ e, e ∈ s.evtQ w → e ∈ s'.evtQ w) (h : InFlightFrom s p w) : InFlightFrom s' p w := by
  rcases h with ⟨ts, h1⟩ | ⟨rs, h1⟩
  · exact Or.inl ⟨ts, hc _ h1⟩
  · exact Or.inr ⟨rs, he _ h1⟩

theorem InFlightFrom.wake {s : Sys} {p : Pid} {w : Wid} (h : InFlightFrom s p w) : WakePending s p := by
  rcases h with ⟨ts, h1⟩ | ⟨rs, h1⟩
  · exact Or.inl ⟨w, _, h1, by simp [mentionsC]⟩
  · exact Or.inr ⟨w, _, h1, by simp [mentionsE]⟩

/-! ### primitive updates -/

theorem WCore.pushCmd {s : Sys} (h : WCore s) (w : Wid) (c : Cmd)
    (hq : ∀ a ts, c = .queryAwait a ts → ts ≠ []) : WCore (s.pushCmd w c) := by
  have hmono : ∀ w' c', c' ∈ s.cmdQ w' → c' ∈ (s.pushCmd w c).cmdQ w' := fun w' c' h1 => mem_upd_append_of_mem h1
  refine { neA := h.neA, neQ := ?_, neR := h.neR, pend := ?_, wake := ?_ }
  · intro w' a ts hm
    rcases mem_upd_append hm with h1 | ⟨_, h1⟩
    · exact h.neQ w' a ts h1
    · exact hq a ts h1.symm
  · intro p pa hp w' hw'
    exact (h.pend p pa hp w' hw').mono (hmono w') (fun _ he => he)
  · intro w' p x hp hx
    rcases h.wake w' p x hp hx with h1 | h1
    · exact Or.inl h1
    · exact Or.inr (h1.mono hmono (fun _ _ he => he))

/-- any change that keeps queues, workers, program and `pending` -/
theorem WCore.congr {s s' : Sys} (h : WCore s) (hc : s'.cmdQ = s.cmdQ) (he : s'.evtQ = s.evtQ) (hw : s'.wk = s.wk)
    (hp : s'.prog = s.prog) (hpe : s'.env.pending = s.env.pending) : WCore s' := by
  refine { neA := by rw [he]; exact h.neA, neQ := by rw [hc]; exact h.neQ, neR := by rw [he]; exact h.neR,
           pend := ?_, wake := ?_ }
  · intro p pa hpp w hw'
    rw [hpe] at hpp
    exact (h.pend p pa hpp w hw').mono (fun _ h1 => by rw [hc]; exact h1) (fun _ h1 => by rw [he]; exact h1)
  · intro w p x hsel hx
    rw [hw] at hsel hx
    rw [hp]
    rcases h.wake w p x hsel hx with h1 | h1
    · exact Or.inl h1
    · exact Or.inr (h1.mono (fun _ _ h2 => by rw [hc]; exact h2) (fun _ _ h2 => by rw [he]; exact h2))

/-- popping an event that mentions nobody (deliver, spawn, resultResp) -/
theorem WCore.popEvtSilent {s : Sys} (h : WCore s) {w : Wid} {e : Evt} {rest : List Evt} (hq : s.evtQ w = e :: rest)
    (he : ∀ p, mentionsE p e = false) : WCore { s with evtQ := upd s.evtQ w rest } := by
  have hsub : ∀ w' e', e' ∈ upd s.evtQ w rest w' → e' ∈ s.evtQ w' := fun w' e' h1 => mem_upd_tail hq h1
  have hkeep : ∀ w' e', e' ∈ s.evtQ w' → e' ≠ e → e' ∈ upd s.evtQ w rest w' := by
    intro w' e' h1 hne
    simp only [upd_apply]; split
    · rename_i e2; subst e2; rw [hq] at h1
      rcases List.mem_cons.mp h1 with h2 | h2
      · exact absurd h2 hne
      · exact h2
    · exact h1
  refine { neA := fun w' a ts hm => h.neA w' a ts (hsub w' _ hm), neQ := h.neQ,
           neR := fun w' a rs hm => h.neR w' a rs (hsub w' _ hm), pend := ?_, wake := ?_ }
  · intro p pa hp w' hw'
    rcases h.pend p pa hp w' hw' with ⟨ts, h1⟩ | ⟨rs, h1⟩
    · exact Or.inl ⟨ts, h1⟩
    · refine Or.inr ⟨rs, hkeep w' _ h1 ?_⟩
      intro heq; have := he p; rw [← heq] at this; simp [mentionsE] at this
  · intro w' p x hsel hx
    rcases h.wake w' p x hsel hx with h1 | h1
    · exact Or.inl h1
    · right
      rcases h1 with ⟨w2, c, h2, h3⟩ | ⟨w2, e', h2, h3⟩
      · exact Or.inl ⟨w2, c, h2, h3⟩
      · refine Or.inr ⟨w2, e', hkeep w2 e' h2 ?_, h3⟩
        intro heq; rw [heq, he p] at h3; cases h3

theorem WCore.handleSpawn {s : Sys} (h : WCore s) (caller : Pid) (fn : Nat) (regs : List Pid) (coloc : Option Pid) :
    WCore (handleSpawn s caller fn regs coloc) := by
  simp only [QM.Sys.handleSpawn]
  generalize placement s coloc s.env.nextPid = w
  have h0 : WCore ({ s with env := { s.env with nextPid := s.env.nextPid + 1, router := upd s.env.router s.env.nextPid (some w) } } : Sys) :=
    h.congr rfl rfl rfl rfl rfl
  have h1 := h0.pushCmd w (.spawn s.env.nextPid fn regs) (fun _ _ heq => by cases heq)
  split
  · exact h1.congr rfl rfl rfl rfl rfl
  · exact (h1.pushCmd _ (.notifySpawn caller s.env.nextPid) (fun _ _ heq => by cases heq)).congr rfl rfl rfl rfl rfl

theorem WCore.handleDeliver {s : Sys} (h : WCore s) (t : Pid) (m : Msg) : WCore (handleDeliver s t m) := by
  unfold QM.Sys.handleDeliver
  split
  · exact h.congr rfl rfl rfl rfl rfl
  · exact h.pushCmd _ _ (fun _ _ heq => by cases heq)


theorem mem_pushCmd_self (s : Sys) (w : Wid) (c : Cmd) : c ∈ (s.pushCmd w c).cmdQ w := by
  show c ∈ upd s.cmdQ w (s.cmdQ w ++ [c]) w
  simp

/-! ### await events -/

theorem foldPush_spec (g : Wid → Cmd) : ∀ (ws : List Wid) (s : Sys),
    let s' := ws.foldl (fun acc w => acc.pushCmd w (g w)) s
    s'.evtQ = s.evtQ ∧ s'.wk = s.wk ∧ s'.env = s.env ∧ s'.prog = s.prog ∧
    (∀ w c, c ∈ s.cmdQ w → c ∈ s'.cmdQ w) ∧ (∀ w ∈ ws, g w ∈ s'.cmdQ w) ∧
    (∀ w c, c ∈ s'.cmdQ w → c ∈ s.cmdQ w ∨ (w ∈ ws ∧ c = g w))
  | [], s => ⟨rfl, rfl, rfl, rfl, fun _ _ h => h, fun _ h => by simp at h, fun _ _ h => Or.inl h⟩
  | w0 :: ws, s => by
    have ih := foldPush_spec g ws (s.pushCmd w0 (g w0))
    simp only [List.foldl_cons]
    obtain ⟨i1, i2, i3, i4, i5, i6, i7⟩ := ih
    refine ⟨i1, i2, i3, i4, ?_, ?_, ?_⟩
    · intro w c hc; exact i5 w c (mem_upd_append_of_mem hc)
    · intro w hw
      rcases List.mem_cons.mp hw with rfl | hw
      · apply i5; show g w ∈ upd s.cmdQ w (s.cmdQ w ++ [g w]) w; simp
      · exact i6 w hw
    · intro w c hc
      rcases i7 w c hc with h1 | ⟨h1, h2⟩
      · rcases mem_upd_append h1 with h3 | ⟨h3, h4⟩
        · exact Or.inl h3
        · exact Or.inr ⟨by rw [h3]; simp, by rw [h3]; exact h4⟩
      · exact Or.inr ⟨List.mem_cons_of_mem _ h1, h2⟩

theorem targetWorkers_ne_nil {router : Router} {ts : List Pid} (hne : ts ≠ []) (hr : ∀ t ∈ ts, Routed router t) :
    targetWorkers router ts ≠ [] := by
  cases ts with
  | nil => exact absurd rfl hne
  | cons t rest =>
    unfold targetWorkers
    have := hr t (by simp)
    unfold Routed at this
    cases h : router t with
    | none => rw [h] at this; simp at this
    | some w => simp

theorem WCore.handleAwaitPop {s : Sys} (h : WCore s) (hr : RInv s) {w0 : Wid} {a : Pid} {ts : List Pid} {rest : List Evt}
    (hq : s.evtQ w0 = .await a ts :: rest) : WCore (handleAwait { s with evtQ := upd s.evtQ w0 rest } a ts) := by
  have hev : EvtOK s.env.router s.prog.length w0 (.await a ts) := hr.evts w0 _ (by rw [hq]; simp)
  obtain ⟨_, hts⟩ := hev
  have hne : ts ≠ [] := h.neA w0 a ts (by rw [hq]; simp)
  unfold QM.Sys.handleAwait
  split
  · rename_i hany
    simp only [List.any_eq_true] at hany
    obtain ⟨t, ht, hn⟩ := hany
    have := hts t ht
    unfold Routed at this
    simp_all
  · dsimp only
    generalize hws : targetWorkers s.env.router ts = ws
    have hwsne : ws ≠ [] := hws ▸ targetWorkers_ne_nil hne hts
    have hspec := foldPush_spec (fun w => Cmd.queryAwait a (ts.filter (fun t => s.env.router t = some w))) ws
      { s with evtQ := upd s.evtQ w0 rest, env := { s.env with pending := upd s.env.pending a (some { expected := ws, responses := [] }) } }
    generalize List.foldl _ _ ws = s' at hspec ⊢
    obtain ⟨e1, e2, e3, e4, e5, e6, e7⟩ := hspec
    have hsub : ∀ w' e', e' ∈ upd s.evtQ w0 rest w' → e' ∈ s.evtQ w' := fun w' e' h1 => mem_upd_tail hq h1
    have hkeep : ∀ w' e', e' ∈ s.evtQ w' → e' ≠ .await a ts → e' ∈ s'.evtQ w' := by
      intro w' e' h1 hne'
      rw [e1]
      show e' ∈ upd s.evtQ w0 rest w'
      simp only [upd_apply]; split
      · rename_i e2'; subst e2'; rw [hq] at h1
        rcases List.mem_cons.mp h1 with h2 | h2
        · exact absurd h2 hne'
        · exact h2
      · exact h1
    have hquery : ∀ w ∈ ws, InFlightFrom s' a w := fun w hw => Or.inl ⟨_, e6 w hw⟩
    refine { neA := ?_, neQ := ?_, neR := ?_, pend := ?_, wake := ?_ }
    · intro w a' ts' hm; rw [e1] at hm; exact h.neA w a' ts' (hsub w _ hm)
    · intro w a' ts' hm
      rcases e7 w _ hm with h1 | ⟨h1, h2⟩
      · exact h.neQ w a' ts' h1
      · cases h2
        rw [← hws] at h1
        obtain ⟨t, ht, hrt⟩ := targetWorkers_mem h1
        intro hnil
        have : t ∈ ts.filter (fun t => s.env.router t = some w) := by simp [ht, hrt]
        rw [hnil] at this; simp at this
    · intro w a' rs hm; rw [e1] at hm; exact h.neR w a' rs (hsub w _ hm)
    · intro p pa hp w hw
      rw [e3] at hp
      have hp' : upd s.env.pending a (some { expected := ws, responses := [] }) p = some pa := hp
      by_cases hpa : p = a
      · subst hpa
        simp only [upd_same, Option.some.injEq] at hp'
        subst hp'
        exact hquery w hw
      · simp only [upd_other _ _ _ _ hpa] at hp'
        rcases h.pend p pa hp' w hw with ⟨ts', h1⟩ | ⟨rs, h1⟩
        · exact Or.inl ⟨ts', e5 w _ h1⟩
        · exact Or.inr ⟨rs, hkeep w _ h1 (by simp)⟩
    · intro w p x hsel hx
      rw [e2] at hsel hx
      rw [e4]
      rcases h.wake w p x hsel hx with h1 | h1
      · exact Or.inl h1
      · right
        rcases h1 with ⟨w2, c, h2, h3⟩ | ⟨w2, e', h2, h3⟩
        · exact Or.inl ⟨w2, c, e5 w2 c h2, h3⟩
        · by_cases heq : e' = .await a ts
          · subst heq
            simp only [mentionsE, decide_eq_true_eq] at h3
            subst h3
            obtain ⟨w3, hw3⟩ := List.exists_mem_of_ne_nil ws hwsne
            exact (hquery w3 hw3).wake
          · exact Or.inr ⟨w2, e', hkeep w2 e' h2 heq, h3⟩

theorem WCore.handleProcResultsPop {s : Sys} (h : WCore s) (hr : RInv s) (combine) {w0 : Wid} {a : Pid} {rs : Results}
    {rest : List Evt} (hq : s.evtQ w0 = .procResults a rs :: rest) :
    WCore (handleProcResultsWith combine { s with evtQ := upd s.evtQ w0 rest } a rs) := by
  have hev : EvtOK s.env.router s.prog.length w0 (.procResults a rs) := hr.evts w0 _ (by rw [hq]; simp)
  obtain ⟨ha, hkeys⟩ := hev
  have hne : rs ≠ [] := h.neR w0 a rs (by rw [hq]; simp)
  unfold Routed at ha
  have hsub : ∀ w' e', e' ∈ upd s.evtQ w0 rest w' → e' ∈ s.evtQ w' := fun w' e' h1 => mem_upd_tail hq h1
  have hkeep : ∀ w' e', e' ∈ s.evtQ w' → (w' ≠ w0 ∨ e' ≠ .procResults a rs) → e' ∈ upd s.evtQ w0 rest w' := by
    intro w' e' h1 hne'
    simp only [upd_apply]; split
    · rename_i e2'; subst e2'; rw [hq] at h1
      rcases List.mem_cons.mp h1 with h2 | h2
      · rcases hne' with h3 | h3
        · exact absurd rfl h3
        · exact absurd h2 h3
      · exact h2
    · exact h1
  unfold QM.Sys.handleProcResultsWith
  cases hrs : rs with
  | nil => exact absurd hrs hne
  | cons kv rs' =>
    obtain ⟨k, v⟩ := kv
    have hk : s.env.router k = some w0 := hkeys (k, v) (by rw [hrs]; simp)
    dsimp only
    have hk' : ({ s with evtQ := upd s.evtQ w0 rest } : Sys).env.router k = some w0 := hk
    rw [hk']
    cases hra : s.env.router a with
    | none => rw [hra] at ha; simp at ha
    | some aw =>
      -- wake-up bookkeeping shared by all branches: what survives the pop
      have hwakeKeep : ∀ {s' : Sys}, (∀ w c, c ∈ s.cmdQ w → c ∈ s'.cmdQ w) →
          (∀ w e, e ∈ upd s.evtQ w0 rest w → e ∈ s'.evtQ w) → WakePending s' a →
          ∀ p, WakePending s p → WakePending s' p := by
        intro s' hc he hwa p hp
        rcases hp with ⟨w2, c, h2, h3⟩ | ⟨w2, e', h2, h3⟩
        · exact Or.inl ⟨w2, c, hc w2 c h2, h3⟩
        · by_cases heq : w2 = w0 ∧ e' = .procResults a rs
          · obtain ⟨_, rfl⟩ := heq
            simp only [mentionsE, decide_eq_true_eq] at h3
            subst h3; exact hwa
          · refine Or.inr ⟨w2, e', he w2 e' (hkeep w2 e' h2 ?_), h3⟩
            by_cases h4 : w2 = w0
            · right; intro h5; exact heq ⟨h4, h5⟩
            · left; exact h4
      cases hpend : s.env.pending a with
      | some pa =>
        dsimp only
        split
        · -- all workers have answered: UpdateAwaitResults
          rename_i hemp
          refine { neA := fun w a' ts hm => h.neA w a' ts (hsub w _ hm), neQ := ?_,
                   neR := fun w a' rs2 hm => h.neR w a' rs2 (hsub w _ hm), pend := ?_, wake := ?_ }
          · intro w a' ts hm
            rcases mem_upd_append hm with h1 | ⟨_, h1⟩
            · exact h.neQ w a' ts h1
            · cases h1
          · intro p pa' hp w hw
            have hp' : upd s.env.pending a none p = some pa' := hp
            by_cases hpa : p = a
            · subst hpa; simp at hp'
            · simp only [upd_other _ _ _ _ hpa] at hp'
              rcases h.pend p pa' hp' w hw with ⟨ts', h1⟩ | ⟨rs2, h1⟩
              · exact Or.inl ⟨ts', mem_upd_append_of_mem h1⟩
              · refine Or.inr ⟨rs2, hkeep w _ h1 ?_⟩
                right; intro heq; cases heq; exact hpa rfl
          · intro w p x hsel hx
            rcases h.wake w p x hsel hx with h1 | h1
            · exact Or.inl h1
            · right
              refine hwakeKeep ?_ ?_ ?_ p h1
              · intro w c hc; exact mem_upd_append_of_mem hc
              · intro w e he; exact he
              · exact Or.inl ⟨aw, _, mem_pushCmd_self _ _ _, by simp [mentionsC]⟩
        · -- still waiting for other workers
          rename_i hemp
          have hexne : pa.expected.filter (· ≠ w0) ≠ [] := by
            intro hnil; rw [hnil] at hemp; simp at hemp
          have hothers : ∀ w ∈ pa.expected.filter (· ≠ w0),
              InFlightFrom { s with evtQ := upd s.evtQ w0 rest, env := { s.env with pending := upd s.env.pending a (some { expected := pa.expected.filter (· ≠ w0), responses := ainsert pa.responses w0 (combine (alookup pa.responses w0) ((k, v) :: rs')) }) } } a w := by
            intro w hw
            simp only [List.mem_filter, decide_eq_true_eq] at hw
            rcases h.pend a pa hpend w hw.1 with ⟨ts', h1⟩ | ⟨rs2, h1⟩
            · exact Or.inl ⟨ts', h1⟩
            · exact Or.inr ⟨rs2, hkeep w _ h1 (Or.inl hw.2)⟩
          refine { neA := fun w a' ts hm => h.neA w a' ts (hsub w _ hm), neQ := h.neQ,
                   neR := fun w a' rs2 hm => h.neR w a' rs2 (hsub w _ hm), pend := ?_, wake := ?_ }
          · intro p pa' hp w hw
            have hp' : upd s.env.pending a (some { expected := pa.expected.filter (· ≠ w0), responses := ainsert pa.responses w0 (combine (alookup pa.responses w0) ((k, v) :: rs')) }) p = some pa' := hp
            by_cases hpa : p = a
            · subst hpa
              simp only [upd_same, Option.some.injEq] at hp'
              subst hp'
              exact hothers w hw
            · simp only [upd_other _ _ _ _ hpa] at hp'
              rcases h.pend p pa' hp' w hw with ⟨ts', h1⟩ | ⟨rs2, h1⟩
              · exact Or.inl ⟨ts', h1⟩
              · refine Or.inr ⟨rs2, hkeep w _ h1 ?_⟩
                right; intro heq; cases heq; exact hpa rfl
          · intro w p x hsel hx
            rcases h.wake w p x hsel hx with h1 | h1
            · exact Or.inl h1
            · right
              refine hwakeKeep ?_ ?_ ?_ p h1
              · intro w c hc; exact hc
              · intro w e he; exact he
              · obtain ⟨w3, hw3⟩ := List.exists_mem_of_ne_nil _ hexne
                exact (hothers w3 hw3).wake
      | none =>
        dsimp only
        refine { neA := fun w a' ts hm => h.neA w a' ts (hsub w _ hm), neQ := ?_,
                 neR := fun w a' rs2 hm => h.neR w a' rs2 (hsub w _ hm), pend := ?_, wake := ?_ }
        · intro w a' ts hm
          rcases mem_upd_append hm with h1 | ⟨_, h1⟩
          · exact h.neQ w a' ts h1
          · cases h1
        · intro p pa' hp w hw
          have hp' : s.env.pending p = some pa' := hp
          have hpa : p ≠ a := by intro e; subst e; rw [hpend] at hp'; cases hp'
          rcases h.pend p pa' hp' w hw with ⟨ts', h1⟩ | ⟨rs2, h1⟩
          · exact Or.inl ⟨ts', mem_upd_append_of_mem h1⟩
          · refine Or.inr ⟨rs2, hkeep w _ h1 ?_⟩
            right; intro heq; cases heq; exact hpa rfl
        · intro w p x hsel hx
          rcases h.wake w p x hsel hx with h1 | h1
          · exact Or.inl h1
          · right
            refine hwakeKeep ?_ ?_ ?_ p h1
            · intro w c hc; exact mem_upd_append_of_mem hc
            · intro w e he; exact he
            · exact Or.inl ⟨aw, _, mem_pushCmd_self _ _ _, by simp [mentionsC]⟩

theorem WCore.envStep1 {s : Sys} (h : WCore s) (hr : RInv s) (combine) (w : Wid) : WCore (envStep1With combine s w) := by
  unfold envStep1With
  split
  · exact h
  · rename_i e rest hq
    cases e with
    | spawn c fn regs coloc => exact (h.popEvtSilent hq (fun _ => rfl)).handleSpawn c fn regs coloc
    | deliver t m => exact (h.popEvtSilent hq (fun _ => rfl)).handleDeliver t m
    | await a ts => exact h.handleAwaitPop hr hq
    | procResults a rs => exact h.handleProcResultsPop hr combine hq
    | resultResp req r => exact (h.popEvtSilent hq (fun _ => rfl)).congr rfl rfl rfl rfl rfl
    | exited p => exact h.popEvtSilent hq (fun _ => rfl)

/-! ### spawn pairing: environment side -/

theorem countP_upd_append {α : Type} (f : α → Bool) (q : Nat → List α) (w w' : Nat) (c : α) :
    (upd q w (q w ++ [c]) w').countP f = (q w').countP f + (if w' = w ∧ f c = true then 1 else 0) := by
  simp only [upd_apply]
  split
  · rename_i e; subst e
    rw [List.countP_append]
    by_cases hf : f c = true <;> simp [hf]
  · rename_i e; simp [e]

theorem SPair.pushCmdOther {s : Sys} (h : SPair s) (w : Wid) (c : Cmd) (hc : ∀ p, isNotify p c = false) :
    SPair (s.pushCmd w c) := by
  intro w' p
  show (s.evtQ w').countP _ + (upd s.cmdQ w (s.cmdQ w ++ [c]) w').countP _ = _
  rw [countP_upd_append, hc p]
  simp only [Bool.false_eq_true, and_false, if_false, Nat.add_zero]
  exact h w' p

theorem SPair.congr {s s' : Sys} (h : SPair s) (hc : s'.cmdQ = s.cmdQ) (he : s'.evtQ = s.evtQ) (hw : s'.wk = s.wk) :
    SPair s' := by
  intro w p; rw [hc, he, hw]; exact h w p

theorem SPair.foldPushOther (g : Wid → Cmd) (hg : ∀ w p, isNotify p (g w) = false) :
    ∀ (ws : List Wid) (s : Sys), SPair s → SPair (ws.foldl (fun acc w => acc.pushCmd w (g w)) s)
  | [], _, h => h
  | w :: ws, s, h => by
    simp only [List.foldl_cons]
    exact SPair.foldPushOther g hg ws _ (h.pushCmdOther w (g w) (hg w))

theorem SPair.popEvtOther {s : Sys} (h : SPair s) {w : Wid} {e : Evt} {rest : List Evt} (hq : s.evtQ w = e :: rest)
    (he : ∀ p, isSpawnEvt p e = false) : SPair { s with evtQ := upd s.evtQ w rest } := by
  intro w' p
  show (upd s.evtQ w rest w').countP _ + _ = _
  rw [← h w' p]
  congr 1
  simp only [upd_apply]
  split
  · rename_i e2; subst e2; rw [hq, List.countP_cons, he p]; simp
  · rfl

theorem SPair.envStep1 {s : Sys} (h : SPair s) (hr : RInv s) (combine) (w : Wid) : SPair (envStep1With combine s w) := by
  unfold envStep1With
  split
  · exact h
  · rename_i e rest hq
    have hev := hr.evts w e (by rw [hq]; simp)
    cases e with
    | spawn c fn regs coloc =>
      obtain ⟨hc, _, _⟩ := hev
      have hne : c ≠ s.env.nextPid := Nat.ne_of_lt (hr.below c w hc)
      have hc1 : ({ s with evtQ := upd s.evtQ w rest } : Sys).env.router c = some w := hc
      show SPair (handleSpawn _ c fn regs coloc)
      rw [handleSpawn_eq hc1 hne]
      generalize placement { s with evtQ := upd s.evtQ w rest } coloc s.env.nextPid = pw
      intro w' p
      show (upd s.evtQ w rest w').countP (isSpawnEvt p) +
        (upd (upd s.cmdQ pw (s.cmdQ pw ++ [.spawn s.env.nextPid fn regs])) w
          (upd s.cmdQ pw (s.cmdQ pw ++ [.spawn s.env.nextPid fn regs]) w ++ [.notifySpawn c s.env.nextPid]) w').countP (isNotify p) =
        if p ∈ (s.wk w').spawning then 1 else 0
      rw [countP_upd_append, countP_upd_append, ← h w' p]
      simp only [isNotify, Bool.false_eq_true, and_false, if_false, Nat.add_zero, decide_eq_true_eq]
      by_cases hw : w' = w
      · subst hw
        simp only [upd_same, true_and]
        rw [hq, List.countP_cons]
        simp only [isSpawnEvt, decide_eq_true_eq]
        by_cases hp : c = p <;> simp [hp] <;> omega
      · simp [hw]
    | deliver t m =>
      have h1 := h.popEvtOther hq (fun _ => rfl)
      show SPair (handleDeliver _ t m)
      unfold QM.Sys.handleDeliver
      split
      · exact h1.congr rfl rfl rfl
      · exact h1.pushCmdOther _ _ (fun _ => rfl)
    | await a ts =>
      have h1 := h.popEvtOther hq (fun _ => rfl)
      show SPair (handleAwait _ a ts)
      unfold QM.Sys.handleAwait
      split
      · exact h1.congr rfl rfl rfl
      · exact SPair.foldPushOther _ (fun _ _ => rfl) _ _ (h1.congr rfl rfl rfl)
    | procResults a rs =>
      have h1 := h.popEvtOther hq (fun _ => rfl)
      show SPair (handleProcResultsWith combine _ a rs)
      unfold QM.Sys.handleProcResultsWith
      dsimp only
      split
      · split
        · exact h1
        · split
          · split
            · exact h1.congr rfl rfl rfl
            · exact (h1.congr rfl rfl rfl).pushCmdOther _ _ (fun _ => rfl)
          · exact h1.congr rfl rfl rfl
      · split
        · exact h1.congr rfl rfl rfl
        · exact h1.pushCmdOther _ _ (fun _ => rfl)
    | resultResp req r => exact (h.popEvtOther hq (fun _ => rfl)).congr rfl rfl rfl
    | exited p => exact h.popEvtOther hq (fun _ => rfl)

/-! ### worker side: what happens to parked selects -/

/-- every process still parked in `selecting` was parked before and is unchanged -/
def SelSub (w w' : WorkerSt) : Prop :=
  ∀ q, q ∈ w'.selecting → q ∈ w.selecting ∧ w'.procs q = w.procs q

theorem SelSub.refl (w : WorkerSt) : SelSub w w := fun _ h => ⟨h, rfl⟩
theorem SelSub.trans {a b c : WorkerSt} (h1 : SelSub a b) (h2 : SelSub b c) : SelSub a c := fun q hq =>
  ⟨(h1 q (h2 q hq).1).1, (h2 q hq).2.trans (h1 q (h2 q hq).1).2⟩

theorem mem_wakeSelecting {w : WorkerSt} {p q : Pid} :
    q ∈ (w.wakeSelecting p).selecting ↔ q ∈ w.selecting ∧ q ≠ p := by
  unfold WorkerSt.wakeSelecting
  split
  · simp [mem_serase]
  · rename_i hp
    constructor
    · intro h; exact ⟨h, fun e => hp (e ▸ h)⟩
    · intro h; exact h.1

@[simp] theorem wakeSelecting_procs (w : WorkerSt) (p : Pid) : (w.wakeSelecting p).procs = w.procs := by
  unfold WorkerSt.wakeSelecting; split <;> rfl

theorem SelSub.wakeSelecting (w : WorkerSt) (p : Pid) : SelSub w (w.wakeSelecting p) := fun q hq =>
  ⟨(mem_wakeSelecting.mp hq).1, by simp⟩

theorem modProc_selecting (w : WorkerSt) (p : Pid) (f : Proc → Proc) : (w.modProc p f).selecting = w.selecting := by
  unfold WorkerSt.modProc; split <;> rfl

theorem modProc_procs_other (w : WorkerSt) (p q : Pid) (f : Proc → Proc) (h : q ≠ p) : (w.modProc p f).procs q = w.procs q := by
  unfold WorkerSt.modProc; split
  · simp [upd_other _ _ _ _ h]
  · rfl

/-- modify `p`, then wake `p`: nobody still parked is affected -/
theorem SelSub.modWake (w : WorkerSt) (p : Pid) (f : Proc → Proc) : SelSub w ((w.modProc p f).wakeSelecting p) := by
  intro q hq
  obtain ⟨h1, h2⟩ := mem_wakeSelecting.mp hq
  rw [modProc_selecting] at h1
  exact ⟨h1, by rw [wakeSelecting_procs, modProc_procs_other _ _ _ _ h2]⟩

theorem SelSub.notifyResult (w : WorkerSt) (a t : Pid) (r : Res) : SelSub w (w.notifyResult a t r) := by
  cases r with
  | ok v => exact SelSub.modWake w a _
  | err =>
    show SelSub w (w.notifyFailure a t)
    unfold WorkerSt.notifyFailure
    split
    · split
      · exact SelSub.modWake w a _
      · exact SelSub.refl w
    · exact SelSub.refl w

/-- … except `a`, which may have been modified while still parked (it is woken afterwards) -/
def SelSubX (a : Pid) (w w' : WorkerSt) : Prop :=
  ∀ q, q ∈ w'.selecting → q ∈ w.selecting ∧ (q ≠ a → w'.procs q = w.procs q)

theorem SelSubX.refl (a : Pid) (w : WorkerSt) : SelSubX a w w := fun _ h => ⟨h, fun _ => rfl⟩
theorem SelSubX.trans {a : Pid} {x y z : WorkerSt} (h1 : SelSubX a x y) (h2 : SelSubX a y z) : SelSubX a x z := fun q hq =>
  ⟨(h1 q (h2 q hq).1).1, fun hne => ((h2 q hq).2 hne).trans ((h1 q (h2 q hq).1).2 hne)⟩
theorem SelSub.toX {w w' : WorkerSt} (h : SelSub w w') (a : Pid) : SelSubX a w w' := fun q hq => ⟨(h q hq).1, fun _ => (h q hq).2⟩

theorem SelSubX.notifyPending (w : WorkerSt) (a t : Pid) : SelSubX a w (w.notifyPending a t) := by
  intro q hq
  unfold WorkerSt.notifyPending at hq ⊢
  rw [modProc_selecting] at hq
  exact ⟨hq, fun hne => modProc_procs_other _ _ _ _ hne⟩

theorem SelSubX.applyResults (a : Pid) : ∀ (rs : Results) (w : WorkerSt), SelSubX a w (applyResults w a rs)
  | [], w => SelSubX.refl a w
  | (t, some r) :: rest, w => by
    unfold QM.Sys.applyResults
    exact ((SelSub.notifyResult w a t r).toX a).trans (SelSubX.applyResults a rest _)
  | (t, none) :: rest, w => by
    unfold QM.Sys.applyResults
    exact (SelSubX.notifyPending w a t).trans (SelSubX.applyResults a rest _)

/-- apply an answer, then wake the awaiter: nobody still parked is affected -/
theorem SelSub.applyResultsWake (a : Pid) (rs : Results) (w : WorkerSt) : SelSub w ((applyResults w a rs).wakeSelecting a) := by
  intro q hq
  obtain ⟨h1, h2⟩ := mem_wakeSelecting.mp hq
  obtain ⟨h3, h4⟩ := SelSubX.applyResults a rs w q h1
  exact ⟨h3, by rw [wakeSelecting_procs]; exact h4 h2⟩

theorem SelSub.foldl {α : Type} (f : WorkerSt → α → WorkerSt) (hf : ∀ w a, SelSub w (f w a)) :
    ∀ (l : List α) (w : WorkerSt), SelSub w (l.foldl f w)
  | [], w => SelSub.refl w
  | a :: l, w => (hf w a).trans (SelSub.foldl f hf l (f w a))

theorem queryTargets_ne_nil (a : Pid) (w : WorkerSt) {ts : List Pid} (h : ts ≠ []) : (queryTargets w a ts).2 ≠ [] := by
  cases ts with
  | nil => exact absurd rfl h
  | cons t rest =>
    unfold queryTargets
    have hins : ∀ (l : Results) (v : Option Res), ainsert l t v ≠ [] := by
      intro l v hn
      have : t ∈ (ainsert l t v).map (·.1) := by rw [keys_ainsert]; simp
      rw [hn] at this; simp at this
    split
    · exact hins _ _
    · exact hins _ _

/-- generic preservation of `WCore` by a worker consuming its head command -/
theorem WCore.afterCmd {s s' : Sys} (h : WCore s) (hr : RInv s) (hsch : ∀ w, WSched (s.wk w)) {i : Wid} {c : Cmd} {rest : List Cmd}
    (hq : s.cmdQ i = c :: rest)
    (hcmd : s'.cmdQ = upd s.cmdQ i rest) (hprog : s'.prog = s.prog) (hpend : s'.env.pending = s.env.pending)
    (hevs : ∃ evs, s'.evtQ = upd s.evtQ i (s.evtQ i ++ evs) ∧
      ∀ e ∈ evs, (∀ a ts, e ≠ .await a ts) ∧ (∀ a rs, e = .procResults a rs → rs ≠ []))
    (hwk : ∀ w, w ≠ i → s'.wk w = s.wk w)
    (hsel : SelSub (s.wk i) (s'.wk i))
    (hwoken : ∀ q, mentionsC q c = true → (∀ a ts, c ≠ .queryAwait a ts) → q ∉ (s'.wk i).selecting)
    (hquery : ∀ a ts, c = .queryAwait a ts → ∃ rs, Evt.procResults a rs ∈ s'.evtQ i) : WCore s' := by
  obtain ⟨evs, hev, hevs2⟩ := hevs
  have hemono : ∀ w e, e ∈ s.evtQ w → e ∈ s'.evtQ w := by
    intro w e he; rw [hev]; exact mem_upd_append_left he
  have hcsub : ∀ w c', c' ∈ s'.cmdQ w → c' ∈ s.cmdQ w := by
    intro w c' hc'; rw [hcmd] at hc'; exact mem_upd_tail hq hc'
  have hckeep : ∀ w c', c' ∈ s.cmdQ w → (w = i ∧ c' = c) ∨ c' ∈ s'.cmdQ w := by
    intro w c' hc'
    rw [hcmd]
    by_cases hw : w = i
    · subst hw
      rw [hq] at hc'
      rcases List.mem_cons.mp hc' with h1 | h1
      · exact Or.inl ⟨rfl, h1⟩
      · right; simp [h1]
    · right; simp only [upd_other _ _ _ _ hw]; exact hc'
  have henew : ∀ w e, e ∈ s'.evtQ w → e ∈ s.evtQ w ∨ e ∈ evs := by
    intro w e he
    rw [hev] at he
    simp only [upd_apply] at he
    split at he
    · rename_i e2; subst e2
      rcases List.mem_append.mp he with h1 | h1
      · exact Or.inl h1
      · exact Or.inr h1
    · exact Or.inl he
  -- in-flight commands that mention `q`: consumed ⇒ woken (or answered)
  have hwakeKeep : ∀ w q, q ∈ (s'.wk w).selecting → WakePending s q → WakePending s' q := by
    intro w q hqs hp
    rcases hp with ⟨w2, c0, h2, h3⟩ | ⟨w2, e0, h2, h3⟩
    · rcases hckeep w2 c0 h2 with ⟨rfl, rfl⟩ | h4
      · -- the consumed command mentions q
        by_cases hqa : ∃ a ts, c0 = .queryAwait a ts
        · obtain ⟨a, ts, rfl⟩ := hqa
          simp only [mentionsC, decide_eq_true_eq] at h3
          subst h3
          obtain ⟨rs, hrs⟩ := hquery a ts rfl
          exact Or.inr ⟨w2, _, hrs, by simp [mentionsE]⟩
        · have hnq : ∀ a ts, c0 ≠ .queryAwait a ts := fun a ts heq => hqa ⟨a, ts, heq⟩
          -- q lives on worker w2 (routing), so it has been woken
          have hrq : s.env.router q = some w2 := by
            have hcok := hr.cmds w2 c0 h2
            cases c0 with
            | deliver t m => simp only [mentionsC, decide_eq_true_eq] at h3; subst h3; exact hcok
            | updateAwait a rs => simp only [mentionsC, decide_eq_true_eq] at h3; subst h3; exact hcok
            | queryAwait a ts => exact absurd rfl (hnq a ts)
            | misc => simp [mentionsC] at h3
            | start _ => simp [mentionsC] at h3
            | resume _ _ => simp [mentionsC] at h3
            | spawn _ _ _ => simp [mentionsC] at h3
            | notifySpawn _ _ => simp [mentionsC] at h3
            | getResult _ _ => simp [mentionsC] at h3
          have hww : w = w2 := by
            by_cases hw : w = w2
            · exact hw
            · rw [hwk w hw] at hqs
              obtain ⟨x, hx, _⟩ := (hsch w).live q (Or.inr (Or.inr hqs))
              have := hr.placed w q (by unfold known; rw [hx]; rfl)
              rw [hrq] at this; cases this; rfl
          subst hww
          exact absurd hqs (hwoken q h3 hnq)
      · exact Or.inl ⟨w2, c0, h4, h3⟩
    · exact Or.inr ⟨w2, e0, hemono w2 e0 h2, h3⟩
  refine { neA := ?_, neQ := ?_, neR := ?_, pend := ?_, wake := ?_ }
  · intro w a ts hm
    rcases henew w _ hm with h1 | h1
    · exact h.neA w a ts h1
    · exact absurd rfl ((hevs2 _ h1).1 a ts)
  · intro w a ts hm; exact h.neQ w a ts (hcsub w _ hm)
  · intro w a rs hm
    rcases henew w _ hm with h1 | h1
    · exact h.neR w a rs h1
    · exact (hevs2 _ h1).2 a rs rfl
  · intro p pa hp w hw
    rw [hpend] at hp
    rcases h.pend p pa hp w hw with ⟨ts, h1⟩ | ⟨rs, h1⟩
    · rcases hckeep w _ h1 with ⟨rfl, h2⟩ | h2
      · obtain ⟨rs, hrs⟩ := hquery p ts h2.symm
        exact Or.inr ⟨rs, hrs⟩
      · exact Or.inl ⟨ts, h2⟩
    · exact Or.inr ⟨rs, hemono w _ h1⟩
  · intro w q x hqs hx
    rw [hprog]
    by_cases hw : w = i
    · subst hw
      obtain ⟨h1, h2⟩ := hsel q hqs
      rw [h2] at hx
      rcases h.wake w q x h1 hx with h3 | h3
      · exact Or.inl h3
      · exact Or.inr (hwakeKeep w q hqs h3)
    · have hqs' := hqs
      rw [hwk w hw] at hqs' hx
      rcases h.wake w q x hqs' hx with h3 | h3
      · exact Or.inl h3
      · exact Or.inr (hwakeKeep w q hqs h3)

/-- generic preservation of spawn pairing by a worker consuming its head command -/
theorem SPair.afterCmd {s s' : Sys} (h : SPair s) {i : Wid} {c : Cmd} {rest : List Cmd} (hq : s.cmdQ i = c :: rest)
    (hcmd : s'.cmdQ = upd s.cmdQ i rest)
    (hevs : ∃ evs, s'.evtQ = upd s.evtQ i (s.evtQ i ++ evs) ∧ ∀ e ∈ evs, ∀ p, isSpawnEvt p e = false)
    (hwk : ∀ w, w ≠ i → s'.wk w = s.wk w)
    (hsp : ∀ p, p ∈ (s'.wk i).spawning ↔ p ∈ (s.wk i).spawning ∧ isNotify p c = false) : SPair s' := by
  obtain ⟨evs, hev, hevs2⟩ := hevs
  intro w p
  rw [hev, hcmd]
  by_cases hw : w = i
  · subst hw
    simp only [upd_same]
    have hold := h w p
    rw [hq, List.countP_cons] at hold
    rw [List.countP_append]
    have hz : evs.countP (isSpawnEvt p) = 0 := by
      rw [List.countP_eq_zero]; intro e he; rw [hevs2 e he p]; simp
    rw [hz, Nat.add_zero]
    by_cases hn : isNotify p c = true
    · simp only [hn, if_true] at hold
      have hin : p ∈ (s.wk w).spawning := by
        by_cases hin : p ∈ (s.wk w).spawning
        · exact hin
        · simp only [hin, if_false] at hold; omega
      simp only [hin, if_true] at hold
      have hnot : p ∉ (s'.wk w).spawning := fun h2 => by
        have := ((hsp p).mp h2).2; rw [hn] at this; cases this
      simp only [hnot, if_false]
      omega
    · have hn' : isNotify p c = false := by cases hb : isNotify p c <;> simp_all
      simp only [hn', Bool.false_eq_true, if_false, Nat.add_zero] at hold
      rw [hold]
      have : p ∈ (s'.wk w).spawning ↔ p ∈ (s.wk w).spawning := by rw [hsp p]; simp [hn']
      by_cases hin : p ∈ (s.wk w).spawning
      · simp [hin, this.mpr hin]
      · have : p ∉ (s'.wk w).spawning := fun h2 => hin (this.mp h2)
        simp [hin, this]
  · simp only [upd_other _ _ _ _ hw]
    rw [hwk w hw]
    exact h w p

theorem evs_none (s : Sys) (i : Wid) (P : Evt → Prop) : ∃ evs, s.evtQ = upd s.evtQ i (s.evtQ i ++ evs) ∧ ∀ e ∈ evs, P e :=
  ⟨[], by simp, fun _ h => by simp at h⟩

theorem spair_notify_parked {s : Sys} (h : SPair s) {w : Wid} {c p : Pid} (hm : Cmd.notifySpawn c p ∈ s.cmdQ w) :
    c ∈ (s.wk w).spawning := by
  have := h w c
  have hpos : 0 < (s.cmdQ w).countP (isNotify c) := by
    rw [List.countP_pos_iff]; exact ⟨_, hm, by simp [isNotify]⟩
  by_cases hin : c ∈ (s.wk w).spawning
  · exact hin
  · simp only [hin, if_false] at this; omega

theorem WInv.cmdStep1 {s : Sys} (h : WInv s) (i : Wid) : WInv (cmdStep1With Rules.current s i) := by
  have hsi := h.si.cmdStep1 Rules.current_sane i
  refine ⟨hsi, ?_, ?_⟩ <;> clear hsi
  all_goals
    unfold cmdStep1With
    split
    · first | exact h.core | exact h.pair
    rename_i c rest hq
    have hcok : CmdOK s.env.router s.prog.length (known s i) i c := h.si.r.cmds i c (by rw [hq]; simp)
    generalize hs1 : ({ s with cmdQ := upd s.cmdQ i rest } : Sys) = s1
    have e_wk : s1.wk = s.wk := by subst hs1; rfl
    have e_cmdQ : s1.cmdQ = upd s.cmdQ i rest := by subst hs1; rfl
    have e_evtQ : s1.evtQ = s.evtQ := by subst hs1; rfl
    have e_prog : s1.prog = s.prog := by subst hs1; rfl
    have e_pend : s1.env.pending = s.env.pending := by subst hs1; rfl
    have hW : WSched (s.wk i) := h.si.sched i
  -- WCore
  · have hwk0 : ∀ x w, w ≠ i → (s1.setWk i x).wk w = s.wk w := fun x w hw => by rw [wk_setWk_other _ _ _ _ hw, e_wk]
    have hev0 : ∀ P : Evt → Prop, ∃ evs, s1.evtQ = upd s.evtQ i (s.evtQ i ++ evs) ∧ ∀ e ∈ evs, P e := fun P => e_evtQ ▸ evs_none s i P
    cases c with
    | misc =>
      simp only [handleCmdWith]
      exact h.core.afterCmd h.si.r h.si.sched hq e_cmdQ e_prog e_pend (hev0 _) (fun w _ => by rw [e_wk])
        (by rw [e_wk]; exact SelSub.refl _) (fun q hm => by simp [mentionsC] at hm) (fun a ts heq => by cases heq)
    | start p => exact hcok.elim
    | resume p fn => exact hcok.elim
    | spawn p fn regs =>
      obtain ⟨hp, hfn, hregs⟩ := hcok
      have hlen : ¬ fn ≥ s1.prog.length := by rw [e_prog]; exact Nat.not_le.mpr hfn
      simp only [handleCmdWith, if_neg hlen]
      have hfr := h.si.fresh i
      rw [hq, creates_cons] at hfr
      have hnk : ¬ known s i p := hfr.2 p (by simp [cmdCreate])
      refine h.core.afterCmd h.si.r h.si.sched hq e_cmdQ e_prog e_pend (hev0 _) (hwk0 _) ?_
        (fun q hm => by simp [mentionsC] at hm) (fun a ts heq => by cases heq)
      intro q hqs
      have hqs' : q ∈ (s.wk i).selecting := by simpa [WorkerSt.setProc, e_wk] using hqs
      refine ⟨hqs', ?_⟩
      have hne : q ≠ p := by
        intro e; subst e
        obtain ⟨x, hx, _⟩ := hW.live q (Or.inr (Or.inr hqs'))
        apply hnk; unfold known; rw [hx]; rfl
      simp [WorkerSt.setProc, upd_other _ _ _ _ hne, e_wk]
    | notifySpawn caller newPid =>
      have hparked : caller ∈ (s.wk i).spawning := spair_notify_parked h.pair (p := newPid) (by rw [hq]; simp)
      have hsel : ∀ (x : Proc) (qq : List Pid), SelSub (s.wk i)
          { s1.wk i with spawning := serase (s1.wk i).spawning caller, procs := upd (s1.wk i).procs caller (some x), queue := qq } := by
        intro x qq q hqs
        have hqs' : q ∈ (s.wk i).selecting := by simpa [e_wk] using hqs
        have hne : q ≠ caller := fun e => hW.dss caller hparked (e ▸ hqs')
        exact ⟨hqs', by simp [upd_other _ _ _ _ hne, e_wk]⟩
      cases hx : (s1.wk i).procs caller with
      | none =>
        simp only [handleCmdWith, hx]
        refine h.core.afterCmd h.si.r h.si.sched hq e_cmdQ e_prog e_pend (hev0 _) (hwk0 _) ?_
          (fun q hm => by simp [mentionsC] at hm) (fun a ts heq => by cases heq)
        intro q hqs
        exact ⟨by simpa [e_wk] using hqs, by simp [e_wk]⟩
      | some x =>
        simp only [handleCmdWith, hx]
        refine h.core.afterCmd h.si.r h.si.sched hq e_cmdQ e_prog e_pend (hev0 _) (hwk0 _) ?_
          (fun q hm => by simp [mentionsC] at hm) (fun a ts heq => by cases heq)
        simp only [setWk_wk, upd_same]
        split
        · exact hsel _ _
        · exact hsel _ _
    | deliver t m =>
      cases hx : (s1.wk i).procs t with
      | none =>
        simp only [handleCmdWith, hx]
        refine h.core.afterCmd h.si.r h.si.sched hq e_cmdQ e_prog e_pend (hev0 _) (hwk0 _) ?_ ?_ (fun a ts heq => by cases heq)
        · simp only [setWk_wk, upd_same]; rw [e_wk]; exact SelSub.wakeSelecting _ t
        · intro q hm _
          simp only [mentionsC, decide_eq_true_eq] at hm; subst hm
          simp only [setWk_wk, upd_same]
          exact fun h2 => (mem_wakeSelecting.mp h2).2 rfl
      | some x =>
        by_cases hd : (Cfg.releaseDead && !x.deliverable) = true
        · simp only [handleCmdWith, hx, hd, if_true]
          refine h.core.afterCmd h.si.r h.si.sched hq e_cmdQ e_prog e_pend (hev0 _) (hwk0 _) ?_ ?_ (fun a ts heq => by cases heq)
          · simp only [setWk_wk, upd_same]; rw [e_wk]; exact SelSub.wakeSelecting _ t
          · intro q hm _
            simp only [mentionsC, decide_eq_true_eq] at hm; subst hm
            simp only [setWk_wk, upd_same]
            exact fun h2 => (mem_wakeSelecting.mp h2).2 rfl
        · simp only [handleCmdWith, hx, hd, Bool.false_eq_true, if_false]
          refine h.core.afterCmd h.si.r h.si.sched hq e_cmdQ e_prog e_pend (hev0 _) (hwk0 _) ?_ ?_ (fun a ts heq => by cases heq)
          · simp only [setWk_wk, upd_same]
            intro q hqs
            obtain ⟨h1, h2⟩ := mem_wakeSelecting.mp hqs
            exact ⟨by simpa [e_wk] using h1, by simp [upd_other _ _ _ _ h2, e_wk]⟩
          · intro q hm _
            simp only [mentionsC, decide_eq_true_eq] at hm; subst hm
            simp only [setWk_wk, upd_same]
            exact fun h2 => (mem_wakeSelecting.mp h2).2 rfl
    | queryAwait a ts =>
      simp only [handleCmdWith]
      have hq2 := queryTargets_spec a ts (s1.wk i)
      have hq3 := queryTargets_sched a ts (s1.wk i)
      have hne : (queryTargets (s1.wk i) a ts).2 ≠ [] := queryTargets_ne_nil a _ (h.core.neQ i a ts (by rw [hq]; simp))
      generalize queryTargets (s1.wk i) a ts = q at hq2 hq3 hne ⊢
      refine h.core.afterCmd h.si.r h.si.sched hq e_cmdQ e_prog e_pend ?_ (hwk0 _) ?_
        (fun q' hm hnq => absurd rfl (hnq a ts)) ?_
      · refine ⟨[.procResults a q.2], ?_, ?_⟩
        · show upd s1.evtQ i (s1.evtQ i ++ [_]) = _; rw [e_evtQ]
        · intro e he
          simp only [List.mem_singleton] at he; subst he
          exact ⟨(fun _ _ heq => by cases heq), (fun a' rs heq => by cases heq; exact hne)⟩
      · show SelSub (s.wk i) ((s1.setWk i q.1).wk i)
        simp only [setWk_wk, upd_same]
        intro q' hqs
        rw [hq3.2.2] at hqs
        exact ⟨by simpa [e_wk] using hqs, by rw [hq2.1, e_wk]⟩
      · intro a' ts' heq
        cases heq
        refine ⟨q.2, ?_⟩
        show _ ∈ upd s1.evtQ i (s1.evtQ i ++ [_]) i
        simp
    | updateAwait a rs =>
      simp only [handleCmdWith, Rules.current, Bool.false_and, Bool.false_eq_true, if_false]
      refine h.core.afterCmd h.si.r h.si.sched hq e_cmdQ e_prog e_pend (hev0 _) (hwk0 _) ?_ ?_ (fun a ts heq => by cases heq)
      · simp only [setWk_wk, upd_same]; rw [e_wk]
        exact SelSub.applyResultsWake a rs _
      · intro q hm _
        simp only [mentionsC, decide_eq_true_eq] at hm; subst hm
        simp only [setWk_wk, upd_same]
        exact fun h2 => (mem_wakeSelecting.mp h2).2 rfl
    | getResult req p =>
      cases hx : (s1.wk i).procs p with
      | none =>
        have hc' : ((s.wk i).procs p).isSome = true := hcok
        rw [← e_wk, hx] at hc'; simp at hc'
      | some x =>
        cases hres : x.result with
        | some r =>
          simp only [handleCmdWith, hx, hres]
          refine h.core.afterCmd h.si.r h.si.sched hq e_cmdQ e_prog e_pend ?_ (fun w _ => by show s1.wk w = s.wk w; rw [e_wk])
            (by show SelSub (s.wk i) (s1.wk i); rw [e_wk]; exact SelSub.refl _) (fun q hm => by simp [mentionsC] at hm) (fun a ts heq => by cases heq)
          refine ⟨[.resultResp req r], ?_, ?_⟩
          · show upd s1.evtQ i (s1.evtQ i ++ [_]) = _; rw [e_evtQ]
          · intro e he
            simp only [List.mem_singleton] at he; subst he
            exact ⟨(fun _ _ heq => by cases heq), (fun a' rs heq => by cases heq)⟩
        | none =>
          simp only [handleCmdWith, hx, hres]
          refine h.core.afterCmd h.si.r h.si.sched hq e_cmdQ e_prog e_pend (hev0 _) (hwk0 _) ?_
            (fun q hm => by simp [mentionsC] at hm) (fun a ts heq => by cases heq)
          intro q hqs
          exact ⟨by simpa [e_wk] using hqs, by simp [e_wk]⟩
  -- SPair
  · have hwk0 : ∀ x w, w ≠ i → (s1.setWk i x).wk w = s.wk w := fun x w hw => by rw [wk_setWk_other _ _ _ _ hw, e_wk]
    have hev0 : ∀ P : Evt → Prop, ∃ evs, s1.evtQ = upd s.evtQ i (s.evtQ i ++ evs) ∧ ∀ e ∈ evs, P e := fun P => e_evtQ ▸ evs_none s i P
    have hsame : ∀ {c : Cmd} {x : WorkerSt}, (∀ p, isNotify p c = false) → x.spawning = (s.wk i).spawning →
        ∀ p, p ∈ x.spawning ↔ p ∈ (s.wk i).spawning ∧ isNotify p c = false := by
      intro c x hc hx p; rw [hx, hc p]; simp
    cases c with
    | misc =>
      simp only [handleCmdWith]
      exact h.pair.afterCmd hq e_cmdQ (hev0 _) (fun w _ => by rw [e_wk]) (hsame (fun _ => rfl) (by rw [e_wk]))
    | start p => exact hcok.elim
    | resume p fn => exact hcok.elim
    | spawn p fn regs =>
      obtain ⟨hp, hfn, hregs⟩ := hcok
      have hlen : ¬ fn ≥ s1.prog.length := by rw [e_prog]; exact Nat.not_le.mpr hfn
      simp only [handleCmdWith, if_neg hlen]
      exact h.pair.afterCmd hq e_cmdQ (hev0 _) (hwk0 _) (hsame (fun _ => rfl) (by simp [WorkerSt.setProc, e_wk]))
    | notifySpawn caller newPid =>
      have hsp : ∀ {x : WorkerSt}, x.spawning = serase (s.wk i).spawning caller →
          ∀ p, p ∈ x.spawning ↔ p ∈ (s.wk i).spawning ∧ isNotify p (.notifySpawn caller newPid) = false := by
        intro x hx p
        rw [hx, mem_serase]
        simp only [isNotify, decide_eq_false_iff_not]
        constructor
        · intro h2; exact ⟨h2.1, fun e => h2.2 e.symm⟩
        · intro h2; exact ⟨h2.1, fun e => h2.2 e.symm⟩
      cases hx : (s1.wk i).procs caller with
      | none =>
        simp only [handleCmdWith, hx]
        exact h.pair.afterCmd hq e_cmdQ (hev0 _) (hwk0 _) (hsp (by simp [e_wk]))
      | some x =>
        simp only [handleCmdWith, hx]
        refine h.pair.afterCmd hq e_cmdQ (hev0 _) (hwk0 _) (hsp ?_)
        simp only [setWk_wk, upd_same]
        split <;> simp [e_wk]
    | deliver t m =>
      cases hx : (s1.wk i).procs t with
      | none =>
        simp only [handleCmdWith, hx]
        exact h.pair.afterCmd hq e_cmdQ (hev0 _) (hwk0 _) (hsame (fun _ => rfl) (by simp [e_wk]))
      | some x =>
        by_cases hd : (Cfg.releaseDead && !x.deliverable) = true
        · simp only [handleCmdWith, hx, hd, if_true]
          exact h.pair.afterCmd hq e_cmdQ (hev0 _) (hwk0 _) (hsame (fun _ => rfl) (by simp [e_wk]))
        · simp only [handleCmdWith, hx, hd, Bool.false_eq_true, if_false]
          exact h.pair.afterCmd hq e_cmdQ (hev0 _) (hwk0 _) (hsame (fun _ => rfl) (by simp [e_wk]))
    | queryAwait a ts =>
      simp only [handleCmdWith]
      have hq3 := queryTargets_sched a ts (s1.wk i)
      generalize queryTargets (s1.wk i) a ts = q at hq3 ⊢
      refine h.pair.afterCmd hq e_cmdQ ?_ (hwk0 _) (hsame (fun _ => rfl) ?_)
      · refine ⟨[.procResults a q.2], ?_, ?_⟩
        · show upd s1.evtQ i (s1.evtQ i ++ [_]) = _; rw [e_evtQ]
        · intro e he p
          simp only [List.mem_singleton] at he; subst he; rfl
      · show ((s1.setWk i q.1).wk i).spawning = _
        simp [hq3.2.1, e_wk]
    | updateAwait a rs =>
      simp only [handleCmdWith, Rules.current, Bool.false_and, Bool.false_eq_true, if_false]
      exact h.pair.afterCmd hq e_cmdQ (hev0 _) (hwk0 _) (hsame (fun _ => rfl) (by simp [applyResults_spawning, e_wk]))
    | getResult req p =>
      cases hx : (s1.wk i).procs p with
      | none =>
        have hc' : ((s.wk i).procs p).isSome = true := hcok
        rw [← e_wk, hx] at hc'; simp at hc'
      | some x =>
        cases hres : x.result with
        | some r =>
          simp only [handleCmdWith, hx, hres]
          refine h.pair.afterCmd hq e_cmdQ ?_ (fun w _ => by show s1.wk w = s.wk w; rw [e_wk])
            (hsame (fun _ => rfl) (by show (s1.wk i).spawning = _; rw [e_wk]))
          refine ⟨[.resultResp req r], ?_, ?_⟩
          · show upd s1.evtQ i (s1.evtQ i ++ [_]) = _; rw [e_evtQ]
          · intro e he p
            simp only [List.mem_singleton] at he; subst he; rfl
        | none =>
          simp only [handleCmdWith, hx, hres]
          exact h.pair.afterCmd hq e_cmdQ (hev0 _) (hwk0 _) (hsame (fun _ => rfl) (by simp [e_wk]))

/-! ### executor step -/

theorem srcReady_no {x : Proc} {now start : Nat} {src : Src} (h : srcReady x now start src = .no) : srcLocal x src = false := by
  cases src with
  | proc r =>
    simp only [srcReady] at h
    simp only [srcLocal]
    split at h
    · cases h
    · rename_i hnf
      simp only [hnf, decide_false, Bool.false_or]
      split at h
      · cases h
      · rename_i hne
        split
        · rename_i v hv; exact absurd hv (hne v)
        · rfl
  | recv f =>
    simp only [srcReady] at h
    simp only [srcLocal]
    split at h
    · cases h
    · rename_i hn; rw [hn]; rfl
  | timeout ms => rfl

theorem firstReady_no {x : Proc} {now start : Nat} : ∀ {srcs : List Src}, firstReady x now start srcs = .no →
    ∀ src ∈ srcs, srcLocal x src = false
  | [], _, _, hm => by simp at hm
  | s0 :: rest, h, src, hm => by
    unfold firstReady at h
    split at h
    · rename_i hs0
      rcases List.mem_cons.mp hm with rfl | hm
      · exact srcReady_no hs0
      · exact firstReady_no h src hm
    · rename_i hr
      exact absurd h hr

theorem slice_blocked (prog : Prog) (now : Nat) (self : Pid) : ∀ (fuel : Nat) (p : Proc),
    ((slice prog now self fuel p).2 = .blocked → ¬ LocalReady prog (slice prog now self fuel p).1) ∧
    (∀ ts, (slice prog now self fuel p).2 = .awaitInit ts → ts ≠ [])
  | 0, p => ⟨(fun h => by simp [slice] at h), (fun ts h => by simp [slice] at h)⟩
  | fuel + 1, p => by
    unfold slice
    split
    · exact ⟨(fun h => by cases h), (fun ts h => by cases h)⟩
    · exact ⟨(fun h => by cases h), (fun ts h => by cases h)⟩
    · split
      · exact ⟨(fun h => by cases h), (fun ts h => by cases h)⟩
      · exact ⟨(fun h => by cases h), (fun ts h => by cases h)⟩
    · exact ⟨(fun h => by cases h), (fun ts h => by cases h)⟩
    · rename_i srcs hact
      split
      · dsimp only
        split
        · exact slice_blocked prog now self fuel _
        · rename_i hne
          refine ⟨(fun h => by cases h), fun ts h => ?_⟩
          cases h
          intro hnil; rw [hnil] at hne; simp at hne
      · split
        · -- variant `selectWaits`: answers pending — parked with the gate closed
          rename_i hgate
          refine ⟨fun _ => ?_, (fun ts h => by cases h)⟩
          rintro ⟨_, hopen⟩
          apply hopen
          simpa using hgate
        · dsimp only
          split
          · exact slice_blocked prog now self fuel _
          · exact ⟨(fun h => by cases h), (fun ts h => by cases h)⟩
          · rename_i hno
            refine ⟨fun _ => ?_, (fun ts h => by cases h)⟩
            rintro ⟨⟨srcs', hcs, src, hsrc, hloc⟩, _⟩
            have : currentSelect prog { p with selStart := some (p.selStart.getD now) } = some srcs := by
              unfold currentSelect Proc.script
              unfold Proc.script at hact
              simp only [hact]
            rw [this] at hcs; cases hcs
            have := firstReady_no hno src hsrc
            rw [this] at hloc; cases hloc

/-- `finish`: whoever is still parked afterwards was parked before and is unchanged -/
theorem finish_selsub {w : WorkerSt} {cur : Pid} (x : Proc) (ordQ : List Pid) {q : Pid}
    (hq : q ∈ (w.finish cur x ordQ).selecting) : q ∈ w.selecting ∧ (q ≠ cur → (w.finish cur x ordQ).procs q = w.procs q) := by
  unfold WorkerSt.finish at hq ⊢
  dsimp only at hq ⊢
  have h1 := SelSub.foldl (fun acc a => acc.notifyResult a cur x.finalRes) (fun w' a => SelSub.notifyResult w' a cur _)
    (orderBy ordQ (({ w with procs := upd w.procs cur (some { x with result := some x.finalRes }) } : WorkerSt).localAwaiters cur))
    { w with procs := upd w.procs cur (some { x with result := some x.finalRes }) }
  have hrel : ∀ (w' : WorkerSt), (w'.release cur).selecting = w'.selecting ∧ ∀ q, q ≠ cur → (w'.release cur).procs q = w'.procs q := by
    intro w'
    unfold WorkerSt.release; split
    · exact ⟨modProc_selecting _ _ _, fun q hne => modProc_procs_other _ _ _ _ hne⟩
    · exact ⟨rfl, fun _ _ => rfl⟩
  rw [(hrel _).1] at hq
  obtain ⟨h2, h3⟩ := h1 q hq
  exact ⟨h2, fun hne => by rw [(hrel _).2 q hne, h3]; simp [upd_other _ _ _ _ hne]⟩

/-- generic preservation of `WCore` by a worker step that consumes no command -/
theorem WCore.afterExec {s s' : Sys} (h : WCore s) {i : Wid}
    (hcmd : s'.cmdQ = s.cmdQ) (hprog : s'.prog = s.prog) (hpend : s'.env.pending = s.env.pending)
    (hevs : ∃ evs, s'.evtQ = upd s.evtQ i (s.evtQ i ++ evs) ∧
      ∀ e ∈ evs, (∀ a ts, e = .await a ts → ts ≠ []) ∧ (∀ a rs, e = .procResults a rs → rs ≠ []))
    (hwk : ∀ w, w ≠ i → s'.wk w = s.wk w)
    (hsel : ∀ q x', q ∈ (s'.wk i).selecting → (s'.wk i).procs q = some x' →
      (q ∈ (s.wk i).selecting ∧ (s.wk i).procs q = some x') ∨ ¬ LocalReady s.prog x' ∨ (∃ ts, Evt.await q ts ∈ s'.evtQ i)) :
    WCore s' := by
  obtain ⟨evs, hev, hevs2⟩ := hevs
  have hemono : ∀ w e, e ∈ s.evtQ w → e ∈ s'.evtQ w := by
    intro w e he; rw [hev]; exact mem_upd_append_left he
  have henew : ∀ w e, e ∈ s'.evtQ w → e ∈ s.evtQ w ∨ e ∈ evs := by
    intro w e he
    rw [hev] at he
    simp only [upd_apply] at he
    split at he
    · rename_i e2; subst e2
      rcases List.mem_append.mp he with h1 | h1
      · exact Or.inl h1
      · exact Or.inr h1
    · exact Or.inl he
  have hwmono : ∀ q, WakePending s q → WakePending s' q := fun q hp =>
    hp.mono (fun w c hc => by rw [hcmd]; exact hc) hemono
  refine { neA := ?_, neQ := by rw [hcmd]; exact h.neQ, neR := ?_, pend := ?_, wake := ?_ }
  · intro w a ts hm
    rcases henew w _ hm with h1 | h1
    · exact h.neA w a ts h1
    · exact (hevs2 _ h1).1 a ts rfl
  · intro w a rs hm
    rcases henew w _ hm with h1 | h1
    · exact h.neR w a rs h1
    · exact (hevs2 _ h1).2 a rs rfl
  · intro p pa hp w hw
    rw [hpend] at hp
    exact (h.pend p pa hp w hw).mono (fun c hc => by rw [hcmd]; exact hc) (hemono w)
  · intro w q x' hqs hx
    rw [hprog]
    by_cases hw : w = i
    · subst hw
      rcases hsel q x' hqs hx with ⟨h1, h2⟩ | h1 | ⟨ts, h1⟩
      · rcases h.wake w q x' h1 h2 with h3 | h3
        · exact Or.inl h3
        · exact Or.inr (hwmono q h3)
      · exact Or.inl h1
      · exact Or.inr (Or.inr ⟨w, _, h1, by simp [mentionsE]⟩)
    · rw [hwk w hw] at hqs hx
      rcases h.wake w q x' hqs hx with h3 | h3
      · exact Or.inl h3
      · exact Or.inr (hwmono q h3)

theorem SPair.afterExec {s s' : Sys} (h : SPair s) {i : Wid} (hcmd : s'.cmdQ = s.cmdQ)
    (hwk : ∀ w, w ≠ i → s'.wk w = s.wk w)
    (hcase : (∃ evs, s'.evtQ = upd s.evtQ i (s.evtQ i ++ evs) ∧ (∀ e ∈ evs, ∀ p, isSpawnEvt p e = false) ∧
        ∀ p, p ∈ (s'.wk i).spawning ↔ p ∈ (s.wk i).spawning) ∨
      (∃ cur fn regs coloc, s'.evtQ = upd s.evtQ i (s.evtQ i ++ [.spawn cur fn regs coloc]) ∧ cur ∉ (s.wk i).spawning ∧
        ∀ p, p ∈ (s'.wk i).spawning ↔ p ∈ (s.wk i).spawning ∨ p = cur)) : SPair s' := by
  intro w p
  rw [hcmd]
  by_cases hw : w = i
  · subst hw
    rcases hcase with ⟨evs, hev, hns, hsp⟩ | ⟨cur, fn, regs, coloc, hev, hnc, hsp⟩
    · rw [hev]; simp only [upd_same]
      rw [List.countP_append]
      have hz : evs.countP (isSpawnEvt p) = 0 := by
        rw [List.countP_eq_zero]; intro e he; rw [hns e he p]; simp
      rw [hz, Nat.add_zero, h w p]
      by_cases hin : p ∈ (s.wk w).spawning
      · simp [hin, (hsp p).mpr hin]
      · have : p ∉ (s'.wk w).spawning := fun h2 => hin ((hsp p).mp h2)
        simp [hin, this]
    · rw [hev]; simp only [upd_same]
      rw [List.countP_append]
      have hold := h w p
      by_cases hpc : p = cur
      · subst hpc
        simp only [hnc, if_false] at hold
        have hin : p ∈ (s'.wk w).spawning := (hsp p).mpr (Or.inr rfl)
        simp only [hin, if_true, List.countP_cons, List.countP_nil, isSpawnEvt, decide_true, if_true]
        omega
      · have hz : [Evt.spawn cur fn regs coloc].countP (isSpawnEvt p) = 0 := by
          simp [isSpawnEvt, Ne.symm hpc]
        rw [hz, Nat.add_zero, hold]
        by_cases hin : p ∈ (s.wk w).spawning
        · simp [hin, (hsp p).mpr (Or.inl hin)]
        · have : p ∉ (s'.wk w).spawning := fun h2 => by
            rcases (hsp p).mp h2 with h3 | h3
            · exact hin h3
            · exact hpc h3
          simp [hin, this]
  · rw [hwk w hw]
    have : s'.evtQ w = s.evtQ w := by
      rcases hcase with ⟨evs, hev, _⟩ | ⟨cur, fn, regs, coloc, hev, _⟩ <;> rw [hev] <;> simp [upd_other _ _ _ _ hw]
    rw [this]
    exact h w p

theorem checkExpired_selsub (w : WorkerSt) (prog : Prog) (now : Nat) (ordQ : List Pid) :
    SelSub w (w.checkExpired prog now ordQ) := by
  intro q hq
  exact ⟨(List.mem_filter.mp hq).1, rfl⟩

theorem WInv.execStep {s : Sys} (h : WInv s) (i : Wid) (fuel : Nat) (ordQ : List Pid) : WInv (execStep s i fuel ordQ) := by
  have hsi := h.si.execStep i fuel ordQ
  suffices hh : WCore (QM.Sys.execStep s i fuel ordQ) ∧ SPair (QM.Sys.execStep s i fuel ordQ) from ⟨hsi, hh.1, hh.2⟩
  clear hsi
  unfold QM.Sys.execStep
  dsimp only
  have hW0 := (h.si.sched i).checkExpired s.prog s.now ordQ
  have hS0 := checkExpired_selsub (s.wk i) s.prog s.now ordQ
  have hsp0 : ((s.wk i).checkExpired s.prog s.now ordQ).spawning = (s.wk i).spawning := rfl
  generalize (s.wk i).checkExpired s.prog s.now ordQ = w0 at hW0 hS0 hsp0 ⊢
  have hwk0 : ∀ x w, w ≠ i → (s.setWk i x).wk w = s.wk w := fun x w hw => wk_setWk_other _ _ _ _ hw
  have hevN : ∀ P : Evt → Prop, ∃ evs, s.evtQ = upd s.evtQ i (s.evtQ i ++ evs) ∧ ∀ e ∈ evs, P e := evs_none s i
  -- both invariants for a final state `s.setWk i x` that emits nothing and only un-parks / keeps parked selects
  have quiet : ∀ x : WorkerSt, SelSub (s.wk i) x → x.spawning = (s.wk i).spawning →
      WCore (s.setWk i x) ∧ SPair (s.setWk i x) := by
    intro x hx hsp
    refine ⟨h.core.afterExec rfl rfl rfl (hevN _) (hwk0 x) ?_, h.pair.afterExec rfl (hwk0 x) (Or.inl ?_)⟩
    · intro q x' hqs hpx
      simp only [setWk_wk, upd_same] at hqs hpx
      obtain ⟨h1, h2⟩ := hx q hqs
      exact Or.inl ⟨h1, by rw [← h2]; exact hpx⟩
    · obtain ⟨evs, he1, he2⟩ := hevN (fun e => ∀ p, isSpawnEvt p e = false)
      exact ⟨evs, he1, he2, fun p => by simp [hsp]⟩
  -- the same for a final state that also reports the exit of `c`
  have quietX : ∀ (x : WorkerSt) (c : Pid) (y : Proc), SelSub (s.wk i) x → x.spawning = (s.wk i).spawning →
      WCore ((s.setWk i x).noteExit i c y) ∧ SPair ((s.setWk i x).noteExit i c y) := by
    intro x c y hx hsp
    have hevX : ∀ P : Evt → Prop, P (.exited c) →
        ∃ evs, ((s.setWk i x).noteExit i c y).evtQ = upd s.evtQ i (s.evtQ i ++ evs) ∧ ∀ e ∈ evs, P e := by
      intro P hP
      rcases noteExit_evtQ (s.setWk i x) i c y with e | e
      · exact ⟨[], by rw [e]; simp, fun _ h => by simp at h⟩
      · exact ⟨[.exited c], by rw [e]; rfl, fun e' h => by simp only [List.mem_singleton] at h; subst h; exact hP⟩
    have hwkX : ∀ w, w ≠ i → ((s.setWk i x).noteExit i c y).wk w = s.wk w := fun w hw => by simp [hwk0 x w hw]
    have hPex : (∀ a ts, Evt.exited c = .await a ts → ts ≠ []) ∧ (∀ a rs, Evt.exited c = .procResults a rs → rs ≠ []) :=
      ⟨(fun a ts he => by cases he), (fun a rs he => by cases he)⟩
    refine ⟨h.core.afterExec (by simp) (by simp) (by simp) (hevX (fun e => (∀ a ts, e = .await a ts → ts ≠ []) ∧ (∀ a rs, e = .procResults a rs → rs ≠ [])) hPex) hwkX ?_,
            h.pair.afterExec (by simp) hwkX (Or.inl ?_)⟩
    · intro q x' hqs hpx
      simp only [noteExit_wk, setWk_wk, upd_same] at hqs hpx
      obtain ⟨h1, h2⟩ := hx q hqs
      exact Or.inl ⟨h1, by rw [← h2]; exact hpx⟩
    · obtain ⟨evs, he1, he2⟩ := hevX (fun e => ∀ p, isSpawnEvt p e = false) (by intro p; rfl)
      exact ⟨evs, he1, he2, fun p => by simp [hsp]⟩
  split
  · exact quiet w0 hS0 hsp0
  · rename_i cur rest hq
    obtain ⟨hW1, hcr, hcs, hcse, x0, hx0, hr0⟩ := hW0.pop hq
    have hS1 : SelSub (s.wk i) { w0 with queue := rest } := fun q hqs => hS0 q hqs
    split
    · exact quiet _ hS1 hsp0
    · rename_i x hx
      split
      · refine quietX _ cur x ?_ (by simp [hsp0])
        intro q hqs
        obtain ⟨h1, h2⟩ := finish_selsub (w := { w0 with queue := rest }) x ordQ hqs
        have hne : q ≠ cur := fun e => hcse (e ▸ h1)
        obtain ⟨h3, h4⟩ := hS1 q h1
        exact ⟨h3, (h2 hne).trans h4⟩
      · have hsl := slice_blocked s.prog s.now cur fuel x
        generalize slice s.prog s.now cur fuel x = r at hsl
        obtain ⟨x', out⟩ := r
        dsimp only at hsl ⊢
        -- selects of processes other than `cur` are untouched by the update of `cur`
        have hS2 : ∀ (qq sp : List Pid), SelSub (s.wk i) { w0 with queue := qq, spawning := sp, procs := upd w0.procs cur (some x') } := by
          intro qq sp q hqs
          have hqs' : q ∈ w0.selecting := hqs
          have hne : q ≠ cur := fun e => hcse (e ▸ hqs')
          obtain ⟨h3, h4⟩ := hS0 q hqs'
          exact ⟨h3, by show upd w0.procs cur (some x') q = _; rw [upd_other _ _ _ _ hne]; exact h4⟩
        cases out with
        | cont => exact quiet _ (hS2 _ _) hsp0
        | send t m =>
          have hq2 := quiet { w0 with queue := rest ++ [cur], procs := upd w0.procs cur (some x') } (hS2 _ _) hsp0
          refine ⟨?_, ?_⟩
          · refine h.core.afterExec rfl rfl rfl ⟨[.deliver t m], rfl, ?_⟩ (hwk0 _) ?_
            · intro e he; simp only [List.mem_singleton] at he; subst he
              exact ⟨(fun _ _ heq => by cases heq), (fun _ _ heq => by cases heq)⟩
            · intro q x'' hqs hpx
              obtain ⟨h1, h2⟩ := hS2 (rest ++ [cur]) w0.spawning q (by simpa using hqs)
              exact Or.inl ⟨h1, by rw [← h2]; simpa using hpx⟩
          · refine h.pair.afterExec rfl (hwk0 _) (Or.inl ⟨[.deliver t m], rfl, ?_, ?_⟩)
            · intro e he p; simp only [List.mem_singleton] at he; subst he; rfl
            · intro p; simp [hsp0]
        | spawn fn regs =>
          refine ⟨?_, ?_⟩
          · refine h.core.afterExec rfl rfl rfl ⟨[.spawn cur fn regs none], rfl, ?_⟩ (hwk0 _) ?_
            · intro e he; simp only [List.mem_singleton] at he; subst he
              exact ⟨(fun _ _ heq => by cases heq), (fun _ _ heq => by cases heq)⟩
            · intro q x'' hqs hpx
              obtain ⟨h1, h2⟩ := hS2 rest (sinsert w0.spawning cur) q (by simpa using hqs)
              exact Or.inl ⟨h1, by rw [← h2]; simpa using hpx⟩
          · refine h.pair.afterExec rfl (hwk0 _) (Or.inr ⟨cur, fn, regs, none, rfl, by rw [← hsp0]; exact hcs, ?_⟩)
            intro p; simp [mem_sinsert, hsp0]
        | awaitInit ts =>
          refine ⟨?_, ?_⟩
          · refine h.core.afterExec rfl rfl rfl ⟨[.await cur ts], rfl, ?_⟩ (hwk0 _) ?_
            · intro e he; simp only [List.mem_singleton] at he; subst he
              exact ⟨(fun _ _ heq => by cases heq; exact hsl.2 ts rfl), (fun _ _ heq => by cases heq)⟩
            · intro q x'' hqs hpx
              have hqs' : q ∈ sinsert w0.selecting cur := by simpa using hqs
              rcases mem_sinsert.mp hqs' with h1 | rfl
              · obtain ⟨h3, h4⟩ := hS2 rest w0.spawning q h1
                exact Or.inl ⟨h3, by rw [← h4]; simpa using hpx⟩
              · right; right
                refine ⟨ts, ?_⟩
                show _ ∈ upd s.evtQ i (s.evtQ i ++ [_]) i
                simp
          · refine h.pair.afterExec rfl (hwk0 _) (Or.inl ⟨[.await cur ts], rfl, ?_, ?_⟩)
            · intro e he p; simp only [List.mem_singleton] at he; subst he; rfl
            · intro p; simp [hsp0]
        | blocked =>
          refine ⟨?_, (quiet { w0 with queue := rest, procs := upd w0.procs cur (some x') } (hS2 _ _) hsp0).2 |> fun h2 => ?_⟩
          · refine h.core.afterExec rfl rfl rfl (hevN _) (hwk0 _) ?_
            intro q x'' hqs hpx
            have hqs' : q ∈ sinsert w0.selecting cur := by simpa using hqs
            rcases mem_sinsert.mp hqs' with h1 | rfl
            · obtain ⟨h3, h4⟩ := hS2 rest w0.spawning q h1
              exact Or.inl ⟨h3, by rw [← h4]; simpa using hpx⟩
            · right; left
              have : x'' = x' := by
                have : upd w0.procs q (some x') q = some x'' := by simpa using hpx
                simpa using this.symm
              subst this
              exact hsl.1 rfl
          · refine h.pair.afterExec rfl (hwk0 _) (Or.inl ?_)
            obtain ⟨evs, he1, he2⟩ := hevN (fun e => ∀ p, isSpawnEvt p e = false)
            exact ⟨evs, he1, he2, fun p => by simp [hsp0]⟩
        | failed =>
          refine quietX _ cur x' ?_ (by simp [hsp0])
          intro q hqs
          obtain ⟨h1, h2⟩ := finish_selsub (w := { w0 with queue := rest, procs := upd w0.procs cur (some x') }) x' ordQ hqs
          have hne : q ≠ cur := fun e => hcse (e ▸ h1)
          obtain ⟨h3, h4⟩ := hS2 rest w0.spawning q h1
          exact ⟨h3, (h2 hne).trans h4⟩
        | done =>
          refine quietX _ cur x' ?_ (by simp [hsp0])
          intro q hqs
          obtain ⟨h1, h2⟩ := finish_selsub (w := { w0 with queue := rest, procs := upd w0.procs cur (some x') }) x' ordQ hqs
          have hne : q ≠ cur := fun e => hcse (e ▸ h1)
          obtain ⟨h3, h4⟩ := hS2 rest w0.spawning q h1
          exact ⟨h3, (h2 hne).trans h4⟩

/-! ### completion check -/

/-- events emitted by `check_completed_processes` -/
def checkEvt (e : Evt) : Prop := (∃ a t r, e = .procResults a [(t, some r)]) ∨ (∃ req r, e = .resultResp req r)

structure CheckEv (s s' : Sys) (i : Wid) : Prop where
  env : s'.env = s.env
  prog : s'.prog = s.prog
  evs : ∃ evs, s'.evtQ = upd s.evtQ i (s.evtQ i ++ evs) ∧ ∀ e ∈ evs, checkEvt e

theorem CheckEv.refl (s : Sys) (i : Wid) : CheckEv s s i := ⟨rfl, rfl, [], by simp, fun _ h => by simp at h⟩

theorem CheckEv.trans {s s' s'' : Sys} {i : Wid} (h1 : CheckEv s s' i) (h2 : CheckEv s' s'' i) : CheckEv s s'' i := by
  obtain ⟨e1, he1, hp1⟩ := h1.evs
  obtain ⟨e2, he2, hp2⟩ := h2.evs
  refine ⟨h2.env.trans h1.env, h2.prog.trans h1.prog, e1 ++ e2, ?_, ?_⟩
  · rw [he2, he1]; simp [List.append_assoc]
  · intro e he
    rcases List.mem_append.mp he with h | h
    · exact hp1 e h
    · exact hp2 e h

theorem CheckEv.foldl {α : Type} {i : Wid} (f : Sys → α → Sys) (hf : ∀ s a, CheckEv s (f s a) i) :
    ∀ (l : List α) (s : Sys), CheckEv s (l.foldl f s) i
  | [], s => CheckEv.refl s i
  | a :: l, s => (hf s a).trans (CheckEv.foldl f hf l (f s a))

theorem CheckEv.reportTarget (s : Sys) (i : Wid) (t : Pid) : CheckEv s (reportTarget s i t) i := by
  unfold QM.Sys.reportTarget
  dsimp only
  split
  · exact CheckEv.refl s i
  · rename_i r _
    have h1 : ∀ (l : List Pid) (s0 : Sys),
        CheckEv s0 (l.foldl (fun acc a => { acc.pushEvt i (.procResults a [(t, some r)]) with reported := acc.reported ++ [(a, t)] }) s0) i :=
      CheckEv.foldl _ (fun s0 a => ⟨rfl, rfl, [.procResults a [(t, some r)]], rfl, fun e he => by
        simp only [List.mem_singleton] at he; subst he; exact Or.inl ⟨a, t, r, rfl⟩⟩)
    have h2 := h1 ((s.wk i).awaitersFor t) s
    generalize List.foldl _ s ((s.wk i).awaitersFor t) = s1 at h2
    exact ⟨h2.env, h2.prog, h2.evs⟩

theorem CheckEv.answerRequests (s : Sys) (i : Wid) (p : Pid) : CheckEv s (answerRequests s i p) i := by
  unfold QM.Sys.answerRequests
  dsimp only
  split
  · exact CheckEv.refl s i
  · rename_i r _
    have h1 : ∀ (l : List Nat) (s0 : Sys),
        CheckEv s0 (l.foldl (fun acc req => acc.pushEvt i (.resultResp req r)) s0) i :=
      CheckEv.foldl _ (fun s0 a => ⟨rfl, rfl, [.resultResp a r], rfl, fun e he => by
        simp only [List.mem_singleton] at he; subst he; exact Or.inr ⟨a, r, rfl⟩⟩)
    have h2 := h1 ((s.wk i).resultReqs p) s
    generalize List.foldl _ s ((s.wk i).resultReqs p) = s1 at h2
    exact ⟨h2.env, h2.prog, h2.evs⟩

theorem CheckEv.checkStep (s : Sys) (i : Wid) (ordE : List Pid) : CheckEv s (checkStep s i ordE) i := by
  unfold QM.Sys.checkStep
  dsimp only
  exact (CheckEv.foldl _ (fun a t => CheckEv.reportTarget a i t) _ s).trans
    (CheckEv.foldl _ (fun a p => CheckEv.answerRequests a i p) _ _)

theorem WInv.checkStep {s : Sys} (h : WInv s) (i : Wid) (ordE : List Pid) : WInv (checkStep s i ordE) := by
  have hc := CheckRel.checkStep s i ordE
  have he := CheckEv.checkStep s i ordE
  obtain ⟨evs, hev, hevs⟩ := he.evs
  refine ⟨h.si.checkStep i ordE, ?_, ?_⟩
  · refine h.core.afterExec hc.cmdQ he.prog (by rw [he.env]) ⟨evs, hev, ?_⟩ hc.wkOther ?_
    · intro e hm
      rcases hevs e hm with ⟨a, t, r, rfl⟩ | ⟨req, r, rfl⟩
      · exact ⟨(fun _ _ heq => by cases heq), (fun _ _ heq => by cases heq; simp)⟩
      · exact ⟨(fun _ _ heq => by cases heq), (fun _ _ heq => by cases heq)⟩
    · intro q x' hqs hpx
      rw [hc.selecting] at hqs
      rw [hc.procs] at hpx
      exact Or.inl ⟨hqs, hpx⟩
  · refine h.pair.afterExec hc.cmdQ hc.wkOther (Or.inl ⟨evs, hev, ?_, fun p => by rw [hc.spawning]⟩)
    intro e hm p
    rcases hevs e hm with ⟨a, t, r, rfl⟩ | ⟨req, r, rfl⟩ <;> rfl

theorem WInv.envStep1 {s : Sys} (h : WInv s) (combine) (w : Wid) : WInv (envStep1With combine s w) :=
  ⟨h.si.envStep1 combine w, h.core.envStep1 h.si.r combine w, h.pair.envStep1 h.si.r combine w⟩

theorem WInv.of_started {s : Sys} (h : Started s) : WInv s := by
  have hcmd : ∀ w c, c ∈ s.cmdQ w → c = .misc ∨ ∃ r p, c = .getResult r p := by
    intro w c hc
    by_cases ew : w = 0
    · subst ew
      obtain ⟨req, hq⟩ := h.cmd0
      rw [hq] at hc; simp at hc
      exact Or.inr ⟨req, 0, hc⟩
    · exact Or.inl (h.cmdOther w ew c hc)
  have hsel : ∀ w, (s.wk w).selecting = [] ∧ (s.wk w).spawning = [] := by
    intro w; rw [h.wk_at]
    split <;> simp [W0started, W0init, WorkerSt.setProc, WorkerSt.empty]
  refine ⟨SInv.of_started h, ?_, ?_⟩
  · refine { neA := ?_, neQ := ?_, neR := ?_, pend := ?_, wake := ?_ }
    · intro w a ts hm; rw [h.evtQ w] at hm; simp at hm
    · intro w a ts hm
      rcases hcmd w _ hm with h1 | ⟨_, _, h1⟩ <;> cases h1
    · intro w a rs hm; rw [h.evtQ w] at hm; simp at hm
    · intro p pa hp; rw [h.pending] at hp; cases hp
    · intro w p x hp; rw [(hsel w).1] at hp; simp at hp
  · intro w c
    rw [h.evtQ w, (hsel w).2]
    simp only [List.countP_nil, Nat.zero_add, List.not_mem_nil, if_false]
    rw [List.countP_eq_zero]
    intro c' hc'
    rcases hcmd w c' hc' with rfl | ⟨_, _, rfl⟩ <;> simp [isNotify]

theorem WInv.micro {s : Sys} (h : WInv s) (m : Micro) : WInv (microStep Rules.current s m) := by
  cases m with
  | env w => exact h.envStep1 _ w
  | cmd i => exact h.cmdStep1 i
  | exec i fuel ordQ => exact h.execStep i fuel ordQ
  | check i ordE => exact h.checkStep i ordE
  | tick ms =>
    refine ⟨(h.si.micro Rules.current_sane (.tick ms)), h.core.congr rfl rfl rfl rfl rfl, h.pair.congr rfl rfl rfl⟩

end QM.Sys
