import QuiverModel.Lemmas.Sys.Start
/-
Delivery invariant of M-Sys (`DInv`): message conservation per (sender, receiver) pair along the
pipeline  sender's event queue → receiver's command queue → mailbox,  no message is ever dropped
(a `DeliverMessage` never overtakes the `SpawnProcess` of its target), and spawn replies are
conserved per caller.
-/
namespace QM.Sys
set_option linter.unusedSectionVars false
variable [Cfg]

/-! ### selections -/

/-- messages of a (receiver, message) log that go from `a` to `b` -/
def sel (a b : Pid) (l : List (Pid × Msg)) : List Msg :=
  l.filterMap (fun rm => if rm.1 = b ∧ rm.2.src = a then some rm.2 else none)

def cmdMsg : Cmd → Option (Pid × Msg)
  | .deliver t m => some (t, m)
  | _ => none
def evtMsg : Evt → Option (Pid × Msg)
  | .deliver t m => some (t, m)
  | _ => none

def cmdMsgs (q : List Cmd) : List (Pid × Msg) := q.filterMap cmdMsg
def evtMsgs (q : List Evt) : List (Pid × Msg) := q.filterMap evtMsg

def selC (a b : Pid) (q : List Cmd) : List Msg := sel a b (cmdMsgs q)
def selE (a b : Pid) (q : List Evt) : List Msg := sel a b (evtMsgs q)

/-- the worker a pid is routed to (0 for pids the environment has not allocated) -/
def home (s : Sys) (p : Pid) : Wid := (s.env.router p).getD 0

theorem home_eq {s : Sys} {p : Pid} {w : Wid} (h : s.env.router p = some w) : home s p = w := by
  simp [home, h]

@[simp] theorem sel_nil (a b : Pid) : sel a b [] = [] := rfl
theorem sel_append (a b : Pid) (l l' : List (Pid × Msg)) : sel a b (l ++ l') = sel a b l ++ sel a b l' := by
  simp [sel, List.filterMap_append]
theorem sel_single (a b : Pid) (t : Pid) (m : Msg) :
    sel a b [(t, m)] = if t = b ∧ m.src = a then [m] else [] := by
  simp only [sel, List.filterMap_cons, List.filterMap_nil]
  by_cases h : t = b ∧ m.src = a <;> simp [h]

theorem selC_append (a b : Pid) (q : List Cmd) (c : Cmd) :
    selC a b (q ++ [c]) = selC a b q ++ (match cmdMsg c with | some tm => sel a b [tm] | none => []) := by
  simp only [selC, cmdMsgs, List.filterMap_append, sel_append]
  congr 1
  cases h : cmdMsg c <;> simp [h]

theorem selC_cons (a b : Pid) (q : List Cmd) (c : Cmd) :
    selC a b (c :: q) = (match cmdMsg c with | some tm => sel a b [tm] | none => []) ++ selC a b q := by
  have : c :: q = [c] ++ q := rfl
  rw [this]
  simp only [selC, cmdMsgs, List.filterMap_append, sel_append]
  congr 1
  cases h : cmdMsg c <;> simp [h]

theorem selE_append (a b : Pid) (q q' : List Evt) : selE a b (q ++ q') = selE a b q ++ selE a b q' := by
  simp only [selE, evtMsgs, List.filterMap_append, sel_append]

theorem selE_cons (a b : Pid) (q : List Evt) (e : Evt) :
    selE a b (e :: q) = (match evtMsg e with | some tm => sel a b [tm] | none => []) ++ selE a b q := by
  have : e :: q = [e] ++ q := rfl
  rw [this, selE_append]
  congr 1
  simp only [selE, evtMsgs]
  cases h : evtMsg e <;> simp [h]

/-! ### spawn replies -/

def spawnedOf (c : Pid) (l : List (Pid × Pid)) : List Pid :=
  l.filterMap (fun cp => if cp.1 = c then some cp.2 else none)
def notifiedOf (c : Pid) (l : List (Pid × Pid × Bool)) : List Pid :=
  l.filterMap (fun x => if x.1 = c then some x.2.1 else none)
def cmdNotify (c : Pid) : Cmd → Option Pid
  | .notifySpawn c' p => if c' = c then some p else none
  | _ => none
def notifyC (c : Pid) (q : List Cmd) : List Pid := q.filterMap (cmdNotify c)

theorem notifyC_append (c : Pid) (q : List Cmd) (x : Cmd) :
    notifyC c (q ++ [x]) = notifyC c q ++ (match cmdNotify c x with | some p => [p] | none => []) := by
  simp only [notifyC, List.filterMap_append]
  congr 1
  cases h : cmdNotify c x <;> simp [h]

theorem notifyC_cons (c : Pid) (q : List Cmd) (x : Cmd) :
    notifyC c (x :: q) = (match cmdNotify c x with | some p => [p] | none => []) ++ notifyC c q := by
  simp only [notifyC, List.filterMap_cons]
  cases h : cmdNotify c x <;> simp

/-! ### creation order -/

def cmdCreate : Cmd → Option Pid
  | .spawn p _ _ => some p
  | _ => none
def creates (q : List Cmd) : List Pid := q.filterMap cmdCreate

/-- every `deliver` in the queue targets a process that exists or is created earlier in the queue -/
def QOK (K : Pid → Prop) : List Cmd → Prop
  | [] => True
  | .spawn p _ _ :: q => QOK (fun x => K x ∨ x = p) q
  | .deliver t _ :: q => K t ∧ QOK K q
  | _ :: q => QOK K q

theorem QOK.mono {K K' : Pid → Prop} (hk : ∀ x, K x → K' x) : ∀ {q : List Cmd}, QOK K q → QOK K' q
  | [], _ => trivial
  | c :: q, h => by
    cases c with
    | spawn p fn regs =>
      exact QOK.mono (K := fun x => K x ∨ x = p) (K' := fun x => K' x ∨ x = p)
        (fun x hx => hx.elim (fun h1 => Or.inl (hk x h1)) Or.inr) (q := q) h
    | deliver t m => exact ⟨hk t h.1, QOK.mono hk h.2⟩
    | misc => exact QOK.mono hk (q := q) h
    | start p => exact QOK.mono hk (q := q) h
    | resume p fn => exact QOK.mono hk (q := q) h
    | notifySpawn a b => exact QOK.mono hk (q := q) h
    | queryAwait a ts => exact QOK.mono hk (q := q) h
    | updateAwait a rs => exact QOK.mono hk (q := q) h
    | getResult r p => exact QOK.mono hk (q := q) h

/-- requirement on a command appended at the end of a queue -/
def endOK (K : Pid → Prop) (q : List Cmd) : Cmd → Prop
  | .deliver t _ => K t ∨ t ∈ creates q
  | _ => True

theorem QOK.append {c : Cmd} : ∀ {K : Pid → Prop} {q : List Cmd}, QOK K q → endOK K q c → QOK K (q ++ [c])
  | K, [], _, he => by
    cases c <;> simp_all [QOK, endOK, creates]
  | K, x :: q, h, he => by
    cases x with
    | spawn p fn regs =>
      refine QOK.append (K := fun y => K y ∨ y = p) (q := q) h ?_
      cases c <;> simp_all [endOK, creates, cmdCreate]
      rcases he with he | he | he
      · exact Or.inl (Or.inl he)
      · exact Or.inl (Or.inr he)
      · exact Or.inr he
    | deliver t m =>
      refine ⟨h.1, QOK.append (q := q) h.2 ?_⟩
      cases c <;> simp_all [endOK, creates, cmdCreate]
    | misc => exact QOK.append (K := K) (q := q) h (by cases c <;> simp_all [endOK, creates, cmdCreate])
    | start p => exact QOK.append (K := K) (q := q) h (by cases c <;> simp_all [endOK, creates, cmdCreate])
    | resume p fn => exact QOK.append (K := K) (q := q) h (by cases c <;> simp_all [endOK, creates, cmdCreate])
    | notifySpawn a b => exact QOK.append (K := K) (q := q) h (by cases c <;> simp_all [endOK, creates, cmdCreate])
    | queryAwait a ts => exact QOK.append (K := K) (q := q) h (by cases c <;> simp_all [endOK, creates, cmdCreate])
    | updateAwait a rs => exact QOK.append (K := K) (q := q) h (by cases c <;> simp_all [endOK, creates, cmdCreate])
    | getResult r p => exact QOK.append (K := K) (q := q) h (by cases c <;> simp_all [endOK, creates, cmdCreate])

/-- after consuming the head command: the rest is fine for the enlarged domain -/
theorem QOK.tail {K K' : Pid → Prop} {c : Cmd} {q : List Cmd} (h : QOK K (c :: q))
    (hk : ∀ x, K x → K' x) (hc : ∀ p, cmdCreate c = some p → K' p) : QOK K' q := by
  cases c with
  | spawn p fn regs =>
    refine QOK.mono ?_ (q := q) h
    intro x hx
    rcases hx with hx | rfl
    · exact hk x hx
    · exact hc _ rfl
  | deliver t m => exact QOK.mono hk h.2
  | misc => exact QOK.mono hk (q := q) h
  | start p => exact QOK.mono hk (q := q) h
  | resume p fn => exact QOK.mono hk (q := q) h
  | notifySpawn a b => exact QOK.mono hk (q := q) h
  | queryAwait a ts => exact QOK.mono hk (q := q) h
  | updateAwait a rs => exact QOK.mono hk (q := q) h
  | getResult r p => exact QOK.mono hk (q := q) h

theorem creates_append (q : List Cmd) (c : Cmd) :
    creates (q ++ [c]) = creates q ++ (match cmdCreate c with | some p => [p] | none => []) := by
  simp only [creates, List.filterMap_append]
  congr 1
  cases h : cmdCreate c <;> simp [h]

/-! ### the invariant -/

structure DInv (s : Sys) : Prop where
  r : RInv s
  qok : ∀ w, QOK (known s w) (s.cmdQ w)
  placedOrPending : ∀ p w, s.env.router p = some w → known s w p ∨ p ∈ creates (s.cmdQ w)
  nodrop : s.dropped = []
  conserve : ∀ a b, sel a b s.appended ++ selC a b (s.cmdQ (home s b)) ++ selE a b (s.evtQ (home s a)) = sel a b s.sent
  spawnReply : ∀ c, notifiedOf c s.spawnNotified ++ notifyC c (s.cmdQ (home s c)) = spawnedOf c s.spawned

/-! facts from the routing invariant: unallocated pids occur nowhere -/

theorem selE_unrouted {s : Sys} (h : RInv s) {a : Pid} (ha : s.env.router a = none) (b : Pid) (w : Wid) :
    selE a b (s.evtQ w) = [] := by
  have : ∀ q : List Evt, (∀ e ∈ q, EvtOK s.env.router s.prog.length w e) → selE a b q = [] := by
    intro q
    induction q with
    | nil => intro _; rfl
    | cons e q ih =>
      intro hq
      rw [selE_cons, ih (fun e' he' => hq e' (List.mem_cons_of_mem _ he'))]
      have he := hq e (by simp)
      cases e with
      | deliver t m =>
        simp only [evtMsg, sel_single]
        rw [if_neg]
        · rfl
        · rintro ⟨_, hsrc⟩
          have := he.1; rw [hsrc, ha] at this; simp at this
      | spawn _ _ _ _ => rfl
      | await _ _ => rfl
      | procResults _ _ => rfl
      | resultResp _ _ => rfl
      | exited _ => rfl
  exact this _ (h.evts w)

theorem selC_unrouted {s : Sys} (h : RInv s) {b : Pid} (hb : s.env.router b = none) (a : Pid) (w : Wid) :
    selC a b (s.cmdQ w) = [] := by
  have : ∀ q : List Cmd, (∀ c ∈ q, CmdOK s.env.router s.prog.length (known s w) w c) → selC a b q = [] := by
    intro q
    induction q with
    | nil => intro _; rfl
    | cons c q ih =>
      intro hq
      rw [selC_cons, ih (fun c' hc' => hq c' (List.mem_cons_of_mem _ hc'))]
      have hc := hq c (by simp)
      cases c with
      | deliver t m =>
        simp only [cmdMsg, sel_single]
        rw [if_neg]
        · rfl
        · rintro ⟨ht, _⟩
          have : s.env.router t = some w := hc
          rw [ht, hb] at this; simp at this
      | misc => rfl
      | start _ => rfl
      | resume _ _ => rfl
      | spawn _ _ _ => rfl
      | notifySpawn _ _ => rfl
      | queryAwait _ _ => rfl
      | updateAwait _ _ => rfl
      | getResult _ _ => rfl
  exact this _ (h.cmds w)

theorem notifyC_unrouted {s : Sys} (h : RInv s) {c : Pid} (hc : s.env.router c = none) (w : Wid) :
    notifyC c (s.cmdQ w) = [] := by
  have : ∀ q : List Cmd, (∀ x ∈ q, CmdOK s.env.router s.prog.length (known s w) w x) → notifyC c q = [] := by
    intro q
    induction q with
    | nil => intro _; rfl
    | cons x q ih =>
      intro hq
      rw [notifyC_cons, ih (fun c' hc' => hq c' (List.mem_cons_of_mem _ hc'))]
      have hx := hq x (by simp)
      cases x with
      | notifySpawn c' p =>
        simp only [cmdNotify]
        rw [if_neg]
        · rfl
        · intro e
          have : s.env.router c' = some w := hx.1
          rw [e, hc] at this; simp at this
      | misc => rfl
      | start _ => rfl
      | resume _ _ => rfl
      | spawn _ _ _ => rfl
      | deliver _ _ => rfl
      | queryAwait _ _ => rfl
      | updateAwait _ _ => rfl
      | getResult _ _ => rfl
  exact this _ (h.cmds w)

/-! ### worker steps that only emit events -/

structure WorkerEff (s s' : Sys) (i : Wid) : Prop where
  r' : RInv s'
  env : s'.env = s.env
  cmdQ : s'.cmdQ = s.cmdQ
  known : ∀ w p, known s' w p ↔ known s w p
  evs : ∃ evs, s'.evtQ = upd s.evtQ i (s.evtQ i ++ evs) ∧ s'.sent = s.sent ++ evtMsgs evs
  appended : s'.appended = s.appended
  dropped : s'.dropped = s.dropped
  spawned : s'.spawned = s.spawned
  spawnNotified : s'.spawnNotified = s.spawnNotified

theorem home_congr {s s' : Sys} (h : s'.env = s.env) (p : Pid) : home s' p = home s p := by
  simp [home, h]

theorem selE_of_evtOK {router : Router} {plen : Nat} {w : Wid} {a b : Pid} :
    ∀ (q : List Evt), (∀ e ∈ q, EvtOK router plen w e) → router a ≠ some w → selE a b q = []
  | [], _, _ => rfl
  | e :: q, hq, ha => by
    rw [selE_cons, selE_of_evtOK q (fun e' he' => hq e' (List.mem_cons_of_mem _ he')) ha]
    have he := hq e (by simp)
    cases e with
    | deliver t m =>
      simp only [evtMsg, sel_single]
      rw [if_neg]
      · rfl
      · rintro ⟨_, hsrc⟩
        exact ha (hsrc ▸ he.1)
    | spawn _ _ _ _ => rfl
    | await _ _ => rfl
    | procResults _ _ => rfl
    | resultResp _ _ => rfl
    | exited _ => rfl

theorem DInv.workerEff {s s' : Sys} {i : Wid} (h : DInv s) (e : WorkerEff s s' i) : DInv s' := by
  obtain ⟨evs, hev, hsent⟩ := e.evs
  refine { r := e.r', qok := ?_, placedOrPending := ?_, nodrop := by rw [e.dropped]; exact h.nodrop,
           conserve := ?_, spawnReply := ?_ }
  · intro w; rw [e.cmdQ]
    exact QOK.mono (fun x hx => (e.known w x).mpr hx) (h.qok w)
  · intro p w hp
    rw [e.env] at hp; rw [e.cmdQ]
    rcases h.placedOrPending p w hp with h1 | h1
    · exact Or.inl ((e.known w p).mpr h1)
    · exact Or.inr h1
  · intro a b
    rw [e.appended, e.cmdQ, home_congr e.env, home_congr e.env, hsent, sel_append, ← h.conserve a b, hev]
    by_cases ha : home s a = i
    · rw [ha]; simp only [upd_same, selE_append, List.append_assoc]; rfl
    · have hne : s'.env.router a ≠ some i := by
        intro hr; rw [e.env] at hr; exact ha (home_eq hr)
      have : selE a b evs = [] := by
        apply selE_of_evtOK (router := s'.env.router) (plen := s'.prog.length) (w := i) evs _ hne
        intro ev hev'
        apply e.r'.evts i ev
        rw [hev]; simp [hev']
      simp only [upd_other _ _ _ _ ha]
      unfold selE at this
      rw [this]; simp
  · intro c
    rw [e.spawnNotified, e.cmdQ, home_congr e.env, e.spawned]
    exact h.spawnReply c

/-- shape of a worker step that consumes no command: only worker `i`'s state changes (same set of
processes), events are appended to its event queue, `sent` grows by the messages among them -/
structure Shape (s s' : Sys) (i : Wid) : Prop where
  env : s'.env = s.env
  prog : s'.prog = s.prog
  cmdQ : s'.cmdQ = s.cmdQ
  known : ∀ w p, known s' w p ↔ known s w p
  evs : ∃ evs, s'.evtQ = upd s.evtQ i (s.evtQ i ++ evs) ∧ s'.sent = s.sent ++ evtMsgs evs
  appended : s'.appended = s.appended
  dropped : s'.dropped = s.dropped
  deadDropped : s'.deadDropped = s.deadDropped
  spawned : s'.spawned = s.spawned
  spawnNotified : s'.spawnNotified = s.spawnNotified

theorem Shape.refl (s : Sys) (i : Wid) : Shape s s i :=
  { env := rfl, prog := rfl, cmdQ := rfl, known := fun _ _ => Iff.rfl, evs := ⟨[], by simp, by simp [evtMsgs]⟩,
    appended := rfl, dropped := rfl, deadDropped := rfl, spawned := rfl, spawnNotified := rfl }

theorem Shape.trans {s s' s'' : Sys} {i : Wid} (h1 : Shape s s' i) (h2 : Shape s' s'' i) : Shape s s'' i := by
  obtain ⟨e1, he1, hs1⟩ := h1.evs
  obtain ⟨e2, he2, hs2⟩ := h2.evs
  refine { env := h2.env.trans h1.env, prog := h2.prog.trans h1.prog, cmdQ := h2.cmdQ.trans h1.cmdQ,
           known := fun w p => (h2.known w p).trans (h1.known w p), evs := ⟨e1 ++ e2, ?_, ?_⟩,
           appended := h2.appended.trans h1.appended, dropped := h2.dropped.trans h1.dropped, deadDropped := h2.deadDropped.trans h1.deadDropped,
           spawned := h2.spawned.trans h1.spawned, spawnNotified := h2.spawnNotified.trans h1.spawnNotified }
  · rw [he2, he1]; simp [List.append_assoc]
  · rw [hs2, hs1]; simp [evtMsgs, List.filterMap_append, List.append_assoc]

theorem Shape.foldl {α : Type} {i : Wid} (f : Sys → α → Sys) (hf : ∀ s a, Shape s (f s a) i) :
    ∀ (l : List α) (s : Sys), Shape s (l.foldl f s) i
  | [], s => Shape.refl s i
  | a :: l, s => (hf s a).trans (Shape.foldl f hf l (f s a))

theorem known_setWk_same {s : Sys} {i : Wid} {w' : WorkerSt} (hs : ∀ p, (w'.procs p).isSome = ((s.wk i).procs p).isSome)
    (w : Wid) (p : Pid) : known (s.setWk i w') w p ↔ known s w p := by
  unfold known
  simp only [setWk_wk, upd_apply]
  split
  · rename_i e; subst e; rw [hs]
  · exact Iff.rfl

/-- replacing worker `i` by a state with the same processes -/
theorem Shape.setWk {s : Sys} {i : Wid} {w' : WorkerSt} (hs : ∀ p, (w'.procs p).isSome = ((s.wk i).procs p).isSome) :
    Shape s (s.setWk i w') i :=
  { env := rfl, prog := rfl, cmdQ := rfl, known := known_setWk_same hs, evs := ⟨[], by simp, by simp [evtMsgs]⟩,
    appended := rfl, dropped := rfl, deadDropped := rfl, spawned := rfl, spawnNotified := rfl }

theorem Shape.noteExit (s : Sys) (i : Wid) (cur : Pid) (x : Proc) : Shape s (s.noteExit i cur x) i := by
  rcases noteExit_eq s i cur x with e | e
  · rw [e]; exact Shape.refl s i
  · rw [e]
    exact { env := rfl, prog := rfl, cmdQ := rfl, known := fun _ _ => Iff.rfl,
            evs := ⟨[.exited cur], by simp, by simp [evtMsgs, evtMsg]⟩,
            appended := rfl, dropped := rfl, deadDropped := rfl, spawned := rfl, spawnNotified := rfl }

theorem Shape.pushEvt (s : Sys) (i : Wid) (e : Evt) (he : evtMsg e = none) : Shape s (s.pushEvt i e) i :=
  { env := rfl, prog := rfl, cmdQ := rfl, known := fun _ _ => Iff.rfl,
    evs := ⟨[e], by simp, by simp [evtMsgs, he]⟩,
    appended := rfl, dropped := rfl, deadDropped := rfl, spawned := rfl, spawnNotified := rfl }

theorem Shape.ghost {s s' : Sys} {i : Wid} (h : Shape s s' i) (reported learned : List (Pid × Pid)) :
    Shape s { s' with reported := reported, learned := learned } i := { h with }

theorem Shape.execStep (s : Sys) (i : Wid) (fuel : Nat) (ordQ : List Pid) : Shape s (execStep s i fuel ordQ) i := by
  unfold QM.Sys.execStep
  dsimp only
  have hs0 := SameProcs.checkExpired (s.wk i) s.prog s.now ordQ
  generalize (s.wk i).checkExpired s.prog s.now ordQ = w0 at *
  split
  · exact Shape.setWk hs0.dom
  · rename_i cur rest _
    have hs1 : SameProcs (s.wk i) { w0 with queue := rest } := hs0.trans (SameProcs.of_eq rfl rfl)
    split
    · exact Shape.setWk hs1.dom
    · rename_i x hx
      split
      · exact (Shape.setWk (hs1.trans (SameProcs.finish (w := { w0 with queue := rest }) hx rfl ordQ)).dom).trans (Shape.noteExit _ i cur x)
      · generalize hsl : slice s.prog s.now cur fuel x = r
        obtain ⟨x', out⟩ := r
        have hdom : ∀ (q sp se : List Pid) (p : Pid),
            (({ w0 with queue := q, spawning := sp, selecting := se, procs := upd w0.procs cur (some x') } : WorkerSt).procs p).isSome
              = ((s.wk i).procs p).isSome := by
          intro q sp se p
          rw [← hs1.dom p]
          simp only [upd_apply]
          split
          · rename_i e; subst e; simp [hx]
          · rfl
        dsimp only
        cases out with
        | cont => exact Shape.setWk (hdom _ _ _)
        | send t m =>
          refine { env := rfl, prog := rfl, cmdQ := rfl, known := known_setWk_same (hdom _ _ _),
                   evs := ⟨[.deliver t m], rfl, rfl⟩, appended := rfl, dropped := rfl, deadDropped := rfl, spawned := rfl, spawnNotified := rfl }
        | spawn fn regs => exact (Shape.setWk (hdom _ _ _)).trans (Shape.pushEvt _ i _ rfl)
        | awaitInit ts => exact (Shape.setWk (hdom _ _ _)).trans (Shape.pushEvt _ i _ rfl)
        | blocked => exact Shape.setWk (hdom _ _ _)
        | failed =>
          have hx2 : ({ w0 with queue := rest, procs := upd w0.procs cur (some x') } : WorkerSt).procs cur = some x' := by simp
          have := (SameProcs.finish (w := { w0 with queue := rest, procs := upd w0.procs cur (some x') }) hx2 rfl ordQ).dom
          exact (Shape.setWk (fun p => (this p).trans (hdom _ _ _ p))).trans (Shape.noteExit _ i cur x')
        | done =>
          have hx2 : ({ w0 with queue := rest, procs := upd w0.procs cur (some x') } : WorkerSt).procs cur = some x' := by simp
          have := (SameProcs.finish (w := { w0 with queue := rest, procs := upd w0.procs cur (some x') }) hx2 rfl ordQ).dom
          exact (Shape.setWk (fun p => (this p).trans (hdom _ _ _ p))).trans (Shape.noteExit _ i cur x')

theorem Shape.pushEvtReported (s : Sys) (i : Wid) (e : Evt) (he : evtMsg e = none) (rep : List (Pid × Pid)) :
    Shape s { s.pushEvt i e with reported := rep } i :=
  { env := rfl, prog := rfl, cmdQ := rfl, known := fun _ _ => Iff.rfl,
    evs := ⟨[e], by simp, by simp [evtMsgs, he]⟩,
    appended := rfl, dropped := rfl, deadDropped := rfl, spawned := rfl, spawnNotified := rfl }

theorem Shape.reportTarget (s : Sys) (i : Wid) (t : Pid) : Shape s (reportTarget s i t) i := by
  unfold QM.Sys.reportTarget
  dsimp only
  split
  · exact Shape.refl s i
  · rename_i r _
    have hfold : ∀ (l : List Pid) (s0 : Sys),
        Shape s0 (l.foldl (fun acc a => { acc.pushEvt i (.procResults a [(t, some r)]) with reported := acc.reported ++ [(a, t)] }) s0) i ∧
        (l.foldl (fun acc a => { acc.pushEvt i (.procResults a [(t, some r)]) with reported := acc.reported ++ [(a, t)] }) s0).wk = s0.wk := by
      intro l
      induction l with
      | nil => intro s0; exact ⟨Shape.refl s0 i, rfl⟩
      | cons a l ih =>
        intro s0
        simp only [List.foldl_cons]
        obtain ⟨h1, h2⟩ := ih { s0.pushEvt i (.procResults a [(t, some r)]) with reported := s0.reported ++ [(a, t)] }
        exact ⟨Shape.trans (Shape.pushEvtReported s0 i (.procResults a [(t, some r)]) rfl _) h1, h2⟩
    obtain ⟨h1, hw1⟩ := hfold ((s.wk i).awaitersFor t) s
    generalize List.foldl _ s ((s.wk i).awaitersFor t) = s1 at h1 hw1
    refine h1.trans (Shape.setWk ?_)
    intro p; rw [hw1]

theorem Shape.answerRequests (s : Sys) (i : Wid) (p : Pid) : Shape s (answerRequests s i p) i := by
  unfold QM.Sys.answerRequests
  dsimp only
  split
  · exact Shape.refl s i
  · rename_i r _
    have hfold : ∀ (l : List Nat) (s0 : Sys),
        Shape s0 (l.foldl (fun acc req => acc.pushEvt i (.resultResp req r)) s0) i ∧
        (l.foldl (fun acc req => acc.pushEvt i (.resultResp req r)) s0).wk = s0.wk := by
      intro l
      induction l with
      | nil => intro s0; exact ⟨Shape.refl s0 i, rfl⟩
      | cons a l ih =>
        intro s0
        simp only [List.foldl_cons]
        obtain ⟨h1, h2⟩ := ih (s0.pushEvt i (.resultResp a r))
        exact ⟨Shape.trans (Shape.pushEvt s0 i (.resultResp a r) rfl) h1, h2⟩
    obtain ⟨h1, hw1⟩ := hfold ((s.wk i).resultReqs p) s
    generalize List.foldl _ s ((s.wk i).resultReqs p) = s1 at h1 hw1
    refine h1.trans (Shape.setWk ?_)
    intro q; rw [hw1]

theorem Shape.checkStep (s : Sys) (i : Wid) (ordE : List Pid) : Shape s (checkStep s i ordE) i := by
  unfold QM.Sys.checkStep
  dsimp only
  exact (Shape.foldl _ (fun a t => Shape.reportTarget a i t) _ s).trans
    (Shape.foldl _ (fun a p => Shape.answerRequests a i p) _ _)

theorem Shape.workerEff {s s' : Sys} {i : Wid} (h : Shape s s' i) (r' : RInv s') : WorkerEff s s' i :=
  { r' := r', env := h.env, cmdQ := h.cmdQ, known := h.known, evs := h.evs, appended := h.appended,
    dropped := h.dropped, spawned := h.spawned, spawnNotified := h.spawnNotified }

theorem DInv.execStep {s : Sys} (h : DInv s) (i : Wid) (fuel : Nat) (ordQ : List Pid) : DInv (execStep s i fuel ordQ) :=
  h.workerEff ((Shape.execStep s i fuel ordQ).workerEff (h.r.execStep i fuel ordQ))

theorem DInv.checkStep {s : Sys} (h : DInv s) (i : Wid) (ordE : List Pid) : DInv (checkStep s i ordE) :=
  h.workerEff ((Shape.checkStep s i ordE).workerEff (h.r.checkStep i ordE))

/-! ### consuming a command -/

structure CmdEff (s s' : Sys) (i : Wid) (c : Cmd) (rest : List Cmd) : Prop where
  r' : RInv s'
  env : s'.env = s.env
  cmdQ : s'.cmdQ = upd s.cmdQ i rest
  knownMono : ∀ w p, known s w p → known s' w p
  knownNew : ∀ w p, known s' w p → known s w p ∨ (w = i ∧ cmdCreate c = some p)
  created : ∀ p, cmdCreate c = some p → known s' i p
  evs : ∃ evs, s'.evtQ = upd s.evtQ i (s.evtQ i ++ evs) ∧ evtMsgs evs = []
  sent : s'.sent = s.sent
  delivered : ∀ t m, c = .deliver t m → known s i t → s'.appended = s.appended ++ [(t, m)] ∧ s'.dropped = s.dropped
  notDeliver : cmdMsg c = none → s'.appended = s.appended ∧ s'.dropped = s.dropped
  spawned : s'.spawned = s.spawned
  notified : ∀ c', notifiedOf c' s'.spawnNotified =
    notifiedOf c' s.spawnNotified ++ (match cmdNotify c' c with | some p => [p] | none => [])

theorem creates_cons (q : List Cmd) (c : Cmd) :
    creates (c :: q) = (match cmdCreate c with | some p => [p] | none => []) ++ creates q := by
  simp only [creates, List.filterMap_cons]
  cases h : cmdCreate c <;> simp

theorem DInv.cmdEff {s s' : Sys} {i : Wid} {c : Cmd} {rest : List Cmd} (h : DInv s) (hq : s.cmdQ i = c :: rest)
    (e : CmdEff s s' i c rest) : DInv s' := by
  have hcok : CmdOK s.env.router s.prog.length (known s i) i c := h.r.cmds i c (by rw [hq]; simp)
  have hqok := h.qok i
  rw [hq] at hqok
  obtain ⟨evs, hev, hevs⟩ := e.evs
  -- appended / dropped
  have happ : (∀ t m, c = .deliver t m → s'.appended = s.appended ++ [(t, m)]) ∧ (cmdMsg c = none → s'.appended = s.appended) ∧
      s'.dropped = s.dropped := by
    cases hc : cmdMsg c with
    | none =>
      exact ⟨fun t m heq => by subst heq; simp [cmdMsg] at hc, fun _ => (e.notDeliver hc).1, (e.notDeliver hc).2⟩
    | some tm =>
      cases c <;> simp [cmdMsg] at hc
      rename_i t m
      have hk : known s i t := hqok.1
      exact ⟨fun t' m' heq => by cases heq; exact (e.delivered t m rfl hk).1, fun hn => by simp at hn,
             (e.delivered t m rfl hk).2⟩
  refine { r := e.r', qok := ?_, placedOrPending := ?_, nodrop := by rw [happ.2.2]; exact h.nodrop,
           conserve := ?_, spawnReply := ?_ }
  · intro w
    rw [e.cmdQ]
    by_cases hw : w = i
    · subst hw
      simp only [upd_same]
      exact QOK.tail hqok (e.knownMono w) e.created
    · simp only [upd_other _ _ _ _ hw]
      exact QOK.mono (e.knownMono w) (h.qok w)
  · intro p w hp
    rw [e.env] at hp
    rw [e.cmdQ]
    rcases h.placedOrPending p w hp with h1 | h1
    · exact Or.inl (e.knownMono w p h1)
    · by_cases hw : w = i
      · subst hw
        simp only [upd_same]
        rw [hq, creates_cons, List.mem_append] at h1
        rcases h1 with h1 | h1
        · left
          apply e.created
          cases hc : cmdCreate c with
          | none => simp [hc] at h1
          | some p' => simp [hc] at h1; rw [h1]
        · exact Or.inr h1
      · simp only [upd_other _ _ _ _ hw]; exact Or.inr h1
  · intro a b
    rw [home_congr e.env, home_congr e.env, e.sent, ← h.conserve a b, e.cmdQ, hev]
    have hE : selE a b (upd s.evtQ i (s.evtQ i ++ evs) (home s a)) = selE a b (s.evtQ (home s a)) := by
      by_cases ha : home s a = i
      · rw [ha]; simp only [upd_same, selE_append]
        have : selE a b evs = [] := by simp [selE, hevs]
        rw [this]; simp
      · simp only [upd_other _ _ _ _ ha]
    rw [hE]
    congr 1
    by_cases hb : home s b = i
    · rw [hb]; simp only [upd_same]
      rw [hq, selC_cons]
      cases hc : cmdMsg c with
      | none => rw [happ.2.1 hc]; simp
      | some tm =>
        cases c with
        | deliver t m =>
          simp only [cmdMsg] at hc; cases hc
          rw [happ.1 t m rfl, sel_append]; simp
        | misc => simp [cmdMsg] at hc
        | start _ => simp [cmdMsg] at hc
        | resume _ _ => simp [cmdMsg] at hc
        | spawn _ _ _ => simp [cmdMsg] at hc
        | notifySpawn _ _ => simp [cmdMsg] at hc
        | queryAwait _ _ => simp [cmdMsg] at hc
        | updateAwait _ _ => simp [cmdMsg] at hc
        | getResult _ _ => simp [cmdMsg] at hc
    · simp only [upd_other _ _ _ _ hb]
      congr 1
      cases hc : cmdMsg c with
      | none => rw [happ.2.1 hc]
      | some tm =>
        cases c with
        | deliver t m =>
          rw [happ.1 t m rfl, sel_append, sel_single]
          have ht : s.env.router t = some i := hcok
          rw [if_neg]
          · simp
          · rintro ⟨htb, _⟩
            exact hb (htb ▸ home_eq ht)
        | misc => simp [cmdMsg] at hc
        | start _ => simp [cmdMsg] at hc
        | resume _ _ => simp [cmdMsg] at hc
        | spawn _ _ _ => simp [cmdMsg] at hc
        | notifySpawn _ _ => simp [cmdMsg] at hc
        | queryAwait _ _ => simp [cmdMsg] at hc
        | updateAwait _ _ => simp [cmdMsg] at hc
        | getResult _ _ => simp [cmdMsg] at hc
  · intro c'
    rw [e.notified c', home_congr e.env, e.spawned, ← h.spawnReply c', e.cmdQ]
    by_cases hc' : home s c' = i
    · rw [hc']; simp only [upd_same]
      rw [hq, notifyC_cons]; simp
    · simp only [upd_other _ _ _ _ hc']
      cases hn : cmdNotify c' c with
      | none => simp
      | some p =>
        exfalso
        cases c with
        | notifySpawn c'' p' =>
          simp only [cmdNotify] at hn
          split at hn
          · rename_i e2; subst e2
            have : s.env.router c'' = some i := hcok.1
            exact hc' (home_eq this)
          · simp at hn
        | misc => simp [cmdNotify] at hn
        | start _ => simp [cmdNotify] at hn
        | resume _ _ => simp [cmdNotify] at hn
        | spawn _ _ _ => simp [cmdNotify] at hn
        | deliver _ _ => simp [cmdNotify] at hn
        | queryAwait _ _ => simp [cmdNotify] at hn
        | updateAwait _ _ => simp [cmdNotify] at hn
        | getResult _ _ => simp [cmdNotify] at hn

theorem CmdEff.simple {s s' : Sys} {i : Wid} {c : Cmd} {rest : List Cmd} (r' : RInv s') (env : s'.env = s.env)
    (cmdQ : s'.cmdQ = upd s.cmdQ i rest) (hk : ∀ w p, known s' w p ↔ known s w p)
    (evs : ∃ evs, s'.evtQ = upd s.evtQ i (s.evtQ i ++ evs) ∧ evtMsgs evs = [])
    (sent : s'.sent = s.sent) (app : s'.appended = s.appended) (drop : s'.dropped = s.dropped)
    (spawned : s'.spawned = s.spawned) (notif : s'.spawnNotified = s.spawnNotified)
    (hc1 : cmdCreate c = none) (hc2 : cmdMsg c = none) (hc3 : ∀ c', cmdNotify c' c = none) : CmdEff s s' i c rest :=
  { r' := r', env := env, cmdQ := cmdQ, knownMono := fun w p h => (hk w p).mpr h,
    knownNew := fun w p h => Or.inl ((hk w p).mp h), created := (fun p h => by rw [hc1] at h; cases h),
    evs := evs, sent := sent,
    delivered := (fun t m h => by subst h; simp [cmdMsg] at hc2),
    notDeliver := fun _ => ⟨app, drop⟩, spawned := spawned,
    notified := fun c' => by rw [notif, hc3 c']; simp }

theorem evs_nil (s : Sys) (i : Wid) : ∃ evs, s.evtQ = upd s.evtQ i (s.evtQ i ++ evs) ∧ evtMsgs evs = [] :=
  ⟨[], by simp, rfl⟩

theorem CmdEff.sameKnown {s s' : Sys} {i : Wid} {c : Cmd} {rest : List Cmd} (r' : RInv s') (env : s'.env = s.env)
    (cmdQ : s'.cmdQ = upd s.cmdQ i rest) (hk : ∀ w p, known s' w p ↔ known s w p)
    (evs : ∃ evs, s'.evtQ = upd s.evtQ i (s.evtQ i ++ evs) ∧ evtMsgs evs = [])
    (sent : s'.sent = s.sent) (spawned : s'.spawned = s.spawned) (hc1 : cmdCreate c = none)
    (delivered : ∀ t m, c = .deliver t m → known s i t → s'.appended = s.appended ++ [(t, m)] ∧ s'.dropped = s.dropped)
    (notDeliver : cmdMsg c = none → s'.appended = s.appended ∧ s'.dropped = s.dropped)
    (notified : ∀ c', notifiedOf c' s'.spawnNotified =
      notifiedOf c' s.spawnNotified ++ (match cmdNotify c' c with | some p => [p] | none => [])) : CmdEff s s' i c rest :=
  { r' := r', env := env, cmdQ := cmdQ, knownMono := fun w p h => (hk w p).mpr h,
    knownNew := fun w p h => Or.inl ((hk w p).mp h), created := (fun p h => by rw [hc1] at h; cases h),
    evs := evs, sent := sent, delivered := delivered, notDeliver := notDeliver, spawned := spawned, notified := notified }

theorem notifiedOf_snoc (c' caller newPid : Pid) (was : Bool) (l : List (Pid × Pid × Bool)) :
    notifiedOf c' (l ++ [(caller, newPid, was)]) =
      notifiedOf c' l ++ (match cmdNotify c' (.notifySpawn caller newPid) with | some p => [p] | none => []) := by
  simp only [notifiedOf, List.filterMap_append, cmdNotify, List.filterMap_cons, List.filterMap_nil]
  by_cases h : caller = c' <;> simp [h]

theorem cmdEff_handle {s : Sys} (h : RInv s) {R : Rules} (hR : R.Tame) {i : Wid} {c : Cmd} {rest : List Cmd}
    (hq : s.cmdQ i = c :: rest) :
    CmdEff s (handleCmdWith R { s with cmdQ := upd s.cmdQ i rest } i c) i c rest := by
  obtain ⟨h1, hc⟩ := h.popCmd hq
  have r' := h1.handleCmd R hR i hc
  generalize hs1 : ({ s with cmdQ := upd s.cmdQ i rest } : Sys) = s1 at r' h1
  have e_env : s1.env = s.env := by subst hs1; rfl
  have e_wk : s1.wk = s.wk := by subst hs1; rfl
  have e_cmdQ : s1.cmdQ = upd s.cmdQ i rest := by subst hs1; rfl
  have e_evtQ : s1.evtQ = s.evtQ := by subst hs1; rfl
  have e_sent : s1.sent = s.sent := by subst hs1; rfl
  have e_app : s1.appended = s.appended := by subst hs1; rfl
  have e_drop : s1.dropped = s.dropped := by subst hs1; rfl
  have e_spawned : s1.spawned = s.spawned := by subst hs1; rfl
  have e_notif : s1.spawnNotified = s.spawnNotified := by subst hs1; rfl
  have e_known : ∀ w p, known s1 w p ↔ known s w p := by intro w p; unfold known; rw [e_wk]
  have hsame : ∀ {w' : WorkerSt}, SameProcs (s1.wk i) w' → ∀ w p, known (s1.setWk i w') w p ↔ known s w p :=
    fun hs w p => (known_setWk_same hs.dom w p).trans (e_known w p)
  have hevs0 : ∃ evs, s1.evtQ = upd s.evtQ i (s.evtQ i ++ evs) ∧ evtMsgs evs = [] := e_evtQ ▸ evs_nil s i
  cases c with
  | misc =>
    exact CmdEff.simple r' e_env e_cmdQ e_known hevs0 e_sent e_app e_drop e_spawned e_notif rfl rfl (fun _ => rfl)
  | start p => exact hc.elim
  | resume p fn => exact hc.elim
  | spawn p fn regs =>
    obtain ⟨hp, hfn, hregs⟩ := hc
    have hlen : ¬ fn ≥ s1.prog.length := by subst hs1; exact Nat.not_le.mpr hfn
    simp only [handleCmdWith, if_neg hlen] at r' ⊢
    generalize hs' : s1.setWk i { ((s1.wk i).setProc p (Proc.fresh fn (p :: regs))) with queue := (s1.wk i).queue ++ [p] } = s' at r' ⊢
    have hk : ∀ w q, known s' w q ↔ known s w q ∨ (w = i ∧ q = p) := by
      intro w q
      subst hs'
      unfold known
      simp only [setWk_wk, upd_apply, WorkerSt.setProc]
      by_cases hw : w = i
      · subst hw
        simp only [if_true, e_wk]
        by_cases hqp : q = p
        · subst hqp; simp
        · simp [hqp]
      · simp [hw, e_wk]
    have e2 : s'.env = s.env ∧ s'.cmdQ = upd s.cmdQ i rest ∧ s'.evtQ = s.evtQ ∧ s'.sent = s.sent ∧ s'.appended = s.appended ∧
        s'.dropped = s.dropped ∧ s'.spawned = s.spawned ∧ s'.spawnNotified = s.spawnNotified := by
      subst hs'; exact ⟨e_env, e_cmdQ, e_evtQ, e_sent, e_app, e_drop, e_spawned, e_notif⟩
    obtain ⟨f1, f2, f3, f4, f5, f6, f7, f8⟩ := e2
    exact { r' := r', env := f1, cmdQ := f2, knownMono := fun w q hq' => (hk w q).mpr (Or.inl hq'),
            knownNew := fun w q hq' => (hk w q).mp hq' |>.elim Or.inl (fun h3 => Or.inr ⟨h3.1, by simp [cmdCreate, h3.2]⟩),
            created := fun q hq' => (hk i q).mpr (Or.inr ⟨rfl, by simp only [cmdCreate, Option.some.injEq] at hq'; exact hq'.symm⟩),
            evs := f3 ▸ evs_nil s i, sent := f4,
            delivered := (fun t m heq => by cases heq), notDeliver := (fun _ => ⟨f5, f6⟩), spawned := f7,
            notified := (fun c' => by rw [f8]; simp [cmdNotify]) }
  | notifySpawn caller newPid =>
    cases hx : (s1.wk i).procs caller with
    | none =>
      simp only [handleCmdWith, hx] at r' ⊢
      have hs := hsame (SameProcs.of_eq (w' := { s1.wk i with spawning := serase (s1.wk i).spawning caller }) rfl rfl)
      exact CmdEff.sameKnown r' e_env e_cmdQ hs hevs0 e_sent e_spawned rfl (fun t m heq => by cases heq)
        (fun _ => ⟨e_app, e_drop⟩) (fun c' => by
          show notifiedOf c' (s1.spawnNotified ++ [(caller, newPid, false)]) = _
          rw [e_notif, notifiedOf_snoc])
    | some x =>
      simp only [handleCmdWith, hx] at r' ⊢
      have hdom : ∀ (w3 : WorkerSt), w3.procs = upd (s1.wk i).procs caller (some { x with regs := x.regs ++ [newPid], pc := x.pc + 1, spawnIssued := false }) →
          ∀ p, (w3.procs p).isSome = ((s1.wk i).procs p).isSome := by
        intro w3 h3 p; rw [h3]; simp only [upd_apply]; split
        · rename_i e; subst e; simp [hx]
        · rfl
      generalize hw3 : (if decide (caller ∈ (s1.wk i).spawning) = true then _ else _ : WorkerSt) = w3 at r' ⊢
      have h3 : w3.procs = upd (s1.wk i).procs caller (some { x with regs := x.regs ++ [newPid], pc := x.pc + 1, spawnIssued := false }) := by
        subst hw3; split <;> rfl
      have hs : ∀ w p, known (s1.setWk i w3) w p ↔ known s w p :=
        fun w p => (known_setWk_same (hdom w3 h3) w p).trans (e_known w p)
      exact CmdEff.sameKnown r' e_env e_cmdQ hs hevs0 e_sent e_spawned rfl (fun t m heq => by cases heq)
        (fun _ => ⟨e_app, e_drop⟩) (fun c' => by
          show notifiedOf c' (s1.spawnNotified ++ [(caller, newPid, _)]) = _
          rw [e_notif, notifiedOf_snoc])
  | deliver t m =>
    cases hx : (s1.wk i).procs t with
    | none =>
      simp only [handleCmdWith, hx] at r' ⊢
      have hs := hsame (SameProcs.wakeSelecting (s1.wk i) t)
      refine CmdEff.sameKnown r' e_env e_cmdQ hs hevs0 e_sent e_spawned rfl ?_ (fun hn => by simp [cmdMsg] at hn)
        (fun c' => by show notifiedOf c' s1.spawnNotified = _; rw [e_notif]; simp [cmdNotify])
      intro t' m' heq hk
      cases heq
      unfold known at hk; rw [← e_wk, hx] at hk; simp at hk
    | some x =>
      by_cases hd : (Cfg.releaseDead && !x.deliverable) = true
      · -- variant `releaseDead`: handled, not put into the mailbox
        simp only [handleCmdWith, hx, hd, if_true] at r' ⊢
        have hs := hsame (SameProcs.wakeSelecting (s1.wk i) t)
        refine CmdEff.sameKnown r' e_env e_cmdQ hs hevs0 e_sent e_spawned rfl ?_ (fun hn => by simp [cmdMsg] at hn)
          (fun c' => by show notifiedOf c' s1.spawnNotified = _; rw [e_notif]; simp [cmdNotify])
        intro t' m' heq _
        cases heq
        exact ⟨by show s1.appended ++ [(t, m)] = _; rw [e_app], e_drop⟩
      · simp only [handleCmdWith, hx, hd, if_false] at r' ⊢
        have hs := hsame ((SameProcs.updProc (x' := { x with mailbox := x.mailbox ++ [m] }) hx rfl
            (w' := { s1.wk i with procs := upd (s1.wk i).procs t (some { x with mailbox := x.mailbox ++ [m] }) }) rfl rfl).trans
            (SameProcs.wakeSelecting _ t))
        refine CmdEff.sameKnown r' e_env e_cmdQ hs hevs0 e_sent e_spawned rfl ?_ (fun hn => by simp [cmdMsg] at hn)
          (fun c' => by show notifiedOf c' s1.spawnNotified = _; rw [e_notif]; simp [cmdNotify])
        intro t' m' heq _
        cases heq
        exact ⟨by show s1.appended ++ [(t, m)] = _; rw [e_app], e_drop⟩
  | queryAwait a ts =>
    simp only [handleCmdWith] at r' ⊢
    have hq2 := queryTargets_spec a ts (s1.wk i)
    generalize queryTargets (s1.wk i) a ts = q at hq2 r' ⊢
    have hs : ∀ w p, known (s1.setWk i q.1) w p ↔ known s w p :=
      fun w p => (known_setWk_same (fun p => by rw [hq2.1]) w p).trans (e_known w p)
    exact CmdEff.simple r' e_env e_cmdQ hs ⟨[.procResults a q.2], by show upd s1.evtQ i (s1.evtQ i ++ _) = _; rw [e_evtQ], rfl⟩
      e_sent e_app e_drop e_spawned e_notif rfl rfl (fun _ => rfl)
  | updateAwait a rs =>
    simp only [handleCmdWith] at r' ⊢
    split at r'
    · rename_i hany
      simp only [hany, if_true]
      exact CmdEff.simple r' e_env e_cmdQ (hsame (SameProcs.applyResults a rs _)) hevs0 e_sent e_app e_drop e_spawned e_notif
        rfl rfl (fun _ => rfl)
    · rename_i hany
      simp only [hany]
      exact CmdEff.simple r' e_env e_cmdQ (hsame ((SameProcs.applyResults a rs _).trans (hR _ a))) hevs0 e_sent e_app e_drop e_spawned e_notif
        rfl rfl (fun _ => rfl)
  | getResult req p =>
    cases hx : (s1.wk i).procs p with
    | none =>
      have hc' : ((s.wk i).procs p).isSome = true := hc
      rw [← e_wk, hx] at hc'; simp at hc'
    | some x =>
      cases hres : x.result with
      | some r =>
        simp only [handleCmdWith, hx, hres] at r' ⊢
        exact CmdEff.simple r' e_env e_cmdQ e_known ⟨[.resultResp req r], by show upd s1.evtQ i (s1.evtQ i ++ _) = _; rw [e_evtQ], rfl⟩
          e_sent e_app e_drop e_spawned e_notif rfl rfl (fun _ => rfl)
      | none =>
        simp only [handleCmdWith, hx, hres] at r' ⊢
        exact CmdEff.simple r' e_env e_cmdQ (hsame (SameProcs.of_eq rfl rfl)) hevs0 e_sent e_app e_drop e_spawned e_notif
          rfl rfl (fun _ => rfl)

theorem DInv.cmdStep1 {s : Sys} (h : DInv s) {R : Rules} (hR : R.Tame) (i : Wid) : DInv (cmdStep1With R s i) := by
  unfold cmdStep1With
  split
  · exact h
  · rename_i c rest hq
    exact h.cmdEff hq (cmdEff_handle h.r hR hq)

/-! ### environment step -/

theorem DInv.popEvtOther {s : Sys} (h : DInv s) {w : Wid} {e : Evt} {rest : List Evt} (hq : s.evtQ w = e :: rest)
    (he : evtMsg e = none) : DInv { s with evtQ := upd s.evtQ w rest } := by
  refine { r := (h.r.popEvt hq).1, qok := h.qok, placedOrPending := h.placedOrPending, nodrop := h.nodrop,
           conserve := ?_, spawnReply := h.spawnReply }
  intro a b
  show sel a b s.appended ++ selC a b (s.cmdQ (home s b)) ++ selE a b (upd s.evtQ w rest (home s a)) = sel a b s.sent
  rw [← h.conserve a b]
  congr 1
  by_cases ha : home s a = w
  · rw [ha]; simp only [upd_same]; rw [hq, selE_cons, he]; rfl
  · simp only [upd_other _ _ _ _ ha]

theorem DInv.pushCmdOther {s : Sys} (h : DInv s) (w : Wid) (c : Cmd)
    (hc : CmdOK s.env.router s.prog.length (known s w) w c)
    (h1 : cmdMsg c = none) (h2 : cmdCreate c = none) (h3 : ∀ c', cmdNotify c' c = none) : DInv (s.pushCmd w c) := by
  refine { r := h.r.pushCmd w c hc, qok := ?_, placedOrPending := ?_, nodrop := h.nodrop, conserve := ?_, spawnReply := ?_ }
  · intro w'
    show QOK (known s w') (upd s.cmdQ w (s.cmdQ w ++ [c]) w')
    by_cases hw : w' = w
    · subst hw; simp only [upd_same]
      apply QOK.append (h.qok w')
      cases c <;> simp_all [endOK, cmdMsg]
    · simp only [upd_other _ _ _ _ hw]; exact h.qok w'
  · intro p w' hp
    rcases h.placedOrPending p w' hp with h4 | h4
    · exact Or.inl h4
    · right
      show p ∈ creates (upd s.cmdQ w (s.cmdQ w ++ [c]) w')
      by_cases hw : w' = w
      · subst hw; simp only [upd_same]; rw [creates_append]; simp [h4]
      · simp only [upd_other _ _ _ _ hw]; exact h4
  · intro a b
    show sel a b s.appended ++ selC a b (upd s.cmdQ w (s.cmdQ w ++ [c]) (home s b)) ++ selE a b (s.evtQ (home s a)) = sel a b s.sent
    rw [← h.conserve a b]
    congr 2
    by_cases hb : home s b = w
    · rw [hb]; simp only [upd_same]; rw [selC_append, h1]; simp
    · simp only [upd_other _ _ _ _ hb]
  · intro c'
    show notifiedOf c' s.spawnNotified ++ notifyC c' (upd s.cmdQ w (s.cmdQ w ++ [c]) (home s c')) = spawnedOf c' s.spawned
    rw [← h.spawnReply c']
    congr 1
    by_cases hb : home s c' = w
    · rw [hb]; simp only [upd_same]; rw [notifyC_append, h3]; simp
    · simp only [upd_other _ _ _ _ hb]

/-- changing only `pending` / `results` of the environment -/
theorem DInv.envOther {s : Sys} (h : DInv s) (pending : Pid → Option PendingAwait) (results : List (Nat × Res)) :
    DInv { s with env := { s.env with pending := pending, results := results } } :=
  { r := { h.r with }, qok := h.qok, placedOrPending := h.placedOrPending, nodrop := h.nodrop,
    conserve := h.conserve, spawnReply := h.spawnReply }

theorem DInv.foldPushOther {α : Type} (f : α → Wid) (g : α → Cmd)
    (h1 : ∀ a, cmdMsg (g a) = none) (h2 : ∀ a, cmdCreate (g a) = none) (h3 : ∀ a c', cmdNotify c' (g a) = none) :
    ∀ (l : List α) (s : Sys), DInv s →
      (∀ a ∈ l, ∀ s' : Sys, s'.env = s.env → s'.prog = s.prog → CmdOK s.env.router s.prog.length (known s' (f a)) (f a) (g a)) →
      DInv (l.foldl (fun acc a => acc.pushCmd (f a) (g a)) s)
  | [], s, h, _ => h
  | a :: l, s, h, hl => by
    simp only [List.foldl_cons]
    refine DInv.foldPushOther f g h1 h2 h3 l _ (h.pushCmdOther _ _ (hl a (by simp) s rfl rfl) (h1 a) (h2 a) (h3 a)) ?_
    intro b hb s' he hp
    simpa using hl b (by simp [hb]) s' (by simpa using he) (by simpa using hp)

theorem DInv.handleAwait {s : Sys} (h : DInv s) {w0 : Wid} {a : Pid} {ts : List Pid}
    (he : EvtOK s.env.router s.prog.length w0 (.await a ts)) : DInv (handleAwait s a ts) := by
  obtain ⟨ha, hts⟩ := he
  unfold QM.Sys.handleAwait
  split
  · rename_i hany
    simp only [List.any_eq_true] at hany
    obtain ⟨t, ht, hn⟩ := hany
    have := hts t ht
    unfold Routed at this
    simp_all
  · have h1 := h.envOther (upd s.env.pending a (some { expected := targetWorkers s.env.router ts, responses := [] })) s.env.results
    refine DInv.foldPushOther (fun w => w) (fun w => Cmd.queryAwait a (ts.filter (fun t => s.env.router t = some w)))
      (fun _ => rfl) (fun _ => rfl) (fun _ _ => rfl) _ _ h1 ?_
    intro w _ s' _ _
    refine ⟨by simp [Routed, ha], ?_⟩
    intro t ht
    simp only [List.mem_filter, decide_eq_true_eq] at ht
    exact ht.2

theorem DInv.handleProcResults {s : Sys} (h : DInv s) (combine) {w0 : Wid} {a : Pid} {rs : Results}
    (he : EvtOK s.env.router s.prog.length w0 (.procResults a rs)) : DInv (handleProcResultsWith combine s a rs) := by
  obtain ⟨ha, _⟩ := he
  unfold Routed at ha
  unfold QM.Sys.handleProcResultsWith
  match hr : s.env.router a with
  | none => simp [hr] at ha
  | some aw =>
    dsimp only
    split
    · split
      · exact h
      · split
        · have h1 := h.envOther (upd s.env.pending a none) s.env.results
          simp only [hr]
          exact h1.pushCmdOther aw _ hr rfl rfl (fun _ => rfl)
        · exact h.envOther _ s.env.results
    · exact h.pushCmdOther aw _ hr rfl rfl (fun _ => rfl)

theorem DInv.handleDeliver {s : Sys} (h : DInv s) {w : Wid} {t : Pid} {m : Msg} {rest : List Evt}
    (hq : s.evtQ w = .deliver t m :: rest) : DInv (handleDeliver { s with evtQ := upd s.evtQ w rest } t m) := by
  obtain ⟨r1, hsrc, ht⟩ := h.r.popEvt hq
  unfold Routed at ht
  unfold QM.Sys.handleDeliver
  match hr : s.env.router t with
  | none => simp [hr] at ht
  | some wt =>
    have hr' : ({ s with evtQ := upd s.evtQ w rest } : Sys).env.router t = some wt := hr
    simp only [hr']
    have hcok : CmdOK s.env.router s.prog.length (known s wt) wt (.deliver t m) := hr
    refine { r := r1.pushCmd wt _ hcok, qok := ?_, placedOrPending := ?_, nodrop := h.nodrop, conserve := ?_, spawnReply := ?_ }
    · intro w'
      show QOK (known s w') (upd s.cmdQ wt (s.cmdQ wt ++ [.deliver t m]) w')
      by_cases hw : w' = wt
      · subst hw; simp only [upd_same]
        exact QOK.append (h.qok w') (h.placedOrPending t w' hr)
      · simp only [upd_other _ _ _ _ hw]; exact h.qok w'
    · intro p w' hp
      rcases h.placedOrPending p w' hp with h4 | h4
      · exact Or.inl h4
      · right
        show p ∈ creates (upd s.cmdQ wt (s.cmdQ wt ++ [.deliver t m]) w')
        by_cases hw : w' = wt
        · subst hw; simp only [upd_same]; rw [creates_append]; simp [h4]
        · simp only [upd_other _ _ _ _ hw]; exact h4
    · intro a b
      show sel a b s.appended ++ selC a b (upd s.cmdQ wt (s.cmdQ wt ++ [.deliver t m]) (home s b)) ++
        selE a b (upd s.evtQ w rest (home s a)) = sel a b s.sent
      rw [← h.conserve a b]
      by_cases hab : t = b ∧ m.src = a
      · obtain ⟨rfl, rfl⟩ := hab
        rw [home_eq hr, home_eq hsrc]
        simp only [upd_same]
        rw [selC_append, hq, selE_cons]
        simp [cmdMsg, evtMsg, sel_single]
      · have hC : selC a b (upd s.cmdQ wt (s.cmdQ wt ++ [.deliver t m]) (home s b)) = selC a b (s.cmdQ (home s b)) := by
          by_cases hb : home s b = wt
          · rw [hb]; simp only [upd_same]; rw [selC_append]; simp [cmdMsg, sel_single, hab]
          · simp only [upd_other _ _ _ _ hb]
        have hE : selE a b (upd s.evtQ w rest (home s a)) = selE a b (s.evtQ (home s a)) := by
          by_cases ha : home s a = w
          · rw [ha]; simp only [upd_same]; rw [hq, selE_cons]; simp [evtMsg, sel_single, hab]
          · simp only [upd_other _ _ _ _ ha]
        rw [hC, hE]
    · intro c'
      show notifiedOf c' s.spawnNotified ++ notifyC c' (upd s.cmdQ wt (s.cmdQ wt ++ [.deliver t m]) (home s c')) = spawnedOf c' s.spawned
      rw [← h.spawnReply c']
      congr 1
      by_cases hb : home s c' = wt
      · rw [hb]; simp only [upd_same]; rw [notifyC_append]; simp [cmdNotify]
      · simp only [upd_other _ _ _ _ hb]

theorem handleSpawn_eq {s : Sys} {caller : Pid} {fn : Nat} {regs : List Pid} {coloc : Option Pid} {cw : Wid}
    (hc : s.env.router caller = some cw) (hne : caller ≠ s.env.nextPid) :
    handleSpawn s caller fn regs coloc =
      { s with env := { s.env with nextPid := s.env.nextPid + 1,
                                   router := upd s.env.router s.env.nextPid (some (placement s coloc s.env.nextPid)) },
               cmdQ := upd (upd s.cmdQ (placement s coloc s.env.nextPid)
                              (s.cmdQ (placement s coloc s.env.nextPid) ++ [.spawn s.env.nextPid fn regs])) cw
                          (upd s.cmdQ (placement s coloc s.env.nextPid)
                              (s.cmdQ (placement s coloc s.env.nextPid) ++ [.spawn s.env.nextPid fn regs]) cw ++
                            [.notifySpawn caller s.env.nextPid]),
               spawned := s.spawned ++ [(caller, s.env.nextPid)] } := by
  simp only [handleSpawn, Sys.pushCmd, upd_other _ _ _ _ hne, hc]

theorem DInv.handleSpawn {s : Sys} (h : DInv s) {w0 : Wid} {caller : Pid} {fn : Nat} {regs : List Pid} {coloc : Option Pid}
    (he : EvtOK s.env.router s.prog.length w0 (.spawn caller fn regs coloc)) :
    DInv (handleSpawn s caller fn regs coloc) := by
  have r' := h.r.handleSpawn he
  obtain ⟨hc, hfn, hregs⟩ := he
  have hne : caller ≠ s.env.nextPid := Nat.ne_of_lt (h.r.below caller w0 hc)
  have hfresh : s.env.router s.env.nextPid = none := by
    cases hr : s.env.router s.env.nextPid with
    | none => rfl
    | some w => exact absurd (h.r.below _ w hr) (Nat.lt_irrefl _)
  rw [handleSpawn_eq hc hne] at r' ⊢
  generalize placement s coloc s.env.nextPid = w at r' ⊢
  generalize hnp : s.env.nextPid = np at *
  -- the new command queues
  have hC : ∀ a b w', selC a b (upd (upd s.cmdQ w (s.cmdQ w ++ [.spawn np fn regs])) w0
      (upd s.cmdQ w (s.cmdQ w ++ [.spawn np fn regs]) w0 ++ [.notifySpawn caller np]) w') = selC a b (s.cmdQ w') := by
    intro a b w'
    have h1 : ∀ w'', selC a b (upd s.cmdQ w (s.cmdQ w ++ [.spawn np fn regs]) w'') = selC a b (s.cmdQ w'') := by
      intro w''
      by_cases e : w'' = w
      · subst e; simp only [upd_same]; rw [selC_append]; simp [cmdMsg]
      · simp only [upd_other _ _ _ _ e]
    by_cases e : w' = w0
    · subst e; simp only [upd_same]; rw [selC_append, h1]; simp [cmdMsg]
    · simp only [upd_other _ _ _ _ e]; exact h1 w'
  have hN : ∀ c' w', notifyC c' (upd (upd s.cmdQ w (s.cmdQ w ++ [.spawn np fn regs])) w0
      (upd s.cmdQ w (s.cmdQ w ++ [.spawn np fn regs]) w0 ++ [.notifySpawn caller np]) w') =
      notifyC c' (s.cmdQ w') ++ (if w' = w0 ∧ caller = c' then [np] else []) := by
    intro c' w'
    have h1 : ∀ w'', notifyC c' (upd s.cmdQ w (s.cmdQ w ++ [.spawn np fn regs]) w'') = notifyC c' (s.cmdQ w'') := by
      intro w''
      by_cases e : w'' = w
      · subst e; simp only [upd_same]; rw [notifyC_append]; simp [cmdNotify]
      · simp only [upd_other _ _ _ _ e]
    by_cases e : w' = w0
    · subst e; simp only [upd_same]; rw [notifyC_append, h1]
      by_cases e2 : caller = c' <;> simp [cmdNotify, e2]
    · simp only [upd_other _ _ _ _ e]; rw [h1]; simp [e]
  have hK : ∀ p w', p ∈ creates (s.cmdQ w') ∨ (p = np ∧ w' = w) → p ∈ creates (upd (upd s.cmdQ w (s.cmdQ w ++ [.spawn np fn regs])) w0
      (upd s.cmdQ w (s.cmdQ w ++ [.spawn np fn regs]) w0 ++ [.notifySpawn caller np]) w') := by
    intro p w' hp
    have h1 : p ∈ creates (upd s.cmdQ w (s.cmdQ w ++ [.spawn np fn regs]) w') := by
      by_cases e : w' = w
      · subst e; simp only [upd_same]; rw [creates_append]
        rcases hp with hp | ⟨hp, _⟩
        · simp [hp]
        · simp [cmdCreate, hp]
      · simp only [upd_other _ _ _ _ e]
        rcases hp with hp | ⟨_, hp⟩
        · exact hp
        · exact absurd hp e
    by_cases e : w' = w0
    · subst e; simp only [upd_same]; rw [creates_append]; simp [h1]
    · simp only [upd_other _ _ _ _ e]; exact h1
  have hhome : ∀ x, x ≠ np → (upd s.env.router np (some w) x).getD 0 = home s x := by
    intro x hx; simp [home, upd_other _ _ _ _ hx]
  refine { r := r', qok := ?_, placedOrPending := ?_, nodrop := h.nodrop, conserve := ?_, spawnReply := ?_ }
  · intro w'
    show QOK (known s w') (upd (upd s.cmdQ w (s.cmdQ w ++ [.spawn np fn regs])) w0
      (upd s.cmdQ w (s.cmdQ w ++ [.spawn np fn regs]) w0 ++ [.notifySpawn caller np]) w')
    have h1 : ∀ w'', QOK (known s w'') (upd s.cmdQ w (s.cmdQ w ++ [.spawn np fn regs]) w'') := by
      intro w''
      by_cases e : w'' = w
      · subst e; simp only [upd_same]; exact QOK.append (h.qok w'') trivial
      · simp only [upd_other _ _ _ _ e]; exact h.qok w''
    by_cases e : w' = w0
    · subst e; simp only [upd_same]; exact QOK.append (h1 w') trivial
    · simp only [upd_other _ _ _ _ e]; exact h1 w'
  · intro p w' hp
    have hp' : upd s.env.router np (some w) p = some w' := hp
    by_cases e : p = np
    · subst e; simp only [upd_same, Option.some.injEq] at hp'
      exact Or.inr (hK p w' (Or.inr ⟨rfl, hp'.symm⟩))
    · simp only [upd_other _ _ _ _ e] at hp'
      rcases h.placedOrPending p w' hp' with h4 | h4
      · exact Or.inl h4
      · exact Or.inr (hK p w' (Or.inl h4))
  · intro a b
    show sel a b s.appended ++ selC a b (upd (upd s.cmdQ w (s.cmdQ w ++ [.spawn np fn regs])) w0
      (upd s.cmdQ w (s.cmdQ w ++ [.spawn np fn regs]) w0 ++ [.notifySpawn caller np]) ((upd s.env.router np (some w) b).getD 0)) ++
      selE a b (s.evtQ ((upd s.env.router np (some w) a).getD 0)) = sel a b s.sent
    rw [hC, ← h.conserve a b]
    have h1 : selC a b (s.cmdQ ((upd s.env.router np (some w) b).getD 0)) = selC a b (s.cmdQ (home s b)) := by
      by_cases e : b = np
      · subst e; rw [selC_unrouted h.r hfresh, selC_unrouted h.r hfresh]
      · rw [hhome b e]
    have h2 : selE a b (s.evtQ ((upd s.env.router np (some w) a).getD 0)) = selE a b (s.evtQ (home s a)) := by
      by_cases e : a = np
      · subst e; rw [selE_unrouted h.r hfresh, selE_unrouted h.r hfresh]
      · rw [hhome a e]
    rw [h1, h2]
  · intro c'
    show notifiedOf c' s.spawnNotified ++ notifyC c' (upd (upd s.cmdQ w (s.cmdQ w ++ [.spawn np fn regs])) w0
      (upd s.cmdQ w (s.cmdQ w ++ [.spawn np fn regs]) w0 ++ [.notifySpawn caller np]) ((upd s.env.router np (some w) c').getD 0)) =
      spawnedOf c' (s.spawned ++ [(caller, np)])
    rw [hN]
    have hsp : spawnedOf c' (s.spawned ++ [(caller, np)]) = spawnedOf c' s.spawned ++ (if caller = c' then [np] else []) := by
      simp only [spawnedOf, List.filterMap_append, List.filterMap_cons, List.filterMap_nil]
      by_cases e : caller = c' <;> simp [e]
    rw [hsp, ← h.spawnReply c']
    by_cases e : caller = c'
    · subst e
      rw [hhome caller hne, home_eq hc]; simp
    · simp only [e, and_false, if_false, List.append_nil]
      congr 1
      by_cases e2 : c' = np
      · subst e2; rw [notifyC_unrouted h.r hfresh, notifyC_unrouted h.r hfresh]
      · rw [hhome c' e2]

theorem DInv.envStep1 {s : Sys} (h : DInv s) (combine) (w : Wid) : DInv (envStep1With combine s w) := by
  unfold envStep1With
  split
  · exact h
  · rename_i e rest hq
    have he := (h.r.popEvt hq).2
    cases e with
    | spawn c fn regs coloc => exact (h.popEvtOther hq rfl).handleSpawn he
    | deliver t m => exact h.handleDeliver hq
    | await a ts => exact (h.popEvtOther hq rfl).handleAwait he
    | procResults a rs => exact (h.popEvtOther hq rfl).handleProcResults combine he
    | resultResp req r => exact (h.popEvtOther hq rfl).envOther _ _
    | exited p => exact h.popEvtOther hq rfl

theorem DInv.micro {R : Rules} (hR : R.Tame) {s : Sys} (h : DInv s) (m : Micro) : DInv (microStep R s m) := by
  cases m with
  | env w => exact h.envStep1 R.combine w
  | cmd i => exact h.cmdStep1 hR i
  | exec i fuel ordQ => exact h.execStep i fuel ordQ
  | check i ordE => exact h.checkStep i ordE
  | tick ms =>
    exact { r := { h.r with }, qok := h.qok, placedOrPending := h.placedOrPending, nodrop := h.nodrop,
            conserve := h.conserve, spawnReply := h.spawnReply }

/-! ### base case -/

/-- a queue without `deliver`, `spawn`, `notifySpawn` commands -/
def Inert (q : List Cmd) : Prop := ∀ c ∈ q, cmdMsg c = none ∧ cmdCreate c = none ∧ ∀ c', cmdNotify c' c = none

theorem Inert.facts {K : Pid → Prop} : ∀ {q : List Cmd}, Inert q →
    QOK K q ∧ (∀ a b, selC a b q = []) ∧ (∀ c', notifyC c' q = []) ∧ creates q = []
  | [], _ => ⟨trivial, fun _ _ => rfl, fun _ => rfl, rfl⟩
  | c :: q, h => by
    have ih := Inert.facts (K := K) (q := q) (fun c' hc' => h c' (List.mem_cons_of_mem _ hc'))
    obtain ⟨h1, h2, h3⟩ := h c (by simp)
    refine ⟨?_, fun a b => by rw [selC_cons, ih.2.1, h1]; rfl, fun c' => by rw [notifyC_cons, ih.2.2.1, h3]; rfl,
             by rw [creates_cons, ih.2.2.2, h2]; rfl⟩
    cases c with
    | spawn _ _ _ => simp [cmdCreate] at h2
    | deliver _ _ => simp [cmdMsg] at h1
    | misc => exact ih.1
    | start _ => exact ih.1
    | resume _ _ => exact ih.1
    | notifySpawn _ _ => exact ih.1
    | queryAwait _ _ => exact ih.1
    | updateAwait _ _ => exact ih.1
    | getResult _ _ => exact ih.1

theorem inert_misc : Cmd.misc ∈ [Cmd.misc] → True := fun _ => trivial

theorem Started.inert {s : Sys} (h : Started s) (w : Wid) : Inert (s.cmdQ w) := by
  intro c hc
  by_cases ew : w = 0
  · subst ew
    obtain ⟨req, hq⟩ := h.cmd0
    rw [hq] at hc; simp at hc
    subst hc; exact ⟨rfl, rfl, fun _ => rfl⟩
  · rw [h.cmdOther w ew c hc]; exact ⟨rfl, rfl, fun _ => rfl⟩

theorem PreStart.inert {s : Sys} (h : PreStart s) (w : Wid) : Inert (s.cmdQ w) := by
  intro c hc
  by_cases ew : w = 0
  · subst ew
    obtain ⟨k, req, hq⟩ := h.cmd0
    rw [hq] at hc
    simp only [List.mem_append, List.mem_replicate, List.mem_cons, List.not_mem_nil, or_false] at hc
    rcases hc with ⟨_, rfl⟩ | rfl | rfl <;> exact ⟨rfl, rfl, fun _ => rfl⟩
  · rw [h.cmdOther w ew c hc]; exact ⟨rfl, rfl, fun _ => rfl⟩

theorem DInv.of_started {s : Sys} (h : Started s) : DInv s := by
  have hr := RInv.of_started h
  refine { r := hr, qok := fun w => (Inert.facts (h.inert w)).1, placedOrPending := ?_, nodrop := h.dropped,
           conserve := ?_, spawnReply := ?_ }
  · intro p w hp
    left
    rw [h.router] at hp; simp only [upd_apply] at hp
    split at hp
    · rename_i e; subst e; simp at hp; subst hp
      unfold known; rw [h.procs]; simp
    · simp at hp
  · intro a b
    rw [h.appended, h.sent, (Inert.facts (K := fun _ => True) (h.inert _)).2.1, h.evtQ]; rfl
  · intro c
    rw [h.spawnNotified, h.spawned, (Inert.facts (K := fun _ => True) (h.inert _)).2.2.1]; rfl

end QM.Sys
