import QuiverModel.Lemmas.Sys.Delivery
/-
Scheduling-set invariant of the executor model: `queue`, `spawning`, `selecting` are duplicate-free
and pairwise disjoint ("re-queue only if parked"), and every process in one of them exists and is
unfinished.
-/
namespace QM.Sys
set_option linter.unusedSectionVars false
variable [Cfg]

structure WSched (w : WorkerSt) : Prop where
  qnd : w.queue.Nodup
  spnd : w.spawning.Nodup
  send : w.selecting.Nodup
  dqs : ∀ p ∈ w.queue, p ∉ w.spawning ∧ p ∉ w.selecting
  dss : ∀ p ∈ w.spawning, p ∉ w.selecting
  live : ∀ p, p ∈ w.queue ∨ p ∈ w.spawning ∨ p ∈ w.selecting → ∃ x, w.procs p = some x ∧ x.result = none

def WorkerSt.scheduled (w : WorkerSt) (p : Pid) : Prop := p ∈ w.queue ∨ p ∈ w.spawning ∨ p ∈ w.selecting

theorem nodup_snoc {l : List Nat} {x : Nat} (h : l.Nodup) (hx : x ∉ l) : (l ++ [x]).Nodup := by
  rw [List.nodup_append]
  refine ⟨h, by simp, ?_⟩
  intro a ha b hb
  simp at hb; subst hb
  intro e; subst e; exact hx ha

/-- same scheduling sets; unfinished processes stay unfinished -/
theorem WSched.congr {w w' : WorkerSt} (h : WSched w) (hq : w'.queue = w.queue) (hsp : w'.spawning = w.spawning)
    (hse : w'.selecting = w.selecting)
    (hl : ∀ p x, w.scheduled p → w.procs p = some x → x.result = none → ∃ x', w'.procs p = some x' ∧ x'.result = none) :
    WSched w' := by
  refine { qnd := hq ▸ h.qnd, spnd := hsp ▸ h.spnd, send := hse ▸ h.send, dqs := ?_, dss := ?_, live := ?_ }
  · rw [hq, hsp, hse]; exact h.dqs
  · rw [hsp, hse]; exact h.dss
  · intro p hp
    rw [hq, hsp, hse] at hp
    obtain ⟨x, hx, hr⟩ := h.live p hp
    exact hl p x hp hx hr

theorem WSched.modProc {w : WorkerSt} (h : WSched w) (p : Pid) (f : Proc → Proc) (hf : ∀ x, (f x).result = x.result) :
    WSched (w.modProc p f) := by
  unfold WorkerSt.modProc
  split
  · rename_i x hx
    refine h.congr rfl rfl rfl ?_
    intro q y _ hy hr
    simp only [upd_apply]
    split
    · rename_i e; subst e; rw [hx] at hy; cases hy; exact ⟨f x, rfl, (hf x).trans hr⟩
    · exact ⟨y, hy, hr⟩
  · exact h

theorem WSched.wakeSelecting {w : WorkerSt} (h : WSched w) (p : Pid) : WSched (w.wakeSelecting p) := by
  unfold WorkerSt.wakeSelecting
  split
  · rename_i hp
    refine { qnd := nodup_snoc h.qnd (fun hq => (h.dqs p hq).2 hp), spnd := h.spnd, send := nodup_serase h.send,
             dqs := ?_, dss := ?_, live := ?_ }
    · intro q hq
      simp only [List.mem_append, List.mem_singleton] at hq
      simp only [mem_serase]
      rcases hq with hq | rfl
      · exact ⟨(h.dqs q hq).1, fun h2 => (h.dqs q hq).2 h2.1⟩
      · exact ⟨fun h2 => h.dss q h2 hp, fun h2 => h2.2 rfl⟩
    · intro q hq; simp only [mem_serase]; exact fun h2 => h.dss q hq h2.1
    · intro q hq
      simp only [List.mem_append, List.mem_singleton, mem_serase] at hq
      apply h.live
      rcases hq with (hq | rfl) | hq | hq
      · exact Or.inl hq
      · exact Or.inr (Or.inr hp)
      · exact Or.inr (Or.inl hq)
      · exact Or.inr (Or.inr hq.1)
  · exact h

theorem WSched.markActive {w : WorkerSt} (h : WSched w) (p : Pid) : WSched (w.markActive p) := by
  unfold WorkerSt.markActive
  split
  · rename_i hp
    have hnq : p ∉ w.queue := by
      intro hq; rcases hp with hp | hp
      · exact (h.dqs p hq).1 hp
      · exact (h.dqs p hq).2 hp
    refine { qnd := nodup_snoc h.qnd hnq, spnd := nodup_serase h.spnd, send := nodup_serase h.send,
             dqs := ?_, dss := ?_, live := ?_ }
    · intro q hq
      simp only [List.mem_append, List.mem_singleton] at hq
      simp only [mem_serase]
      rcases hq with hq | rfl
      · exact ⟨fun h2 => (h.dqs q hq).1 h2.1, fun h2 => (h.dqs q hq).2 h2.1⟩
      · exact ⟨fun h2 => h2.2 rfl, fun h2 => h2.2 rfl⟩
    · intro q hq; simp only [mem_serase] at hq ⊢; exact fun h2 => h.dss q hq.1 h2.1
    · intro q hq
      simp only [List.mem_append, List.mem_singleton, mem_serase] at hq
      apply h.live
      rcases hq with (hq | rfl) | hq | hq
      · exact Or.inl hq
      · rcases hp with hp | hp
        · exact Or.inr (Or.inl hp)
        · exact Or.inr (Or.inr hp)
      · exact Or.inr (Or.inl hq.1)
      · exact Or.inr (Or.inr hq.1)
  · exact h

theorem WSched.notifyResultOk {w : WorkerSt} (h : WSched w) (a t : Pid) (v : Val) : WSched (w.notifyResultOk a t v) := by
  unfold WorkerSt.notifyResultOk
  apply WSched.wakeSelecting
  apply h.modProc
  intro x; split <;> rfl

theorem WSched.notifyFailure {w : WorkerSt} (h : WSched w) (a t : Pid) : WSched (w.notifyFailure a t) := by
  unfold WorkerSt.notifyFailure
  split
  · split
    · apply WSched.wakeSelecting
      apply h.modProc
      intro x; rfl
    · exact h
  · exact h

theorem WSched.notifyPending {w : WorkerSt} (h : WSched w) (a t : Pid) : WSched (w.notifyPending a t) := by
  unfold WorkerSt.notifyPending
  apply h.modProc
  intro x; rfl

theorem WSched.notifyResult {w : WorkerSt} (h : WSched w) (a t : Pid) (r : Res) : WSched (w.notifyResult a t r) := by
  cases r with
  | ok v => exact h.notifyResultOk a t v
  | err => exact h.notifyFailure a t

theorem WSched.applyResults (a : Pid) : ∀ (rs : Results) {w : WorkerSt}, WSched w → WSched (applyResults w a rs)
  | [], _, h => h
  | (t, some r) :: rest, _, h => by
    unfold QM.Sys.applyResults
    exact WSched.applyResults a rest (h.notifyResult a t r)
  | (t, none) :: rest, _, h => by
    unfold QM.Sys.applyResults
    exact WSched.applyResults a rest (h.notifyPending a t)

theorem WSched.checkExpired {w : WorkerSt} (h : WSched w) (prog : Prog) (now : Nat) (ordQ : List Pid) :
    WSched (w.checkExpired prog now ordQ) := by
  unfold WorkerSt.checkExpired
  dsimp only
  have hex : ∀ p, p ∈ orderBy ordQ (w.expired prog now) → p ∈ w.selecting := by
    intro p hp
    rw [mem_orderBy] at hp
    unfold WorkerSt.expired at hp
    exact (List.mem_filter.mp hp).1
  have hnd : (orderBy ordQ (w.expired prog now)).Nodup := by
    apply nodup_orderBy
    unfold WorkerSt.expired
    exact h.send.filter _
  generalize orderBy ordQ (w.expired prog now) = ex at hex hnd
  refine { qnd := ?_, spnd := h.spnd, send := h.send.filter _, dqs := ?_, dss := ?_, live := ?_ }
  · rw [List.nodup_append]
    refine ⟨h.qnd, hnd, ?_⟩
    intro a ha b hb e; subst e
    exact (h.dqs a ha).2 (hex a hb)
  · intro p hp
    simp only [List.mem_append] at hp
    simp only [List.mem_filter, decide_eq_true_eq]
    rcases hp with hp | hp
    · exact ⟨(h.dqs p hp).1, fun h2 => (h.dqs p hp).2 h2.1⟩
    · exact ⟨fun h2 => h.dss p h2 (hex p hp), fun h2 => h2.2 hp⟩
  · intro p hp
    simp only [List.mem_filter, decide_eq_true_eq]
    exact fun h2 => h.dss p hp h2.1
  · intro p hp
    simp only [List.mem_append, List.mem_filter, decide_eq_true_eq] at hp
    apply h.live
    rcases hp with (hp | hp) | hp | hp
    · exact Or.inl hp
    · exact Or.inr (Or.inr (hex p hp))
    · exact Or.inr (Or.inl hp)
    · exact Or.inr (Or.inr hp.1)

/-- popping the front of the queue -/
theorem WSched.pop {w : WorkerSt} (h : WSched w) {cur : Pid} {rest : List Pid} (hq : w.queue = cur :: rest) :
    WSched { w with queue := rest } ∧ cur ∉ rest ∧ cur ∉ w.spawning ∧ cur ∉ w.selecting ∧
      ∃ x, w.procs cur = some x ∧ x.result = none := by
  have hnd := h.qnd
  rw [hq] at hnd
  have hc : cur ∈ w.queue := by rw [hq]; simp
  refine ⟨{ qnd := (List.nodup_cons.mp hnd).2, spnd := h.spnd, send := h.send, dqs := ?_, dss := h.dss, live := ?_ },
          (List.nodup_cons.mp hnd).1, (h.dqs cur hc).1, (h.dqs cur hc).2, h.live cur (Or.inl hc)⟩
  · intro p hp; exact h.dqs p (by rw [hq]; exact List.mem_cons_of_mem _ hp)
  · intro p hp
    apply h.live
    rcases hp with hp | hp | hp
    · exact Or.inl (by rw [hq]; exact List.mem_cons_of_mem _ hp)
    · exact Or.inr (Or.inl hp)
    · exact Or.inr (Or.inr hp)

/-- replacing the state of a process that is in none of the sets -/
theorem WSched.setUnscheduled {w : WorkerSt} (h : WSched w) {cur : Pid} (hc : ¬ w.scheduled cur) (x' : Proc) :
    WSched { w with procs := upd w.procs cur (some x') } := by
  refine h.congr rfl rfl rfl ?_
  intro p x hp hx hr
  simp only [upd_apply]
  split
  · rename_i e; subst e; exact absurd hp hc
  · exact ⟨x, hx, hr⟩

/-- scheduling an unscheduled, unfinished process -/
theorem WSched.enqueue {w : WorkerSt} (h : WSched w) {cur : Pid} (hc : ¬ w.scheduled cur) {x : Proc}
    (hx : w.procs cur = some x) (hr : x.result = none) : WSched { w with queue := w.queue ++ [cur] } := by
  have h1 : cur ∉ w.queue := fun h2 => hc (Or.inl h2)
  have h2 : cur ∉ w.spawning := fun h2 => hc (Or.inr (Or.inl h2))
  have h3 : cur ∉ w.selecting := fun h2 => hc (Or.inr (Or.inr h2))
  refine { qnd := nodup_snoc h.qnd h1, spnd := h.spnd, send := h.send, dqs := ?_, dss := h.dss, live := ?_ }
  · intro p hp
    simp only [List.mem_append, List.mem_singleton] at hp
    rcases hp with hp | rfl
    · exact h.dqs p hp
    · exact ⟨h2, h3⟩
  · intro p hp
    simp only [List.mem_append, List.mem_singleton] at hp
    rcases hp with (hp | rfl) | hp | hp
    · exact h.live p (Or.inl hp)
    · exact ⟨x, hx, hr⟩
    · exact h.live p (Or.inr (Or.inl hp))
    · exact h.live p (Or.inr (Or.inr hp))

theorem WSched.parkSpawning {w : WorkerSt} (h : WSched w) {cur : Pid} (hc : ¬ w.scheduled cur) {x : Proc}
    (hx : w.procs cur = some x) (hr : x.result = none) : WSched { w with spawning := sinsert w.spawning cur } := by
  have h1 : cur ∉ w.queue := fun h2 => hc (Or.inl h2)
  have h3 : cur ∉ w.selecting := fun h2 => hc (Or.inr (Or.inr h2))
  refine { qnd := h.qnd, spnd := nodup_sinsert h.spnd, send := h.send, dqs := ?_, dss := ?_, live := ?_ }
  · intro p hp
    simp only [mem_sinsert]
    exact ⟨fun h2 => h2.elim (h.dqs p hp).1 (fun e => h1 (e ▸ hp)), (h.dqs p hp).2⟩
  · intro p hp
    simp only [mem_sinsert] at hp
    rcases hp with hp | rfl
    · exact h.dss p hp
    · exact h3
  · intro p hp
    simp only [mem_sinsert] at hp
    rcases hp with hp | (hp | rfl) | hp
    · exact h.live p (Or.inl hp)
    · exact h.live p (Or.inr (Or.inl hp))
    · exact ⟨x, hx, hr⟩
    · exact h.live p (Or.inr (Or.inr hp))

theorem WSched.parkSelecting {w : WorkerSt} (h : WSched w) {cur : Pid} (hc : ¬ w.scheduled cur) {x : Proc}
    (hx : w.procs cur = some x) (hr : x.result = none) : WSched { w with selecting := sinsert w.selecting cur } := by
  have h1 : cur ∉ w.queue := fun h2 => hc (Or.inl h2)
  have h2 : cur ∉ w.spawning := fun h2 => hc (Or.inr (Or.inl h2))
  refine { qnd := h.qnd, spnd := h.spnd, send := nodup_sinsert h.send, dqs := ?_, dss := ?_, live := ?_ }
  · intro p hp
    simp only [mem_sinsert]
    exact ⟨(h.dqs p hp).1, fun h3 => h3.elim (h.dqs p hp).2 (fun e => h1 (e ▸ hp))⟩
  · intro p hp
    simp only [mem_sinsert]
    exact fun h3 => h3.elim (h.dss p hp) (fun e => h2 (e ▸ hp))
  · intro p hp
    simp only [mem_sinsert] at hp
    rcases hp with hp | hp | hp | rfl
    · exact h.live p (Or.inl hp)
    · exact h.live p (Or.inr (Or.inl hp))
    · exact h.live p (Or.inr (Or.inr hp))
    · exact ⟨x, hx, hr⟩

theorem WSched.foldl {α : Type} (f : WorkerSt → α → WorkerSt) (hf : ∀ w a, WSched w → WSched (f w a)) :
    ∀ (l : List α) (w : WorkerSt), WSched w → WSched (l.foldl f w)
  | [], _, h => h
  | a :: l, w, h => WSched.foldl f hf l (f w a) (hf w a h)

theorem releaseDead_result (x : Proc) : x.releaseDead.result = x.result := by
  unfold Proc.releaseDead; split <;> rfl

theorem WSched.release {w : WorkerSt} (h : WSched w) (cur : Pid) : WSched (w.release cur) := by
  unfold WorkerSt.release; split
  · exact h.modProc cur _ releaseDead_result
  · exact h

/-- the finished branch: `cur` is in none of the sets -/
theorem WSched.finish {w : WorkerSt} (h : WSched w) {cur : Pid} (hc : ¬ w.scheduled cur) (x : Proc) (ordQ : List Pid) :
    WSched (w.finish cur x ordQ) := by
  unfold WorkerSt.finish
  exact (WSched.foldl _ (fun w' a hw' => hw'.notifyResult a cur _) _ _ (h.setUnscheduled hc _)).release cur

/-! ### system-level invariant -/

structure SInv (s : Sys) : Prop where
  r : RInv s
  fresh : ∀ w, (creates (s.cmdQ w)).Nodup ∧ ∀ p ∈ creates (s.cmdQ w), ¬ known s w p
  sched : ∀ w, WSched (s.wk w)
  spawner : ∀ w c, c ∈ (s.wk w).spawning →
    (∃ fn regs coloc, Evt.spawn c fn regs coloc ∈ s.evtQ w) ∨ (∃ p, Cmd.notifySpawn c p ∈ s.cmdQ w)

/-- rules whose `emptyWake` behaves like a wake-up: keeps processes, keeps the scheduling-set
invariant, never parks anything in `spawning` -/
structure Rules.Sane (R : Rules) : Prop where
  tame : R.Tame
  sched : ∀ w p, WSched w → WSched (R.emptyWake w p)
  spawning : ∀ w p c, c ∈ (R.emptyWake w p).spawning → c ∈ w.spawning

theorem Rules.current_sane : Rules.current.Sane :=
  ⟨Rules.current_tame, fun _ p h => h.wakeSelecting p, fun w p c hc => by
    show c ∈ w.spawning
    have : (w.wakeSelecting p).spawning = w.spawning := by unfold WorkerSt.wakeSelecting; split <;> rfl
    exact this ▸ hc⟩

theorem Rules.markActiveOnEmpty_sane : Rules.markActiveOnEmpty.Sane :=
  ⟨Rules.markActiveOnEmpty_tame, fun _ p h => h.markActive p, fun w p c hc => by
    have hc' : c ∈ (w.markActive p).spawning := hc
    unfold WorkerSt.markActive at hc'
    split at hc'
    · exact (mem_serase.mp hc').1
    · exact hc'⟩

theorem mem_upd_append_of_mem {α : Type} {q : Nat → List α} {w w' : Nat} {c c' : α} (h : c' ∈ q w') :
    c' ∈ upd q w (q w ++ [c]) w' := by
  simp only [upd_apply]
  split
  · rename_i e; subst e; simp [h]
  · exact h

theorem SInv.pushCmdOther {s : Sys} (h : SInv s) (w : Wid) (c : Cmd)
    (hc : CmdOK s.env.router s.prog.length (known s w) w c) (h2 : cmdCreate c = none) : SInv (s.pushCmd w c) := by
  refine { r := h.r.pushCmd w c hc, fresh := ?_, sched := h.sched, spawner := ?_ }
  · intro w'
    show (creates (upd s.cmdQ w (s.cmdQ w ++ [c]) w')).Nodup ∧ ∀ p ∈ creates (upd s.cmdQ w (s.cmdQ w ++ [c]) w'), ¬ known s w' p
    by_cases hw : w' = w
    · subst hw; simp only [upd_same]; rw [creates_append, h2]; simpa using h.fresh w'
    · simp only [upd_other _ _ _ _ hw]; exact h.fresh w'
  · intro w' c' hc'
    rcases h.spawner w' c' hc' with h3 | ⟨p, h3⟩
    · exact Or.inl h3
    · exact Or.inr ⟨p, mem_upd_append_of_mem h3⟩

theorem SInv.envOther {s : Sys} (h : SInv s) (pending : Pid → Option PendingAwait) (results : List (Nat × Res)) :
    SInv { s with env := { s.env with pending := pending, results := results } } :=
  { r := { h.r with }, fresh := h.fresh, sched := h.sched, spawner := h.spawner }

theorem SInv.foldPushOther {α : Type} (f : α → Wid) (g : α → Cmd) (h2 : ∀ a, cmdCreate (g a) = none) :
    ∀ (l : List α) (s : Sys), SInv s →
      (∀ a ∈ l, ∀ s' : Sys, s'.env = s.env → s'.prog = s.prog → CmdOK s.env.router s.prog.length (known s' (f a)) (f a) (g a)) →
      SInv (l.foldl (fun acc a => acc.pushCmd (f a) (g a)) s)
  | [], s, h, _ => h
  | a :: l, s, h, hl => by
    simp only [List.foldl_cons]
    refine SInv.foldPushOther f g h2 l _ (h.pushCmdOther _ _ (hl a (by simp) s rfl rfl) (h2 a)) ?_
    intro b hb s' he hp
    simpa using hl b (by simp [hb]) s' (by simpa using he) (by simpa using hp)

/-- popping an event that is not a SpawnAction -/
theorem SInv.popEvtOther {s : Sys} (h : SInv s) {w : Wid} {e : Evt} {rest : List Evt} (hq : s.evtQ w = e :: rest)
    (he : ∀ c fn regs coloc, e ≠ Evt.spawn c fn regs coloc) : SInv { s with evtQ := upd s.evtQ w rest } := by
  refine { r := (h.r.popEvt hq).1, fresh := h.fresh, sched := h.sched, spawner := ?_ }
  intro w' c hc
  rcases h.spawner w' c hc with ⟨fn, regs, coloc, h3⟩ | h3
  · left
    refine ⟨fn, regs, coloc, ?_⟩
    show _ ∈ upd s.evtQ w rest w'
    simp only [upd_apply]
    split
    · rename_i e2; subst e2
      rw [hq] at h3
      rcases List.mem_cons.mp h3 with h4 | h4
      · exact absurd h4.symm (he c fn regs coloc)
      · exact h4
    · exact h3
  · exact Or.inr h3

theorem SInv.handleAwait {s : Sys} (h : SInv s) {w0 : Wid} {a : Pid} {ts : List Pid}
    (he : EvtOK s.env.router s.prog.length w0 (.await a ts)) : SInv (handleAwait s a ts) := by
  obtain ⟨ha, hts⟩ := he
  unfold QM.Sys.handleAwait
  split
  · rename_i hany
    simp only [List.any_eq_true] at hany
    obtain ⟨t, ht, hn⟩ := hany
    have := hts t ht
    unfold Routed at this
    simp_all
  · have h1 := h.envOther (upd s.env.pending a (some { expected := targetWorkers s.env.router ts, responses := [] })) s.env.results
    refine SInv.foldPushOther (fun w => w) (fun w => Cmd.queryAwait a (ts.filter (fun t => s.env.router t = some w)))
      (fun _ => rfl) _ _ h1 ?_
    intro w _ s' _ _
    refine ⟨by simp [Routed, ha], ?_⟩
    intro t ht
    simp only [List.mem_filter, decide_eq_true_eq] at ht
    exact ht.2

theorem SInv.handleProcResults {s : Sys} (h : SInv s) (combine) {w0 : Wid} {a : Pid} {rs : Results}
    (he : EvtOK s.env.router s.prog.length w0 (.procResults a rs)) : SInv (handleProcResultsWith combine s a rs) := by
  obtain ⟨ha, _⟩ := he
  unfold Routed at ha
  unfold QM.Sys.handleProcResultsWith
  match hr : s.env.router a with
  | none => simp [hr] at ha
  | some aw =>
    dsimp only
    split
    · split
      · exact h
      · split
        · have h1 := h.envOther (upd s.env.pending a none) s.env.results
          simp only [hr]
          exact h1.pushCmdOther aw _ hr rfl
        · exact h.envOther _ s.env.results
    · exact h.pushCmdOther aw _ hr rfl

theorem SInv.handleDeliver {s : Sys} (h : SInv s) {w0 : Wid} {t : Pid} {m : Msg}
    (he : EvtOK s.env.router s.prog.length w0 (.deliver t m)) : SInv (handleDeliver s t m) := by
  obtain ⟨_, ht⟩ := he
  unfold QM.Sys.handleDeliver
  unfold Routed at ht
  match hr : s.env.router t with
  | none => simp [hr] at ht
  | some w => exact h.pushCmdOther w _ hr rfl

/-- popping a SpawnAction and handling it, atomically -/
theorem SInv.handleSpawnPop {s : Sys} (h : SInv s) {w0 : Wid} {caller : Pid} {fn : Nat} {regs : List Pid} {coloc : Option Pid}
    {rest : List Evt} (hq : s.evtQ w0 = .spawn caller fn regs coloc :: rest) :
    SInv (handleSpawn { s with evtQ := upd s.evtQ w0 rest } caller fn regs coloc) := by
  obtain ⟨r1, he⟩ := h.r.popEvt hq
  have r' := r1.handleSpawn he
  obtain ⟨hc, hfn, hregs⟩ := he
  have hne : caller ≠ s.env.nextPid := Nat.ne_of_lt (h.r.below caller w0 hc)
  have hc1 : ({ s with evtQ := upd s.evtQ w0 rest } : Sys).env.router caller = some w0 := hc
  rw [handleSpawn_eq hc1 hne] at r' ⊢
  generalize placement { s with evtQ := upd s.evtQ w0 rest } coloc s.env.nextPid = w at r' ⊢
  show SInv { s with evtQ := upd s.evtQ w0 rest,
                     env := { s.env with nextPid := s.env.nextPid + 1, router := upd s.env.router s.env.nextPid (some w) },
                     cmdQ := upd (upd s.cmdQ w (s.cmdQ w ++ [.spawn s.env.nextPid fn regs])) w0
                        (upd s.cmdQ w (s.cmdQ w ++ [.spawn s.env.nextPid fn regs]) w0 ++ [.notifySpawn caller s.env.nextPid]),
                     spawned := s.spawned ++ [(caller, s.env.nextPid)] }
  have hnk : ∀ w', ¬ known s w' s.env.nextPid := by
    intro w' hk
    exact Nat.lt_irrefl _ (h.r.below _ _ (h.r.placed w' _ hk))
  have hnc : ∀ w', s.env.nextPid ∉ creates (s.cmdQ w') := by
    intro w' hm
    unfold creates at hm
    rw [List.mem_filterMap] at hm
    obtain ⟨c, hcm, hcc⟩ := hm
    cases c with
    | spawn p fn' regs' =>
      simp only [cmdCreate, Option.some.injEq] at hcc; subst hcc
      have := (h.r.cmds w' _ hcm).1
      exact Nat.lt_irrefl _ (h.r.below _ _ this)
    | misc => simp [cmdCreate] at hcc
    | start _ => simp [cmdCreate] at hcc
    | resume _ _ => simp [cmdCreate] at hcc
    | notifySpawn _ _ => simp [cmdCreate] at hcc
    | deliver _ _ => simp [cmdCreate] at hcc
    | queryAwait _ _ => simp [cmdCreate] at hcc
    | updateAwait _ _ => simp [cmdCreate] at hcc
    | getResult _ _ => simp [cmdCreate] at hcc
  have hcr : ∀ w', creates (upd (upd s.cmdQ w (s.cmdQ w ++ [.spawn s.env.nextPid fn regs])) w0
      (upd s.cmdQ w (s.cmdQ w ++ [.spawn s.env.nextPid fn regs]) w0 ++ [.notifySpawn caller s.env.nextPid]) w') =
      creates (s.cmdQ w') ++ (if w' = w then [s.env.nextPid] else []) := by
    intro w'
    have h1 : ∀ w'', creates (upd s.cmdQ w (s.cmdQ w ++ [.spawn s.env.nextPid fn regs]) w'') =
        creates (s.cmdQ w'') ++ (if w'' = w then [s.env.nextPid] else []) := by
      intro w''
      by_cases e : w'' = w
      · subst e; simp only [upd_same, if_true]; rw [creates_append]; rfl
      · simp only [upd_other _ _ _ _ e, e, if_false, List.append_nil]
    by_cases e : w' = w0
    · subst e; simp only [upd_same]; rw [creates_append, h1]; simp [cmdCreate]
    · simp only [upd_other _ _ _ _ e]; exact h1 w'
  refine { r := r', fresh := ?_, sched := h.sched, spawner := ?_ }
  · intro w'
    show (creates (upd (upd s.cmdQ w (s.cmdQ w ++ [.spawn s.env.nextPid fn regs])) w0
      (upd s.cmdQ w (s.cmdQ w ++ [.spawn s.env.nextPid fn regs]) w0 ++ [.notifySpawn caller s.env.nextPid]) w')).Nodup ∧
      ∀ p ∈ creates (upd (upd s.cmdQ w (s.cmdQ w ++ [.spawn s.env.nextPid fn regs])) w0
      (upd s.cmdQ w (s.cmdQ w ++ [.spawn s.env.nextPid fn regs]) w0 ++ [.notifySpawn caller s.env.nextPid]) w'), ¬ known s w' p
    rw [hcr]
    by_cases e : w' = w
    · simp only [e, if_true]
      refine ⟨nodup_snoc (h.fresh w).1 (hnc w), ?_⟩
      intro p hp
      simp only [List.mem_append, List.mem_singleton] at hp
      rcases hp with hp | rfl
      · exact (h.fresh w).2 p hp
      · exact hnk w
    · simp only [e, if_false, List.append_nil]; exact h.fresh w'
  · intro w' c hc'
    have hc'' : c ∈ (s.wk w').spawning := hc'
    rcases h.spawner w' c hc'' with ⟨fn', regs', coloc', h3⟩ | ⟨p, h3⟩
    · by_cases e : w' = w0
      · subst e
        rw [hq] at h3
        rcases List.mem_cons.mp h3 with h4 | h4
        · right
          cases h4
          refine ⟨s.env.nextPid, ?_⟩
          show _ ∈ upd (upd s.cmdQ w (s.cmdQ w ++ [.spawn s.env.nextPid fn regs])) w' _ w'
          simp
        · left
          refine ⟨fn', regs', coloc', ?_⟩
          show _ ∈ upd s.evtQ w' rest w'
          simpa using h4
      · left
        refine ⟨fn', regs', coloc', ?_⟩
        show _ ∈ upd s.evtQ w0 rest w'
        simpa [upd_other _ _ _ _ e] using h3
    · right
      refine ⟨p, ?_⟩
      show _ ∈ upd (upd s.cmdQ w (s.cmdQ w ++ [.spawn s.env.nextPid fn regs])) w0 _ w'
      have h1 : Cmd.notifySpawn c p ∈ upd s.cmdQ w (s.cmdQ w ++ [.spawn s.env.nextPid fn regs]) w' :=
        mem_upd_append_of_mem h3
      exact mem_upd_append_of_mem (q := upd s.cmdQ w (s.cmdQ w ++ [.spawn s.env.nextPid fn regs])) h1

theorem SInv.envStep1 {s : Sys} (h : SInv s) (combine) (w : Wid) : SInv (envStep1With combine s w) := by
  unfold envStep1With
  split
  · exact h
  · rename_i e rest hq
    have he := (h.r.popEvt hq).2
    cases e with
    | spawn c fn regs coloc => exact h.handleSpawnPop hq
    | deliver t m => exact (h.popEvtOther hq (by intros; simp)).handleDeliver he
    | await a ts => exact (h.popEvtOther hq (by intros; simp)).handleAwait he
    | procResults a rs => exact (h.popEvtOther hq (by intros; simp)).handleProcResults combine he
    | resultResp req r => exact (h.popEvtOther hq (by intros; simp)).envOther _ _
    | exited p => exact h.popEvtOther hq (by intros; simp)

/-! ### worker commands -/

theorem WSched.updProc {w : WorkerSt} (h : WSched w) {p : Pid} {x x' : Proc} (hx : w.procs p = some x)
    (hr : x'.result = x.result) : WSched { w with procs := upd w.procs p (some x') } := by
  refine h.congr rfl rfl rfl ?_
  intro q y _ hy hr'
  simp only [upd_apply]
  split
  · rename_i e; subst e; rw [hx] at hy; cases hy; exact ⟨x', rfl, hr.trans hr'⟩
  · exact ⟨y, hy, hr'⟩

theorem WSched.eraseSpawning {w : WorkerSt} (h : WSched w) (c : Pid) :
    WSched { w with spawning := serase w.spawning c } := by
  refine { qnd := h.qnd, spnd := nodup_serase h.spnd, send := h.send, dqs := ?_, dss := ?_, live := ?_ }
  · intro p hp; simp only [mem_serase]; exact ⟨fun h2 => (h.dqs p hp).1 h2.1, (h.dqs p hp).2⟩
  · intro p hp; simp only [mem_serase] at hp; exact h.dss p hp.1
  · intro p hp
    simp only [mem_serase] at hp
    apply h.live
    rcases hp with hp | hp | hp
    · exact Or.inl hp
    · exact Or.inr (Or.inl hp.1)
    · exact Or.inr (Or.inr hp)

@[simp] theorem wakeSelecting_spawning (w : WorkerSt) (p : Pid) : (w.wakeSelecting p).spawning = w.spawning := by
  unfold WorkerSt.wakeSelecting; split <;> rfl
@[simp] theorem modProc_spawning (w : WorkerSt) (p : Pid) (f : Proc → Proc) : (w.modProc p f).spawning = w.spawning := by
  unfold WorkerSt.modProc; split <;> rfl
@[simp] theorem notifyResultOk_spawning (w : WorkerSt) (a t : Pid) (v : Val) : (w.notifyResultOk a t v).spawning = w.spawning := by
  simp [WorkerSt.notifyResultOk]
@[simp] theorem notifyFailure_spawning (w : WorkerSt) (a t : Pid) : (w.notifyFailure a t).spawning = w.spawning := by
  unfold WorkerSt.notifyFailure; split
  · split <;> simp
  · rfl
@[simp] theorem notifyResult_spawning (w : WorkerSt) (a t : Pid) (r : Res) : (w.notifyResult a t r).spawning = w.spawning := by
  cases r <;> simp [WorkerSt.notifyResult]
@[simp] theorem notifyPending_spawning (w : WorkerSt) (a t : Pid) : (w.notifyPending a t).spawning = w.spawning := by
  simp [WorkerSt.notifyPending]
theorem applyResults_spawning (a : Pid) : ∀ (rs : Results) (w : WorkerSt), (applyResults w a rs).spawning = w.spawning
  | [], _ => rfl
  | (t, some r) :: rest, w => by
    unfold QM.Sys.applyResults; rw [applyResults_spawning a rest]; simp
  | (t, none) :: rest, w => by
    unfold QM.Sys.applyResults; rw [applyResults_spawning a rest]; simp

theorem queryTargets_sched (a : Pid) : ∀ (ts : List Pid) (w : WorkerSt),
    (queryTargets w a ts).1.queue = w.queue ∧ (queryTargets w a ts).1.spawning = w.spawning ∧
    (queryTargets w a ts).1.selecting = w.selecting
  | [], _ => ⟨rfl, rfl, rfl⟩
  | t :: rest, w => by
    unfold queryTargets
    split
    · exact queryTargets_sched a rest w
    · exact queryTargets_sched a rest _

/-- the generic part: replacing worker `i` by `w'` after consuming the head command `c` -/
theorem SInv.afterCmd {s : Sys} (h : SInv s) {i : Wid} {c : Cmd} {rest : List Cmd} (hq : s.cmdQ i = c :: rest)
    {s' : Sys} (r' : RInv s') (hcmd : s'.cmdQ = upd s.cmdQ i rest)
    (hevt : ∀ w e, e ∈ s.evtQ w → e ∈ s'.evtQ w)
    (hwk : ∀ w, w ≠ i → s'.wk w = s.wk w)
    (hsched : WSched (s'.wk i))
    (hknown : ∀ p, known s' i p → known s i p ∨ cmdCreate c = some p)
    (hsp : ∀ c', c' ∈ (s'.wk i).spawning → c' ∈ (s.wk i).spawning ∧ ∀ p, c ≠ .notifySpawn c' p) : SInv s' := by
  have hfr := h.fresh i
  rw [hq, creates_cons] at hfr
  refine { r := r', fresh := ?_, sched := ?_, spawner := ?_ }
  · intro w
    rw [hcmd]
    by_cases hw : w = i
    · subst hw
      simp only [upd_same]
      refine ⟨(List.nodup_append.mp hfr.1).2.1, ?_⟩
      intro p hp hk
      rcases hknown p hk with hk | hk
      · exact hfr.2 p (List.mem_append_right _ hp) hk
      · rw [hk] at hfr
        exact (List.nodup_append.mp hfr.1).2.2 p (by simp) p hp rfl
    · simp only [upd_other _ _ _ _ hw]
      have : known s' w = known s w := by funext p; unfold known; rw [hwk w hw]
      rw [this]; exact h.fresh w
  · intro w
    by_cases hw : w = i
    · subst hw; exact hsched
    · rw [hwk w hw]; exact h.sched w
  · intro w c' hc'
    rw [hcmd]
    by_cases hw : w = i
    · subst hw
      obtain ⟨h1, h2⟩ := hsp c' hc'
      rcases h.spawner w c' h1 with ⟨fn, regs, coloc, h3⟩ | ⟨p, h3⟩
      · exact Or.inl ⟨fn, regs, coloc, hevt w _ h3⟩
      · right
        refine ⟨p, ?_⟩
        simp only [upd_same]
        rw [hq] at h3
        rcases List.mem_cons.mp h3 with h4 | h4
        · exact absurd h4.symm (h2 p)
        · exact h4
    · rw [hwk w hw] at hc'
      simp only [upd_other _ _ _ _ hw]
      rcases h.spawner w c' hc' with ⟨fn, regs, coloc, h3⟩ | h3
      · exact Or.inl ⟨fn, regs, coloc, hevt w _ h3⟩
      · exact Or.inr h3

theorem mem_upd_append_left {α : Type} {q : Nat → List α} {i w : Nat} {l : List α} {e : α} (h : e ∈ q w) :
    e ∈ upd q i (q i ++ l) w := by
  simp only [upd_apply]; split
  · rename_i e2; subst e2; simp [h]
  · exact h

theorem wk_setWk_other (s : Sys) (i : Wid) (x : WorkerSt) (w : Wid) (hw : w ≠ i) : (s.setWk i x).wk w = s.wk w := by
  simp [upd_other _ _ _ _ hw]

theorem SInv.cmdStep1 {s : Sys} (h : SInv s) {R : Rules} (hR : R.Sane) (i : Wid) : SInv (cmdStep1With R s i) := by
  unfold cmdStep1With
  split
  · exact h
  · rename_i c rest hq
    obtain ⟨h1, hc⟩ := h.r.popCmd hq
    have r' := h1.handleCmd R hR.tame i hc
    generalize hs1 : ({ s with cmdQ := upd s.cmdQ i rest } : Sys) = s1 at r' h1
    have e_wk : s1.wk = s.wk := by subst hs1; rfl
    have e_cmdQ : s1.cmdQ = upd s.cmdQ i rest := by subst hs1; rfl
    have e_evtQ : s1.evtQ = s.evtQ := by subst hs1; rfl
    have hW : WSched (s1.wk i) := e_wk ▸ h.sched i
    have hev0 : ∀ w e, e ∈ s.evtQ w → e ∈ s1.evtQ w := fun w e he => e_evtQ ▸ he
    have hwk0 : ∀ x w, w ≠ i → (s1.setWk i x).wk w = s.wk w := fun x w hw => by rw [wk_setWk_other _ _ _ _ hw, e_wk]
    have hkn : ∀ {x : WorkerSt}, (∀ p, (x.procs p).isSome = ((s1.wk i).procs p).isSome) →
        ∀ p, known (s1.setWk i x) i p → known s i p ∨ cmdCreate c = some p := by
      intro x hx p hp
      left
      unfold known at hp ⊢
      simp only [setWk_wk, upd_same] at hp
      rw [hx, e_wk] at hp; exact hp
    cases c with
    | misc =>
      simp only [handleCmdWith] at r' ⊢
      refine h.afterCmd hq r' e_cmdQ hev0 (fun w _ => by rw [e_wk]) hW ?_ ?_
      · intro p hp; left; unfold known at *; rw [← e_wk]; exact hp
      · intro c' hc'; exact ⟨e_wk ▸ hc', fun p => by simp⟩
    | start p => exact hc.elim
    | resume p fn => exact hc.elim
    | spawn p fn regs =>
      obtain ⟨hp, hfn, hregs⟩ := hc
      have hlen : ¬ fn ≥ s1.prog.length := by subst hs1; exact Nat.not_le.mpr hfn
      simp only [handleCmdWith, if_neg hlen] at r' ⊢
      have hfr := h.fresh i
      rw [hq, creates_cons] at hfr
      have hnk : ¬ known s i p := hfr.2 p (by simp [cmdCreate])
      have hns : ¬ (s1.wk i).scheduled p := by
        intro hsch
        obtain ⟨x, hx, _⟩ := hW.live p hsch
        apply hnk; unfold known; rw [← e_wk, hx]; rfl
      refine h.afterCmd hq r' e_cmdQ hev0 (hwk0 _) ?_ ?_ ?_
      · simp only [setWk_wk, upd_same]
        have h2 : WSched { (s1.wk i) with procs := upd (s1.wk i).procs p (some (Proc.fresh fn (p :: regs))) } :=
          hW.setUnscheduled hns _
        have h3 := h2.enqueue (cur := p) hns (x := Proc.fresh fn (p :: regs)) (by simp) rfl
        exact h3.congr rfl rfl rfl (fun q y _ hy hr => ⟨y, hy, hr⟩)
      · intro q hq'
        unfold known at hq' ⊢
        simp only [setWk_wk, upd_same, WorkerSt.setProc, upd_apply] at hq'
        split at hq'
        · rename_i e; right; simp [cmdCreate, e]
        · left; rw [← e_wk]; exact hq'
      · intro c' hc'
        simp only [setWk_wk, upd_same, WorkerSt.setProc] at hc'
        exact ⟨e_wk ▸ hc', fun q => by simp⟩
    | notifySpawn caller newPid =>
      have hsp_sub : ∀ c', c' ∈ serase (s1.wk i).spawning caller →
          c' ∈ (s.wk i).spawning ∧ ∀ p, Cmd.notifySpawn caller newPid ≠ .notifySpawn c' p := by
        intro c' hc'
        rw [mem_serase, e_wk] at hc'
        exact ⟨hc'.1, fun p heq => by cases heq; exact hc'.2 rfl⟩
      cases hx : (s1.wk i).procs caller with
      | none =>
        simp only [handleCmdWith, hx] at r' ⊢
        refine h.afterCmd hq r' e_cmdQ hev0 (hwk0 _) ?_ ?_ ?_
        · simp only [setWk_wk, upd_same]; exact hW.eraseSpawning caller
        · exact hkn (fun _ => rfl)
        · simp only [setWk_wk, upd_same]; exact hsp_sub
      | some x =>
        simp only [handleCmdWith, hx] at r' ⊢
        have hE := hW.eraseSpawning caller
        have hU : WSched { s1.wk i with spawning := serase (s1.wk i).spawning caller, procs := upd (s1.wk i).procs caller (some { x with regs := x.regs ++ [newPid], pc := x.pc + 1, spawnIssued := false }) } :=
          hE.updProc (w := { s1.wk i with spawning := serase (s1.wk i).spawning caller }) hx rfl
        have hdom : ∀ p, ((upd (s1.wk i).procs caller (some { x with regs := x.regs ++ [newPid], pc := x.pc + 1, spawnIssued := false })) p).isSome = ((s1.wk i).procs p).isSome := by
          intro p; simp only [upd_apply]; split
          · rename_i e; subst e; simp [hx]
          · rfl
        by_cases hwas : caller ∈ (s1.wk i).spawning
        · simp only [hwas, decide_true, if_true] at r' ⊢
          refine h.afterCmd hq r' e_cmdQ hev0 (hwk0 _) ?_ ?_ ?_
          · simp only [setWk_wk, upd_same]
            have hns : ¬ ({ s1.wk i with spawning := serase (s1.wk i).spawning caller, procs := upd (s1.wk i).procs caller (some { x with regs := x.regs ++ [newPid], pc := x.pc + 1, spawnIssued := false }) } : WorkerSt).scheduled caller := by
              rintro (h2 | h2 | h2)
              · exact (hW.dqs caller h2).1 hwas
              · exact (mem_serase.mp h2).2 rfl
              · exact hW.dss caller hwas h2
            obtain ⟨x0, hx0, hr0⟩ := hW.live caller (Or.inr (Or.inl hwas))
            rw [hx] at hx0; cases hx0
            exact hU.enqueue hns (x := { x with regs := x.regs ++ [newPid], pc := x.pc + 1, spawnIssued := false }) (by simp) hr0
          · exact hkn hdom
          · simp only [setWk_wk, upd_same]; exact hsp_sub
        · simp only [hwas, decide_false] at r' ⊢
          refine h.afterCmd hq r' e_cmdQ hev0 (hwk0 _) ?_ ?_ ?_
          · simp only [setWk_wk, upd_same]; exact hU
          · exact hkn hdom
          · simp only [setWk_wk, upd_same]; exact hsp_sub
    | deliver t m =>
      cases hx : (s1.wk i).procs t with
      | none =>
        simp only [handleCmdWith, hx] at r' ⊢
        refine h.afterCmd hq r' e_cmdQ hev0 (hwk0 _) ?_ ?_ ?_
        · simp only [setWk_wk, upd_same]; exact hW.wakeSelecting t
        · exact hkn (SameProcs.wakeSelecting _ t).dom
        · simp only [setWk_wk, upd_same, wakeSelecting_spawning]
          intro c' hc'; exact ⟨e_wk ▸ hc', fun p => by simp⟩
      | some x =>
        by_cases hd : (Cfg.releaseDead && !x.deliverable) = true
        · simp only [handleCmdWith, hx, hd, if_true] at r' ⊢
          refine h.afterCmd hq r' e_cmdQ hev0 (hwk0 _) ?_ ?_ ?_
          · simp only [setWk_wk, upd_same]; exact hW.wakeSelecting t
          · exact hkn (SameProcs.wakeSelecting _ t).dom
          · simp only [setWk_wk, upd_same, wakeSelecting_spawning]
            intro c' hc'; exact ⟨e_wk ▸ hc', fun p => by simp⟩
        · simp only [handleCmdWith, hx, hd, Bool.false_eq_true, if_false] at r' ⊢
          have hsame := (SameProcs.updProc (x' := { x with mailbox := x.mailbox ++ [m] }) hx rfl
            (w' := { s1.wk i with procs := upd (s1.wk i).procs t (some { x with mailbox := x.mailbox ++ [m] }) }) rfl rfl).trans
            (SameProcs.wakeSelecting _ t)
          refine h.afterCmd hq r' e_cmdQ hev0 (hwk0 _) ?_ ?_ ?_
          · simp only [setWk_wk, upd_same]
            exact (hW.updProc hx (x' := { x with mailbox := x.mailbox ++ [m] }) rfl).wakeSelecting t
          · exact hkn hsame.dom
          · simp only [setWk_wk, upd_same, wakeSelecting_spawning]
            intro c' hc'; exact ⟨e_wk ▸ hc', fun p => by simp⟩
    | queryAwait a ts =>
      simp only [handleCmdWith] at r' ⊢
      have hq2 := queryTargets_spec a ts (s1.wk i)
      have hq3 := queryTargets_sched a ts (s1.wk i)
      generalize queryTargets (s1.wk i) a ts = q at hq2 hq3 r' ⊢
      refine h.afterCmd hq r' e_cmdQ ?_ (hwk0 _) ?_ ?_ ?_
      · intro w e he
        show e ∈ upd s1.evtQ i (s1.evtQ i ++ [_]) w
        exact mem_upd_append_left (hev0 w e he)
      · show WSched ((s1.setWk i q.1).wk i)
        simp only [setWk_wk, upd_same]
        exact hW.congr hq3.1 hq3.2.1 hq3.2.2 (fun p y _ hy hr => ⟨y, by rw [hq2.1]; exact hy, hr⟩)
      · intro p hp
        have : known (s1.setWk i q.1) i p := hp
        exact hkn (fun p => by rw [hq2.1]) p this
      · intro c' hc'
        have : c' ∈ ((s1.setWk i q.1).wk i).spawning := hc'
        simp only [setWk_wk, upd_same, hq3.2.1] at this
        exact ⟨e_wk ▸ this, fun p => by simp⟩
    | updateAwait a rs =>
      simp only [handleCmdWith] at r' ⊢
      split at r'
      · rename_i hany
        simp only [hany, if_true]
        refine h.afterCmd hq r' e_cmdQ hev0 (hwk0 _) ?_ ?_ ?_
        · simp only [setWk_wk, upd_same]; exact WSched.applyResults a rs hW
        · exact hkn (SameProcs.applyResults a rs _).dom
        · simp only [setWk_wk, upd_same, applyResults_spawning]
          intro c' hc'; exact ⟨e_wk ▸ hc', fun p => by simp⟩
      · rename_i hany
        simp only [hany]
        refine h.afterCmd hq r' e_cmdQ hev0 (hwk0 _) ?_ ?_ ?_
        · simp only [setWk_wk, upd_same]; exact hR.sched _ a (WSched.applyResults a rs hW)
        · exact hkn ((SameProcs.applyResults a rs _).trans (hR.tame _ a)).dom
        · simp only [setWk_wk, upd_same]
          intro c' hc'
          have := hR.spawning _ a c' hc'
          rw [applyResults_spawning] at this
          exact ⟨e_wk ▸ this, fun p => by simp⟩
    | getResult req p =>
      cases hx : (s1.wk i).procs p with
      | none =>
        have hc' : ((s.wk i).procs p).isSome = true := hc
        rw [← e_wk, hx] at hc'; simp at hc'
      | some x =>
        cases hres : x.result with
        | some r =>
          simp only [handleCmdWith, hx, hres] at r' ⊢
          refine h.afterCmd hq r' e_cmdQ ?_ (fun w _ => by show s1.wk w = s.wk w; rw [e_wk]) hW ?_ ?_
          · intro w e he
            show e ∈ upd s1.evtQ i (s1.evtQ i ++ [_]) w
            exact mem_upd_append_left (hev0 w e he)
          · intro q hq'; left; unfold known at *; rw [← e_wk]; exact hq'
          · intro c' hc'; exact ⟨e_wk ▸ hc', fun q => by simp⟩
        | none =>
          simp only [handleCmdWith, hx, hres] at r' ⊢
          refine h.afterCmd hq r' e_cmdQ hev0 (hwk0 _) ?_ ?_ ?_
          · simp only [setWk_wk, upd_same]
            exact hW.congr rfl rfl rfl (fun q y _ hy hr => ⟨y, hy, hr⟩)
          · exact hkn (fun _ => rfl)
          · simp only [setWk_wk, upd_same]
            intro c' hc'; exact ⟨e_wk ▸ hc', fun q => by simp⟩

/-! ### executor step and completion check -/

theorem SInv.afterWorker {s s' : Sys} (h : SInv s) {i : Wid} (r' : RInv s') (hcmd : s'.cmdQ = s.cmdQ)
    (hevt : ∀ w e, e ∈ s.evtQ w → e ∈ s'.evtQ w) (hwk : ∀ w, w ≠ i → s'.wk w = s.wk w)
    (hsched : WSched (s'.wk i)) (hknown : ∀ p, known s' i p → known s i p)
    (hsp : ∀ c', c' ∈ (s'.wk i).spawning → c' ∈ (s.wk i).spawning ∨ ∃ fn regs coloc, Evt.spawn c' fn regs coloc ∈ s'.evtQ i) :
    SInv s' := by
  refine { r := r', fresh := ?_, sched := ?_, spawner := ?_ }
  · intro w
    rw [hcmd]
    refine ⟨(h.fresh w).1, ?_⟩
    intro p hp hk
    apply (h.fresh w).2 p hp
    by_cases hw : w = i
    · subst hw; exact hknown p hk
    · unfold known at *; rw [← hwk w hw]; exact hk
  · intro w
    by_cases hw : w = i
    · subst hw; exact hsched
    · rw [hwk w hw]; exact h.sched w
  · intro w c hc
    rw [hcmd]
    by_cases hw : w = i
    · subst hw
      rcases hsp c hc with h1 | h1
      · rcases h.spawner w c h1 with ⟨fn, regs, coloc, h3⟩ | h3
        · exact Or.inl ⟨fn, regs, coloc, hevt w _ h3⟩
        · exact Or.inr h3
      · exact Or.inl h1
    · rw [hwk w hw] at hc
      rcases h.spawner w c hc with ⟨fn, regs, coloc, h3⟩ | h3
      · exact Or.inl ⟨fn, regs, coloc, hevt w _ h3⟩
      · exact Or.inr h3

theorem slice_result (prog : Prog) (now : Nat) (self : Pid) : ∀ (fuel : Nat) (p : Proc),
    (slice prog now self fuel p).2 = .failed ∨ (slice prog now self fuel p).1.result = p.result
  | 0, p => Or.inr rfl
  | fuel + 1, p => by
    unfold slice
    split
    · exact Or.inr rfl
    · exact Or.inr rfl
    · split
      · exact Or.inl rfl
      · exact Or.inr rfl
    · exact Or.inl rfl
    · split
      · dsimp only
        split
        · exact slice_result prog now self fuel _
        · exact Or.inr rfl
      · split
        · exact Or.inr rfl
        · dsimp only
          split
          · exact slice_result prog now self fuel _
          · exact Or.inl rfl
          · exact Or.inr rfl

theorem finish_spawning_foldl (cur : Pid) (r : Res) : ∀ (l : List Pid) (w : WorkerSt),
    (l.foldl (fun acc a => acc.notifyResult a cur r) w).spawning = w.spawning
  | [], _ => rfl
  | a :: l, w => by simp only [List.foldl_cons]; rw [finish_spawning_foldl cur r l]; simp

@[simp] theorem release_spawning (w : WorkerSt) (cur : Pid) : (w.release cur).spawning = w.spawning := by
  unfold WorkerSt.release; split
  · unfold WorkerSt.modProc; split <;> rfl
  · rfl

@[simp] theorem finish_spawning (w : WorkerSt) (cur : Pid) (x : Proc) (ordQ : List Pid) :
    (w.finish cur x ordQ).spawning = w.spawning := by
  unfold WorkerSt.finish; dsimp only; rw [release_spawning, finish_spawning_foldl]

theorem SInv.execStep {s : Sys} (h : SInv s) (i : Wid) (fuel : Nat) (ordQ : List Pid) : SInv (execStep s i fuel ordQ) := by
  have r' := h.r.execStep i fuel ordQ
  have hshape := Shape.execStep s i fuel ordQ
  have hknown : ∀ p, known (QM.Sys.execStep s i fuel ordQ) i p → known s i p := fun p hp => (hshape.known i p).mp hp
  revert r' hknown
  clear hshape
  unfold QM.Sys.execStep
  dsimp only
  have hW0 := (h.sched i).checkExpired s.prog s.now ordQ
  have hsp0 : ((s.wk i).checkExpired s.prog s.now ordQ).spawning = (s.wk i).spawning := rfl
  generalize (s.wk i).checkExpired s.prog s.now ordQ = w0 at hW0 hsp0 ⊢
  have hwk0 : ∀ x w, w ≠ i → (s.setWk i x).wk w = s.wk w := fun x w hw => wk_setWk_other _ _ _ _ hw
  have hev0 : ∀ w e, e ∈ s.evtQ w → e ∈ s.evtQ w := fun _ _ he => he
  split
  · intro r' hknown
    exact h.afterWorker r' rfl hev0 (hwk0 _) (by simpa using hW0) hknown (fun c' hc' => Or.inl (by simpa [hsp0] using hc'))
  · rename_i cur rest hq
    obtain ⟨hW1, hcr, hcs, hcse, x0, hx0, hr0⟩ := hW0.pop hq
    have hns : ¬ ({ w0 with queue := rest } : WorkerSt).scheduled cur := by
      rintro (h2 | h2 | h2)
      · exact hcr h2
      · exact hcs h2
      · exact hcse h2
    split
    · intro r' hknown
      exact h.afterWorker r' rfl hev0 (hwk0 _) (by simpa using hW1) hknown (fun c' hc' => Or.inl (by simpa [hsp0] using hc'))
    · rename_i x hx
      have hxx : x = x0 := by
        have : w0.procs cur = some x := hx
        rw [hx0] at this; cases this; rfl
      subst hxx
      split
      · intro r' hknown
        refine h.afterWorker r' (by simp) (fun w e he => mem_noteExit_evtQ i cur x he) (fun w hw => by simp [hwk0 _ w hw]) ?_ hknown
          (fun c' hc' => Or.inl (by simpa [hsp0] using hc'))
        simp only [noteExit_wk, setWk_wk, upd_same]
        exact hW1.finish hns _ _
      · have hsl := slice_result s.prog s.now cur fuel x
        generalize slice s.prog s.now cur fuel x = r at hsl
        obtain ⟨x', out⟩ := r
        dsimp only at hsl ⊢
        have hW2 : WSched { w0 with queue := rest, procs := upd w0.procs cur (some x') } :=
          hW1.setUnscheduled hns x'
        have hns2 : ¬ ({ w0 with queue := rest, procs := upd w0.procs cur (some x') } : WorkerSt).scheduled cur := hns
        have hx2 : ({ w0 with queue := rest, procs := upd w0.procs cur (some x') } : WorkerSt).procs cur = some x' := by simp
        cases out with
        | cont =>
          intro r' hknown
          have hres : x'.result = none := by rcases hsl with h1 | h1; · cases h1
                                             · exact h1.trans hr0
          refine h.afterWorker r' rfl hev0 (hwk0 _) ?_ hknown (fun c' hc' => Or.inl (by simpa [hsp0] using hc'))
          simp only [setWk_wk, upd_same]
          exact hW2.enqueue hns2 hx2 hres
        | send t m =>
          intro r' hknown
          have hres : x'.result = none := by rcases hsl with h1 | h1; · cases h1
                                             · exact h1.trans hr0
          refine h.afterWorker r' rfl ?_ (hwk0 _) ?_ hknown (fun c' hc' => Or.inl (by simpa [hsp0] using hc'))
          · intro w e he; exact mem_upd_append_left he
          · show WSched ((s.setWk i _).wk i)
            simp only [setWk_wk, upd_same]
            exact hW2.enqueue hns2 hx2 hres
        | spawn fn regs =>
          intro r' hknown
          have hres : x'.result = none := by rcases hsl with h1 | h1; · cases h1
                                             · exact h1.trans hr0
          refine h.afterWorker r' rfl ?_ (hwk0 _) ?_ hknown ?_
          · intro w e he; exact mem_upd_append_left he
          · show WSched ((s.setWk i _).wk i)
            simp only [setWk_wk, upd_same]
            exact hW2.parkSpawning hns2 hx2 hres
          · intro c' hc'
            have hc'' : c' ∈ sinsert w0.spawning cur := by simpa using hc'
            rw [mem_sinsert, hsp0] at hc''
            rcases hc'' with h2 | rfl
            · exact Or.inl h2
            · right
              refine ⟨fn, regs, none, ?_⟩
              show _ ∈ upd s.evtQ i (s.evtQ i ++ [_]) i
              simp
        | awaitInit ts =>
          intro r' hknown
          have hres : x'.result = none := by rcases hsl with h1 | h1; · cases h1
                                             · exact h1.trans hr0
          refine h.afterWorker r' rfl ?_ (hwk0 _) ?_ hknown (fun c' hc' => Or.inl (by simpa [hsp0] using hc'))
          · intro w e he; exact mem_upd_append_left he
          · show WSched ((s.setWk i _).wk i)
            simp only [setWk_wk, upd_same]
            exact hW2.parkSelecting hns2 hx2 hres
        | blocked =>
          intro r' hknown
          have hres : x'.result = none := by rcases hsl with h1 | h1; · cases h1
                                             · exact h1.trans hr0
          refine h.afterWorker r' rfl hev0 (hwk0 _) ?_ hknown (fun c' hc' => Or.inl (by simpa [hsp0] using hc'))
          simp only [setWk_wk, upd_same]
          exact hW2.parkSelecting hns2 hx2 hres
        | failed =>
          intro r' hknown
          refine h.afterWorker r' (by simp) (fun w e he => mem_noteExit_evtQ i cur x' he) (fun w hw => by simp [hwk0 _ w hw]) ?_ hknown
            (fun c' hc' => Or.inl (by simpa [hsp0] using hc'))
          simp only [noteExit_wk, setWk_wk, upd_same]
          exact hW2.finish hns2 _ _
        | done =>
          intro r' hknown
          refine h.afterWorker r' (by simp) (fun w e he => mem_noteExit_evtQ i cur x' he) (fun w hw => by simp [hwk0 _ w hw]) ?_ hknown
            (fun c' hc' => Or.inl (by simpa [hsp0] using hc'))
          simp only [noteExit_wk, setWk_wk, upd_same]
          exact hW2.finish hns2 _ _

structure CheckRel (s s' : Sys) (i : Wid) : Prop where
  cmdQ : s'.cmdQ = s.cmdQ
  evtQ : ∀ w e, e ∈ s.evtQ w → e ∈ s'.evtQ w
  wkOther : ∀ w, w ≠ i → s'.wk w = s.wk w
  queue : (s'.wk i).queue = (s.wk i).queue
  spawning : (s'.wk i).spawning = (s.wk i).spawning
  selecting : (s'.wk i).selecting = (s.wk i).selecting
  procs : (s'.wk i).procs = (s.wk i).procs

theorem CheckRel.refl (s : Sys) (i : Wid) : CheckRel s s i :=
  ⟨rfl, fun _ _ h => h, fun _ _ => rfl, rfl, rfl, rfl, rfl⟩

theorem CheckRel.trans {s s' s'' : Sys} {i : Wid} (h1 : CheckRel s s' i) (h2 : CheckRel s' s'' i) : CheckRel s s'' i :=
  ⟨h2.cmdQ.trans h1.cmdQ, fun w e he => h2.evtQ w e (h1.evtQ w e he), fun w hw => (h2.wkOther w hw).trans (h1.wkOther w hw),
   h2.queue.trans h1.queue, h2.spawning.trans h1.spawning, h2.selecting.trans h1.selecting, h2.procs.trans h1.procs⟩

theorem CheckRel.foldl {α : Type} {i : Wid} (f : Sys → α → Sys) (hf : ∀ s a, CheckRel s (f s a) i) :
    ∀ (l : List α) (s : Sys), CheckRel s (l.foldl f s) i
  | [], s => CheckRel.refl s i
  | a :: l, s => (hf s a).trans (CheckRel.foldl f hf l (f s a))

theorem CheckRel.pushEvtReported (s : Sys) (i : Wid) (e : Evt) (rep : List (Pid × Pid)) :
    CheckRel s { s.pushEvt i e with reported := rep } i :=
  ⟨rfl, fun w e' he => mem_upd_append_left he, fun _ _ => rfl, rfl, rfl, rfl, rfl⟩

theorem CheckRel.pushEvt (s : Sys) (i : Wid) (e : Evt) : CheckRel s (s.pushEvt i e) i :=
  ⟨rfl, fun w e' he => mem_upd_append_left he, fun _ _ => rfl, rfl, rfl, rfl, rfl⟩

theorem CheckRel.reportTarget (s : Sys) (i : Wid) (t : Pid) : CheckRel s (reportTarget s i t) i := by
  unfold QM.Sys.reportTarget
  dsimp only
  split
  · exact CheckRel.refl s i
  · rename_i r _
    have h1 : ∀ (l : List Pid) (s0 : Sys),
        CheckRel s0 (l.foldl (fun acc a => { acc.pushEvt i (.procResults a [(t, some r)]) with reported := acc.reported ++ [(a, t)] }) s0) i :=
      CheckRel.foldl _ (fun s0 a => CheckRel.pushEvtReported s0 i _ _)
    have h2 := h1 ((s.wk i).awaitersFor t) s
    generalize List.foldl _ s ((s.wk i).awaitersFor t) = s1 at h2
    refine ⟨h2.cmdQ, h2.evtQ, ?_, ?_, ?_, ?_, ?_⟩
    · intro w hw; rw [wk_setWk_other _ _ _ _ hw]; exact h2.wkOther w hw
    all_goals simp

theorem CheckRel.answerRequests (s : Sys) (i : Wid) (p : Pid) : CheckRel s (answerRequests s i p) i := by
  unfold QM.Sys.answerRequests
  dsimp only
  split
  · exact CheckRel.refl s i
  · rename_i r _
    have h1 : ∀ (l : List Nat) (s0 : Sys),
        CheckRel s0 (l.foldl (fun acc req => acc.pushEvt i (.resultResp req r)) s0) i :=
      CheckRel.foldl _ (fun s0 a => CheckRel.pushEvt s0 i _)
    have h2 := h1 ((s.wk i).resultReqs p) s
    generalize List.foldl _ s ((s.wk i).resultReqs p) = s1 at h2
    refine ⟨h2.cmdQ, h2.evtQ, ?_, ?_, ?_, ?_, ?_⟩
    · intro w hw; rw [wk_setWk_other _ _ _ _ hw]; exact h2.wkOther w hw
    all_goals simp

theorem CheckRel.checkStep (s : Sys) (i : Wid) (ordE : List Pid) : CheckRel s (checkStep s i ordE) i := by
  unfold QM.Sys.checkStep
  dsimp only
  exact (CheckRel.foldl _ (fun a t => CheckRel.reportTarget a i t) _ s).trans
    (CheckRel.foldl _ (fun a p => CheckRel.answerRequests a i p) _ _)

theorem SInv.checkStep {s : Sys} (h : SInv s) (i : Wid) (ordE : List Pid) : SInv (checkStep s i ordE) := by
  have hc := CheckRel.checkStep s i ordE
  have hshape := Shape.checkStep s i ordE
  refine h.afterWorker (h.r.checkStep i ordE) hc.cmdQ hc.evtQ hc.wkOther ?_ (fun p hp => (hshape.known i p).mp hp)
    (fun c' hc' => Or.inl (hc.spawning ▸ hc'))
  exact (h.sched i).congr hc.queue hc.spawning hc.selecting (fun p x _ hx hr => ⟨x, by rw [hc.procs]; exact hx, hr⟩)

theorem SInv.of_started {s : Sys} (h : Started s) : SInv s := by
  refine { r := RInv.of_started h, fresh := ?_, sched := ?_, spawner := ?_ }
  · intro w
    rw [(Inert.facts (K := fun _ => True) (h.inert w)).2.2.2]
    exact ⟨List.nodup_nil, fun _ hp => by simp at hp⟩
  · intro w
    rw [h.wk_at]
    split
    · refine { qnd := by simp [W0started], spnd := by simp [W0started, W0init, WorkerSt.setProc, WorkerSt.empty],
               send := by simp [W0started, W0init, WorkerSt.setProc, WorkerSt.empty], dqs := ?_, dss := ?_, live := ?_ }
      · intro p _; simp [W0started, W0init, WorkerSt.setProc, WorkerSt.empty]
      · intro p hp; simp [W0started, W0init, WorkerSt.setProc, WorkerSt.empty] at hp
      · intro p hp
        have : p = 0 := by simpa [W0started, W0init, WorkerSt.setProc, WorkerSt.empty] using hp
        subst this
        rw [W0started_procs]; simp
    · refine { qnd := by simp [WorkerSt.empty], spnd := by simp [WorkerSt.empty], send := by simp [WorkerSt.empty],
               dqs := ?_, dss := ?_, live := ?_ }
      · intro p hp; simp [WorkerSt.empty] at hp
      · intro p hp; simp [WorkerSt.empty] at hp
      · intro p hp; simp [WorkerSt.empty] at hp
  · intro w c hc
    rw [h.wk_at] at hc
    split at hc <;> simp [W0started, W0init, WorkerSt.setProc, WorkerSt.empty] at hc

theorem SInv.micro {R : Rules} (hR : R.Sane) {s : Sys} (h : SInv s) (m : Micro) : SInv (microStep R s m) := by
  cases m with
  | env w => exact h.envStep1 R.combine w
  | cmd i => exact h.cmdStep1 hR i
  | exec i fuel ordQ => exact h.execStep i fuel ordQ
  | check i ordE => exact h.checkStep i ordE
  | tick ms => exact { r := { h.r with }, fresh := h.fresh, sched := h.sched, spawner := h.spawner }

end QM.Sys
