import QuiverModel.Lemmas.Sys.Await
/-
Locality of worker steps and commutation of steps of different workers (C03).

A step of worker `i` reads only `wk i`, `cmdQ i`, `evtQ i`, `prog`, `now` (`AgreeAt`), writes only
`wk i`, `cmdQ i`, `evtQ i`, the fault flag (monotonically) and the ghost histories (`Frame`).
Hence steps of two different workers commute on everything but the ghost histories (`CoreEq`).
Also: additivity of the time slice in its attempt budget (`slice_add`).
-/
namespace QM.Sys
set_option linter.unusedSectionVars false
variable [Cfg]

/-! ### time-slice additivity -/

/-- continue with another `f2` attempts if the slice ended only because its budget was used up -/
def contWith (prog : Prog) (now : Nat) (self : Pid) (f2 : Nat) : Proc × Outcome → Proc × Outcome
  | (p', .cont) => slice prog now self f2 p'
  | r => r

theorem slice_add (prog : Prog) (now : Nat) (self : Pid) : ∀ (f1 f2 : Nat) (p : Proc),
    slice prog now self (f1 + f2) p = contWith prog now self f2 (slice prog now self f1 p)
  | 0, f2, p => by simp [slice, contWith]
  | f1 + 1, f2, p => by
    have e : f1 + 1 + f2 = (f1 + f2) + 1 := by omega
    rw [e]
    unfold slice
    split
    · rfl
    · rfl
    · split <;> rfl
    · rfl
    · split
      · dsimp only
        split
        · exact slice_add prog now self f1 f2 _
        · rfl
      · split
        · rfl
        · dsimp only
          split
          · exact slice_add prog now self f1 f2 _
          · rfl
          · rfl

/-! ### locality -/

/-- the two states agree on everything a step of worker `i` can see -/
structure AgreeAt (s s' : Sys) (i : Wid) : Prop where
  wk : s.wk i = s'.wk i
  cmdQ : s.cmdQ i = s'.cmdQ i
  evtQ : s.evtQ i = s'.evtQ i
  prog : s.prog = s'.prog
  now : s.now = s'.now

/-- `s'` differs from `s` only at worker `i` (and in fault flag / ghost histories) -/
structure Frame (s s' : Sys) (i : Wid) : Prop where
  wk : ∀ k, k ≠ i → s'.wk k = s.wk k
  cmdQ : ∀ k, k ≠ i → s'.cmdQ k = s.cmdQ k
  evtQ : ∀ k, k ≠ i → s'.evtQ k = s.evtQ k
  env : s'.env = s.env
  prog : s'.prog = s.prog
  now : s'.now = s.now
  n : s'.n = s.n

/-- the fault flag is kept by both runs or raised by both -/
def FaultSync (s s' t t' : Sys) : Prop :=
  (t.fault = s.fault ∧ t'.fault = s'.fault) ∨ (t.fault = true ∧ t'.fault = true)

/-- a local step function of worker `i` -/
structure Local (m : Sys → Sys) (i : Wid) : Prop where
  loc : ∀ s s', AgreeAt s s' i → AgreeAt (m s) (m s') i
  frame : ∀ s, Frame s (m s) i
  fault : ∀ s s', AgreeAt s s' i → FaultSync s s' (m s) (m s')

theorem Frame.refl (s : Sys) (i : Wid) : Frame s s i :=
  ⟨fun _ _ => rfl, fun _ _ => rfl, fun _ _ => rfl, rfl, rfl, rfl, rfl⟩

theorem Frame.trans {s s' s'' : Sys} {i : Wid} (h1 : Frame s s' i) (h2 : Frame s' s'' i) : Frame s s'' i :=
  ⟨fun k hk => (h2.wk k hk).trans (h1.wk k hk), fun k hk => (h2.cmdQ k hk).trans (h1.cmdQ k hk),
   fun k hk => (h2.evtQ k hk).trans (h1.evtQ k hk), h2.env.trans h1.env, h2.prog.trans h1.prog, h2.now.trans h1.now,
   h2.n.trans h1.n⟩

theorem Local.id (i : Wid) : Local (fun s => s) i :=
  ⟨fun _ _ h => h, fun s => Frame.refl s i, fun _ _ _ => Or.inl ⟨rfl, rfl⟩⟩

theorem Local.comp {m1 m2 : Sys → Sys} {i : Wid} (h1 : Local m1 i) (h2 : Local m2 i) : Local (fun s => m2 (m1 s)) i := by
  refine ⟨fun s s' h => h2.loc _ _ (h1.loc s s' h), fun s => (h1.frame s).trans (h2.frame _), ?_⟩
  intro s s' h
  rcases h1.fault s s' h with ⟨a1, a2⟩ | ⟨a1, a2⟩ <;> rcases h2.fault _ _ (h1.loc s s' h) with ⟨b1, b2⟩ | ⟨b1, b2⟩
  · exact Or.inl ⟨b1.trans a1, b2.trans a2⟩
  · exact Or.inr ⟨b1, b2⟩
  · exact Or.inr ⟨b1.trans a1, b2.trans a2⟩
  · exact Or.inr ⟨b1, b2⟩

theorem Local.iter {m : Sys → Sys} {i : Wid} (h : Local m i) : ∀ k, Local (QM.Sys.iter m k) i
  | 0 => Local.id i
  | k + 1 => by
    have : QM.Sys.iter m (k + 1) = fun s => QM.Sys.iter m k (m s) := by funext s; rfl
    rw [this]
    exact Local.comp h (Local.iter h k)

/-! #### the command step -/

theorem handleCmd_agree (R : Rules) (s s' : Sys) (i : Wid) (c : Cmd)
    (h1 : s.wk i = s'.wk i) (h3 : s.evtQ i = s'.evtQ i) (h4 : s.prog = s'.prog) :
    (handleCmdWith R s i c).wk i = (handleCmdWith R s' i c).wk i ∧
    (handleCmdWith R s i c).evtQ i = (handleCmdWith R s' i c).evtQ i := by
  cases c <;> simp only [handleCmdWith, h1, h3, h4] <;> (repeat' split) <;>
    simp [Sys.setWk, Sys.pushEvt, Sys.setFault, h1, h3]

theorem handleCmd_frame (R : Rules) (s : Sys) (i : Wid) (c : Cmd) :
    (handleCmdWith R s i c).cmdQ = s.cmdQ ∧ (handleCmdWith R s i c).env = s.env ∧ (handleCmdWith R s i c).prog = s.prog ∧
    (handleCmdWith R s i c).now = s.now ∧ (handleCmdWith R s i c).n = s.n ∧
    (∀ k, k ≠ i → (handleCmdWith R s i c).wk k = s.wk k ∧ (handleCmdWith R s i c).evtQ k = s.evtQ k) := by
  cases c <;> simp only [handleCmdWith] <;> (repeat' split) <;>
    simp (config := { contextual := true }) [Sys.setWk, Sys.pushEvt, Sys.setFault]

theorem handleCmd_fault (R : Rules) (s s' : Sys) (i : Wid) (c : Cmd)
    (h1 : s.wk i = s'.wk i) (h4 : s.prog = s'.prog) :
    FaultSync s s' (handleCmdWith R s i c) (handleCmdWith R s' i c) := by
  unfold FaultSync
  cases c <;> simp only [handleCmdWith, h1, h4] <;> (repeat' split) <;>
    simp [Sys.setWk, Sys.pushEvt, Sys.setFault]

theorem Local.cmdStep1 (R : Rules) (i : Wid) : Local (fun s => cmdStep1With R s i) i := by
  refine ⟨?_, ?_, ?_⟩
  · intro s s' h
    simp only [cmdStep1With, ← h.cmdQ]
    cases hq : s.cmdQ i with
    | nil => exact h
    | cons c rest =>
      dsimp only
      have ha := handleCmd_agree R { s with cmdQ := upd s.cmdQ i rest } { s' with cmdQ := upd s'.cmdQ i rest } i c h.wk h.evtQ h.prog
      have f1 := handleCmd_frame R { s with cmdQ := upd s.cmdQ i rest } i c
      have f2 := handleCmd_frame R { s' with cmdQ := upd s'.cmdQ i rest } i c
      refine ⟨ha.1, ?_, ha.2, ?_, ?_⟩
      · rw [f1.1, f2.1]; simp
      · rw [f1.2.2.1, f2.2.2.1]; exact h.prog
      · rw [f1.2.2.2.1, f2.2.2.2.1]; exact h.now
  · intro s
    simp only [cmdStep1With]
    cases hq : s.cmdQ i with
    | nil => exact Frame.refl s i
    | cons c rest =>
      dsimp only
      have f1 := handleCmd_frame R { s with cmdQ := upd s.cmdQ i rest } i c
      refine ⟨fun k hk => (f1.2.2.2.2.2 k hk).1, fun k hk => ?_, fun k hk => (f1.2.2.2.2.2 k hk).2, f1.2.1, f1.2.2.1,
              f1.2.2.2.1, f1.2.2.2.2.1⟩
      rw [f1.1]; simp [upd_other _ _ _ _ hk]
  · intro s s' h
    simp only [cmdStep1With, ← h.cmdQ]
    cases hq : s.cmdQ i with
    | nil => exact Or.inl ⟨rfl, rfl⟩
    | cons c rest =>
      exact handleCmd_fault R { s with cmdQ := upd s.cmdQ i rest } { s' with cmdQ := upd s'.cmdQ i rest } i c h.wk h.prog

/-! #### the executor step -/

theorem execStep_agree (s s' : Sys) (i : Wid) (fuel : Nat) (ordQ : List Pid) (h : AgreeAt s s' i) :
    (execStep s i fuel ordQ).wk i = (execStep s' i fuel ordQ).wk i ∧
    (execStep s i fuel ordQ).evtQ i = (execStep s' i fuel ordQ).evtQ i := by
  have he := h.evtQ
  simp only [execStep, Sys.noteExit, h.wk, h.prog, h.now] <;> (repeat' split) <;>
    simp_all [Sys.setWk, Sys.pushEvt]

theorem execStep_frame (s : Sys) (i : Wid) (fuel : Nat) (ordQ : List Pid) :
    (execStep s i fuel ordQ).cmdQ = s.cmdQ ∧ (execStep s i fuel ordQ).env = s.env ∧ (execStep s i fuel ordQ).prog = s.prog ∧
    (execStep s i fuel ordQ).now = s.now ∧ (execStep s i fuel ordQ).n = s.n ∧ (execStep s i fuel ordQ).fault = s.fault ∧
    (∀ k, k ≠ i → (execStep s i fuel ordQ).wk k = s.wk k ∧ (execStep s i fuel ordQ).evtQ k = s.evtQ k) := by
  simp only [execStep, Sys.noteExit] <;> (repeat' split) <;>
    simp (config := { contextual := true }) [Sys.setWk, Sys.pushEvt]

theorem Local.execStep (i : Wid) (fuel : Nat) (ordQ : List Pid) : Local (fun s => execStep s i fuel ordQ) i := by
  refine ⟨?_, ?_, ?_⟩
  · intro s s' h
    have ha := execStep_agree s s' i fuel ordQ h
    have f1 := execStep_frame s i fuel ordQ
    have f2 := execStep_frame s' i fuel ordQ
    exact ⟨ha.1, by rw [f1.1, f2.1]; exact h.cmdQ, ha.2, by rw [f1.2.2.1, f2.2.2.1]; exact h.prog,
           by rw [f1.2.2.2.1, f2.2.2.2.1]; exact h.now⟩
  · intro s
    have f1 := execStep_frame s i fuel ordQ
    exact ⟨fun k hk => (f1.2.2.2.2.2.2 k hk).1, fun k _ => by rw [f1.1], fun k hk => (f1.2.2.2.2.2.2 k hk).2, f1.2.1,
           f1.2.2.1, f1.2.2.2.1, f1.2.2.2.2.1⟩
  · intro s s' _
    exact Or.inl ⟨(execStep_frame s i fuel ordQ).2.2.2.2.2.1, (execStep_frame s' i fuel ordQ).2.2.2.2.2.1⟩

/-! #### the completion check -/

theorem Local.bindList {α : Type} {i : Wid} (L : Sys → List α) (f : Sys → α → Sys)
    (hL : ∀ s s', AgreeAt s s' i → L s = L s') (hf : ∀ a, Local (fun s => f s a) i) :
    Local (fun s => (L s).foldl f s) i := by
  have hfix : ∀ l : List α, Local (fun s => l.foldl f s) i := by
    intro l
    induction l with
    | nil => exact Local.id i
    | cons a l ih => exact Local.comp (hf a) ih
  refine ⟨?_, fun s => (hfix (L s)).frame s, ?_⟩
  · intro s s' h
    have := (hfix (L s)).loc s s' h
    rw [hL s s' h] at this ⊢
    exact this
  · intro s s' h
    have := (hfix (L s)).fault s s' h
    rw [hL s s' h] at this ⊢
    exact this

/-- explicit effect of a fold of event pushes (with an arbitrary update of the `reported` ghost) -/
theorem foldPushEvt_explicit {α : Type} (i : Wid) (g : α → Evt) (gh : Sys → α → List (Pid × Pid)) :
    ∀ (l : List α) (s : Sys),
      let s1 := l.foldl (fun acc a => { acc.pushEvt i (g a) with reported := gh acc a }) s
      s1.evtQ = upd s.evtQ i (s.evtQ i ++ l.map g) ∧ s1.wk = s.wk ∧ s1.cmdQ = s.cmdQ ∧ s1.env = s.env ∧
      s1.prog = s.prog ∧ s1.now = s.now ∧ s1.n = s.n ∧ s1.fault = s.fault
  | [], s => by simp
  | a :: l, s => by
    have ih := foldPushEvt_explicit i g gh l { s.pushEvt i (g a) with reported := gh s a }
    simp only [List.foldl_cons, List.map_cons] at ih ⊢
    obtain ⟨i1, i2, i3, i4, i5, i6, i7, i8⟩ := ih
    refine ⟨?_, i2, i3, i4, i5, i6, i7, i8⟩
    rw [i1]; simp [Sys.pushEvt, List.append_assoc]

theorem reportTarget_explicit (s : Sys) (i : Wid) (t : Pid) :
    (reportTarget s i t).cmdQ = s.cmdQ ∧ (reportTarget s i t).env = s.env ∧ (reportTarget s i t).prog = s.prog ∧
    (reportTarget s i t).now = s.now ∧ (reportTarget s i t).n = s.n ∧ (reportTarget s i t).fault = s.fault ∧
    (∀ k, k ≠ i → (reportTarget s i t).wk k = s.wk k ∧ (reportTarget s i t).evtQ k = s.evtQ k) ∧
    (reportTarget s i t).wk i = (match (s.wk i).resultOf t with
      | none => s.wk i
      | some _ => { s.wk i with awaitersFor := upd (s.wk i).awaitersFor t [], awaited := serase (s.wk i).awaited t }) ∧
    (reportTarget s i t).evtQ i = (match (s.wk i).resultOf t with
      | none => s.evtQ i
      | some r => s.evtQ i ++ ((s.wk i).awaitersFor t).map (fun a => Evt.procResults a [(t, some r)])) := by
  unfold QM.Sys.reportTarget
  dsimp only
  cases hres : (s.wk i).resultOf t with
  | none => simp
  | some r =>
    dsimp only
    have hf := foldPushEvt_explicit i (fun a => Evt.procResults a [(t, some r)]) (fun acc a => acc.reported ++ [(a, t)])
      ((s.wk i).awaitersFor t) s
    dsimp only at hf
    generalize List.foldl _ s ((s.wk i).awaitersFor t) = s1 at hf
    obtain ⟨h1, h2, h3, h4, h5, h6, h7, h8⟩ := hf
    refine ⟨h3, h4, h5, h6, h7, h8, ?_, by simp, by simp [h1]⟩
    intro k hk
    simp [upd_other _ _ _ _ hk, h1, h2]

theorem Local.reportTarget (i : Wid) (t : Pid) : Local (fun s => reportTarget s i t) i := by
  refine ⟨?_, ?_, ?_⟩
  · intro s s' h
    obtain ⟨a1, _, a3, a4, _, _, _, a8, a9⟩ := reportTarget_explicit s i t
    obtain ⟨b1, _, b3, b4, _, _, _, b8, b9⟩ := reportTarget_explicit s' i t
    refine ⟨by rw [a8, b8, h.wk], by rw [a1, b1, h.cmdQ], by rw [a9, b9, h.wk, h.evtQ], by rw [a3, b3, h.prog],
            by rw [a4, b4, h.now]⟩
  · intro s
    obtain ⟨a1, a2, a3, a4, a5, _, a7, _, _⟩ := reportTarget_explicit s i t
    exact ⟨fun k hk => (a7 k hk).1, fun k _ => by rw [a1], fun k hk => (a7 k hk).2, a2, a3, a4, a5⟩
  · intro s s' _
    exact Or.inl ⟨(reportTarget_explicit s i t).2.2.2.2.2.1, (reportTarget_explicit s' i t).2.2.2.2.2.1⟩

theorem answerRequests_explicit (s : Sys) (i : Wid) (p : Pid) :
    (answerRequests s i p).cmdQ = s.cmdQ ∧ (answerRequests s i p).env = s.env ∧ (answerRequests s i p).prog = s.prog ∧
    (answerRequests s i p).now = s.now ∧ (answerRequests s i p).n = s.n ∧ (answerRequests s i p).fault = s.fault ∧
    (∀ k, k ≠ i → (answerRequests s i p).wk k = s.wk k ∧ (answerRequests s i p).evtQ k = s.evtQ k) ∧
    (answerRequests s i p).wk i = (match (s.wk i).resultOf p with
      | none => s.wk i
      | some _ => { s.wk i with resultReqKeys := serase (s.wk i).resultReqKeys p, resultReqs := upd (s.wk i).resultReqs p [] }) ∧
    (answerRequests s i p).evtQ i = (match (s.wk i).resultOf p with
      | none => s.evtQ i
      | some r => s.evtQ i ++ ((s.wk i).resultReqs p).map (fun req => Evt.resultResp req r)) := by
  unfold QM.Sys.answerRequests
  dsimp only
  cases hres : (s.wk i).resultOf p with
  | none => simp
  | some r =>
    dsimp only
    have hf := foldPushEvt_explicit i (fun req => Evt.resultResp req r) (fun acc _ => acc.reported)
      ((s.wk i).resultReqs p) s
    dsimp only at hf
    have hsame : (fun (acc : Sys) (req : Nat) => ({ acc.pushEvt i (Evt.resultResp req r) with reported := acc.reported } : Sys)) =
        (fun (acc : Sys) (req : Nat) => acc.pushEvt i (Evt.resultResp req r)) := by funext acc req; rfl
    rw [hsame] at hf
    generalize List.foldl _ s ((s.wk i).resultReqs p) = s1 at hf
    obtain ⟨h1, h2, h3, h4, h5, h6, h7, h8⟩ := hf
    refine ⟨h3, h4, h5, h6, h7, h8, ?_, by simp, by simp [h1]⟩
    intro k hk
    simp [upd_other _ _ _ _ hk, h1, h2]

theorem Local.answerRequests (i : Wid) (p : Pid) : Local (fun s => answerRequests s i p) i := by
  refine ⟨?_, ?_, ?_⟩
  · intro s s' h
    obtain ⟨a1, _, a3, a4, _, _, _, a8, a9⟩ := answerRequests_explicit s i p
    obtain ⟨b1, _, b3, b4, _, _, _, b8, b9⟩ := answerRequests_explicit s' i p
    refine ⟨by rw [a8, b8, h.wk], by rw [a1, b1, h.cmdQ], by rw [a9, b9, h.wk, h.evtQ], by rw [a3, b3, h.prog],
            by rw [a4, b4, h.now]⟩
  · intro s
    obtain ⟨a1, a2, a3, a4, a5, _, a7, _, _⟩ := answerRequests_explicit s i p
    exact ⟨fun k hk => (a7 k hk).1, fun k _ => by rw [a1], fun k hk => (a7 k hk).2, a2, a3, a4, a5⟩
  · intro s s' _
    exact Or.inl ⟨(answerRequests_explicit s i p).2.2.2.2.2.1, (answerRequests_explicit s' i p).2.2.2.2.2.1⟩

theorem Local.checkStep (i : Wid) (ordE : List Pid) : Local (fun s => checkStep s i ordE) i := by
  have h1 : Local (fun s => (orderBy ordE (completedAwaited (s.wk i))).foldl (fun acc t => QM.Sys.reportTarget acc i t) s) i :=
    Local.bindList _ _ (fun s s' h => by rw [h.wk]) (fun t => Local.reportTarget i t)
  have h2 : Local (fun s => (s.wk i).resultReqKeys.foldl (fun acc p => QM.Sys.answerRequests acc i p) s) i :=
    Local.bindList _ _ (fun s s' h => by rw [h.wk]) (fun p => Local.answerRequests i p)
  exact Local.comp h1 h2

/-- `Worker::step` of worker `i` is a local step function of worker `i`. -/
theorem Local.workerStep (R : Rules) (i : Wid) (vis fuel : Nat) (ordQ ordE : List Pid) :
    Local (fun s => workerStepWith R s i vis fuel ordQ ordE) i := by
  have hc : Local (fun s => QM.Sys.iter (fun a => cmdStep1With R a i) (min vis (s.cmdQ i).length) s) i := by
    have hfix : ∀ k, Local (fun s => QM.Sys.iter (fun a => cmdStep1With R a i) k s) i := fun k => Local.iter (Local.cmdStep1 R i) k
    refine ⟨?_, fun s => (hfix _).frame s, ?_⟩
    · intro s s' h
      have := (hfix (min vis (s.cmdQ i).length)).loc s s' h
      rw [h.cmdQ] at this ⊢; exact this
    · intro s s' h
      have := (hfix (min vis (s.cmdQ i).length)).fault s s' h
      rw [h.cmdQ] at this ⊢; exact this
  exact Local.comp hc (Local.comp (Local.execStep i fuel ordQ) (Local.checkStep i ordE))

/-! ### commutation -/

/-- equality of two states on everything but the ghost histories -/
structure CoreEq (s s' : Sys) : Prop where
  n : s.n = s'.n
  prog : s.prog = s'.prog
  env : s.env = s'.env
  wk : s.wk = s'.wk
  cmdQ : s.cmdQ = s'.cmdQ
  evtQ : s.evtQ = s'.evtQ
  now : s.now = s'.now
  fault : s.fault = s'.fault

theorem Frame.agreeAt {s s' : Sys} {i j : Wid} (h : Frame s s' j) (hij : i ≠ j) : AgreeAt s s' i :=
  ⟨(h.wk i hij).symm, (h.cmdQ i hij).symm, (h.evtQ i hij).symm, h.prog.symm, h.now.symm⟩

/-- **Local steps of two different workers commute** (on everything but the ghost histories). -/
theorem local_commute {A B : Sys → Sys} {i j : Wid} (hA : Local A i) (hB : Local B j) (hij : i ≠ j) (s : Sys) :
    CoreEq (B (A s)) (A (B s)) := by
  have fA := hA.frame s
  have fB := hB.frame s
  have fBA := hB.frame (A s)
  have fAB := hA.frame (B s)
  -- A sees the same after B, and B the same after A
  have aA := hA.loc s (B s) (fB.agreeAt hij)
  have aB := hB.loc s (A s) (fA.agreeAt (Ne.symm hij))
  refine ⟨?_, ?_, ?_, ?_, ?_, ?_, ?_, ?_⟩
  · rw [fBA.n, fA.n, fAB.n, fB.n]
  · rw [fBA.prog, fA.prog, fAB.prog, fB.prog]
  · rw [fBA.env, fA.env, fAB.env, fB.env]
  · funext k
    by_cases hki : k = i
    · subst hki; rw [fBA.wk k hij]; exact aA.wk
    · by_cases hkj : k = j
      · subst hkj; rw [fAB.wk k (Ne.symm hij)]; exact aB.wk.symm
      · rw [fBA.wk k hkj, fA.wk k hki, fAB.wk k hki, fB.wk k hkj]
  · funext k
    by_cases hki : k = i
    · subst hki; rw [fBA.cmdQ k hij]; exact aA.cmdQ
    · by_cases hkj : k = j
      · subst hkj; rw [fAB.cmdQ k (Ne.symm hij)]; exact aB.cmdQ.symm
      · rw [fBA.cmdQ k hkj, fA.cmdQ k hki, fAB.cmdQ k hki, fB.cmdQ k hkj]
  · funext k
    by_cases hki : k = i
    · subst hki; rw [fBA.evtQ k hij]; exact aA.evtQ
    · by_cases hkj : k = j
      · subst hkj; rw [fAB.evtQ k (Ne.symm hij)]; exact aB.evtQ.symm
      · rw [fBA.evtQ k hkj, fA.evtQ k hki, fAB.evtQ k hki, fB.evtQ k hkj]
  · rw [fBA.now, fA.now, fAB.now, fB.now]
  · rcases hA.fault s (B s) (fB.agreeAt hij) with ⟨a1, a2⟩ | ⟨a1, a2⟩ <;>
      rcases hB.fault s (A s) (fA.agreeAt (Ne.symm hij)) with ⟨b1, b2⟩ | ⟨b1, b2⟩
    · rw [b2, a1, a2, b1]
    · rw [b2, a2, b1]
    · rw [b2, a1, a2]
    · rw [b2, a2]

end QM.Sys
