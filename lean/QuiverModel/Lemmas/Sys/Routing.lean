import QuiverModel.Lemmas.Sys.Frame
/-
The routing invariant of M-Sys (`RInv`): every pid that occurs anywhere (queues, registers,
awaiter tables) has been allocated by the environment and is routed; a process lives on the
worker the router names; commands sit in the queue of the worker they concern; no
`EnvironmentError` has occurred.  Preserved by every micro-step, hence by every `sysStep`.
-/
namespace QM.Sys
set_option linter.unusedSectionVars false
variable [Cfg]

abbrev Router := Pid → Option Wid

def Routed (router : Router) (p : Pid) : Prop := (router p).isSome

/-- `r'` extends `r` (the router only ever gains fresh pids). -/
def Ext (r r' : Router) : Prop := ∀ p w, r p = some w → r' p = some w

theorem Ext.refl (r : Router) : Ext r r := fun _ _ h => h
theorem Ext.routed {r r' : Router} (h : Ext r r') {p : Pid} (hp : Routed r p) : Routed r' p := by
  unfold Routed at *
  match hr : r p with
  | some w => simp [h p w hr]
  | none => simp [hr] at hp

def CmdOK (router : Router) (plen : Nat) (known : Pid → Prop) (w : Wid) : Cmd → Prop
  | .misc => True
  | .start _ => False
  | .resume _ _ => False
  | .spawn p fn regs => router p = some w ∧ fn < plen ∧ ∀ q ∈ regs, Routed router q
  | .notifySpawn c p => router c = some w ∧ Routed router p
  | .deliver t _ => router t = some w
  | .queryAwait a ts => Routed router a ∧ ∀ t ∈ ts, router t = some w
  | .updateAwait a _ => router a = some w
  | .getResult _ p => known p

def EvtOK (router : Router) (plen : Nat) (w : Wid) : Evt → Prop
  | .spawn c fn regs _ => router c = some w ∧ fn < plen ∧ ∀ q ∈ regs, Routed router q
  | .deliver t m => router m.src = some w ∧ Routed router t
  | .await a ts => router a = some w ∧ ∀ t ∈ ts, Routed router t
  | .procResults a rs => Routed router a ∧ ∀ tr ∈ rs, router tr.1 = some w
  | .resultResp _ _ => True
  | .exited _ => True

theorem CmdOK.mono {r r' : Router} {plen : Nat} {known known' : Pid → Prop} {w : Wid} {c : Cmd}
    (he : Ext r r') (hk : ∀ p, known p → known' p) (h : CmdOK r plen known w c) : CmdOK r' plen known' w c := by
  match c, h with
  | .misc, _ => trivial
  | .spawn _ _ _, h => exact ⟨he _ _ h.1, h.2.1, fun q hq => he.routed (h.2.2 q hq)⟩
  | .notifySpawn _ _, h => exact ⟨he _ _ h.1, he.routed h.2⟩
  | .deliver _ _, h => exact he _ _ h
  | .queryAwait _ _, h => exact ⟨he.routed h.1, fun t ht => he _ _ (h.2 t ht)⟩
  | .updateAwait _ _, h => exact he _ _ h
  | .getResult _ _, h => exact hk _ h

theorem EvtOK.mono {r r' : Router} {plen : Nat} {w : Wid} {e : Evt}
    (he : Ext r r') (h : EvtOK r plen w e) : EvtOK r' plen w e := by
  match e, h with
  | .spawn _ _ _ _, h => exact ⟨he _ _ h.1, h.2.1, fun q hq => he.routed (h.2.2 q hq)⟩
  | .deliver _ _, h => exact ⟨he _ _ h.1, he.routed h.2⟩
  | .await _ _, h => exact ⟨he _ _ h.1, fun t ht => he.routed (h.2 t ht)⟩
  | .procResults _ _, h => exact ⟨he.routed h.1, fun tr htr => he _ _ (h.2 tr htr)⟩
  | .resultResp _ _, _ => trivial
  | .exited _, _ => trivial

/-- Well-formed script table: every `spawn fn` names an existing script; script 0 exists. -/
def ProgWF (prog : Prog) : Prop :=
  0 < prog.length ∧ ∀ sc ∈ prog, ∀ fn pass, Act.spawn fn pass ∈ sc → fn < prog.length

def known (s : Sys) (w : Wid) (p : Pid) : Prop := ((s.wk w).procs p).isSome

structure RInv (s : Sys) : Prop where
  nofault : s.fault = false
  progwf : ProgWF s.prog
  below : ∀ p w, s.env.router p = some w → p < s.env.nextPid
  zero : Routed s.env.router 0
  wbound : ∀ p w, s.env.router p = some w → w < s.n
  placed : ∀ w p, known s w p → s.env.router p = some w
  cmds : ∀ w c, c ∈ s.cmdQ w → CmdOK s.env.router s.prog.length (known s w) w c
  evts : ∀ w e, e ∈ s.evtQ w → EvtOK s.env.router s.prog.length w e
  regs : ∀ w p x, (s.wk w).procs p = some x → ∀ q ∈ x.regs, Routed s.env.router q
  awaiters : ∀ w t a, a ∈ (s.wk w).awaitersFor t → Routed s.env.router a

/-! ### environment micro-step -/

theorem ext_insert_fresh {s : Sys} (h : RInv s) (w : Wid) :
    Ext s.env.router (upd s.env.router s.env.nextPid (some w)) := by
  intro p w' hp
  have hlt := h.below p w' hp
  have hne : p ≠ s.env.nextPid := Nat.ne_of_lt hlt
  simp [hne, hp]

theorem mem_upd_append {α : Type} {q : Nat → List α} {w w' : Nat} {c c' : α}
    (h : c' ∈ upd q w (q w ++ [c]) w') : c' ∈ q w' ∨ (w' = w ∧ c' = c) := by
  simp only [upd_apply] at h
  split at h
  · rename_i e; subst e; simp at h; rcases h with h | h
    · exact Or.inl h
    · exact Or.inr ⟨rfl, h⟩
  · exact Or.inl h

/-- Pushing a well-formed command preserves the invariant. -/
theorem RInv.pushCmd {s : Sys} (h : RInv s) (w : Wid) (c : Cmd)
    (hc : CmdOK s.env.router s.prog.length (known s w) w c) : RInv (s.pushCmd w c) := by
  refine { h with cmds := ?_ }
  intro w' c' hc'
  simp only [pushCmd_cmdQ] at hc'
  rcases mem_upd_append hc' with h1 | ⟨rfl, rfl⟩
  · exact h.cmds w' c' h1
  · exact hc

theorem RInv.pushEvt {s : Sys} (h : RInv s) (w : Wid) (e : Evt)
    (he : EvtOK s.env.router s.prog.length w e) : RInv (s.pushEvt w e) := by
  refine { h with evts := ?_ }
  intro w' e' he'
  simp only [pushEvt_evtQ] at he'
  rcases mem_upd_append he' with h1 | ⟨rfl, rfl⟩
  · exact h.evts w' e' h1
  · exact he

theorem RInv.noteExit {s : Sys} (h : RInv s) (i : Wid) (cur : Pid) (x : Proc) : RInv (s.noteExit i cur x) := by
  rcases noteExit_eq s i cur x with e | e
  · rw [e]; exact h
  · rw [e]; exact h.pushEvt i _ trivial

theorem mem_upd_tail {α : Type} {q : Nat → List α} {w w' : Nat} {c c' : α} {rest : List α}
    (hq : q w = c :: rest) (h : c' ∈ upd q w rest w') : c' ∈ q w' := by
  simp only [upd_apply] at h
  split at h
  · rename_i e; subst e; rw [hq]; exact List.mem_cons_of_mem _ h
  · exact h

theorem RInv.popEvt {s : Sys} (h : RInv s) {w : Wid} {e : Evt} {rest : List Evt} (hq : s.evtQ w = e :: rest) :
    RInv { s with evtQ := upd s.evtQ w rest } ∧ EvtOK s.env.router s.prog.length w e := by
  refine ⟨{ h with evts := ?_ }, h.evts w e (by rw [hq]; simp)⟩
  intro w' e' he'
  exact h.evts w' e' (mem_upd_tail hq he')

theorem RInv.popCmd {s : Sys} (h : RInv s) {w : Wid} {c : Cmd} {rest : List Cmd} (hq : s.cmdQ w = c :: rest) :
    RInv { s with cmdQ := upd s.cmdQ w rest } ∧ CmdOK s.env.router s.prog.length (known s w) w c := by
  refine ⟨{ h with cmds := ?_ }, h.cmds w c (by rw [hq]; simp)⟩
  intro w' c' hc'
  exact h.cmds w' c' (mem_upd_tail hq hc')

theorem RInv.handleSpawn {s : Sys} (h : RInv s) {w0 : Wid} {caller : Pid} {fn : Nat} {regs : List Pid} {coloc : Option Pid}
    (he : EvtOK s.env.router s.prog.length w0 (.spawn caller fn regs coloc)) :
    RInv (handleSpawn s caller fn regs coloc) := by
  obtain ⟨hc, hfn, hregs⟩ := he
  simp only [QM.Sys.handleSpawn]
  have hwn : placement s coloc s.env.nextPid < s.n := by
    unfold placement
    split
    · rename_i w' hb
      cases hco : coloc with
      | none => simp [hco] at hb
      | some o => simp [hco] at hb; exact h.wbound o w' hb
    · exact Nat.mod_lt _ (Nat.lt_of_le_of_lt (Nat.zero_le _) (h.wbound 0 _ (Option.get_mem h.zero)))
  generalize placement s coloc s.env.nextPid = w at hwn ⊢
  have hext := ext_insert_fresh h w
  -- the state after allocation
  have h1 : RInv { s with env := { s.env with nextPid := s.env.nextPid + 1, router := upd s.env.router s.env.nextPid (some w) } } := by
    refine { nofault := h.nofault, progwf := h.progwf, below := ?_, zero := hext.routed h.zero, wbound := ?_, placed := ?_,
             cmds := ?_, evts := ?_, regs := ?_, awaiters := ?_ }
    · intro p w' hp
      simp only [upd_apply] at hp
      split at hp
      · rename_i e; subst e; exact Nat.lt_succ_self _
      · have := h.below p w' hp; exact Nat.lt_succ_of_lt this
    · intro p w' hp
      simp only [upd_apply] at hp
      split at hp
      · simp only [Option.some.injEq] at hp; subst hp; exact hwn
      · exact h.wbound p w' hp
    · intro w' p hp; exact hext _ _ (h.placed w' p hp)
    · intro w' c hc'; exact (h.cmds w' c hc').mono hext (fun _ hk => hk)
    · intro w' e he'; exact (h.evts w' e he').mono hext
    · intro w' p x hx q hq; exact hext.routed (h.regs w' p x hx q hq)
    · intro w' t a ha; exact hext.routed (h.awaiters w' t a ha)
  have h2 := h1.pushCmd w (.spawn s.env.nextPid fn regs) (by
    refine ⟨by simp, hfn, fun q hq => hext.routed (hregs q hq)⟩)
  have hcr : upd s.env.router s.env.nextPid (some w) caller = some w0 := hext _ _ hc
  simp only [pushCmd_env, hcr]
  have h3 := h2.pushCmd w0 (.notifySpawn caller s.env.nextPid) (by
    refine ⟨hcr, by simp [Routed]⟩)
  exact { h3 with }

theorem RInv.handleDeliver {s : Sys} (h : RInv s) {w0 : Wid} {t : Pid} {m : Msg}
    (he : EvtOK s.env.router s.prog.length w0 (.deliver t m)) : RInv (handleDeliver s t m) := by
  obtain ⟨_, ht⟩ := he
  unfold QM.Sys.handleDeliver
  unfold Routed at ht
  match hr : s.env.router t with
  | none => simp [hr] at ht
  | some w => exact h.pushCmd w _ hr

theorem RInv.foldPush {α : Type} (f : α → Wid) (g : α → Cmd) :
    ∀ (l : List α) (s : Sys), RInv s →
      (∀ a ∈ l, ∀ s' : Sys, s'.env = s.env → s'.prog = s.prog → CmdOK s.env.router s.prog.length (known s' (f a)) (f a) (g a)) →
      RInv (l.foldl (fun acc a => acc.pushCmd (f a) (g a)) s)
  | [], s, h, _ => h
  | a :: l, s, h, hl => by
    simp only [List.foldl_cons]
    refine RInv.foldPush f g l _ (h.pushCmd _ _ (hl a (by simp) s rfl rfl)) ?_
    intro b hb s' he hp
    simpa using hl b (by simp [hb]) s' (by simpa using he) (by simpa using hp)

theorem targetWorkers_mem {router : Router} {ts : List Pid} {w : Wid} (h : w ∈ targetWorkers router ts) :
    ∃ t ∈ ts, router t = some w := by
  induction ts with
  | nil => simp [targetWorkers] at h
  | cons t rest ih =>
    unfold targetWorkers at h
    simp only [] at h
    split at h
    · rename_i w' hw'
      simp only [List.mem_cons, List.mem_filter] at h
      rcases h with h | h
      · subst h; exact ⟨t, by simp, hw'⟩
      · obtain ⟨t', ht', hr⟩ := ih h.1; exact ⟨t', by simp [ht'], hr⟩
    · obtain ⟨t', ht', hr⟩ := ih h; exact ⟨t', by simp [ht'], hr⟩

theorem RInv.handleAwait {s : Sys} (h : RInv s) {w0 : Wid} {a : Pid} {ts : List Pid}
    (he : EvtOK s.env.router s.prog.length w0 (.await a ts)) : RInv (handleAwait s a ts) := by
  obtain ⟨ha, hts⟩ := he
  unfold QM.Sys.handleAwait
  split
  · rename_i hany
    simp only [List.any_eq_true] at hany
    obtain ⟨t, ht, hn⟩ := hany
    have := hts t ht
    unfold Routed at this
    simp_all
  · have h1 : RInv { s with env := { s.env with pending := upd s.env.pending a (some { expected := targetWorkers s.env.router ts, responses := [] }) } } :=
      { h with }
    refine RInv.foldPush (fun w => w) (fun w => Cmd.queryAwait a (ts.filter (fun t => s.env.router t = some w))) _ _ h1 ?_
    intro w _ s' _ _
    refine ⟨by simp [Routed, ha], ?_⟩
    intro t ht
    simp only [List.mem_filter, decide_eq_true_eq] at ht
    exact ht.2

theorem RInv.handleProcResults {s : Sys} (h : RInv s) (combine) {w0 : Wid} {a : Pid} {rs : Results}
    (he : EvtOK s.env.router s.prog.length w0 (.procResults a rs)) : RInv (handleProcResultsWith combine s a rs) := by
  obtain ⟨ha, _⟩ := he
  unfold Routed at ha
  unfold QM.Sys.handleProcResultsWith
  match hr : s.env.router a with
  | none => simp [hr] at ha
  | some aw =>
    simp only []
    split
    · split
      · exact h
      · split
        · have h1 : RInv { s with env := { s.env with pending := upd s.env.pending a none } } := { h with }
          simp only [hr]
          exact h1.pushCmd aw _ hr
        · exact { h with }
    · exact h.pushCmd aw _ hr

theorem RInv.envStep1 {s : Sys} (h : RInv s) (combine) (w : Wid) : RInv (envStep1With combine s w) := by
  unfold envStep1With
  split
  · exact h
  · rename_i e rest hq
    obtain ⟨h1, he⟩ := h.popEvt hq
    cases e with
    | spawn c fn regs coloc => exact h1.handleSpawn he
    | deliver t m => exact h1.handleDeliver he
    | await a ts => exact h1.handleAwait he
    | procResults a rs => exact h1.handleProcResults combine he
    | resultResp req r => exact { h1 with }
    | exited p => exact h1

/-! ### worker side -/

/-- `w'` has the same processes (same pids, same registers) and awaiter table as `w`. -/
structure SameProcs (w w' : WorkerSt) : Prop where
  dom : ∀ p, (w'.procs p).isSome = (w.procs p).isSome
  regs : ∀ p x', w'.procs p = some x' → ∃ x, w.procs p = some x ∧ x'.regs = x.regs
  awaiters : w'.awaitersFor = w.awaitersFor

theorem SameProcs.refl (w : WorkerSt) : SameProcs w w :=
  ⟨fun _ => rfl, fun _ x' h => ⟨x', h, rfl⟩, rfl⟩

theorem SameProcs.trans {a b c : WorkerSt} (h1 : SameProcs a b) (h2 : SameProcs b c) : SameProcs a c := by
  refine ⟨fun p => (h2.dom p).trans (h1.dom p), ?_, h2.awaiters.trans h1.awaiters⟩
  intro p x' hx'
  obtain ⟨y, hy, e1⟩ := h2.regs p x' hx'
  obtain ⟨x, hx, e2⟩ := h1.regs p y hy
  exact ⟨x, hx, e1.trans e2⟩

/-- changing only scheduling sets / awaited / request tables -/
theorem SameProcs.of_eq {w w' : WorkerSt} (hp : w'.procs = w.procs) (ha : w'.awaitersFor = w.awaitersFor) : SameProcs w w' :=
  ⟨fun p => by rw [hp], fun p x' h => ⟨x', by rw [← hp]; exact h, rfl⟩, ha⟩

theorem SameProcs.updProc {w : WorkerSt} {p : Pid} {x x' : Proc} (hx : w.procs p = some x) (hr : x'.regs = x.regs)
    {w' : WorkerSt} (hp : w'.procs = upd w.procs p (some x')) (ha : w'.awaitersFor = w.awaitersFor) : SameProcs w w' := by
  refine ⟨?_, ?_, ha⟩
  · intro q; rw [hp]; by_cases e : q = p
    · subst e; simp [hx]
    · simp [e]
  · intro q y hy; rw [hp] at hy; by_cases e : q = p
    · subst e; simp at hy; subst hy; exact ⟨x, hx, hr⟩
    · simp [e] at hy; exact ⟨y, hy, rfl⟩

theorem SameProcs.modProc (w : WorkerSt) (p : Pid) (f : Proc → Proc) (hf : ∀ x, (f x).regs = x.regs) :
    SameProcs w (w.modProc p f) := by
  unfold WorkerSt.modProc
  split
  · rename_i x hx; exact SameProcs.updProc hx (hf x) rfl rfl
  · exact SameProcs.refl w

theorem SameProcs.wakeSelecting (w : WorkerSt) (p : Pid) : SameProcs w (w.wakeSelecting p) := by
  unfold WorkerSt.wakeSelecting; split
  · exact SameProcs.of_eq rfl rfl
  · exact SameProcs.refl w

theorem SameProcs.markActive (w : WorkerSt) (p : Pid) : SameProcs w (w.markActive p) := by
  unfold WorkerSt.markActive; split
  · exact SameProcs.of_eq rfl rfl
  · exact SameProcs.refl w

theorem SameProcs.notifyResultOk (w : WorkerSt) (a t : Pid) (v : Val) : SameProcs w (w.notifyResultOk a t v) := by
  unfold WorkerSt.notifyResultOk
  refine (SameProcs.modProc w a _ ?_).trans (SameProcs.wakeSelecting _ a)
  intro x; split <;> rfl

theorem SameProcs.notifyFailure (w : WorkerSt) (a t : Pid) : SameProcs w (w.notifyFailure a t) := by
  unfold WorkerSt.notifyFailure
  split
  · split
    · refine (SameProcs.modProc w a _ ?_).trans (SameProcs.wakeSelecting _ a)
      intro x; rfl
    · exact SameProcs.refl w
  · exact SameProcs.refl w

theorem SameProcs.notifyPending (w : WorkerSt) (a t : Pid) : SameProcs w (w.notifyPending a t) := by
  unfold WorkerSt.notifyPending
  exact SameProcs.modProc w a _ (fun _ => rfl)

theorem SameProcs.notifyResult (w : WorkerSt) (a t : Pid) (r : Res) : SameProcs w (w.notifyResult a t r) := by
  cases r with
  | ok v => exact SameProcs.notifyResultOk w a t v
  | err => exact SameProcs.notifyFailure w a t

theorem SameProcs.applyResults (a : Pid) : ∀ (rs : Results) (w : WorkerSt), SameProcs w (applyResults w a rs)
  | [], w => SameProcs.refl w
  | (t, some r) :: rest, w => by
    unfold QM.Sys.applyResults
    exact (SameProcs.notifyResult w a t r).trans (SameProcs.applyResults a rest _)
  | (t, none) :: rest, w => by
    unfold QM.Sys.applyResults
    exact (SameProcs.notifyPending w a t).trans (SameProcs.applyResults a rest _)

theorem SameProcs.checkExpired (w : WorkerSt) (prog : Prog) (now : Nat) (ordQ : List Pid) :
    SameProcs w (w.checkExpired prog now ordQ) := SameProcs.of_eq rfl rfl

theorem SameProcs.foldl {α : Type} (f : WorkerSt → α → WorkerSt) (hf : ∀ w a, SameProcs w (f w a)) :
    ∀ (l : List α) (w : WorkerSt), SameProcs w (l.foldl f w)
  | [], w => SameProcs.refl w
  | a :: l, w => (hf w a).trans (SameProcs.foldl f hf l (f w a))

theorem releaseDead_regs (x : Proc) : x.releaseDead.regs = x.regs := by
  unfold Proc.releaseDead; split <;> rfl

theorem SameProcs.release (w : WorkerSt) (cur : Pid) : SameProcs w (w.release cur) := by
  unfold WorkerSt.release; split
  · exact SameProcs.modProc w cur _ releaseDead_regs
  · exact SameProcs.refl w

theorem SameProcs.finish {w : WorkerSt} {cur : Pid} {x0 x : Proc} (hx : w.procs cur = some x0) (hr : x.regs = x0.regs)
    (ordQ : List Pid) : SameProcs w (w.finish cur x ordQ) := by
  unfold WorkerSt.finish
  refine SameProcs.trans (b := { w with procs := upd w.procs cur (some { x with result := some x.finalRes }) })
    (SameProcs.updProc (x' := { x with result := some x.finalRes }) hx hr rfl rfl) ?_
  exact (SameProcs.foldl _ (fun w' a => SameProcs.notifyResult w' a cur _) _ _).trans (SameProcs.release _ cur)

/-- Replacing worker `i` by a state with the same processes preserves the routing invariant. -/
theorem RInv.setWk_same {s : Sys} (h : RInv s) (i : Wid) {w' : WorkerSt} (hs : SameProcs (s.wk i) w') :
    RInv (s.setWk i w') := by
  refine { nofault := h.nofault, progwf := h.progwf, below := h.below, zero := h.zero, wbound := h.wbound, placed := ?_, cmds := ?_,
           evts := h.evts, regs := ?_, awaiters := ?_ }
  · intro w p hp
    unfold known at hp; simp only [setWk_wk, upd_apply] at hp
    split at hp
    · rename_i e; subst e; rw [hs.dom] at hp; exact h.placed _ p hp
    · exact h.placed w p hp
  · intro w c hc
    refine (h.cmds w c hc).mono (Ext.refl _) ?_
    intro p hp
    unfold known at *; simp only [setWk_wk, upd_apply]
    split
    · rename_i e; subst e; rw [hs.dom]; exact hp
    · exact hp
  · intro w p x hx q hq
    simp only [setWk_wk, upd_apply] at hx
    split at hx
    · rename_i e; subst e
      obtain ⟨x0, hx0, e⟩ := hs.regs p x hx
      exact h.regs _ p x0 hx0 q (e ▸ hq)
    · exact h.regs w p x hx q hq
  · intro w t a ha
    simp only [setWk_wk, upd_apply] at ha
    split at ha
    · rename_i e; subst e; rw [hs.awaiters] at ha; exact h.awaiters _ t a ha
    · exact h.awaiters w t a ha

/-- A more general replacement: the domain may grow by pids routed to `i`, registers and awaiters
must be routed. -/
theorem RInv.setWk {s : Sys} (h : RInv s) (i : Wid) {w' : WorkerSt}
    (hdom : ∀ p, ((s.wk i).procs p).isSome → (w'.procs p).isSome)
    (hplaced : ∀ p, (w'.procs p).isSome → s.env.router p = some i)
    (hregs : ∀ p x, w'.procs p = some x → ∀ q ∈ x.regs, Routed s.env.router q)
    (haw : ∀ t a, a ∈ w'.awaitersFor t → Routed s.env.router a) :
    RInv (s.setWk i w') := by
  refine { nofault := h.nofault, progwf := h.progwf, below := h.below, zero := h.zero, wbound := h.wbound, placed := ?_, cmds := ?_,
           evts := h.evts, regs := ?_, awaiters := ?_ }
  · intro w p hp
    unfold known at hp; simp only [setWk_wk, upd_apply] at hp
    split at hp
    · rename_i e; subst e; exact hplaced p hp
    · exact h.placed w p hp
  · intro w c hc
    refine (h.cmds w c hc).mono (Ext.refl _) ?_
    intro p hp
    unfold known at *; simp only [setWk_wk, upd_apply]
    split
    · rename_i e; subst e; exact hdom p hp
    · exact hp
  · intro w p x hx q hq
    simp only [setWk_wk, upd_apply] at hx
    split at hx
    · rename_i e; subst e; exact hregs p x hx q hq
    · exact h.regs w p x hx q hq
  · intro w t a ha
    simp only [setWk_wk, upd_apply] at ha
    split at ha
    · rename_i e; subst e; exact haw t a ha
    · exact h.awaiters w t a ha

/-! ### the time slice -/

theorem reg_routed {router : Router} {p : Proc} (hz : Routed router 0) (hr : ∀ q ∈ p.regs, Routed router q) (r : Nat) :
    Routed router (p.reg r) := by
  unfold Proc.reg
  rw [List.getD_eq_getElem?_getD]
  cases h : p.regs[r]? with
  | none => simpa using hz
  | some q => simpa using hr q (List.mem_of_getElem? h)

theorem selTargets_routed {router : Router} {p : Proc} (hz : Routed router 0) (hr : ∀ q ∈ p.regs, Routed router q) :
    ∀ (srcs : List Src), ∀ t ∈ selTargets p srcs, Routed router t
  | [], t, ht => by simp [selTargets] at ht
  | .proc r :: rest, t, ht => by
    simp only [selTargets, List.mem_cons] at ht
    rcases ht with rfl | ht
    · exact reg_routed hz hr r
    · exact selTargets_routed hz hr rest t ht
  | .recv _ :: rest, t, ht => by
    simp only [selTargets] at ht; exact selTargets_routed hz hr rest t ht
  | .timeout _ :: rest, t, ht => by
    simp only [selTargets] at ht; exact selTargets_routed hz hr rest t ht

theorem script_mem {prog : Prog} {p : Proc} {a : Act} (h : (p.script prog)[p.pc]? = some a) :
    ∃ sc ∈ prog, a ∈ sc := by
  unfold Proc.script at h
  rw [List.getD_eq_getElem?_getD] at h
  cases hf : prog[p.fn]? with
  | none => simp [hf] at h
  | some sc =>
    simp [hf] at h
    exact ⟨sc, List.mem_of_getElem? hf, List.mem_of_getElem? h⟩

def OutOK (router : Router) (plen : Nat) (self : Pid) : Outcome → Prop
  | .send t m => Routed router t ∧ m.src = self
  | .spawn fn regs => fn < plen ∧ ∀ q ∈ regs, Routed router q
  | .awaitInit ts => ∀ t ∈ ts, Routed router t
  | _ => True

theorem slice_ok {router : Router} {prog : Prog} (hwf : ProgWF prog) (hz : Routed router 0) (now : Nat) (self : Pid) :
    ∀ (fuel : Nat) (p : Proc), (∀ q ∈ p.regs, Routed router q) →
      (slice prog now self fuel p).1.regs = p.regs ∧ OutOK router prog.length self (slice prog now self fuel p).2
  | 0, p, _ => by simp [slice, OutOK]
  | fuel + 1, p, hr => by
    unfold slice
    split
    · simp [OutOK]
    · exact ⟨rfl, reg_routed hz hr _, rfl⟩
    · rename_i fn pass hact
      split
      · simp [OutOK]
      · refine ⟨rfl, ?_, ?_⟩
        · obtain ⟨sc, hsc, hm⟩ := script_mem hact
          exact hwf.2 sc hsc fn pass hm
        · intro q hq
          simp only [List.mem_map] at hq
          obtain ⟨r, _, rfl⟩ := hq
          exact reg_routed hz hr r
    · simp [OutOK]
    · rename_i srcs hact
      split
      · simp only []
        split
        · exact slice_ok hwf hz now self fuel _ hr
        · exact ⟨rfl, selTargets_routed hz hr srcs⟩
      · split
        · simp [OutOK]
        · simp only []
          split
          · exact slice_ok hwf hz now self fuel _ hr
          · simp [OutOK]
          · simp [OutOK]

/-! ### executor step -/

theorem RInv.ghost {s : Sys} (h : RInv s) (sent appended dropped : List (Pid × Msg)) (spawned reported learned : List (Pid × Pid))
    (spawnNotified : List (Pid × Pid × Bool)) :
    RInv { s with sent := sent, appended := appended, dropped := dropped, spawned := spawned, reported := reported,
                  learned := learned, spawnNotified := spawnNotified } := { h with }

theorem RInv.execStep {s : Sys} (h : RInv s) (i : Wid) (fuel : Nat) (ordQ : List Pid) : RInv (execStep s i fuel ordQ) := by
  unfold QM.Sys.execStep
  simp only []
  have hs0 := SameProcs.checkExpired (s.wk i) s.prog s.now ordQ
  generalize (s.wk i).checkExpired s.prog s.now ordQ = w0 at *
  split
  · exact h.setWk_same i hs0
  · rename_i cur rest _
    have hs1 : SameProcs (s.wk i) { w0 with queue := rest } := hs0.trans (SameProcs.of_eq rfl rfl)
    split
    · exact h.setWk_same i hs1
    · rename_i x hx
      obtain ⟨x0, hx0, hreg0⟩ := hs1.regs cur x hx
      have hxr : ∀ q ∈ x.regs, Routed s.env.router q := fun q hq => h.regs i cur x0 hx0 q (hreg0 ▸ hq)
      have hcur : s.env.router cur = some i := h.placed i cur (by unfold known; simp [hx0])
      split
      · exact (h.setWk_same i (hs1.trans (SameProcs.finish (w := { w0 with queue := rest }) hx rfl ordQ))).noteExit i cur x
      · have hsl := slice_ok h.progwf h.zero s.now cur fuel x hxr
        generalize slice s.prog s.now cur fuel x = r at hsl
        obtain ⟨x', out⟩ := r
        simp only [] at hsl ⊢
        have hs2 : SameProcs (s.wk i) { w0 with queue := rest, procs := upd w0.procs cur (some x') } :=
          hs1.trans (SameProcs.updProc (w := { w0 with queue := rest }) hx hsl.1 rfl rfl)
        have hx2 : ({ w0 with queue := rest, procs := upd w0.procs cur (some x') } : WorkerSt).procs cur = some x' := by simp
        cases out with
        | cont => exact h.setWk_same i (hs2.trans (SameProcs.of_eq rfl rfl))
        | send t m =>
          have h1 := h.setWk_same i (hs2.trans (SameProcs.of_eq (w' := { w0 with queue := rest ++ [cur], procs := upd w0.procs cur (some x') }) rfl rfl))
          have h2 := h1.pushEvt i (.deliver t m) ⟨by rw [hsl.2.2]; exact hcur, hsl.2.1⟩
          exact { h2 with }
        | spawn fn regs =>
          have h1 := h.setWk_same i (hs2.trans (SameProcs.of_eq (w' := { w0 with queue := rest, procs := upd w0.procs cur (some x'), spawning := sinsert w0.spawning cur }) rfl rfl))
          exact h1.pushEvt i (.spawn cur fn regs none) ⟨hcur, hsl.2.1, hsl.2.2⟩
        | awaitInit ts =>
          have h1 := h.setWk_same i (hs2.trans (SameProcs.of_eq (w' := { w0 with queue := rest, procs := upd w0.procs cur (some x'), selecting := sinsert w0.selecting cur }) rfl rfl))
          exact h1.pushEvt i (.await cur ts) ⟨hcur, hsl.2⟩
        | blocked => exact h.setWk_same i (hs2.trans (SameProcs.of_eq rfl rfl))
        | failed => exact (h.setWk_same i (hs2.trans (SameProcs.finish (w := { w0 with queue := rest, procs := upd w0.procs cur (some x') }) hx2 rfl ordQ))).noteExit i cur x'
        | done => exact (h.setWk_same i (hs2.trans (SameProcs.finish (w := { w0 with queue := rest, procs := upd w0.procs cur (some x') }) hx2 rfl ordQ))).noteExit i cur x'

/-! ### worker commands -/

theorem mem_keys_of_mem {β : Type} {l : List (Nat × β)} {tr : Nat × β} (h : tr ∈ l) : tr.1 ∈ l.map (·.1) :=
  List.mem_map.mpr ⟨tr, h, rfl⟩

theorem queryTargets_spec (a : Pid) : ∀ (ts : List Pid) (w : WorkerSt),
    (queryTargets w a ts).1.procs = w.procs ∧
    (∀ t b, b ∈ (queryTargets w a ts).1.awaitersFor t → b ∈ w.awaitersFor t ∨ b = a) ∧
    (∀ k, k ∈ (queryTargets w a ts).2.map (·.1) → k ∈ ts)
  | [], w => by simp [queryTargets]; intro t b h; exact Or.inl h
  | t :: rest, w => by
    unfold queryTargets
    split
    · have ih := queryTargets_spec a rest w
      refine ⟨ih.1, ih.2.1, ?_⟩
      intro k hk
      rw [keys_ainsert] at hk
      rcases hk with hk | rfl
      · exact List.mem_cons_of_mem _ (ih.2.2 k hk)
      · simp
    · have ih := queryTargets_spec a rest
        { w with awaited := sinsert w.awaited t, awaitersFor := upd w.awaitersFor t (w.awaitersFor t ++ [a]) }
      refine ⟨ih.1, ?_, ?_⟩
      · intro t' b hb
        rcases ih.2.1 t' b hb with h1 | h1
        · simp only [upd_apply] at h1
          split at h1
          · rename_i e; subst e; simp at h1; rcases h1 with h1 | h1
            · exact Or.inl h1
            · exact Or.inr h1
          · exact Or.inl h1
        · exact Or.inr h1
      · intro k hk
        rw [keys_ainsert] at hk
        rcases hk with hk | rfl
        · exact List.mem_cons_of_mem _ (ih.2.2 k hk)
        · simp

theorem RInv.handleCmd {s : Sys} (h : RInv s) (R : Rules)
    (hew : ∀ w p, SameProcs w (R.emptyWake w p)) (i : Wid) {c : Cmd}
    (hc : CmdOK s.env.router s.prog.length (known s i) i c) : RInv (handleCmdWith R s i c) := by
  cases c with
  | misc => exact h
  | start p => exact hc.elim
  | resume p fn => exact hc.elim
  | spawn p fn regs =>
    obtain ⟨hp, hfn, hregs⟩ := hc
    unfold handleCmdWith
    simp only []
    rw [if_neg (by omega)]
    apply h.setWk i
    · intro q hq
      simp only [WorkerSt.setProc, upd_apply]
      split
      · simp
      · exact hq
    · intro q hq
      simp only [WorkerSt.setProc, upd_apply] at hq
      split at hq
      · rename_i e; subst e; exact hp
      · exact h.placed i q hq
    · intro q x hx r hr
      simp only [WorkerSt.setProc, upd_apply] at hx
      split at hx
      · simp at hx; subst hx
        simp only [Proc.fresh, List.mem_cons] at hr
        rcases hr with rfl | hr
        · simp [Routed, hp]
        · exact hregs r hr
      · exact h.regs i q x hx r hr
    · intro t a ha; exact h.awaiters i t a ha
  | notifySpawn caller newPid =>
    obtain ⟨_, hnew⟩ := hc
    unfold handleCmdWith
    simp only []
    split
    · exact { h.setWk_same i (SameProcs.of_eq (w' := { s.wk i with spawning := serase (s.wk i).spawning caller }) rfl rfl) with }
    · rename_i x hx
      suffices hh : ∀ q : List Pid, RInv (s.setWk i { s.wk i with spawning := serase (s.wk i).spawning caller, procs := upd (s.wk i).procs caller (some { x with regs := x.regs ++ [newPid], pc := x.pc + 1, spawnIssued := false }), queue := q }) by
        split
        · exact { hh _ with }
        · exact { hh _ with }
      intro q
      apply h.setWk i
      · intro p hp
        simp only [upd_apply]; split
        · simp
        · exact hp
      · intro p hp
        simp only [upd_apply] at hp
        split at hp
        · rename_i e; subst e; exact h.placed i p (by unfold known; simp [hx])
        · exact h.placed i p hp
      · intro p y hy r hr
        simp only [upd_apply] at hy
        split at hy
        · simp at hy; subst hy
          simp only [List.mem_append, List.mem_singleton] at hr
          rcases hr with hr | rfl
          · exact h.regs i caller x hx r hr
          · exact hnew
        · exact h.regs i p y hy r hr
      · intro t a ha; exact h.awaiters i t a ha
  | deliver t m =>
    unfold handleCmdWith
    simp only []
    split
    · rename_i x hx
      split
      · exact { h.setWk_same i (SameProcs.wakeSelecting _ t) with }
      · exact { h.setWk_same i ((SameProcs.updProc (x' := { x with mailbox := x.mailbox ++ [m] }) hx rfl
            (w' := { s.wk i with procs := upd (s.wk i).procs t (some { x with mailbox := x.mailbox ++ [m] }) }) rfl rfl).trans
            (SameProcs.wakeSelecting _ t)) with }
    · exact { h.setWk_same i (SameProcs.wakeSelecting _ t) with }
  | queryAwait a ts =>
    obtain ⟨ha, hts⟩ := hc
    unfold handleCmdWith
    have hq := queryTargets_spec a ts (s.wk i)
    dsimp only
    generalize queryTargets (s.wk i) a ts = q at hq ⊢
    have h1 : RInv (s.setWk i q.1) := by
      apply h.setWk i
      · intro p hp; rw [hq.1]; exact hp
      · intro p hp; rw [hq.1] at hp; exact h.placed i p hp
      · intro p x hx r hr; rw [hq.1] at hx; exact h.regs i p x hx r hr
      · intro t b hb
        rcases hq.2.1 t b hb with h2 | rfl
        · exact h.awaiters i t b h2
        · exact ha
    have h2 := h1.pushEvt i (.procResults a q.2) ⟨ha, fun tr htr => hts _ (hq.2.2 _ (mem_keys_of_mem htr))⟩
    exact { h2 with }
  | updateAwait a rs =>
    unfold handleCmdWith
    simp only []
    split
    · exact { h.setWk_same i (SameProcs.applyResults a rs _) with }
    · exact { h.setWk_same i ((SameProcs.applyResults a rs _).trans (hew _ a)) with }
  | getResult req p =>
    unfold handleCmdWith
    simp only []
    have hc' : ((s.wk i).procs p).isSome = true := hc
    split
    · rename_i hn; rw [hn] at hc'; exact absurd hc' (by simp)
    · split
      · exact h.pushEvt i _ trivial
      · exact h.setWk_same i (SameProcs.of_eq rfl rfl)

theorem RInv.cmdStep1 {s : Sys} (h : RInv s) (R : Rules)
    (hew : ∀ w p, SameProcs w (R.emptyWake w p)) (i : Wid) : RInv (cmdStep1With R s i) := by
  unfold cmdStep1With
  split
  · exact h
  · rename_i c rest hq
    obtain ⟨h1, hc⟩ := h.popCmd hq
    exact h1.handleCmd R hew i hc

/-! ### check_completed_processes -/

theorem RInv.reportTarget {s : Sys} (h : RInv s) (i : Wid) (t : Pid) : RInv (reportTarget s i t) := by
  unfold QM.Sys.reportTarget
  simp only []
  split
  · exact h
  · rename_i r hr
    have ht : s.env.router t = some i := by
      apply h.placed i t
      unfold known
      unfold WorkerSt.resultOf at hr
      split at hr
      · rename_i x hx; simp [hx]
      · simp at hr
    have hfold : ∀ (l : List Pid) (s0 : Sys), RInv s0 → s0.env = s.env → s0.prog = s.prog → s0.wk = s.wk →
        (∀ a ∈ l, Routed s.env.router a) →
        let s1 := l.foldl (fun acc a => { acc.pushEvt i (.procResults a [(t, some r)]) with reported := acc.reported ++ [(a, t)] }) s0
        RInv s1 ∧ s1.wk = s.wk ∧ s1.env = s.env ∧ s1.prog = s.prog := by
      intro l
      induction l with
      | nil => intro s0 h0 he hp hw _; exact ⟨h0, hw, he, hp⟩
      | cons a l ih =>
        intro s0 h0 he hp hw hl
        simp only [List.foldl_cons]
        apply ih
        · have := h0.pushEvt i (.procResults a [(t, some r)]) ⟨by rw [he]; exact hl a (by simp), by
            intro tr htr; simp at htr; subst htr; rw [he]; exact ht⟩
          exact { this with }
        · exact he
        · exact hp
        · exact hw
        · intro b hb; exact hl b (by simp [hb])
    obtain ⟨h1, hw1, hprops⟩ := hfold ((s.wk i).awaitersFor t) s h rfl rfl rfl (fun a ha => h.awaiters i t a ha)
    generalize List.foldl _ s ((s.wk i).awaitersFor t) = s1 at h1 hw1 hprops
    have he1 : s1.env = s.env ∧ s1.prog = s.prog := hprops
    apply h1.setWk i
    · intro p hp; rw [hw1] at hp; exact hp
    · intro p hp; rw [he1.1]; exact h.placed i p hp
    · intro p x hx q hq; rw [he1.1]; exact h.regs i p x hx q hq
    · intro t' a ha
      rw [he1.1]
      simp only [upd_apply] at ha
      split at ha
      · simp at ha
      · exact h.awaiters i t' a ha

theorem RInv.foldPushEvt {α : Type} (i : Wid) (g : α → Evt) : ∀ (l : List α) (s : Sys), RInv s →
    (∀ a ∈ l, EvtOK s.env.router s.prog.length i (g a)) →
    RInv (l.foldl (fun acc a => acc.pushEvt i (g a)) s) ∧
    (l.foldl (fun acc a => acc.pushEvt i (g a)) s).wk = s.wk ∧
    (l.foldl (fun acc a => acc.pushEvt i (g a)) s).env = s.env ∧
    (l.foldl (fun acc a => acc.pushEvt i (g a)) s).prog = s.prog
  | [], s, h, _ => ⟨h, rfl, rfl, rfl⟩
  | a :: l, s, h, hl => by
    simp only [List.foldl_cons]
    have ih := RInv.foldPushEvt i g l (s.pushEvt i (g a)) (h.pushEvt i _ (hl a (by simp)))
      (fun b hb => by simpa using hl b (by simp [hb]))
    simpa using ih

theorem RInv.answerRequests {s : Sys} (h : RInv s) (i : Wid) (p : Pid) : RInv (answerRequests s i p) := by
  unfold QM.Sys.answerRequests
  dsimp only
  split
  · exact h
  · rename_i r _
    obtain ⟨h1, hw1, _, _⟩ := RInv.foldPushEvt i (fun req => Evt.resultResp req r) ((s.wk i).resultReqs p) s h
      (fun _ _ => trivial)
    generalize List.foldl _ s ((s.wk i).resultReqs p) = s1 at h1 hw1
    apply h1.setWk_same i
    rw [hw1]
    exact SameProcs.of_eq rfl rfl

theorem RInv.checkStep {s : Sys} (h : RInv s) (i : Wid) (ordE : List Pid) : RInv (checkStep s i ordE) := by
  unfold QM.Sys.checkStep
  dsimp only
  apply foldl_invariant RInv _ (fun a p ha => ha.answerRequests i p)
  exact foldl_invariant RInv _ (fun a t ha => ha.reportTarget i t) _ _ h

end QM.Sys
