import QuiverModel.Lemmas.Sys.Frame
/-
The routing invariant of M-Sys (`RInv`): every pid that occurs anywhere (queues, registers,
awaiter tables) has been allocated by the environment and is routed; a process lives on the
worker the router names; commands sit in the queue of the worker they concern; no
`EnvironmentError` has occurred.  Preserved by every micro-step, hence by every `sysStep`.
-/
namespace QM.Sys

abbrev Router := Pid → Option Wid

def Routed (router : Router) (p : Pid) : Prop := (router p).isSome

/-- `r'` extends `r` (the router only ever gains fresh pids). -/
def Ext (r r' : Router) : Prop := ∀ p w, r p = some w → r' p = some w

theorem Ext.refl (r : Router) : Ext r r := fun _ _ h => h
theorem Ext.routed {r r' : Router} (h : Ext r r') {p : Pid} (hp : Routed r p) : Routed r' p := by
  unfold Routed at *
  match hr : r p with
  | some w => simp [h p w hr]
  | none => simp [hr] at hp

def CmdOK (router : Router) (plen : Nat) (known : Pid → Prop) (w : Wid) : Cmd → Prop
  | .misc => True
  | .start _ => False
  | .resume _ _ => False
  | .spawn p fn regs => router p = some w ∧ fn < plen ∧ ∀ q ∈ regs, Routed router q
  | .notifySpawn c p => router c = some w ∧ Routed router p
  | .deliver t _ => router t = some w
  | .queryAwait a ts => Routed router a ∧ ∀ t ∈ ts, router t = some w
  | .updateAwait a _ => router a = some w
  | .getResult _ p => known p

def EvtOK (router : Router) (plen : Nat) (w : Wid) : Evt → Prop
  | .spawn c fn regs _ => router c = some w ∧ fn < plen ∧ ∀ q ∈ regs, Routed router q
  | .deliver t m => router m.src = some w ∧ Routed router t
  | .await a ts => router a = some w ∧ ∀ t ∈ ts, Routed router t
  | .procResults a rs => Routed router a ∧ ∀ tr ∈ rs, router tr.1 = some w
  | .resultResp _ _ => True

theorem CmdOK.mono {r r' : Router} {plen : Nat} {known known' : Pid → Prop} {w : Wid} {c : Cmd}
    (he : Ext r r') (hk : ∀ p, known p → known' p) (h : CmdOK r plen known w c) : CmdOK r' plen known' w c := by
  match c, h with
  | .misc, _ => trivial
  | .spawn _ _ _, h => exact ⟨he _ _ h.1, h.2.1, fun q hq => he.routed (h.2.2 q hq)⟩
  | .notifySpawn _ _, h => exact ⟨he _ _ h.1, he.routed h.2⟩
  | .deliver _ _, h => exact he _ _ h
  | .queryAwait _ _, h => exact ⟨he.routed h.1, fun t ht => he _ _ (h.2 t ht)⟩
  | .updateAwait _ _, h => exact he _ _ h
  | .getResult _ _, h => exact hk _ h

theorem EvtOK.mono {r r' : Router} {plen : Nat} {w : Wid} {e : Evt}
    (he : Ext r r') (h : EvtOK r plen w e) : EvtOK r' plen w e := by
  match e, h with
  | .spawn _ _ _ _, h => exact ⟨he _ _ h.1, h.2.1, fun q hq => he.routed (h.2.2 q hq)⟩
  | .deliver _ _, h => exact ⟨he _ _ h.1, he.routed h.2⟩
  | .await _ _, h => exact ⟨he _ _ h.1, fun t ht => he.routed (h.2 t ht)⟩
  | .procResults _ _, h => exact ⟨he.routed h.1, fun tr htr => he _ _ (h.2 tr htr)⟩
  | .resultResp _ _, _ => trivial

/-- Well-formed script table: every `spawn fn` names an existing script; script 0 exists. -/
def ProgWF (prog : Prog) : Prop :=
  0 < prog.length ∧ ∀ sc ∈ prog, ∀ fn pass, Act.spawn fn pass ∈ sc → fn < prog.length

def known (s : Sys) (w : Wid) (p : Pid) : Prop := ((s.wk w).procs p).isSome

structure RInv (s : Sys) : Prop where
  nofault : s.fault = false
  progwf : ProgWF s.prog
  below : ∀ p w, s.env.router p = some w → p < s.env.nextPid
  zero : Routed s.env.router 0
  placed : ∀ w p, known s w p → s.env.router p = some w
  cmds : ∀ w c, c ∈ s.cmdQ w → CmdOK s.env.router s.prog.length (known s w) w c
  evts : ∀ w e, e ∈ s.evtQ w → EvtOK s.env.router s.prog.length w e
  regs : ∀ w p x, (s.wk w).procs p = some x → ∀ q ∈ x.regs, Routed s.env.router q
  awaiters : ∀ w t a, a ∈ (s.wk w).awaitersFor t → Routed s.env.router a

/-! ### environment micro-step -/

theorem ext_insert_fresh {s : Sys} (h : RInv s) (w : Wid) :
    Ext s.env.router (upd s.env.router s.env.nextPid (some w)) := by
  intro p w' hp
  have hlt := h.below p w' hp
  have hne : p ≠ s.env.nextPid := Nat.ne_of_lt hlt
  simp [upd_apply, hne, hp]

theorem mem_upd_append {α : Type} {q : Nat → List α} {w w' : Nat} {c c' : α}
    (h : c' ∈ upd q w (q w ++ [c]) w') : c' ∈ q w' ∨ (w' = w ∧ c' = c) := by
  simp only [upd_apply] at h
  split at h
  · rename_i e; subst e; simp at h; rcases h with h | h
    · exact Or.inl h
    · exact Or.inr ⟨rfl, h⟩
  · exact Or.inl h

/-- Pushing a well-formed command preserves the invariant. -/
theorem RInv.pushCmd {s : Sys} (h : RInv s) (w : Wid) (c : Cmd)
    (hc : CmdOK s.env.router s.prog.length (known s w) w c) : RInv (s.pushCmd w c) := by
  refine { h with cmds := ?_ }
  intro w' c' hc'
  simp only [pushCmd_cmdQ] at hc'
  rcases mem_upd_append hc' with h1 | ⟨rfl, rfl⟩
  · exact h.cmds w' c' h1
  · exact hc

theorem RInv.pushEvt {s : Sys} (h : RInv s) (w : Wid) (e : Evt)
    (he : EvtOK s.env.router s.prog.length w e) : RInv (s.pushEvt w e) := by
  refine { h with evts := ?_ }
  intro w' e' he'
  simp only [pushEvt_evtQ] at he'
  rcases mem_upd_append he' with h1 | ⟨rfl, rfl⟩
  · exact h.evts w' e' h1
  · exact he

theorem mem_upd_tail {α : Type} {q : Nat → List α} {w w' : Nat} {c c' : α} {rest : List α}
    (hq : q w = c :: rest) (h : c' ∈ upd q w rest w') : c' ∈ q w' := by
  simp only [upd_apply] at h
  split at h
  · rename_i e; subst e; rw [hq]; exact List.mem_cons_of_mem _ h
  · exact h

theorem RInv.popEvt {s : Sys} (h : RInv s) {w : Wid} {e : Evt} {rest : List Evt} (hq : s.evtQ w = e :: rest) :
    RInv { s with evtQ := upd s.evtQ w rest } ∧ EvtOK s.env.router s.prog.length w e := by
  refine ⟨{ h with evts := ?_ }, h.evts w e (by rw [hq]; simp)⟩
  intro w' e' he'
  exact h.evts w' e' (mem_upd_tail hq he')

theorem RInv.popCmd {s : Sys} (h : RInv s) {w : Wid} {c : Cmd} {rest : List Cmd} (hq : s.cmdQ w = c :: rest) :
    RInv { s with cmdQ := upd s.cmdQ w rest } ∧ CmdOK s.env.router s.prog.length (known s w) w c := by
  refine ⟨{ h with cmds := ?_ }, h.cmds w c (by rw [hq]; simp)⟩
  intro w' c' hc'
  exact h.cmds w' c' (mem_upd_tail hq hc')

theorem RInv.handleSpawn {s : Sys} (h : RInv s) {w0 : Wid} {caller : Pid} {fn : Nat} {regs : List Pid} {coloc : Option Pid}
    (he : EvtOK s.env.router s.prog.length w0 (.spawn caller fn regs coloc)) :
    RInv (handleSpawn s caller fn regs coloc) := by
  obtain ⟨hc, hfn, hregs⟩ := he
  simp only [QM.Sys.handleSpawn]
  generalize placement s coloc s.env.nextPid = w
  have hext := ext_insert_fresh h w
  -- the state after allocation
  have h1 : RInv { s with env := { s.env with nextPid := s.env.nextPid + 1, router := upd s.env.router s.env.nextPid (some w) } } := by
    refine { nofault := h.nofault, progwf := h.progwf, below := ?_, zero := hext.routed h.zero, placed := ?_,
             cmds := ?_, evts := ?_, regs := ?_, awaiters := ?_ }
    · intro p w' hp
      simp only [upd_apply] at hp
      split at hp
      · rename_i e; subst e; exact Nat.lt_succ_self _
      · have := h.below p w' hp; exact Nat.lt_succ_of_lt this
    · intro w' p hp; exact hext _ _ (h.placed w' p hp)
    · intro w' c hc'; exact (h.cmds w' c hc').mono hext (fun _ hk => hk)
    · intro w' e he'; exact (h.evts w' e he').mono hext
    · intro w' p x hx q hq; exact hext.routed (h.regs w' p x hx q hq)
    · intro w' t a ha; exact hext.routed (h.awaiters w' t a ha)
  have h2 := h1.pushCmd w (.spawn s.env.nextPid fn regs) (by
    refine ⟨by simp, hfn, fun q hq => hext.routed (hregs q hq)⟩)
  have hcr : upd s.env.router s.env.nextPid (some w) caller = some w0 := hext _ _ hc
  simp only [pushCmd_env, hcr]
  have h3 := h2.pushCmd w0 (.notifySpawn caller s.env.nextPid) (by
    refine ⟨hcr, by simp [Routed]⟩)
  exact { h3 with }

theorem RInv.handleDeliver {s : Sys} (h : RInv s) {w0 : Wid} {t : Pid} {m : Msg}
    (he : EvtOK s.env.router s.prog.length w0 (.deliver t m)) : RInv (handleDeliver s t m) := by
  obtain ⟨_, ht⟩ := he
  unfold QM.Sys.handleDeliver
  unfold Routed at ht
  match hr : s.env.router t with
  | none => simp [hr] at ht
  | some w => exact h.pushCmd w _ hr

theorem RInv.foldPush {α : Type} (f : α → Wid) (g : α → Cmd) :
    ∀ (l : List α) (s : Sys), RInv s →
      (∀ a ∈ l, ∀ s' : Sys, s'.env = s.env → s'.prog = s.prog → CmdOK s.env.router s.prog.length (known s' (f a)) (f a) (g a)) →
      RInv (l.foldl (fun acc a => acc.pushCmd (f a) (g a)) s)
  | [], s, h, _ => h
  | a :: l, s, h, hl => by
    simp only [List.foldl_cons]
    refine RInv.foldPush f g l _ (h.pushCmd _ _ (hl a (by simp) s rfl rfl)) ?_
    intro b hb s' he hp
    simpa using hl b (by simp [hb]) s' (by simpa using he) (by simpa using hp)

theorem targetWorkers_mem {router : Router} {ts : List Pid} {w : Wid} (h : w ∈ targetWorkers router ts) :
    ∃ t ∈ ts, router t = some w := by
  induction ts with
  | nil => simp [targetWorkers] at h
  | cons t rest ih =>
    unfold targetWorkers at h
    simp only [] at h
    split at h
    · rename_i w' hw'
      simp only [List.mem_cons, List.mem_filter] at h
      rcases h with h | h
      · subst h; exact ⟨t, by simp, hw'⟩
      · obtain ⟨t', ht', hr⟩ := ih h.1; exact ⟨t', by simp [ht'], hr⟩
    · obtain ⟨t', ht', hr⟩ := ih h; exact ⟨t', by simp [ht'], hr⟩

theorem RInv.handleAwait {s : Sys} (h : RInv s) {w0 : Wid} {a : Pid} {ts : List Pid}
    (he : EvtOK s.env.router s.prog.length w0 (.await a ts)) : RInv (handleAwait s a ts) := by
  obtain ⟨ha, hts⟩ := he
  unfold QM.Sys.handleAwait
  split
  · rename_i hany
    simp only [List.any_eq_true] at hany
    obtain ⟨t, ht, hn⟩ := hany
    have := hts t ht
    unfold Routed at this
    simp_all
  · have h1 : RInv { s with env := { s.env with pending := upd s.env.pending a (some { expected := targetWorkers s.env.router ts, responses := [] }) } } :=
      { h with }
    refine RInv.foldPush (fun w => w) (fun w => Cmd.queryAwait a (ts.filter (fun t => s.env.router t = some w))) _ _ h1 ?_
    intro w _ s' _ _
    refine ⟨by simp [Routed, ha], ?_⟩
    intro t ht
    simp only [List.mem_filter, decide_eq_true_eq] at ht
    exact ht.2

theorem RInv.handleProcResults {s : Sys} (h : RInv s) (combine) {w0 : Wid} {a : Pid} {rs : Results}
    (he : EvtOK s.env.router s.prog.length w0 (.procResults a rs)) : RInv (handleProcResultsWith combine s a rs) := by
  obtain ⟨ha, _⟩ := he
  unfold Routed at ha
  unfold QM.Sys.handleProcResultsWith
  match hr : s.env.router a with
  | none => simp [hr] at ha
  | some aw =>
    simp only []
    split
    · split
      · exact h
      · split
        · have h1 : RInv { s with env := { s.env with pending := upd s.env.pending a none } } := { h with }
          simp only [hr]
          exact h1.pushCmd aw _ hr
        · exact { h with }
    · exact h.pushCmd aw _ hr

theorem RInv.envStep1 {s : Sys} (h : RInv s) (combine) (w : Wid) : RInv (envStep1With combine s w) := by
  unfold envStep1With
  split
  · exact h
  · rename_i e rest hq
    obtain ⟨h1, he⟩ := h.popEvt hq
    cases e with
    | spawn c fn regs coloc => exact h1.handleSpawn he
    | deliver t m => exact h1.handleDeliver he
    | await a ts => exact h1.handleAwait he
    | procResults a rs => exact h1.handleProcResults combine he
    | resultResp req r => exact { h1 with }

end QM.Sys
