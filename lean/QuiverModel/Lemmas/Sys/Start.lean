import QuiverModel.Lemmas.Sys.Routing
/-
Start-up of the system and the induction principle used by every invariant proof.

`Sys.init` has the commands of `Repl::evaluate` queued but not yet consumed.  Until worker 0
consumes `ResumeProcess 0` nothing can happen except consuming `misc` commands (`PreStart`);
consuming it yields the explicit state `Started`.  An invariant `G` that holds for every `Started`
state and is preserved by the five micro-steps holds (as `PreStart ∨ G`) after every choice sequence.
-/
namespace QM.Sys
set_option linter.unusedSectionVars false
variable [Cfg]

def W0init : WorkerSt := WorkerSt.empty.setProc 0 (Proc.sleeping 0)

def W0started : WorkerSt :=
  { W0init with procs := upd W0init.procs 0 (some { Proc.sleeping 0 with result := none, fn := 0, pc := 0, acc := [] }),
                queue := [0] }

structure Quiet (s : Sys) : Prop where
  npos : 0 < s.n
  nofault : s.fault = false
  progwf : ProgWF s.prog
  router : s.env.router = upd (fun _ => none) 0 (some 0)
  pending : s.env.pending = fun _ => none
  nextPid : s.env.nextPid = 1
  results : s.env.results = []
  evtQ : ∀ w, s.evtQ w = []
  cmdOther : ∀ w, w ≠ 0 → ∀ c ∈ s.cmdQ w, c = Cmd.misc
  sent : s.sent = []
  appended : s.appended = []
  dropped : s.dropped = []
  deadDropped : s.deadDropped = []
  spawned : s.spawned = []
  spawnNotified : s.spawnNotified = []
  reported : s.reported = []
  learned : s.learned = []

structure PreStart (s : Sys) : Prop extends Quiet s where
  wk : s.wk = upd (fun _ => WorkerSt.empty) 0 W0init
  cmd0 : ∃ k req, s.cmdQ 0 = List.replicate k Cmd.misc ++ [Cmd.resume 0 0, Cmd.getResult req 0]

structure Started (s : Sys) : Prop extends Quiet s where
  wk : s.wk = upd (fun _ => WorkerSt.empty) 0 W0started
  cmd0 : ∃ req, s.cmdQ 0 = [Cmd.getResult req 0]

theorem preStart_init (n : Nat) (prog : Prog) (req : Nat) (hn : 0 < n) (hwf : ProgWF prog) : PreStart (Sys.init n prog req) := by
  refine { npos := hn, nofault := rfl, progwf := hwf, router := rfl, pending := rfl, nextPid := rfl, results := rfl, evtQ := fun _ => rfl,
           cmdOther := ?_, sent := rfl, appended := rfl, dropped := rfl, deadDropped := rfl, spawned := rfl, spawnNotified := rfl,
           reported := rfl, learned := rfl, wk := rfl, cmd0 := ⟨2, req, rfl⟩ }
  intro w hw c hc
  simp only [Sys.init, hw, if_false] at hc
  split at hc <;> simp_all

theorem PreStart.wk_idle {s : Sys} (h : PreStart s) (i : Wid) :
    (s.wk i).queue = [] ∧ (s.wk i).selecting = [] ∧ (s.wk i).awaited = [] ∧ (s.wk i).resultReqKeys = [] := by
  rw [h.wk]
  by_cases e : i = 0
  · subst e; simp [W0init, WorkerSt.setProc, WorkerSt.empty]
  · simp [e, WorkerSt.empty]

theorem checkExpired_idle {w : WorkerSt} (hq : w.selecting = []) (prog : Prog) (now : Nat) (ordQ : List Pid) :
    w.checkExpired prog now ordQ = w := by
  cases w
  simp only [WorkerSt.checkExpired, WorkerSt.expired] at *
  subst hq
  simp

theorem execStep_idle {s : Sys} {i : Wid} (hq : (s.wk i).queue = []) (hs : (s.wk i).selecting = [])
    (fuel : Nat) (ordQ : List Pid) : execStep s i fuel ordQ = s := by
  unfold execStep
  dsimp only
  rw [checkExpired_idle hs, hq]
  simp

theorem checkStep_idle {s : Sys} {i : Wid} (ha : (s.wk i).awaited = []) (hr : (s.wk i).resultReqKeys = [])
    (ordE : List Pid) : checkStep s i ordE = s := by
  unfold checkStep completedAwaited
  dsimp only
  rw [ha]
  simp [hr]

/-- the five micro-steps -/
inductive Micro where
  | env (w : Wid)
  | cmd (i : Wid)
  | exec (i : Wid) (fuel : Nat) (ordQ : List Pid)
  | check (i : Wid) (ordE : List Pid)
  | tick (ms : Nat)

def microStep (R : Rules) (s : Sys) : Micro → Sys
  | .env w => envStep1With R.combine s w
  | .cmd i => cmdStep1With R s i
  | .exec i fuel ordQ => execStep s i fuel ordQ
  | .check i ordE => checkStep s i ordE
  | .tick ms => { s with now := s.now + ms }

theorem PreStart.micro {s : Sys} (h : PreStart s) (R : Rules) (m : Micro) :
    PreStart (microStep R s m) ∨ Started (microStep R s m) := by
  cases m with
  | env w =>
    left
    simp only [microStep, envStep1With, h.evtQ w]
    exact h
  | exec i fuel ordQ =>
    left
    obtain ⟨hq, hs, _, _⟩ := h.wk_idle i
    simp only [microStep, execStep_idle hq hs]
    exact h
  | check i ordE =>
    left
    obtain ⟨_, _, ha, hr⟩ := h.wk_idle i
    simp only [microStep, checkStep_idle ha hr]
    exact h
  | tick ms => left; exact { h with }
  | cmd i =>
    simp only [microStep, cmdStep1With]
    by_cases e : i = 0
    · subst e
      obtain ⟨k, req, hk⟩ := h.cmd0
      cases k with
      | zero =>
        right
        simp only [List.replicate, List.nil_append] at hk
        rw [hk]
        simp only [handleCmdWith]
        have hlen : ¬ (0 ≥ s.prog.length) := by have := h.progwf.1; omega
        rw [if_neg hlen]
        have hp : (s.wk 0).procs 0 = some (Proc.sleeping 0) := by
          rw [h.wk]; simp [W0init, WorkerSt.setProc]
        simp only [hp, Proc.sleeping, Proc.fresh]
        refine { npos := h.npos, nofault := h.nofault, progwf := h.progwf, router := h.router, pending := h.pending, nextPid := h.nextPid,
                 results := h.results, evtQ := h.evtQ, cmdOther := ?_, sent := h.sent, appended := h.appended,
                 dropped := h.dropped, deadDropped := h.deadDropped, spawned := h.spawned, spawnNotified := h.spawnNotified, reported := h.reported,
                 learned := h.learned, wk := ?_, cmd0 := ⟨req, by simp⟩ }
        · intro w hw c hc
          have hc' : c ∈ upd s.cmdQ 0 [Cmd.getResult req 0] w := hc
          simp only [upd_apply, hw, if_false] at hc'
          exact h.cmdOther w hw c hc'
        · show upd s.wk 0 _ = _
          simp only [h.wk]
          funext j
          by_cases ej : j = 0
          · subst ej; simp [W0started, W0init, WorkerSt.setProc, Proc.sleeping, Proc.fresh, WorkerSt.empty]
          · simp [ej]
      | succ k =>
        left
        simp only [List.replicate, List.cons_append] at hk
        rw [hk]
        simp only [handleCmdWith]
        refine { h with cmdOther := ?_, cmd0 := ⟨k, req, by simp⟩ }
        intro w hw c hc
        simp only [upd_apply, hw, if_false] at hc
        exact h.cmdOther w hw c hc
    · left
      cases hq : s.cmdQ i with
      | nil => simp only []; exact h
      | cons c rest =>
        have hc : c = Cmd.misc := h.cmdOther i e c (by rw [hq]; simp)
        subst hc
        simp only [handleCmdWith]
        refine { h with cmdOther := ?_, cmd0 := ?_ }
        · intro w hw c hc
          simp only [upd_apply] at hc
          split at hc
          · rename_i ew; subst ew; exact h.cmdOther w hw c (by rw [hq]; exact List.mem_cons_of_mem _ hc)
          · exact h.cmdOther w hw c hc
        · obtain ⟨k, req, hk⟩ := h.cmd0
          refine ⟨k, req, ?_⟩
          simp only [upd_apply, Ne.symm e, if_false]
          exact hk

/-! ### every `sysStep` is a sequence of micro-steps -/

theorem micro_iter (R : Rules) (P : Sys → Prop) (hP : ∀ s m, P s → P (microStep R s m)) (m : Micro) :
    ∀ k s, P s → P (iter (fun a => microStep R a m) k s) :=
  iter_invariant P _ (fun a ha => hP a m ha)

theorem sysStep_invariant (R : Rules) (P : Sys → Prop) (hP : ∀ s m, P s → P (microStep R s m))
    (s : Sys) (c : Choice) (h : P s) : P (sysStepWith R s c) := by
  cases c with
  | env vis =>
    simp only [sysStepWith, envStepWith]
    apply foldl_invariant P _ _ _ _ h
    intro a w ha
    exact micro_iter R P hP (.env w) _ a ha
  | worker i vis fuel ordQ ordE =>
    simp only [sysStepWith]
    split
    · simp only [workerStepWith]
      apply hP _ (.check i ordE)
      apply hP _ (.exec i fuel ordQ)
      exact micro_iter R P hP (.cmd i) _ s h
    · exact h
  | tick ms => exact hP s (.tick ms) h

theorem run_invariant (R : Rules) (P : Sys → Prop) (hP : ∀ s m, P s → P (microStep R s m))
    (cs : List Choice) (s : Sys) (h : P s) : P (runWith R s cs) := by
  unfold runWith
  exact foldl_invariant P _ (fun a c ha => sysStep_invariant R P hP a c ha) cs s h

/-- The induction principle: an invariant of all `Started` states that the micro-steps preserve
holds, up to the start-up phase, after every choice sequence from `Sys.init`. -/
theorem invariant_from_init (R : Rules) (G : Sys → Prop) (hstart : ∀ s, Started s → G s)
    (hstep : ∀ s m, G s → G (microStep R s m))
    (n : Nat) (prog : Prog) (req : Nat) (hn : 0 < n) (hwf : ProgWF prog) (cs : List Choice) :
    PreStart (runWith R (Sys.init n prog req) cs) ∨ G (runWith R (Sys.init n prog req) cs) := by
  apply run_invariant R (fun s => PreStart s ∨ G s)
  · intro s m h
    rcases h with h | h
    · rcases h.micro R m with h' | h'
      · exact Or.inl h'
      · exact Or.inr (hstart _ h')
    · exact Or.inr (hstep s m h)
  · exact Or.inl (preStart_init n prog req hn hwf)

theorem run_eq_runWith (s : Sys) (cs : List Choice) : run s cs = runWith Rules.current s cs := rfl

/-! ### the routing invariant holds from the start -/

theorem Started.wk_at {s : Sys} (h : Started s) (w : Wid) :
    s.wk w = if w = 0 then W0started else WorkerSt.empty := by
  rw [h.wk]; simp [upd_apply]

theorem W0started_procs (p : Pid) :
    W0started.procs p = if p = 0 then some { Proc.sleeping 0 with result := none, fn := 0, pc := 0, acc := [] } else none := by
  simp only [W0started, W0init, WorkerSt.setProc, WorkerSt.empty, upd_apply]
  split <;> simp_all

theorem Started.procs {s : Sys} (h : Started s) (w : Wid) (p : Pid) :
    (s.wk w).procs p = if w = 0 ∧ p = 0 then some { Proc.sleeping 0 with result := none, fn := 0, pc := 0, acc := [] } else none := by
  rw [h.wk_at]
  by_cases ew : w = 0
  · subst ew; simp [W0started_procs]
  · simp [ew, WorkerSt.empty]

theorem RInv.of_started {s : Sys} (h : Started s) : RInv s := by
  have hr : ∀ p w, s.env.router p = some w → p = 0 ∧ w = 0 := by
    intro p w hp; rw [h.router] at hp; simp only [upd_apply] at hp
    split at hp <;> simp_all
  refine { nofault := h.nofault, progwf := h.progwf, below := ?_, zero := ?_, wbound := ?_, placed := ?_, cmds := ?_, evts := ?_,
           regs := ?_, awaiters := ?_ }
  · intro p w hp; rw [h.nextPid, (hr p w hp).1]; exact Nat.one_pos
  · unfold Routed; rw [h.router]; simp
  · intro p w hp; rw [(hr p w hp).2]; exact h.npos
  · intro w p hp
    unfold known at hp; rw [h.procs] at hp
    split at hp
    · rename_i e; rw [e.1, e.2, h.router]; simp
    · simp at hp
  · intro w c hc
    by_cases ew : w = 0
    · subst ew
      obtain ⟨req, hq⟩ := h.cmd0
      rw [hq] at hc; simp at hc; subst hc
      show known s 0 0
      unfold known; rw [h.procs]; simp
    · rw [h.cmdOther w ew c hc]; trivial
  · intro w e he; rw [h.evtQ w] at he; simp at he
  · intro w p x hx q hq
    rw [h.procs] at hx
    split at hx
    · simp at hx; subst hx
      simp [Proc.sleeping, Proc.fresh] at hq
      subst hq; unfold Routed; rw [h.router]; simp
    · simp at hx
  · intro w t a ha
    rw [h.wk_at] at ha
    split at ha <;> simp [W0started, W0init, WorkerSt.setProc, WorkerSt.empty] at ha

/-- rules whose `emptyWake` only touches scheduling sets (true of `wakeSelecting` and `markActive`) -/
def Rules.Tame (R : Rules) : Prop := ∀ w p, SameProcs w (R.emptyWake w p)

theorem Rules.current_tame : Rules.current.Tame := fun w p => SameProcs.wakeSelecting w p
theorem Rules.replaceAnswers_tame : Rules.replaceAnswers.Tame := fun w p => SameProcs.wakeSelecting w p
theorem Rules.markActiveOnEmpty_tame : Rules.markActiveOnEmpty.Tame := fun w p => SameProcs.markActive w p
theorem Rules.wakeOnlyOnEmptyAnswer_tame : Rules.wakeOnlyOnEmptyAnswer.Tame := fun w p => SameProcs.wakeSelecting w p

theorem RInv.micro {R : Rules} (hR : R.Tame) {s : Sys} (h : RInv s) (m : Micro) : RInv (microStep R s m) := by
  cases m with
  | env w => exact h.envStep1 R.combine w
  | cmd i => exact h.cmdStep1 R hR i
  | exec i fuel ordQ => exact h.execStep i fuel ordQ
  | check i ordE => exact h.checkStep i ordE
  | tick ms => exact { h with }

end QM.Sys
