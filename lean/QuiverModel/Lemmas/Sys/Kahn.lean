import QuiverModel.Lemmas.Sys.Dead
/-!
M-Sys, Kahn-style trace semantics of the await/spawn fragment (C03, confluence).

`Trace prog ρ k pc acc`: `acc` is THE history of a process that runs script `k` and has reached
position `pc` — a relation defined from the script table alone (no state, no schedule).  It is
functional (`Trace.det`) and prefix-monotone (`Trace.prefix`).  `KInv` is the invariant "every
process's `acc` is the trace of its script at its position" together with what is needed to keep
it: a static typing of registers (`RegTyping`: which script the process held in a register runs),
the control shape of processes, and the faithfulness of stored await answers (`TInv`).
-/
namespace QM.Sys
set_option linter.unusedSectionVars false
variable [Cfg]

/-! ### static side -/

def isSpawnAct : Act → Bool
  | .spawn _ _ => true
  | _ => false

def nspawn (sc : Script) : Nat := sc.countP isSpawnAct

/-- number of registers of a process of script `k` at position `j`: itself, what it was handed,
its children so far -/
def base (prog : Prog) (ar : Nat → Nat) (k j : Nat) : Nat := 1 + ar k + nspawn ((prog.getD k []).take j)

/-! messages as (tag, seq) keys: the part of a message a receiver can see -/

def Msg.key (m : Msg) : Nat × Nat := (m.tag, m.seq)
def keyVal (k : Nat × Nat) : Val := Val.tuple [[(k.1 : Int)], [(k.2 : Int)]]
def Filter.acceptsK (f : Filter) (k : Nat × Nat) : Bool := f.accepts { src := 0, tag := k.1, seq := k.2 }

theorem Msg.val_key (m : Msg) : m.val = keyVal m.key := rfl
theorem accepts_key (f : Filter) (m : Msg) : f.accepts m = f.acceptsK m.key := by
  cases f <;> rfl

/-- `firstAccepted` on keys -/
def firstAcceptedK (f : Filter) : List (Nat × Nat) → Option ((Nat × Nat) × List (Nat × Nat))
  | [] => none
  | m :: rest =>
    if f.acceptsK m then some (m, rest)
    else match firstAcceptedK f rest with
      | some (x, rest') => some (x, m :: rest')
      | none => none

theorem firstAccepted_keys (f : Filter) : ∀ (mb : List Msg) (m : Msg) (mb' : List Msg),
    firstAccepted f mb = some (m, mb') → firstAcceptedK f (mb.map Msg.key) = some (m.key, mb'.map Msg.key)
  | [], _, _, h => by simp [firstAccepted] at h
  | m0 :: rest, m, mb', h => by
    unfold firstAccepted at h
    simp only [List.map_cons, firstAcceptedK, ← accepts_key]
    split at h
    · rename_i ha
      simp only [Option.some.injEq, Prod.mk.injEq] at h
      obtain ⟨rfl, rfl⟩ := h
      simp [ha]
    · rename_i ha
      simp only [ha, Bool.false_eq_true, if_false]
      split at h
      · rename_i x rest' hx
        simp only [Option.some.injEq, Prod.mk.injEq] at h
        obtain ⟨rfl, rfl⟩ := h
        rw [firstAccepted_keys f rest x rest' hx]; rfl
      · cases h

/-- a receive that finds its message in a prefix of the stream finds the same one in the stream -/
theorem firstAcceptedK_append (f : Filter) (t : List (Nat × Nat)) : ∀ (l : List (Nat × Nat)) (x : Nat × Nat) (l' : List (Nat × Nat)),
    firstAcceptedK f l = some (x, l') → firstAcceptedK f (l ++ t) = some (x, l' ++ t)
  | [], _, _, h => by simp [firstAcceptedK] at h
  | m0 :: rest, x, l', h => by
    simp only [firstAcceptedK, List.cons_append] at h ⊢
    cases hacc : f.acceptsK m0 with
    | true =>
      simp only [hacc, if_true, Option.some.injEq, Prod.mk.injEq] at h ⊢
      obtain ⟨rfl, rfl⟩ := h; exact ⟨rfl, rfl⟩
    | false =>
      simp only [hacc, Bool.false_eq_true, if_false] at h ⊢
      cases hr : firstAcceptedK f rest with
      | none => rw [hr] at h; cases h
      | some yr =>
        obtain ⟨y, rest'⟩ := yr
        rw [hr] at h
        simp only [Option.some.injEq, Prod.mk.injEq] at h
        obtain ⟨rfl, rfl⟩ := h
        rw [firstAcceptedK_append f t rest y rest' hr]; rfl

def isRecvAct : Act → Bool
  | .select [.recv _] => true
  | _ => false

/-- script `k` contains a receive -/
def hasRecv (prog : Prog) (k : Nat) : Bool := (prog.getD k []).any isRecvAct

/-- what one action of script `k` at position `j` must satisfy: `ρ k r` = the script run by the
process held in register `r` of a process that runs script `k`; `ar k` = how many pids a process of
script `k` is handed at spawn -/
def ActTyped (prog : Prog) (ρ : Nat → Nat → Nat) (ar : Nat → Nat) (k j : Nat) : Act → Prop
  | .send _ _ _ => True
  | .spawn f pass =>
    pass.length = ar f ∧ (∀ i (h : i < pass.length), pass[i] < base prog ar k j ∧ ρ f (i + 1) = ρ k pass[i]) ∧
    ρ k (base prog ar k j) = f ∧ ρ f 0 = f
  | .select [.proc r] => r < base prog ar k j
  | .select [.recv _] => True
  | _ => False

/-- **Static register typing** of an await/spawn script table (no receive, no timeout, no `fail`,
one process source per select): a checkable property of the table alone. -/
structure RegTyping (prog : Prog) (ρ : Nat → Nat → Nat) (ar : Nat → Nat) : Prop where
  main0 : ar 0 = 0
  self0 : ρ 0 0 = 0
  acts : ∀ k j a, (prog.getD k [])[j]? = some a → ActTyped prog ρ ar k j a

/-- the Kahn history of script `k` at position `pc`, and what is left of its input stream
(`σ k`: the messages sent to it, in order) -/
inductive Trace (prog : Prog) (ρ : Nat → Nat → Nat) (σ : Nat → List (Nat × Nat)) : Nat → Nat → List Val → List (Nat × Nat) → Prop
  | zero (k : Nat) : Trace prog ρ σ k 0 [] (σ k)
  | send (k pc : Nat) (acc : List Val) (rem : List (Nat × Nat)) (r t q : Nat) : Trace prog ρ σ k pc acc rem →
      (prog.getD k [])[pc]? = some (.send r t q) → Trace prog ρ σ k (pc + 1) acc rem
  | spawn (k pc : Nat) (acc : List Val) (rem : List (Nat × Nat)) (f : Nat) (pass : List Nat) : Trace prog ρ σ k pc acc rem →
      (prog.getD k [])[pc]? = some (.spawn f pass) → Trace prog ρ σ k (pc + 1) acc rem
  | await (k pc : Nat) (acc : List Val) (rem : List (Nat × Nat)) (r : Nat) (a : List Val) (rem' : List (Nat × Nat)) :
      Trace prog ρ σ k pc acc rem →
      (prog.getD k [])[pc]? = some (.select [.proc r]) →
      Trace prog ρ σ (ρ k r) (prog.getD (ρ k r) []).length a rem' →
      Trace prog ρ σ k (pc + 1) (acc ++ [Val.tuple ([(ρ k r : Int)] :: a)]) rem
  | recv (k pc : Nat) (acc : List Val) (rem : List (Nat × Nat)) (f : Filter) (key : Nat × Nat) (rem' : List (Nat × Nat)) :
      Trace prog ρ σ k pc acc rem →
      (prog.getD k [])[pc]? = some (.select [.recv f]) →
      firstAcceptedK f rem = some (key, rem') →
      Trace prog ρ σ k (pc + 1) (acc ++ [keyVal key]) rem'

/-- **a script has one history**: the trace relation is functional -/
theorem Trace.det {prog : Prog} {ρ : Nat → Nat → Nat} {σ : Nat → List (Nat × Nat)} {k pc : Nat} {a1 : List Val} {r1 : List (Nat × Nat)}
    (h1 : Trace prog ρ σ k pc a1 r1) :
    ∀ {a2 : List Val} {r2 : List (Nat × Nat)}, Trace prog ρ σ k pc a2 r2 → a1 = a2 ∧ r1 = r2 := by
  induction h1 with
  | zero k => intro a2 r2 h2; cases h2; exact ⟨rfl, rfl⟩
  | send k pc acc rem r t q _ hs ih =>
    intro a2 r2 h2
    cases h2 with
    | send _ _ _ _ _ _ _ h2' _ => exact ih h2'
    | spawn _ _ _ _ _ _ h2' hs' => rw [hs] at hs'; cases hs'
    | await _ _ _ _ _ _ _ h2' hs' _ => rw [hs] at hs'; cases hs'
    | recv _ _ _ _ _ _ _ h2' hs' _ => rw [hs] at hs'; cases hs'
  | spawn k pc acc rem f pass _ hs ih =>
    intro a2 r2 h2
    cases h2 with
    | send _ _ _ _ _ _ _ h2' hs' => rw [hs] at hs'; cases hs'
    | spawn _ _ _ _ _ _ h2' _ => exact ih h2'
    | await _ _ _ _ _ _ _ h2' hs' _ => rw [hs] at hs'; cases hs'
    | recv _ _ _ _ _ _ _ h2' hs' _ => rw [hs] at hs'; cases hs'
  | await k pc acc rem r a rem' _ hs _ ih1 ih2 =>
    intro a2 r2 h2
    cases h2 with
    | send _ _ _ _ _ _ _ h2' hs' => rw [hs] at hs'; cases hs'
    | spawn _ _ _ _ _ _ h2' hs' => rw [hs] at hs'; cases hs'
    | await _ _ acc' _ r' a' rem2 h2' hs' ht' =>
      rw [hs] at hs'
      simp only [Option.some.injEq, Act.select.injEq, List.cons.injEq, Src.proc.injEq, and_true] at hs'
      subst hs'
      obtain ⟨e1, e2⟩ := ih1 h2'
      obtain ⟨e3, _⟩ := ih2 ht'
      exact ⟨by rw [e1, e3], e2⟩
    | recv _ _ _ _ _ _ _ h2' hs' _ => rw [hs] at hs'; simp at hs'
  | recv k pc acc rem f key rem' _ hs hf ih =>
    intro a2 r2 h2
    cases h2 with
    | send _ _ _ _ _ _ _ h2' hs' => rw [hs] at hs'; cases hs'
    | spawn _ _ _ _ _ _ h2' hs' => rw [hs] at hs'; cases hs'
    | await _ _ _ _ _ _ _ h2' hs' _ => rw [hs] at hs'; simp at hs'
    | recv _ _ acc' rem2 f' key' _ h2' hs' hf' =>
      rw [hs] at hs'
      simp only [Option.some.injEq, Act.select.injEq, List.cons.injEq, Src.recv.injEq, and_true] at hs'
      subst hs'
      obtain ⟨e1, e2⟩ := ih h2'
      subst e1 e2
      rw [hf] at hf'
      simp only [Option.some.injEq, Prod.mk.injEq] at hf'
      obtain ⟨rfl, rfl⟩ := hf'
      exact ⟨rfl, rfl⟩

/-- earlier positions have a prefix of the history -/
theorem Trace.prefix {prog : Prog} {ρ : Nat → Nat → Nat} {σ : Nat → List (Nat × Nat)} {k pc2 : Nat} {a2 : List Val} {r2 : List (Nat × Nat)}
    (h2 : Trace prog ρ σ k pc2 a2 r2) :
    ∀ {pc1 : Nat} {a1 : List Val} {r1 : List (Nat × Nat)}, Trace prog ρ σ k pc1 a1 r1 → pc1 ≤ pc2 → a1 <+: a2 := by
  induction h2 with
  | zero k => intro pc1 a1 r1 h1 hle; have : pc1 = 0 := by omega
              subst this; cases h1; exact List.prefix_refl _
  | send k pc acc rem r t q h hs ih =>
    intro pc1 a1 r1 h1 hle
    by_cases e : pc1 = pc + 1
    · subst e; rw [(h1.det (Trace.send k pc acc rem r t q h hs)).1]; exact List.prefix_refl _
    · exact ih h1 (by omega)
  | spawn k pc acc rem f pass h hs ih =>
    intro pc1 a1 r1 h1 hle
    by_cases e : pc1 = pc + 1
    · subst e; rw [(h1.det (Trace.spawn k pc acc rem f pass h hs)).1]; exact List.prefix_refl _
    · exact ih h1 (by omega)
  | await k pc acc rem r a rem' h hs ht ih _ =>
    intro pc1 a1 r1 h1 hle
    by_cases e : pc1 = pc + 1
    · subst e; rw [(h1.det (Trace.await k pc acc rem r a rem' h hs ht)).1]; exact List.prefix_refl _
    · exact (ih h1 (by omega)).trans (List.prefix_append _ _)
  | recv k pc acc rem f key rem' h hs hf ih =>
    intro pc1 a1 r1 h1 hle
    by_cases e : pc1 = pc + 1
    · subst e; rw [(h1.det (Trace.recv k pc acc rem f key rem' h hs hf)).1]; exact List.prefix_refl _
    · exact (ih h1 (by omega)).trans (List.prefix_append _ _)

/-! ### one time slice -/

theorem actTyped_select {prog : Prog} {ρ : Nat → Nat → Nat} {ar : Nat → Nat} {k j : Nat} {srcs : List Src}
    (h : ActTyped prog ρ ar k j (.select srcs)) :
    (∃ r, srcs = [.proc r] ∧ r < base prog ar k j) ∨ (∃ f, srcs = [.recv f]) := by
  match srcs, h with
  | [.proc r], h => exact Or.inl ⟨r, rfl, h⟩
  | [.recv f], _ => exact Or.inr ⟨f, rfl⟩

theorem nspawn_take_succ {sc : Script} {j : Nat} {a : Act} (h : sc[j]? = some a) :
    nspawn (sc.take (j + 1)) = nspawn (sc.take j) + (if isSpawnAct a then 1 else 0) := by
  unfold nspawn
  rw [List.take_add_one, h]
  simp [List.countP_append, List.countP_cons]

theorem lt_of_getElem?_some {α : Type} {l : List α} {j : Nat} {a : α} (h : l[j]? = some a) : j < l.length := by
  rcases Nat.lt_or_ge j l.length with h1 | h1
  · exact h1
  · rw [List.getElem?_eq_none h1] at h; cases h

theorem hasRecv_of_getElem {prog : Prog} {k j : Nat} {f : Filter} (h : (prog.getD k [])[j]? = some (.select [.recv f])) :
    hasRecv prog k = true := by
  unfold hasRecv
  rw [List.any_eq_true]
  exact ⟨_, List.mem_of_getElem? h, rfl⟩

theorem firstReady_single (p : Proc) (now start : Nat) (src : Src) :
    firstReady p now start [src] = srcReady p now start src := by
  unfold firstReady
  cases srcReady p now start src <;> rfl

theorem srcReady_proc (p : Proc) (now start r : Nat) (hf : p.awaitFailed = []) :
    (∃ v, alookup p.awaiting (p.reg r) = some (some v) ∧ srcReady p now start (.proc r) = .yes v p.mailbox) ∨
    srcReady p now start (.proc r) = .no := by
  unfold srcReady
  simp only [hf, List.not_mem_nil, if_false]
  cases h : alookup p.awaiting (p.reg r) with
  | none => exact Or.inr rfl
  | some o =>
    cases o with
    | none => exact Or.inr rfl
    | some v => exact Or.inl ⟨v, rfl, rfl⟩

theorem srcReady_recv (p : Proc) (now start : Nat) (f : Filter) :
    (∃ m rest, firstAccepted f p.mailbox = some (m, rest) ∧ srcReady p now start (.recv f) = .yes m.val rest) ∨
    srcReady p now start (.recv f) = .no := by
  simp only [srcReady]
  cases h : firstAccepted f p.mailbox with
  | none => exact Or.inr rfl
  | some mr => obtain ⟨m, rest⟩ := mr; exact Or.inl ⟨m, rest, rfl, rfl⟩

/-- a value is the result of a complete run of script `f` -/
def GoodVal (prog : Prog) (ρ : Nat → Nat → Nat) (σ : Nat → List (Nat × Nat)) (f : Nat) (v : Val) : Prop :=
  ∃ a rem, v = Val.tuple ([(f : Int)] :: a) ∧ Trace prog ρ σ f (prog.getD f []).length a rem

/-- history and input: the trace of the process, whose remaining stream (if the script receives
at all) is the mailbox followed by `tail`, what has not arrived yet -/
def TraceMb (prog : Prog) (ρ : Nat → Nat → Nat) (σ : Nat → List (Nat × Nat)) (tail : List (Nat × Nat)) (x : Proc) : Prop :=
  ∃ rem, Trace prog ρ σ x.fn x.pc x.acc rem ∧ (hasRecv prog x.fn = true → rem = x.mailbox.map Msg.key ++ tail)

/-- the process-local facts a time slice starts from -/
structure Runnable (prog : Prog) (ρ : Nat → Nat → Nat) (ar : Nat → Nat) (σ : Nat → List (Nat × Nat)) (tail : List (Nat × Nat))
    (x : Proc) : Prop where
  res : x.result = none
  issued : x.spawnIssued = false
  nofail : x.awaitFailed = []
  pcle : x.pc ≤ (prog.getD x.fn []).length
  trace : TraceMb prog ρ σ tail x
  rlen : x.regs.length = base prog ar x.fn x.pc
  store : ∀ r v, r < x.regs.length → (x.reg r, some v) ∈ x.awaiting → GoodVal prog ρ σ (ρ x.fn r) v

structure SliceOK (prog : Prog) (ρ : Nat → Nat → Nat) (σ : Nat → List (Nat × Nat)) (tail : List (Nat × Nat)) (x : Proc)
    (r : Proc × Outcome) : Prop where
  fn : r.1.fn = x.fn
  regs : r.1.regs = x.regs
  nofail : r.1.awaitFailed = []
  res : r.1.result = none
  pcle : r.1.pc ≤ (prog.getD x.fn []).length
  trace : TraceMb prog ρ σ tail r.1
  nsp : nspawn ((prog.getD x.fn []).take r.1.pc) = nspawn ((prog.getD x.fn []).take x.pc)
  notFailed : r.2 ≠ .failed
  spawnOut : ∀ f regs, r.2 = .spawn f regs →
    r.1.spawnIssued = true ∧ ∃ pass, (prog.getD x.fn [])[r.1.pc]? = some (.spawn f pass) ∧ regs = pass.map r.1.reg
  other : (∀ f regs, r.2 ≠ .spawn f regs) → r.1.spawnIssued = false
  done : r.2 = .done → r.1.pc = (prog.getD x.fn []).length

theorem slice_spec {prog : Prog} {ρ : Nat → Nat → Nat} {ar : Nat → Nat} {σ : Nat → List (Nat × Nat)} (ht : RegTyping prog ρ ar)
    (tail : List (Nat × Nat)) (now : Nat) (self : Pid) :
    ∀ (fuel : Nat) (x : Proc), Runnable prog ρ ar σ tail x → SliceOK prog ρ σ tail x (slice prog now self fuel x)
  | 0, x, h => by
    unfold slice
    exact ⟨rfl, rfl, h.nofail, h.res, h.pcle, h.trace, rfl, by simp, by simp, fun _ => h.issued, by simp⟩
  | fuel + 1, x, h => by
    unfold slice
    split
    · rename_i hnone
      have hge : (prog.getD x.fn []).length ≤ x.pc := by
        rcases Nat.lt_or_ge x.pc (prog.getD x.fn []).length with h1 | h1
        · have : (x.script prog)[x.pc]? = some ((prog.getD x.fn [])[x.pc]) := by simp [Proc.script]
          rw [this] at hnone; cases hnone
        · exact h1
      exact ⟨rfl, rfl, h.nofail, h.res, h.pcle, h.trace, rfl, by simp, by simp, fun _ => h.issued,
        fun _ => Nat.le_antisymm h.pcle hge⟩
    · rename_i r tag seq hs
      have hs' : (prog.getD x.fn [])[x.pc]? = some (.send r tag seq) := hs
      have hlt := lt_of_getElem?_some hs'
      obtain ⟨rem, htr, hrem⟩ := h.trace
      refine ⟨rfl, rfl, h.nofail, h.res, hlt, ⟨rem, Trace.send _ _ _ _ r tag seq htr hs', hrem⟩, ?_, by simp, by simp, fun _ => h.issued, by simp⟩
      show nspawn ((prog.getD x.fn []).take (x.pc + 1)) = _
      rw [nspawn_take_succ hs']; simp [isSpawnAct]
    · rename_i f pass hs
      have hs' : (prog.getD x.fn [])[x.pc]? = some (.spawn f pass) := hs
      simp only [h.issued, Bool.false_eq_true, if_false]
      exact ⟨rfl, rfl, h.nofail, h.res, h.pcle, h.trace, rfl, by simp,
        fun f' regs' he => by
          simp only [Outcome.spawn.injEq] at he
          obtain ⟨rfl, rfl⟩ := he
          exact ⟨rfl, pass, hs', rfl⟩,
        fun hno => absurd rfl (hno f (pass.map x.reg)), by simp⟩
    · rename_i hs
      have hs' : (prog.getD x.fn [])[x.pc]? = some .fail := hs
      exact (ht.acts _ _ _ hs').elim
    · rename_i srcs hs
      have hs' : (prog.getD x.fn [])[x.pc]? = some (.select srcs) := hs
      have hlt := lt_of_getElem?_some hs'
      have hnsp : nspawn ((prog.getD x.fn []).take (x.pc + 1)) = nspawn ((prog.getD x.fn []).take x.pc) := by
        rw [nspawn_take_succ hs']; simp [isSpawnAct]
      obtain ⟨rem, htr, hrem⟩ := h.trace
      rcases actTyped_select (ht.acts _ _ _ hs') with ⟨r, rfl, hr⟩ | ⟨f, rfl⟩
      · split
        · -- initialize_select: one process source, so an Await goes out
          simp only [selTargets, List.isEmpty_cons, Bool.false_eq_true, if_false]
          exact ⟨rfl, rfl, h.nofail, h.res, h.pcle, ⟨rem, htr, hrem⟩, rfl, by simp, by simp, fun _ => h.issued, by simp⟩
        · split
          · exact ⟨rfl, rfl, h.nofail, h.res, h.pcle, ⟨rem, htr, hrem⟩, rfl, by simp, by simp, fun _ => h.issued, by simp⟩
          · dsimp only
            rw [firstReady_single]
            rcases srcReady_proc { x with selStart := some (x.selStart.getD now) } now (x.selStart.getD now) r h.nofail with ⟨v, hv, hready⟩ | hready
            · rw [hready]
              dsimp only
              have hmem : (x.reg r, some v) ∈ x.awaiting := alookup_mem hv
              have hgood := h.store r v (by rw [h.rlen]; exact hr) hmem
              obtain ⟨a, rema, rfl, hta⟩ := hgood
              have ih := slice_spec ht tail now self fuel
                { x with selStart := none, pc := x.pc + 1, selInit := false, acc := x.acc ++ [Val.tuple ([(ρ x.fn r : Int)] :: a)], mailbox := x.mailbox, unanswered := [],
                         awaiting := x.awaiting.filter (fun kv => kv.1 ∉ selTargets x [.proc r]),
                         awaitFailed := x.awaitFailed.filter (· ∉ selTargets x [.proc r]) }
                { res := h.res, issued := h.issued, nofail := by simp [h.nofail], pcle := hlt,
                  trace := ⟨rem, Trace.await _ _ _ _ r a rema htr hs' hta, hrem⟩,
                  rlen := by show x.regs.length = base prog ar x.fn (x.pc + 1)
                             rw [h.rlen]; unfold base; rw [hnsp],
                  store := fun r' v' hr' hm' => h.store r' v' hr' (List.mem_filter.mp hm').1 }
              exact ⟨ih.fn, ih.regs, ih.nofail, ih.res, ih.pcle, ih.trace, ih.nsp.trans hnsp, ih.notFailed, ih.spawnOut, ih.other, ih.done⟩
            · rw [hready]
              exact ⟨rfl, rfl, h.nofail, h.res, h.pcle, ⟨rem, htr, hrem⟩, rfl, by simp, by simp, fun _ => h.issued, by simp⟩
      · have hhas := hasRecv_of_getElem hs'
        split
        · -- initialize_select without process sources: the select is evaluated in the same slice
          simp only [selTargets, List.isEmpty_nil, if_true]
          have ih := slice_spec ht tail now self fuel { x with selInit := true, selStart := some now }
            { res := h.res, issued := h.issued, nofail := h.nofail, pcle := h.pcle, trace := ⟨rem, htr, hrem⟩,
              rlen := h.rlen, store := h.store }
          exact ⟨ih.fn, ih.regs, ih.nofail, ih.res, ih.pcle, ih.trace, ih.nsp, ih.notFailed, ih.spawnOut, ih.other, ih.done⟩
        · split
          · exact ⟨rfl, rfl, h.nofail, h.res, h.pcle, ⟨rem, htr, hrem⟩, rfl, by simp, by simp, fun _ => h.issued, by simp⟩
          · dsimp only
            rw [firstReady_single]
            rcases srcReady_recv { x with selStart := some (x.selStart.getD now) } now (x.selStart.getD now) f with ⟨m, rest, hfa, hready⟩ | hready
            · rw [hready]
              dsimp only
              have hfa' : firstAccepted f x.mailbox = some (m, rest) := hfa
              have hk := firstAcceptedK_append f tail _ _ _ (firstAccepted_keys f _ _ _ hfa')
              rw [← hrem hhas] at hk
              have ih := slice_spec ht tail now self fuel
                { x with selStart := none, pc := x.pc + 1, selInit := false, acc := x.acc ++ [m.val], mailbox := rest, unanswered := [],
                         awaiting := x.awaiting.filter (fun kv => kv.1 ∉ selTargets x [.recv f]),
                         awaitFailed := x.awaitFailed.filter (· ∉ selTargets x [.recv f]) }
                { res := h.res, issued := h.issued, nofail := by simp [h.nofail], pcle := hlt,
                  trace := ⟨rest.map Msg.key ++ tail, by rw [Msg.val_key]; exact Trace.recv _ _ _ _ f m.key _ htr hs' hk, fun _ => rfl⟩,
                  rlen := by show x.regs.length = base prog ar x.fn (x.pc + 1)
                             rw [h.rlen]; unfold base; rw [hnsp],
                  store := fun r' v' hr' hm' => h.store r' v' hr' (List.mem_filter.mp hm').1 }
              exact ⟨ih.fn, ih.regs, ih.nofail, ih.res, ih.pcle, ih.trace, ih.nsp.trans hnsp, ih.notFailed, ih.spawnOut, ih.other, ih.done⟩
            · rw [hready]
              exact ⟨rfl, rfl, h.nofail, h.res, h.pcle, ⟨rem, htr, hrem⟩, rfl, by simp, by simp, fun _ => h.issued, by simp⟩

/-! ### the system invariant -/

/-- the control part of a process: what the trace invariant talks about -/
def Ctl (x : Proc) : Nat × Nat × List Pid × List Val × Bool × Option Res × List Pid × List Msg :=
  (x.fn, x.pc, x.regs, x.acc, x.spawnIssued, x.result, x.awaitFailed, if x.result.isNone then x.mailbox else [])

/-- `TraceMb` for any process of the system: the mailbox clause concerns a process that can still
receive (no result yet).  The mailbox of a finished process is not read again — and the variant
`Cfg.releaseDead` empties it. -/
def TraceMbL (prog : Prog) (ρ : Nat → Nat → Nat) (σ : Nat → List (Nat × Nat)) (tail : List (Nat × Nat)) (x : Proc) : Prop :=
  ∃ rem, Trace prog ρ σ x.fn x.pc x.acc rem ∧
    (x.result = none → hasRecv prog x.fn = true → rem = x.mailbox.map Msg.key ++ tail)

theorem TraceMb.toL {prog : Prog} {ρ : Nat → Nat → Nat} {σ : Nat → List (Nat × Nat)} {tail : List (Nat × Nat)} {x : Proc}
    (h : TraceMb prog ρ σ tail x) : TraceMbL prog ρ σ tail x := by
  obtain ⟨rem, h1, h2⟩ := h; exact ⟨rem, h1, fun _ => h2⟩

theorem TraceMbL.live {prog : Prog} {ρ : Nat → Nat → Nat} {σ : Nat → List (Nat × Nat)} {tail : List (Nat × Nat)} {x : Proc}
    (h : TraceMbL prog ρ σ tail x) (hr : x.result = none) : TraceMb prog ρ σ tail x := by
  obtain ⟨rem, h1, h2⟩ := h; exact ⟨rem, h1, h2 hr⟩

/-- how many messages have been appended to the mailbox of `p` so far (ghost history) -/
def napp (s : Sys) (p : Pid) : Nat := (s.appended.filter (fun e => e.1 = p)).length

/-- pid `q` runs (or, still in its SpawnProcess command, will run) script `f` -/
def Sid (s : Sys) (q : Pid) (f : Nat) : Prop :=
  (∃ w y, (s.wk w).procs q = some y ∧ y.fn = f) ∨ (∃ w regs, Cmd.spawn q f regs ∈ s.cmdQ w)

structure PInv (ρ : Nat → Nat → Nat) (ar : Nat → Nat) (σ : Nat → List (Nat × Nat)) (s : Sys) (w : Wid) (p : Pid) (x : Proc) : Prop where
  noerr : x.result ≠ some .err
  nofail : x.awaitFailed = []
  pcle : x.pc ≤ (s.prog.getD x.fn []).length
  fin : ∀ v, x.result = some (.ok v) → v = x.value ∧ x.pc = (s.prog.getD x.fn []).length ∧ x.spawnIssued = false
  trace : TraceMbL s.prog ρ σ ((σ x.fn).drop (napp s p)) x
  rlen : x.regs.length = base s.prog ar x.fn x.pc
  rsid : ∀ r (h : r < x.regs.length), Sid s x.regs[r] (ρ x.fn r)
  parked : x.spawnIssued = true → p ∈ (s.wk w).spawning ∧ ∃ f pass, (s.prog.getD x.fn [])[x.pc]? = some (.spawn f pass)
  notif : ∀ q, Cmd.notifySpawn p q ∈ s.cmdQ w → ∃ f pass, (s.prog.getD x.fn [])[x.pc]? = some (.spawn f pass) ∧ Sid s q f
  spev : ∀ f regs coloc, Evt.spawn p f regs coloc ∈ s.evtQ w →
    ∃ pass, (s.prog.getD x.fn [])[x.pc]? = some (.spawn f pass) ∧ regs = pass.map x.reg

structure KInv (ρ : Nat → Nat → Nat) (ar : Nat → Nat) (σ : Nat → List (Nat × Nat)) (s : Sys) : Prop where
  t : TInv s
  wi : WInv s
  typing : RegTyping s.prog ρ ar
  procs : ∀ w p x, (s.wk w).procs p = some x → PInv ρ ar σ s w p x
  cmds : ∀ w q f regs, Cmd.spawn q f regs ∈ s.cmdQ w →
    regs.length = ar f ∧ ρ f 0 = f ∧ ∀ i (h : i < regs.length), Sid s regs[i] (ρ f (i + 1))
  appKnown : ∀ e ∈ s.appended, ∃ w, known s w e.1

theorem ctl_eq {x x' : Proc} (h : Ctl x' = Ctl x) :
    x'.fn = x.fn ∧ x'.pc = x.pc ∧ x'.regs = x.regs ∧ x'.acc = x.acc ∧ x'.spawnIssued = x.spawnIssued ∧
    x'.result = x.result ∧ x'.awaitFailed = x.awaitFailed ∧ (x.result = none → x'.mailbox = x.mailbox) := by
  simp only [Ctl, Prod.mk.injEq] at h
  obtain ⟨a, b, c, d, e, f, g, k⟩ := h
  refine ⟨a, b, c, d, e, f, g, fun hn => ?_⟩
  rw [f, hn] at k; simpa using k

theorem PInv.transfer' {ρ : Nat → Nat → Nat} {ar : Nat → Nat} {σ : Nat → List (Nat × Nat)} {s s' : Sys} {w : Wid} {p : Pid} {x x' : Proc}
    (h : PInv ρ ar σ s w p x) (hprog : s'.prog = s.prog) (hsid : ∀ q f, Sid s q f → Sid s' q f)
    (e1 : x'.fn = x.fn) (e2 : x'.pc = x.pc) (e3 : x'.regs = x.regs) (e4 : x'.acc = x.acc)
    (e5 : x'.spawnIssued = x.spawnIssued) (e6 : x'.result = x.result) (e7 : x'.awaitFailed = x.awaitFailed)
    (hsp : p ∈ (s.wk w).spawning → p ∈ (s'.wk w).spawning)
    (hn : ∀ q, Cmd.notifySpawn p q ∈ s'.cmdQ w → Cmd.notifySpawn p q ∈ s.cmdQ w ∨
      ∃ f pass, (s.prog.getD x.fn [])[x.pc]? = some (.spawn f pass) ∧ Sid s' q f)
    (he : ∀ f regs coloc, Evt.spawn p f regs coloc ∈ s'.evtQ w → Evt.spawn p f regs coloc ∈ s.evtQ w)
    (htrace : TraceMbL s'.prog ρ σ ((σ x'.fn).drop (napp s' p)) x') :
    PInv ρ ar σ s' w p x' := by
  have ev : x'.value = x.value := by simp [Proc.value, e1, e4]
  have er : x'.reg = x.reg := by funext r; simp [Proc.reg, e3]
  refine ⟨?_, ?_, ?_, ?_, htrace, ?_, ?_, ?_, ?_, ?_⟩
  · rw [e6]; exact h.noerr
  · rw [e7]; exact h.nofail
  · rw [e2, e1, hprog]; exact h.pcle
  · rw [e6, e2, e1, e5, ev, hprog]; exact h.fin
  · rw [e1, e2, e3, hprog]; exact h.rlen
  · intro r hr
    have hr' : r < x.regs.length := e3 ▸ hr
    have := hsid _ _ (h.rsid r hr')
    simpa only [e3, e1] using this
  · rw [e5, e1, e2, hprog]; intro hi
    exact ⟨hsp (h.parked hi).1, (h.parked hi).2⟩
  · intro q hq
    rcases hn q hq with hq' | ⟨f, pass, h1, h2⟩
    · obtain ⟨f, pass, h1, h2⟩ := h.notif q hq'
      exact ⟨f, pass, by rw [e1, e2, hprog]; exact h1, hsid _ _ h2⟩
    · exact ⟨f, pass, by rw [e1, e2, hprog]; exact h1, h2⟩
  · intro f regs coloc hq
    obtain ⟨pass, h1, h2⟩ := h.spev f regs coloc (he f regs coloc hq)
    exact ⟨pass, by rw [e1, e2, hprog]; exact h1, by rw [er]; exact h2⟩

theorem PInv.transfer {ρ : Nat → Nat → Nat} {ar : Nat → Nat} {σ : Nat → List (Nat × Nat)} {s s' : Sys} {w : Wid} {p : Pid} {x x' : Proc}
    (h : PInv ρ ar σ s w p x) (hprog : s'.prog = s.prog) (hsid : ∀ q f, Sid s q f → Sid s' q f) (hc : Ctl x' = Ctl x)
    (hsp : p ∈ (s.wk w).spawning → p ∈ (s'.wk w).spawning)
    (hn : ∀ q, Cmd.notifySpawn p q ∈ s'.cmdQ w → Cmd.notifySpawn p q ∈ s.cmdQ w ∨
      ∃ f pass, (s.prog.getD x.fn [])[x.pc]? = some (.spawn f pass) ∧ Sid s' q f)
    (he : ∀ f regs coloc, Evt.spawn p f regs coloc ∈ s'.evtQ w → Evt.spawn p f regs coloc ∈ s.evtQ w)
    (happ : napp s' p = napp s p) :
    PInv ρ ar σ s' w p x' := by
  obtain ⟨e1, e2, e3, e4, e5, e6, e7, e8⟩ := ctl_eq hc
  refine h.transfer' hprog hsid e1 e2 e3 e4 e5 e6 e7 hsp hn he ?_
  obtain ⟨rem, htr, hrem⟩ := h.trace
  refine ⟨rem, by rw [e1, e2, e4, hprog]; exact htr, ?_⟩
  intro hr
  have hr0 : x.result = none := by rw [← e6]; exact hr
  rw [e1, e8 hr0, hprog, happ]; exact hrem hr0

theorem mem_creates {l : List Cmd} {q : Pid} : q ∈ creates l ↔ ∃ f regs, Cmd.spawn q f regs ∈ l := by
  unfold creates
  rw [List.mem_filterMap]
  constructor
  · rintro ⟨c, hc, he⟩
    cases c <;> simp [cmdCreate] at he
    subst he; exact ⟨_, _, hc⟩
  · rintro ⟨f, regs, h⟩; exact ⟨_, h, rfl⟩

/-- a pid has one script -/
theorem Sid.proc_fn {s : Sys} (hs : SInv s) {q : Pid} {f : Nat} (h : Sid s q f) {w : Wid} {y : Proc}
    (hy : (s.wk w).procs q = some y) : y.fn = f := by
  have hk : known s w q := by simp [known, hy]
  have hr := hs.r.placed w q hk
  rcases h with ⟨w', y', hy', hf⟩ | ⟨w', regs, hm⟩
  · have hr' := hs.r.placed w' q (by simp [known, hy'])
    rw [hr] at hr'; simp only [Option.some.injEq] at hr'; subst hr'
    rw [hy] at hy'; simp only [Option.some.injEq] at hy'; subst hy'; exact hf
  · have hok := hs.r.cmds w' _ hm
    have hr' : s.env.router q = some w' := hok.1
    rw [hr] at hr'; simp only [Option.some.injEq] at hr'; subst hr'
    exact absurd hk ((hs.fresh w).2 q (mem_creates.mpr ⟨f, regs, hm⟩))

theorem Sid.mono {s s' : Sys}
    (hp : ∀ w q y, (s.wk w).procs q = some y → ∃ y', (s'.wk w).procs q = some y' ∧ y'.fn = y.fn)
    (hc : ∀ w q f regs, Cmd.spawn q f regs ∈ s.cmdQ w →
      Cmd.spawn q f regs ∈ s'.cmdQ w ∨ ∃ w' y, (s'.wk w').procs q = some y ∧ y.fn = f) :
    ∀ q f, Sid s q f → Sid s' q f := by
  rintro q f (⟨w, y, hy, hf⟩ | ⟨w, regs, hm⟩)
  · obtain ⟨y', hy', hf'⟩ := hp w q y hy
    exact Or.inl ⟨w, y', hy', hf'.trans hf⟩
  · rcases hc w q f regs hm with h1 | ⟨w', y, hy, hf⟩
    · exact Or.inr ⟨w, regs, h1⟩
    · exact Or.inl ⟨w', y, hy, hf⟩

/-- frame of a worker-side micro-step: everything outside worker `i`'s processes carries over -/
theorem KInv.workerFrame {ρ : Nat → Nat → Nat} {ar : Nat → Nat} {σ : Nat → List (Nat × Nat)} {s s' : Sys} (h : KInv ρ ar σ s) (i : Wid)
    (hprog : s'.prog = s.prog)
    (hwk : ∀ k, k ≠ i → s'.wk k = s.wk k)
    (hcq : ∀ w c, c ∈ s'.cmdQ w → c ∈ s.cmdQ w)
    (hevo : ∀ k, k ≠ i → ∀ e, e ∈ s'.evtQ k → e ∈ s.evtQ k)
    (hsid : ∀ q f, Sid s q f → Sid s' q f)
    (hna : ∀ w p, w ≠ i → ((s.wk w).procs p).isSome → napp s' p = napp s p)
    (hpi : ∀ p x', (s'.wk i).procs p = some x' → PInv ρ ar σ s' i p x') :
    (∀ w p x, (s'.wk w).procs p = some x → PInv ρ ar σ s' w p x) ∧
    (∀ w q f regs, Cmd.spawn q f regs ∈ s'.cmdQ w →
      regs.length = ar f ∧ ρ f 0 = f ∧ ∀ i (h : i < regs.length), Sid s' regs[i] (ρ f (i + 1))) := by
  refine ⟨?_, ?_⟩
  · intro w p x hx
    by_cases hw : w = i
    · subst hw; exact hpi p x hx
    · rw [hwk w hw] at hx
      refine (h.procs w p x hx).transfer hprog hsid rfl ?_ (fun q hq => Or.inl (hcq w _ hq)) (fun f regs coloc hq => hevo w hw _ hq)
        (hna w p hw (by simp [hx]))
      rw [hwk w hw]; exact id
  · intro w q f regs hm
    obtain ⟨h1, h2, h3⟩ := h.cmds w q f regs (hcq w _ hm)
    exact ⟨h1, h2, fun j hj => hsid _ _ (h3 j hj)⟩

/-! ### environment step: which commands appear -/

def plainCmd (c : Cmd) : Prop := cmdCreate c = none ∧ ∀ a b, c ≠ .notifySpawn a b

def CmdSpec (s s' : Sys) (w0 : Wid) : Prop :=
  s'.prog = s.prog ∧ (∀ w c, c ∈ s.cmdQ w → c ∈ s'.cmdQ w) ∧
  (∀ w c, c ∈ s'.cmdQ w → c ∈ s.cmdQ w ∨ plainCmd c ∨
      ∃ c0 f regs coloc rest, s.evtQ w0 = .spawn c0 f regs coloc :: rest ∧
        (c = .spawn s.env.nextPid f regs ∨ (c = .notifySpawn c0 s.env.nextPid ∧ w = w0))) ∧
  (∀ c0 f regs coloc rest, s.evtQ w0 = .spawn c0 f regs coloc :: rest → ∃ w, Cmd.spawn s.env.nextPid f regs ∈ s'.cmdQ w)

theorem cmdSpec_same {s s' : Sys} {w0 : Wid} (hp : s'.prog = s.prog) (hc : s'.cmdQ = s.cmdQ)
    (hns : ∀ c0 f regs coloc rest, s.evtQ w0 ≠ .spawn c0 f regs coloc :: rest) : CmdSpec s s' w0 :=
  ⟨hp, fun w c h => by rw [hc]; exact h, fun w c h => Or.inl (by rw [hc] at h; exact h),
   fun c0 f regs coloc rest h => absurd h (hns c0 f regs coloc rest)⟩

theorem cmdSpec_push {s s1 : Sys} {w0 : Wid} (hp : s1.prog = s.prog) (hc : s1.cmdQ = s.cmdQ) (w : Wid) (c : Cmd)
    (hpl : plainCmd c) (hns : ∀ c0 f regs coloc rest, s.evtQ w0 ≠ .spawn c0 f regs coloc :: rest) :
    CmdSpec s (s1.pushCmd w c) w0 := by
  refine ⟨hp, fun w' c' h => ?_, fun w' c' h => ?_, fun c0 f regs coloc rest h => absurd h (hns c0 f regs coloc rest)⟩
  · show c' ∈ upd s1.cmdQ w (s1.cmdQ w ++ [c]) w'
    rw [hc]; exact mem_upd_append_of_mem h
  · have h' : c' ∈ upd s1.cmdQ w (s1.cmdQ w ++ [c]) w' := h
    rw [hc] at h'
    rcases mem_upd_append h' with h1 | ⟨_, rfl⟩
    · exact Or.inl h1
    · exact Or.inr (Or.inl hpl)

theorem envStep1_cmdSpec (combine) {s : Sys} (h : RInv s) (w0 : Wid) : CmdSpec s (envStep1With combine s w0) w0 := by
  unfold envStep1With
  split
  · rename_i hq0
    exact cmdSpec_same rfl rfl (by intros; rw [hq0]; simp)
  · rename_i e rest hq
    obtain ⟨h1, he⟩ := h.popEvt hq
    cases e with
    | spawn c f regs coloc =>
      have hr : ({ s with evtQ := upd s.evtQ w0 rest } : Sys).env.router c = some w0 := he.1
      have hne : c ≠ ({ s with evtQ := upd s.evtQ w0 rest } : Sys).env.nextPid := Nat.ne_of_lt (h.below c w0 he.1)
      simp only [handleEventWith]
      rw [handleSpawn_eq hr hne]
      refine ⟨rfl, fun w c' hc' => ?_, fun w c' hc' => ?_, ?_⟩
      · exact mem_upd_append_of_mem (mem_upd_append_of_mem hc')
      · rcases mem_upd_append hc' with h2 | ⟨e1, e2⟩
        · rcases mem_upd_append h2 with h3 | ⟨_, e4⟩
          · exact Or.inl h3
          · exact Or.inr (Or.inr ⟨c, f, regs, coloc, rest, hq, Or.inl e4⟩)
        · exact Or.inr (Or.inr ⟨c, f, regs, coloc, rest, hq, Or.inr ⟨e2, e1⟩⟩)
      · intro c0 f' regs' coloc' rest' hq'
        rw [hq] at hq'
        simp only [List.cons.injEq, Evt.spawn.injEq] at hq'
        obtain ⟨⟨_, rfl, rfl, _⟩, _⟩ := hq'
        refine ⟨placement { s with evtQ := upd s.evtQ w0 rest } coloc s.env.nextPid, ?_⟩
        apply mem_upd_append_of_mem
        simp [upd_apply]
    | deliver t m =>
      have hns : ∀ c0 f regs coloc rest', s.evtQ w0 ≠ .spawn c0 f regs coloc :: rest' := by intros; rw [hq]; simp
      simp only [handleEventWith, handleDeliver]
      split
      · exact cmdSpec_same rfl rfl hns
      · refine cmdSpec_push ?_ ?_ _ _ ?_ hns <;> first | rfl | simp [plainCmd, cmdCreate]
    | await a ts =>
      have hns : ∀ c0 f regs coloc rest', s.evtQ w0 ≠ .spawn c0 f regs coloc :: rest' := by intros; rw [hq]; simp
      simp only [handleEventWith, handleAwait]
      split
      · exact cmdSpec_same rfl rfl hns
      · have hf := foldPush_spec (fun w => Cmd.queryAwait a (ts.filter (fun t => s.env.router t = some w)))
          (targetWorkers s.env.router ts)
          { s with evtQ := upd s.evtQ w0 rest, env := { s.env with pending := upd s.env.pending a (some { expected := targetWorkers s.env.router ts, responses := [] }) } }
        obtain ⟨_, _, _, f4, f5, _, f7⟩ := hf
        refine ⟨f4, f5, fun w c hc => ?_, fun c0 f regs coloc rest' h => absurd h (hns c0 f regs coloc rest')⟩
        rcases f7 w c hc with h2 | ⟨_, rfl⟩
        · exact Or.inl h2
        · exact Or.inr (Or.inl (by simp [plainCmd, cmdCreate]))
    | procResults a rs =>
      have hns : ∀ c0 f regs coloc rest', s.evtQ w0 ≠ .spawn c0 f regs coloc :: rest' := by intros; rw [hq]; simp
      simp only [handleEventWith, handleProcResultsWith]
      repeat' split
      all_goals first
        | exact cmdSpec_same rfl rfl hns
        | (refine cmdSpec_push ?_ ?_ _ _ ?_ hns <;> first | rfl | simp [plainCmd, cmdCreate])
    | resultResp req r =>
      exact cmdSpec_same rfl rfl (by intros; rw [hq]; simp)
    | exited p =>
      exact cmdSpec_same rfl rfl (by intros; rw [hq]; simp)

/-! ### worker operations that leave the control part alone -/

def CtlSame (w w' : WorkerSt) : Prop :=
  w'.spawning = w.spawning ∧ ∀ p, (w'.procs p).map Ctl = (w.procs p).map Ctl

theorem CtlSame.refl (w : WorkerSt) : CtlSame w w := ⟨rfl, fun _ => rfl⟩
theorem CtlSame.trans {a b c : WorkerSt} (h1 : CtlSame a b) (h2 : CtlSame b c) : CtlSame a c :=
  ⟨h2.1.trans h1.1, fun p => (h2.2 p).trans (h1.2 p)⟩

theorem CtlSame.of_procs {w w' : WorkerSt} (hp : w'.procs = w.procs) (hs : w'.spawning = w.spawning) : CtlSame w w' :=
  ⟨hs, fun p => by rw [hp]⟩

theorem CtlSame.back {w w' : WorkerSt} (h : CtlSame w w') {p : Pid} {x' : Proc} (hx : w'.procs p = some x') :
    ∃ x, w.procs p = some x ∧ Ctl x' = Ctl x := by
  have := h.2 p
  rw [hx] at this
  cases hw : w.procs p with
  | none => rw [hw] at this; cases this
  | some x => rw [hw] at this; simp only [Option.map_some, Option.some.injEq] at this; exact ⟨x, rfl, this⟩

theorem CtlSame.fwd {w w' : WorkerSt} (h : CtlSame w w') {p : Pid} {x : Proc} (hx : w.procs p = some x) :
    ∃ x', w'.procs p = some x' ∧ Ctl x' = Ctl x := by
  have := h.2 p
  rw [hx] at this
  cases hw : w'.procs p with
  | none => rw [hw] at this; cases this
  | some x' => rw [hw] at this; simp only [Option.map_some, Option.some.injEq] at this; exact ⟨x', rfl, this⟩

theorem CtlSame.updProc {w w' : WorkerSt} {q : Pid} {y y' : Proc} (hp : w'.procs = upd w.procs q (some y'))
    (hs : w'.spawning = w.spawning) (hy : w.procs q = some y) (hc : Ctl y' = Ctl y) : CtlSame w w' := by
  refine ⟨hs, fun p => ?_⟩
  rw [hp]
  by_cases e : p = q
  · subst e; simp [hy, hc]
  · simp [e]

theorem CtlSame.modProc (w : WorkerSt) (q : Pid) (f : Proc → Proc) (hf : ∀ y, Ctl (f y) = Ctl y) :
    CtlSame w (w.modProc q f) := by
  unfold WorkerSt.modProc
  split
  · rename_i y hy; exact CtlSame.updProc rfl rfl hy (hf y)
  · exact CtlSame.refl _

theorem CtlSame.modProc' (w : WorkerSt) (q : Pid) (f : Proc → Proc) (hf : ∀ y, w.procs q = some y → Ctl (f y) = Ctl y) :
    CtlSame w (w.modProc q f) := by
  unfold WorkerSt.modProc
  split
  · rename_i y hy; exact CtlSame.updProc rfl rfl hy (hf y hy)
  · exact CtlSame.refl _

/-- releasing what a finished process still holds leaves its control part alone -/
theorem CtlSame.release (w : WorkerSt) (cur : Pid) (h : ∀ y, w.procs cur = some y → y.result ≠ none ∧ y.awaitFailed = []) :
    CtlSame w (w.release cur) := by
  unfold WorkerSt.release; split
  · refine CtlSame.modProc' w cur _ ?_
    intro y hy
    obtain ⟨hr, hnf⟩ := h y hy
    unfold Proc.releaseDead; split
    · rfl
    · cases hres : y.result with
      | none => exact absurd hres hr
      | some r => simp [Ctl, hres, hnf]
  · exact CtlSame.refl _

theorem CtlSame.wakeSelecting (w : WorkerSt) (q : Pid) : CtlSame w (w.wakeSelecting q) := by
  unfold WorkerSt.wakeSelecting; split
  · exact CtlSame.of_procs rfl rfl
  · exact CtlSame.refl _

theorem CtlSame.notifyResultOk (w : WorkerSt) (a t : Pid) (v : Val) : CtlSame w (w.notifyResultOk a t v) := by
  unfold WorkerSt.notifyResultOk
  refine (CtlSame.modProc w a _ ?_).trans (CtlSame.wakeSelecting _ a)
  intro y; split <;> rfl

theorem CtlSame.applyResults (a : Pid) : ∀ (rs : Results) (w : WorkerSt),
    (∀ t r, (t, some r) ∈ rs → ∃ v, r = .ok v) → CtlSame w (applyResults w a rs)
  | [], w, _ => CtlSame.refl w
  | (t0, some r) :: rest, w, h => by
    unfold QM.Sys.applyResults
    obtain ⟨v, rfl⟩ := h t0 r (by simp)
    exact (CtlSame.notifyResultOk w a t0 v).trans
      (CtlSame.applyResults a rest _ (fun t r hm => h t r (List.mem_cons_of_mem _ hm)))
  | (t0, none) :: rest, w, h => by
    unfold QM.Sys.applyResults
    refine (?_ : CtlSame w (w.notifyPending a t0)).trans
      (CtlSame.applyResults a rest _ (fun t r hm => h t r (List.mem_cons_of_mem _ hm)))
    unfold WorkerSt.notifyPending
    exact CtlSame.modProc w a _ (fun y => rfl)

theorem CtlSame.foldl {α : Type} (f : WorkerSt → α → WorkerSt) (hf : ∀ w a, CtlSame w (f w a)) :
    ∀ (l : List α) (w : WorkerSt), CtlSame w (l.foldl f w)
  | [], w => CtlSame.refl w
  | a :: l, w => (hf w a).trans (CtlSame.foldl f hf l (f w a))

theorem queryTargets_spawning (a : Pid) : ∀ (ts : List Pid) (w : WorkerSt), (queryTargets w a ts).1.spawning = w.spawning
  | [], w => rfl
  | t :: rest, w => by
    unfold queryTargets
    split
    · exact queryTargets_spawning a rest w
    · exact queryTargets_spawning a rest _

def quietCmd : Cmd → Prop
  | .misc => True
  | .queryAwait _ _ => True
  | .updateAwait _ rs => ∀ t r, (t, some r) ∈ rs → ∃ v, r = .ok v
  | .getResult _ _ => True
  | _ => False

theorem handleCmd_ctlSame (s : Sys) (i : Wid) (c : Cmd) (hq : quietCmd c) :
    CtlSame (s.wk i) ((handleCmdWith Rules.current s i c).wk i) := by
  cases c with
  | misc => exact CtlSame.refl _
  | start p => exact hq.elim
  | resume p fn => exact hq.elim
  | spawn p fn regs => exact hq.elim
  | notifySpawn caller newPid => exact hq.elim
  | deliver t m => exact hq.elim
  | queryAwait a ts =>
    simp only [handleCmdWith, pushEvt_wk, setWk_wk, upd_same]
    exact CtlSame.of_procs (queryTargets_spec a ts (s.wk i)).1 (queryTargets_spawning a ts _)
  | updateAwait a rs =>
    simp only [handleCmdWith, Rules.current, Bool.false_and, Bool.false_eq_true, if_false, setWk_wk, upd_same]
    exact (CtlSame.applyResults a rs _ hq).trans (CtlSame.wakeSelecting _ a)
  | getResult req p =>
    simp only [handleCmdWith]
    repeat' split
    all_goals first
      | exact CtlSame.refl _
      | (simp only [noteExit_wk, setWk_wk, upd_same]; exact CtlSame.of_procs rfl rfl)

/-- events a command handler emits are never SpawnActions -/
theorem handleCmd_evts_nospawn (R : Rules) (s : Sys) (i : Wid) (c : Cmd) :
    ∀ w e, e ∈ (handleCmdWith R s i c).evtQ w → e ∈ s.evtQ w ∨ ∀ a f regs co, e ≠ .spawn a f regs co := by
  intro w e
  cases c <;> simp only [handleCmdWith] <;> (repeat' split) <;> (try simp only [Sys.setWk, Sys.pushEvt, Sys.setFault])
  all_goals first
    | exact Or.inl
    | (intro hmem; rcases mem_upd_append hmem with h1 | ⟨_, rfl⟩
       · exact Or.inl h1
       · exact Or.inr (by intros; simp))

/-! ### spawn pairing, as used here -/

theorem spair_evt_parked {s : Sys} (h : SPair s) {w : Wid} {c : Pid} {f : Nat} {regs : List Pid} {co : Option Pid}
    (hm : Evt.spawn c f regs co ∈ s.evtQ w) : c ∈ (s.wk w).spawning := by
  have := h w c
  have hpos : 0 < (s.evtQ w).countP (isSpawnEvt c) := by
    rw [List.countP_pos_iff]; exact ⟨_, hm, by simp [isSpawnEvt]⟩
  by_cases hin : c ∈ (s.wk w).spawning
  · exact hin
  · simp only [hin, if_false] at this; omega

theorem spair_head_notify {s : Sys} (h : SPair s) {w : Wid} {c q : Pid} {rest : List Cmd}
    (hq : s.cmdQ w = .notifySpawn c q :: rest) :
    (∀ q', Cmd.notifySpawn c q' ∉ rest) ∧ ∀ f regs co, Evt.spawn c f regs co ∉ s.evtQ w := by
  have := h w c
  rw [hq, List.countP_cons] at this
  simp only [isNotify, decide_true, if_true] at this
  have hle : (if c ∈ (s.wk w).spawning then 1 else 0) ≤ 1 := by split <;> omega
  have h1 : rest.countP (isNotify c) = 0 := by omega
  have h2 : (s.evtQ w).countP (isSpawnEvt c) = 0 := by omega
  rw [List.countP_eq_zero] at h1 h2
  exact ⟨fun q' hm => by have := h1 _ hm; simp [isNotify] at this,
         fun f regs co hm => by have := h2 _ hm; simp [isSpawnEvt] at this⟩

theorem KInv.results_ok {ρ : Nat → Nat → Nat} {ar : Nat → Nat} {σ : Nat → List (Nat × Nat)} {s : Sys} (h : KInv ρ ar σ s) {t : Pid} {r : Res}
    (hr : HasRes s t r) : ∃ v, r = .ok v := by
  obtain ⟨w, hw⟩ := hr
  unfold WorkerSt.resultOf at hw
  split at hw
  · rename_i x hx
    have := (h.procs w t x hx).noerr
    cases r with
    | ok v => exact ⟨v, rfl⟩
    | err => exact absurd hw this
  · cases hw

/-! ### the ghost history `appended` -/

theorem napp_of_eq {s s' : Sys} (h : s'.appended = s.appended) (p : Pid) : napp s' p = napp s p := by
  unfold napp; rw [h]

theorem napp_snoc {s s' : Sys} {t : Pid} {m : Msg} (h : s'.appended = s.appended ++ [(t, m)]) (p : Pid) :
    napp s' p = napp s p + (if t = p then 1 else 0) := by
  unfold napp; rw [h, List.filter_append]
  by_cases e : t = p <;> simp [e]

theorem appKnown_step {s s' : Sys} (h : ∀ e ∈ s.appended, ∃ w, known s w e.1) (happ : s'.appended = s.appended)
    (hk : ∀ w p, known s w p → known s' w p) : ∀ e ∈ s'.appended, ∃ w, known s' w e.1 := by
  intro e he
  rw [happ] at he
  obtain ⟨w, hw⟩ := h e he
  exact ⟨w, hk w _ hw⟩

/-- the arrivals at the mailboxes of receiving processes follow the static streams `σ` -/
def StreamOK (σ : Nat → List (Nat × Nat)) (s : Sys) : Prop :=
  ∀ w p x, (s.wk w).procs p = some x → hasRecv s.prog x.fn = true →
    ((s.appended.filter (fun e => e.1 = p)).map (fun e => e.2.key)) <+: σ x.fn

theorem drop_of_prefix_snoc {α : Type} {l L : List α} {a : α} (h : l ++ [a] <+: L) :
    L.drop l.length = a :: L.drop (l.length + 1) := by
  obtain ⟨t, rfl⟩ := h
  simp

/-! ### the micro-steps -/

theorem KInv.envStep1 {ρ : Nat → Nat → Nat} {ar : Nat → Nat} {σ : Nat → List (Nat × Nat)} {s : Sys} (h : KInv ρ ar σ s) (w0 : Wid) :
    KInv ρ ar σ (envStep1With Rules.current.combine s w0) := by
  have ht : TInv (envStep1With Rules.current.combine s w0) := h.t.micro (.env w0)
  have hw : WInv (envStep1With Rules.current.combine s w0) := h.wi.micro (.env w0)
  have hwk := envStep1_wk Rules.current.combine s w0
  have hev := envStep1_evts Rules.current.combine s w0
  obtain ⟨hprog, hmono, hnew, hsp⟩ := envStep1_cmdSpec Rules.current.combine h.wi.si.r w0
  have happ := envStep1_appended Rules.current.combine s w0
  generalize envStep1With Rules.current.combine s w0 = s' at *
  have hsid : ∀ q f, Sid s q f → Sid s' q f :=
    Sid.mono (fun w q y hy => ⟨y, by rw [hwk]; exact hy, rfl⟩) (fun w q f regs hm => Or.inl (hmono w _ hm))
  refine ⟨ht, hw, by rw [hprog]; exact h.typing, ?_, ?_, ?_⟩
  rotate_left 2
  · intro e he
    rw [happ] at he
    obtain ⟨w, hk⟩ := h.appKnown e he
    exact ⟨w, by unfold known; rw [hwk]; exact hk⟩
  · intro w p x hx
    rw [hwk] at hx
    refine (h.procs w p x hx).transfer hprog hsid rfl (by rw [hwk]; exact id) ?_ (fun f regs co hq => hev w _ hq)
      (napp_of_eq happ p)
    intro q hq
    rcases hnew w _ hq with h1 | h1 | ⟨c0, f, regs, coloc, rest, hq0, h1 | ⟨h1, rfl⟩⟩
    · exact Or.inl h1
    · exact absurd rfl (h1.2 p q)
    · cases h1
    · simp only [Cmd.notifySpawn.injEq] at h1; obtain ⟨rfl, rfl⟩ := h1
      obtain ⟨pass, hp1, _⟩ := (h.procs w p x hx).spev f regs coloc (by rw [hq0]; simp)
      obtain ⟨w1, hw1⟩ := hsp _ _ _ _ _ hq0
      exact Or.inr ⟨f, pass, hp1, Or.inr ⟨w1, regs, hw1⟩⟩
  · intro w q f regs hm
    rcases hnew w _ hm with h1 | h1 | ⟨c0, f', regs', coloc, rest, hq0, h1 | ⟨h1, _⟩⟩
    · obtain ⟨a1, a2, a3⟩ := h.cmds w q f regs h1; exact ⟨a1, a2, fun j hj => hsid _ _ (a3 j hj)⟩
    · have := h1.1; simp [cmdCreate] at this
    · simp only [Cmd.spawn.injEq] at h1; obtain ⟨rfl, rfl, rfl⟩ := h1
      have hpark := spair_evt_parked h.wi.pair (show Evt.spawn c0 f regs coloc ∈ s.evtQ w0 by rw [hq0]; simp)
      obtain ⟨x, hx, _⟩ := (h.wi.si.sched w0).live c0 (Or.inr (Or.inl hpark))
      have hpi := h.procs w0 c0 x hx
      obtain ⟨pass, hp1, hp2⟩ := hpi.spev f regs coloc (by rw [hq0]; simp)
      obtain ⟨t1, t2, t3, t4⟩ := h.typing.acts _ _ _ hp1
      subst hp2
      refine ⟨by simp [t1], t4, ?_⟩
      intro j hj
      have hj' : j < pass.length := by simpa using hj
      obtain ⟨b1, b2⟩ := t2 j hj'
      have hb : pass[j] < x.regs.length := by rw [hpi.rlen]; exact b1
      have := hsid _ _ (hpi.rsid pass[j] hb)
      rw [b2]
      simpa [Proc.reg, hb] using this
    · cases h1

theorem KInv.tick {ρ : Nat → Nat → Nat} {ar : Nat → Nat} {σ : Nat → List (Nat × Nat)} {s : Sys} (h : KInv ρ ar σ s) (ms : Nat) :
    KInv ρ ar σ { s with now := s.now + ms } := by
  have ht : TInv { s with now := s.now + ms } := h.t.micro (.tick ms)
  have hw : WInv { s with now := s.now + ms } := h.wi.micro (.tick ms)
  refine ⟨ht, hw, h.typing, ?_, ?_, h.appKnown⟩
  · intro w p x hx
    exact (h.procs w p x hx).transfer rfl (fun _ _ h => h) rfl id (fun q hq => Or.inl hq) (fun _ _ _ hq => hq) rfl
  · exact h.cmds

theorem KInv.checkStep {ρ : Nat → Nat → Nat} {ar : Nat → Nat} {σ : Nat → List (Nat × Nat)} {s : Sys} (h : KInv ρ ar σ s) (i : Wid) (ordE : List Pid) :
    KInv ρ ar σ (QM.Sys.checkStep s i ordE) := by
  have ht : TInv (QM.Sys.checkStep s i ordE) := h.t.micro (.check i ordE)
  have hw : WInv (QM.Sys.checkStep s i ordE) := h.wi.micro (.check i ordE)
  have hc := CheckRel.checkStep s i ordE
  have he := CheckEv.checkStep s i ordE
  have happ := (Shape.checkStep s i ordE).appended
  generalize QM.Sys.checkStep s i ordE = s' at *
  obtain ⟨evs, hevs, hck⟩ := he.evs
  have hold : ∀ w p f regs co, Evt.spawn p f regs co ∈ s'.evtQ w → Evt.spawn p f regs co ∈ s.evtQ w := by
    intro w p f regs co hm
    rw [hevs] at hm
    simp only [upd_apply] at hm
    split at hm
    · rename_i e; subst e
      rcases List.mem_append.mp hm with h1 | h1
      · exact h1
      · rcases hck _ h1 with ⟨_, _, _, h2⟩ | ⟨_, _, h2⟩ <;> cases h2
    · exact hm
  have hprocs : ∀ w, (s'.wk w).procs = (s.wk w).procs ∧ (s'.wk w).spawning = (s.wk w).spawning := by
    intro w
    by_cases e : w = i
    · subst e; exact ⟨hc.procs, hc.spawning⟩
    · rw [hc.wkOther w e]; exact ⟨rfl, rfl⟩
  have hsid : ∀ q f, Sid s q f → Sid s' q f :=
    Sid.mono (fun w q y hy => ⟨y, by rw [(hprocs w).1]; exact hy, rfl⟩) (fun w q f regs hm => Or.inl (by rw [hc.cmdQ]; exact hm))
  refine ⟨ht, hw, by rw [he.prog]; exact h.typing, ?_, ?_, ?_⟩
  rotate_left 2
  · intro e he'
    rw [happ] at he'
    obtain ⟨w, hk⟩ := h.appKnown e he'
    exact ⟨w, by unfold known; rw [(hprocs w).1]; exact hk⟩
  · intro w p x hx
    rw [(hprocs w).1] at hx
    exact (h.procs w p x hx).transfer he.prog hsid rfl (by rw [(hprocs w).2]; exact id)
      (fun q hq => Or.inl (by rw [hc.cmdQ] at hq; exact hq)) (fun f regs co hq => hold w p f regs co hq)
      (napp_of_eq happ p)
  · intro w q f regs hm
    rw [hc.cmdQ] at hm
    obtain ⟨a1, a2, a3⟩ := h.cmds w q f regs hm
    exact ⟨a1, a2, fun j hj => hsid _ _ (a3 j hj)⟩

theorem sid_cmdStep {s s' : Sys} {i : Wid} {c : Cmd} {rest : List Cmd} (hq : s.cmdQ i = c :: rest)
    (hcq : s'.cmdQ = upd s.cmdQ i rest) (hwk : ∀ k, k ≠ i → s'.wk k = s.wk k)
    (hfn : ∀ p x, (s.wk i).procs p = some x → ∃ x', (s'.wk i).procs p = some x' ∧ x'.fn = x.fn)
    (hcr : ∀ q f regs, c = .spawn q f regs → ∃ y, (s'.wk i).procs q = some y ∧ y.fn = f) :
    ∀ q f, Sid s q f → Sid s' q f := by
  apply Sid.mono
  · intro w q y hy
    by_cases e : w = i
    · subst e; exact hfn q y hy
    · rw [hwk w e]; exact ⟨y, hy, rfl⟩
  · intro w q f regs hm
    by_cases e : w = i
    · subst e
      rw [hq] at hm
      rcases List.mem_cons.mp hm with h1 | h1
      · obtain ⟨y, hy, hf⟩ := hcr q f regs h1.symm
        exact Or.inr ⟨w, y, hy, hf⟩
      · exact Or.inl (by rw [hcq]; simp [h1])
    · exact Or.inl (by rw [hcq]; simp [upd_apply, e, hm])

theorem handleCmd_ctlSame_drop (s : Sys) (i : Wid) (t : Pid) (m : Msg) (hx : (s.wk i).procs t = none) :
    CtlSame (s.wk i) ((handleCmdWith Rules.current s i (.deliver t m)).wk i) := by
  simp only [handleCmdWith, hx, setWk_wk, upd_same]; exact CtlSame.wakeSelecting _ t

theorem KInv.cmdStep1 {ρ : Nat → Nat → Nat} {ar : Nat → Nat} {σ : Nat → List (Nat × Nat)} {s : Sys} (h : KInv ρ ar σ s) (i : Wid)
    (hsd : StreamOK σ (cmdStep1With Rules.current s i)) :
    KInv ρ ar σ (cmdStep1With Rules.current s i) := by
  have ht : TInv (cmdStep1With Rules.current s i) := h.t.micro (.cmd i)
  have hw : WInv (cmdStep1With Rules.current s i) := h.wi.micro (.cmd i)
  revert ht hw hsd
  unfold cmdStep1With
  split
  · intro _ _ _; exact h
  · rename_i c rest hq
    intro hsd ht hw
    have hf := handleCmd_frame Rules.current { s with cmdQ := upd s.cmdQ i rest } i c
    have hne := handleCmd_evts_nospawn Rules.current { s with cmdQ := upd s.cmdQ i rest } i c
    have happc := handleCmd_appended Rules.current { s with cmdQ := upd s.cmdQ i rest } i c
    have hok := h.wi.si.r.cmds i c (by rw [hq]; simp)
    have hhead : c ∈ s.cmdQ i := by rw [hq]; simp
    obtain ⟨hcq, _, hprog, _, _, hoth⟩ := hf
    have hcq' : ∀ w c', c' ∈ (handleCmdWith Rules.current { s with cmdQ := upd s.cmdQ i rest } i c).cmdQ w → c' ∈ s.cmdQ w := by
      intro w c' hc'; rw [hcq] at hc'; exact mem_upd_tail hq hc'
    have hevo : ∀ k, k ≠ i → ∀ e, e ∈ (handleCmdWith Rules.current { s with cmdQ := upd s.cmdQ i rest } i c).evtQ k → e ∈ s.evtQ k := by
      intro k hk e he; rw [(hoth k hk).2] at he; exact he
    have hwk : ∀ k, k ≠ i → (handleCmdWith Rules.current { s with cmdQ := upd s.cmdQ i rest } i c).wk k = s.wk k :=
      fun k hk => (hoth k hk).1
    have hspold : ∀ p f regs co, Evt.spawn p f regs co ∈ (handleCmdWith Rules.current { s with cmdQ := upd s.cmdQ i rest } i c).evtQ i →
        Evt.spawn p f regs co ∈ s.evtQ i := by
      intro p f regs co hm
      rcases hne i _ hm with h1 | h1
      · exact h1
      · exact absurd rfl (h1 p f regs co)
    -- processes persist: from the per-case description of worker `i`
    have hkn : ∀ {s' : Sys}, (∀ k, k ≠ i → s'.wk k = s.wk k) →
        (∀ p x, (s.wk i).procs p = some x → ∃ x', (s'.wk i).procs p = some x' ∧ x'.fn = x.fn) →
        ∀ w p, known s w p → known s' w p := by
      intro s' h1 h2 w p hk
      unfold known at hk ⊢
      by_cases e : w = i
      · subst e
        cases hp : (s.wk w).procs p with
        | none => rw [hp] at hk; cases hk
        | some x => obtain ⟨x', hx', _⟩ := h2 p x hp; rw [hx']; rfl
      · rw [h1 w e]; exact hk
    by_cases hquiet : quietCmd c ∨ ∃ t m, c = .deliver t m ∧ (s.wk i).procs t = none
    · -- commands that leave the control part alone
      have hcs : CtlSame (s.wk i) ((handleCmdWith Rules.current { s with cmdQ := upd s.cmdQ i rest } i c).wk i) := by
        rcases hquiet with hq1 | ⟨t, m, rfl, hnone⟩
        · exact handleCmd_ctlSame { s with cmdQ := upd s.cmdQ i rest } i c hq1
        · exact handleCmd_ctlSame_drop { s with cmdQ := upd s.cmdQ i rest } i t m hnone
      have hnsp : ∀ q f regs, c ≠ .spawn q f regs := by
        intro q f regs e; subst e
        rcases hquiet with hq1 | ⟨_, _, e, _⟩
        · exact hq1.elim
        · cases e
      have happ : (handleCmdWith Rules.current { s with cmdQ := upd s.cmdQ i rest } i c).appended = s.appended := by
        rcases happc with h1 | ⟨t, m, x, e, hx, _⟩
        · exact h1
        · subst e
          rcases hquiet with hq1 | ⟨_, _, e, hnone⟩
          · exact hq1.elim
          · simp only [Cmd.deliver.injEq] at e; obtain ⟨rfl, rfl⟩ := e
            have hx' : (s.wk i).procs t = some x := hx
            rw [hnone] at hx'; cases hx'
      generalize handleCmdWith Rules.current { s with cmdQ := upd s.cmdQ i rest } i c = s' at *
      have hfn : ∀ p x, (s.wk i).procs p = some x → ∃ x', (s'.wk i).procs p = some x' ∧ x'.fn = x.fn := by
        intro p x hx
        obtain ⟨x', hx', hc⟩ := hcs.fwd hx
        exact ⟨x', hx', (ctl_eq hc).1⟩
      have hsid : ∀ q f, Sid s q f → Sid s' q f :=
        sid_cmdStep hq hcq hwk hfn (fun q f regs e => absurd e (hnsp q f regs))
      obtain ⟨k1, k2⟩ := h.workerFrame i hprog hwk hcq' hevo hsid (fun _ p _ _ => napp_of_eq happ p) (by
        intro p x' hx'
        obtain ⟨x, hx, hc⟩ := hcs.back hx'
        exact (h.procs i p x hx).transfer hprog hsid hc (by rw [hcs.1]; exact id)
          (fun q hm => Or.inl (hcq' i _ hm)) (fun f regs co hm => hspold p f regs co hm) (napp_of_eq happ p))
      exact ⟨ht, hw, by rw [hprog]; exact h.typing, k1, k2, appKnown_step h.appKnown happ (hkn hwk hfn)⟩
    · cases c with
      | misc => exact absurd (Or.inl trivial) hquiet
      | queryAwait a ts => exact absurd (Or.inl trivial) hquiet
      | getResult req p => exact absurd (Or.inl trivial) hquiet
      | updateAwait a rs =>
        exfalso; apply hquiet; left
        intro t r hm
        exact h.results_ok (h.t.core.updc i a rs t r hhead hm)
      | start p => exact hok.elim
      | resume p fn => exact hok.elim
      | deliver t m =>
        cases hxt : (s.wk i).procs t with
        | none => exact absurd (Or.inr ⟨t, m, rfl, hxt⟩) hquiet
        | some x0 =>
          have hpx := h.procs i t x0 hxt
          have hpr : ∃ x1 : Proc, ((handleCmdWith Rules.current { s with cmdQ := upd s.cmdQ i rest } i (.deliver t m)).wk i).procs =
                upd (s.wk i).procs t (some x1) ∧
              ((handleCmdWith Rules.current { s with cmdQ := upd s.cmdQ i rest } i (.deliver t m)).wk i).spawning = (s.wk i).spawning ∧
              (x1.fn = x0.fn ∧ x1.pc = x0.pc ∧ x1.regs = x0.regs ∧ x1.acc = x0.acc ∧ x1.spawnIssued = x0.spawnIssued ∧
                x1.result = x0.result ∧ x1.awaitFailed = x0.awaitFailed) ∧
              (x0.result = none → x1.mailbox = x0.mailbox ++ [m]) := by
            by_cases hd : (Cfg.releaseDead && !x0.deliverable) = true
            · -- variant `releaseDead`, a receiver that can never receive: nothing is stored
              refine ⟨x0, ?_, ?_, ⟨rfl, rfl, rfl, rfl, rfl, rfl, rfl⟩, ?_⟩
              · simp only [handleCmdWith, hxt, hd, if_true, setWk_wk, upd_same]
                have : (s.wk i).procs = upd (s.wk i).procs t (some x0) := by
                  funext p; by_cases e : p = t
                  · subst e; simp [hxt]
                  · simp [e]
                unfold WorkerSt.wakeSelecting
                split <;> exact this
              · simp only [handleCmdWith, hxt, hd, if_true, setWk_wk, upd_same]
                unfold WorkerSt.wakeSelecting
                split <;> rfl
              · intro hn
                simp [Proc.deliverable, hn] at hd
            · refine ⟨{ x0 with mailbox := x0.mailbox ++ [m] }, ?_, ?_, ⟨rfl, rfl, rfl, rfl, rfl, rfl, rfl⟩, fun _ => rfl⟩
              · simp only [handleCmdWith, hxt, hd, Bool.false_eq_true, if_false, setWk_wk, upd_same]
                unfold WorkerSt.wakeSelecting
                split <;> rfl
              · simp only [handleCmdWith, hxt, hd, Bool.false_eq_true, if_false, setWk_wk, upd_same]
                unfold WorkerSt.wakeSelecting
                split <;> rfl
          have happ : (handleCmdWith Rules.current { s with cmdQ := upd s.cmdQ i rest } i (.deliver t m)).appended = s.appended ++ [(t, m)] := by
            simp only [handleCmdWith, hxt]; split <;> rfl
          generalize handleCmdWith Rules.current { s with cmdQ := upd s.cmdQ i rest } i (.deliver t m) = s' at *
          obtain ⟨x1, hpr1, hpr2, ⟨d1, d2, d3, d4, d5, d6, d7⟩, d8⟩ := hpr
          have hfn : ∀ p x, (s.wk i).procs p = some x → ∃ x', (s'.wk i).procs p = some x' ∧ x'.fn = x.fn := by
            intro p y hy
            by_cases hpt : p = t
            · subst hpt; rw [hxt] at hy; simp only [Option.some.injEq] at hy; subst hy
              rw [hpr1]; exact ⟨_, upd_same _ _ _, d1⟩
            · exact ⟨y, by rw [hpr1]; simp [hpt, hy], rfl⟩
          have hsid : ∀ q f, Sid s q f → Sid s' q f :=
            sid_cmdStep hq hcq hwk hfn (fun q f regs e => by cases e)
          have hnat : ∀ p, p ≠ t → napp s' p = napp s p := by
            intro p hp; rw [napp_snoc happ]; simp [Ne.symm hp]
          obtain ⟨k1, k2⟩ := h.workerFrame i hprog hwk hcq' hevo hsid (by
            intro w p hwi hk
            apply hnat
            intro e; subst e
            have r1 := h.wi.si.r.placed w p (by unfold known; exact hk)
            have r2 := h.wi.si.r.placed i p (by unfold known; rw [hxt]; rfl)
            rw [r1] at r2; simp only [Option.some.injEq] at r2; exact hwi r2) (by
            intro p x' hx'
            rw [hpr1] at hx'
            by_cases hpt : p = t
            · subst hpt
              simp only [upd_same, Option.some.injEq] at hx'; subst hx'
              refine hpx.transfer' hprog hsid d1 d2 d3 d4 d5 d6 d7 (by rw [hpr2]; exact id)
                (fun q hm => Or.inl (hcq' i _ hm)) (fun f regs co hm => hspold p f regs co hm) ?_
              obtain ⟨rem, htr, hrem⟩ := hpx.trace
              refine ⟨rem, by rw [hprog, d1, d2, d4]; exact htr, ?_⟩
              intro hres hr
              have hres0 : x0.result = none := by rw [← d6]; exact hres
              have hr0 : hasRecv s.prog x0.fn = true := by rw [← hprog, ← d1]; exact hr
              have hpre := hsd i p _ (by rw [hpr1]; exact upd_same _ _ _) hr
              rw [happ, List.filter_append, List.map_append] at hpre
              simp only [List.filter_cons, decide_true, if_true, List.filter_nil, List.map_cons, List.map_nil] at hpre
              have hd := drop_of_prefix_snoc hpre
              simp only [List.length_map] at hd
              have hn : napp s' p = napp s p + 1 := by rw [napp_snoc happ]; simp
              rw [d8 hres0, d1, hn, hrem hres0 hr0]
              unfold napp
              rw [← d1, hd]; simp
            · simp only [upd_apply, hpt, if_false] at hx'
              exact (h.procs i p x' hx').transfer hprog hsid rfl (by rw [hpr2]; exact id)
                (fun q' hm => Or.inl (hcq' i _ hm)) (fun f' regs' co hm => hspold p f' regs' co hm) (hnat p hpt))
          refine ⟨ht, hw, by rw [hprog]; exact h.typing, k1, k2, ?_⟩
          intro e he
          rw [happ] at he
          rcases List.mem_append.mp he with h1 | h1
          · obtain ⟨w, hk⟩ := h.appKnown e h1
            exact ⟨w, hkn hwk hfn w _ hk⟩
          · simp only [List.mem_singleton] at h1; subst h1
            exact ⟨i, by unfold known; rw [hpr1]; simp⟩
      | spawn q f regs =>
        obtain ⟨hrq, hflt, _⟩ := hok
        have hfresh : ¬ known s i q := (h.wi.si.fresh i).2 q (mem_creates.mpr ⟨f, regs, hhead⟩)
        have hnone : (s.wk i).procs q = none := by
          cases hp : (s.wk i).procs q with
          | none => rfl
          | some y => exact absurd (by simp [known, hp]) hfresh
        have hn0 : napp s q = 0 := by
          unfold napp
          rw [List.length_eq_zero_iff, List.filter_eq_nil_iff]
          intro e he heq
          have heq' : e.1 = q := by simpa using heq
          obtain ⟨w, hk⟩ := h.appKnown e he
          rw [heq'] at hk
          have r1 := h.wi.si.r.placed w q hk
          rw [hrq] at r1; simp only [Option.some.injEq] at r1; subst r1
          exact hfresh hk
        have hpr : ((handleCmdWith Rules.current { s with cmdQ := upd s.cmdQ i rest } i (.spawn q f regs)).wk i).procs =
              upd (s.wk i).procs q (some (Proc.fresh f (q :: regs))) ∧
            ((handleCmdWith Rules.current { s with cmdQ := upd s.cmdQ i rest } i (.spawn q f regs)).wk i).spawning = (s.wk i).spawning := by
          simp [handleCmdWith, Nat.not_le.mpr hflt, WorkerSt.setProc]
        have happ : (handleCmdWith Rules.current { s with cmdQ := upd s.cmdQ i rest } i (.spawn q f regs)).appended = s.appended := by
          rcases happc with h1 | ⟨_, _, _, e, _⟩
          · exact h1
          · cases e
        obtain ⟨c1, c2, c3⟩ := h.cmds i q f regs hhead
        generalize handleCmdWith Rules.current { s with cmdQ := upd s.cmdQ i rest } i (.spawn q f regs) = s' at *
        obtain ⟨hpr1, hpr2⟩ := hpr
        have hfn : ∀ p x, (s.wk i).procs p = some x → ∃ x', (s'.wk i).procs p = some x' ∧ x'.fn = x.fn := by
          intro p x hx
          have hpq : p ≠ q := by intro e; subst e; rw [hnone] at hx; cases hx
          exact ⟨x, by rw [hpr1]; simp [hpq, hx], rfl⟩
        have hsid : ∀ q' f', Sid s q' f' → Sid s' q' f' := by
          apply sid_cmdStep hq hcq hwk hfn
          intro q' f' regs' e
          simp only [Cmd.spawn.injEq] at e; obtain ⟨rfl, rfl, rfl⟩ := e
          rw [hpr1]; exact ⟨_, upd_same _ _ _, rfl⟩
        obtain ⟨k1, k2⟩ := h.workerFrame i hprog hwk hcq' hevo hsid (fun _ p _ _ => napp_of_eq happ p) (by
          intro p x' hx'
          rw [hpr1] at hx'
          by_cases hpq : p = q
          · subst hpq
            simp only [upd_same, Option.some.injEq] at hx'; subst hx'
            have hnk : p ∉ (s.wk i).spawning := fun hin => by
              obtain ⟨y, hy, _⟩ := (h.wi.si.sched i).live p (Or.inr (Or.inl hin))
              rw [hnone] at hy; cases hy
            refine ⟨by simp [Proc.fresh], rfl, Nat.zero_le _, by simp [Proc.fresh], ?_, ?_, ?_, by simp [Proc.fresh], ?_, ?_⟩
            · refine ⟨σ f, Trace.zero f, fun _ _ => ?_⟩
              show σ f = ([] : List Msg).map Msg.key ++ (σ f).drop (napp s' p)
              rw [napp_of_eq happ, hn0]; simp
            · show (p :: regs).length = base s'.prog ar f 0
              simp [base, nspawn, c1]; omega
            · intro r hr
              have hr' : r < (p :: regs).length := hr
              show Sid s' ((p :: regs)[r]'hr') (ρ f r)
              cases r with
              | zero =>
                simp only [List.getElem_cons_zero]; rw [c2]
                exact Or.inl ⟨i, Proc.fresh f (p :: regs), by rw [hpr1]; simp, rfl⟩
              | succ j =>
                simp only [List.getElem_cons_succ]
                exact hsid _ _ (c3 j (by simpa using hr'))
            · intro q' hm
              exact absurd (spair_notify_parked h.wi.pair (hcq' i _ hm)) hnk
            · intro f' regs' co hm
              exact absurd (spair_evt_parked h.wi.pair (hspold p f' regs' co hm)) hnk
          · simp only [upd_apply, hpq, if_false] at hx'
            exact (h.procs i p x' hx').transfer hprog hsid rfl (by rw [hpr2]; exact id)
              (fun q' hm => Or.inl (hcq' i _ hm)) (fun f' regs' co hm => hspold p f' regs' co hm) (napp_of_eq happ p))
        exact ⟨ht, hw, by rw [hprog]; exact h.typing, k1, k2, appKnown_step h.appKnown happ (hkn hwk hfn)⟩
      | notifySpawn caller q =>
        have hpark := spair_notify_parked h.wi.pair hhead
        obtain ⟨x, hx, hxres⟩ := (h.wi.si.sched i).live caller (Or.inr (Or.inl hpark))
        have hpx := h.procs i caller x hx
        obtain ⟨f, pass, hsc, hsidq⟩ := hpx.notif q hhead
        obtain ⟨hnorest, hnoev⟩ := spair_head_notify h.wi.pair hq
        have hpr : ((handleCmdWith Rules.current { s with cmdQ := upd s.cmdQ i rest } i (.notifySpawn caller q)).wk i).procs =
              upd (s.wk i).procs caller (some { x with regs := x.regs ++ [q], pc := x.pc + 1, spawnIssued := false }) ∧
            ((handleCmdWith Rules.current { s with cmdQ := upd s.cmdQ i rest } i (.notifySpawn caller q)).wk i).spawning =
              serase (s.wk i).spawning caller ∧
            (handleCmdWith Rules.current { s with cmdQ := upd s.cmdQ i rest } i (.notifySpawn caller q)).evtQ = s.evtQ := by
          simp only [handleCmdWith, hx]
          split <;> simp
        have happ : (handleCmdWith Rules.current { s with cmdQ := upd s.cmdQ i rest } i (.notifySpawn caller q)).appended = s.appended := by
          rcases happc with h1 | ⟨_, _, _, e, _⟩
          · exact h1
          · cases e
        generalize handleCmdWith Rules.current { s with cmdQ := upd s.cmdQ i rest } i (.notifySpawn caller q) = s' at *
        obtain ⟨hpr1, hpr2, hpr3⟩ := hpr
        have hfn : ∀ p y, (s.wk i).procs p = some y → ∃ y', (s'.wk i).procs p = some y' ∧ y'.fn = y.fn := by
          intro p y hy
          by_cases hpc : p = caller
          · subst hpc; rw [hx] at hy; simp only [Option.some.injEq] at hy; subst hy
            rw [hpr1]; exact ⟨_, upd_same _ _ _, rfl⟩
          · exact ⟨y, by rw [hpr1]; simp [hpc, hy], rfl⟩
        have hsid : ∀ q' f', Sid s q' f' → Sid s' q' f' :=
          sid_cmdStep hq hcq hwk hfn (fun q' f' regs' e => by cases e)
        obtain ⟨t1, t2, t3, t4⟩ := h.typing.acts _ _ _ hsc
        obtain ⟨k1, k2⟩ := h.workerFrame i hprog hwk hcq' hevo hsid (fun _ p _ _ => napp_of_eq happ p) (by
          intro p x' hx'
          rw [hpr1] at hx'
          by_cases hpc : p = caller
          · subst hpc
            simp only [upd_same, Option.some.injEq] at hx'; subst hx'
            refine ⟨by simp [hxres], hpx.nofail, ?_, by simp [hxres], ?_, ?_, ?_, by simp, ?_, ?_⟩
            · rw [hprog]; exact lt_of_getElem?_some hsc
            · obtain ⟨rem, htr, hrem⟩ := hpx.trace
              refine ⟨rem, by rw [hprog]; exact Trace.spawn _ _ _ _ f pass htr hsc, ?_⟩
              intro hr
              rw [hprog, napp_of_eq happ]; exact hrem (by simpa using hr)
            · show (x.regs ++ [q]).length = base s'.prog ar x.fn (x.pc + 1)
              rw [hprog]; unfold base; rw [nspawn_take_succ hsc]
              have := hpx.rlen; unfold base at this
              simp [isSpawnAct, this]; omega
            · intro r hr
              show Sid s' (x.regs ++ [q])[r] (ρ x.fn r)
              by_cases hlt : r < x.regs.length
              · rw [List.getElem_append_left hlt]; exact hsid _ _ (hpx.rsid r hlt)
              · have hr' : r = x.regs.length := by simp at hr; omega
                subst hr'
                simp only [List.getElem_concat_length]
                rw [hpx.rlen, t3]; exact hsid _ _ hsidq
            · intro q' hm
              rw [hcq] at hm; simp only [upd_same] at hm
              exact absurd hm (hnorest q')
            · intro f' regs' co hm
              rw [hpr3] at hm; exact absurd hm (hnoev f' regs' co)
          · simp only [upd_apply, hpc, if_false] at hx'
            exact (h.procs i p x' hx').transfer hprog hsid rfl
              (by rw [hpr2]; intro hin; exact mem_serase.mpr ⟨hin, hpc⟩)
              (fun q' hm => Or.inl (hcq' i _ hm)) (fun f' regs' co hm => hspold p f' regs' co hm) (napp_of_eq happ p))
        exact ⟨ht, hw, by rw [hprog]; exact h.typing, k1, k2, appKnown_step h.appKnown happ (hkn hwk hfn)⟩

/-! ### executor step -/

theorem KInv.runnable {ρ : Nat → Nat → Nat} {ar : Nat → Nat} {σ : Nat → List (Nat × Nat)} {s : Sys} (h : KInv ρ ar σ s) {i : Wid} {cur : Pid} {x : Proc}
    (hx : (s.wk i).procs cur = some x) (hres : x.result = none) (hiss : x.spawnIssued = false) :
    Runnable s.prog ρ ar σ ((σ x.fn).drop (napp s cur)) x := by
  have hpx := h.procs i cur x hx
  refine ⟨hres, hiss, hpx.nofail, hpx.pcle, hpx.trace.live hres, hpx.rlen, ?_⟩
  intro r v hr hm
  obtain ⟨w, hw⟩ := h.t.core.stored i cur x _ v hx hm
  unfold WorkerSt.resultOf at hw
  split at hw
  · rename_i y hy
    have hpy := h.procs w _ y hy
    obtain ⟨f1, f2, _⟩ := hpy.fin v hw
    have hreg : x.reg r = x.regs[r] := by simp [Proc.reg, hr]
    have hfn : y.fn = ρ x.fn r := by
      have := hpx.rsid r hr
      rw [← hreg] at this
      exact this.proc_fn h.wi.si hy
    obtain ⟨remy, htry, _⟩ := hpy.trace
    refine ⟨y.acc, remy, ?_, ?_⟩
    · rw [f1, ← hfn]; rfl
    · rw [f2, hfn] at htry; exact htry
  · cases hw

theorem PInv.afterSlice {ρ : Nat → Nat → Nat} {ar : Nat → Nat} {σ : Nat → List (Nat × Nat)} {s s' : Sys} {i : Wid} {cur : Pid} {x x' x'' : Proc} {out : Outcome}
    (hpx : PInv ρ ar σ s i cur x) (hok : SliceOK s.prog ρ σ ((σ x.fn).drop (napp s cur)) x (x', out)) (hprog : s'.prog = s.prog)
    (hsid : ∀ q f, Sid s q f → Sid s' q f) (happ : napp s' cur = napp s cur)
    (e1 : x''.fn = x'.fn) (e2 : x''.pc = x'.pc) (e3 : x''.regs = x'.regs) (e4 : x''.acc = x'.acc)
    (e5 : x''.spawnIssued = x'.spawnIssued) (e7 : x''.awaitFailed = x'.awaitFailed)
    (e8 : x''.result = none → x''.mailbox = x'.mailbox)
    (e6 : x''.result = none ∨ (out = .done ∧ x''.result = some (.ok x'.value)))
    (hnotif : ∀ q, Cmd.notifySpawn cur q ∉ s'.cmdQ i)
    (hspev : ∀ f regs co, Evt.spawn cur f regs co ∈ s'.evtQ i → out = .spawn f regs)
    (hpark : ∀ f regs, out = .spawn f regs → cur ∈ (s'.wk i).spawning) : PInv ρ ar σ s' i cur x'' := by
  have hfn : x''.fn = x.fn := e1.trans hok.fn
  have hregs : x''.regs = x.regs := e3.trans hok.regs
  have ev : x''.value = x'.value := by simp [Proc.value, e1, e4]
  have er : x''.reg = x'.reg := by funext r; simp [Proc.reg, e3]
  refine ⟨?_, ?_, ?_, ?_, ?_, ?_, ?_, ?_, ?_, ?_⟩
  · rcases e6 with e | ⟨_, e⟩ <;> rw [e] <;> simp
  · rw [e7]; exact hok.nofail
  · rw [e2, hfn, hprog]; exact hok.pcle
  · intro v hv
    rcases e6 with e | ⟨hd, e⟩
    · rw [e] at hv; cases hv
    · rw [e] at hv; simp only [Option.some.injEq, Res.ok.injEq] at hv
      refine ⟨by rw [ev]; exact hv.symm, by rw [e2, hfn, hprog]; exact hok.done hd, ?_⟩
      rw [e5]; exact hok.other (by intro f regs; rw [hd]; simp)
  · obtain ⟨rem, htr, hrem⟩ := hok.trace
    refine ⟨rem, by rw [e1, e2, e4, hprog]; exact htr, ?_⟩
    intro hr
    rw [e1, e8 hr, hprog, happ, hok.fn]; rw [hok.fn] at hrem; exact hrem
  · rw [hregs, hfn, e2, hprog, hpx.rlen]; unfold base; rw [hok.nsp]
  · intro r hr
    have hr' : r < x.regs.length := hregs ▸ hr
    have := hsid _ _ (hpx.rsid r hr')
    simpa only [hregs, hfn] using this
  · intro hi
    by_cases hsp : ∃ f regs, out = .spawn f regs
    · obtain ⟨f, regs, ho⟩ := hsp
      obtain ⟨_, pass, h2, _⟩ := hok.spawnOut f regs ho
      exact ⟨hpark f regs ho, f, pass, by rw [hfn, e2, hprog]; exact h2⟩
    · have := hok.other (fun f regs ho => hsp ⟨f, regs, ho⟩)
      rw [e5, this] at hi; cases hi
  · intro q hq; exact absurd hq (hnotif q)
  · intro f regs co hq
    obtain ⟨_, pass, h2, h3⟩ := hok.spawnOut f regs (hspev f regs co hq)
    exact ⟨pass, by rw [hfn, e2, hprog]; exact h2, by rw [er]; exact h3⟩

theorem finish_ctl (w : WorkerSt) (cur : Pid) (x : Proc) (ordQ : List Pid) (hne : x.result ≠ some .err) (hnf : x.awaitFailed = []) :
    CtlSame { w with procs := upd w.procs cur (some { x with result := some (.ok x.value) }) } (w.finish cur x ordQ) := by
  unfold WorkerSt.finish
  have hfr : x.finalRes = .ok x.value := by
    unfold Proc.finalRes
    split
    · rename_i he; exact absurd he hne
    · rfl
  rw [hfr]
  dsimp only
  have hf := CtlSame.foldl (fun acc a => acc.notifyResultOk a cur x.value) (fun w' a => CtlSame.notifyResultOk w' a cur x.value)
    (orderBy ordQ (({ w with procs := upd w.procs cur (some { x with result := some (.ok x.value) }) } : WorkerSt).localAwaiters cur))
    { w with procs := upd w.procs cur (some { x with result := some (.ok x.value) }) }
  refine hf.trans (CtlSame.release _ cur ?_)
  intro y hy
  obtain ⟨y0, hy0, hc⟩ := hf.back hy
  simp only [upd_same, Option.some.injEq] at hy0; subst hy0
  rw [(ctl_eq hc).2.2.2.2.2.1, (ctl_eq hc).2.2.2.2.2.2.1]; exact ⟨by simp, hnf⟩

theorem KInv.execFrame {ρ : Nat → Nat → Nat} {ar : Nat → Nat} {σ : Nat → List (Nat × Nat)} {s s' : Sys} (h : KInv ρ ar σ s) (ht : TInv s') (hw : WInv s')
    (i : Wid) (hprog : s'.prog = s.prog) (hcmd : s'.cmdQ = s.cmdQ) (hwk : ∀ k, k ≠ i → s'.wk k = s.wk k)
    (hevo : ∀ k, k ≠ i → ∀ e, e ∈ s'.evtQ k → e ∈ s.evtQ k) (happ : s'.appended = s.appended)
    (hg : (∀ p x, (s.wk i).procs p = some x → ∃ x', (s'.wk i).procs p = some x' ∧ x'.fn = x.fn) ∧
      ((∀ q f, Sid s q f → Sid s' q f) → ∀ p x', (s'.wk i).procs p = some x' → PInv ρ ar σ s' i p x')) :
    KInv ρ ar σ s' := by
  obtain ⟨hfn, hpi⟩ := hg
  have hsid : ∀ q f, Sid s q f → Sid s' q f := by
    apply Sid.mono
    · intro w q y hy
      by_cases e : w = i
      · subst e; exact hfn q y hy
      · rw [hwk w e]; exact ⟨y, hy, rfl⟩
    · intro w q f regs hm; exact Or.inl (by rw [hcmd]; exact hm)
  obtain ⟨k1, k2⟩ := h.workerFrame i hprog hwk (fun w c hc => by rw [hcmd] at hc; exact hc) hevo hsid
    (fun _ p _ _ => napp_of_eq happ p) (hpi hsid)
  refine ⟨ht, hw, by rw [hprog]; exact h.typing, k1, k2, appKnown_step h.appKnown happ ?_⟩
  intro w p hk
  unfold known at hk ⊢
  by_cases e : w = i
  · subst e
    cases hp : (s.wk w).procs p with
    | none => rw [hp] at hk; cases hk
    | some x => obtain ⟨x', hx', _⟩ := hfn p x hp; rw [hx']; rfl
  · rw [hwk w e]; exact hk

def AfterRel (x' x'' : Proc) (out : Outcome) : Prop :=
  x''.fn = x'.fn ∧ x''.pc = x'.pc ∧ x''.regs = x'.regs ∧ x''.acc = x'.acc ∧ x''.spawnIssued = x'.spawnIssued ∧
  x''.awaitFailed = x'.awaitFailed ∧ (x''.result = none → x''.mailbox = x'.mailbox) ∧
  (x''.result = none ∨ (out = .done ∧ x''.result = some (.ok x'.value)))

/-- the two things `KInv.execFrame` asks for -/
def ExecGoal (ρ : Nat → Nat → Nat) (ar : Nat → Nat) (σ : Nat → List (Nat × Nat)) (s s' : Sys) (i : Wid) : Prop :=
  (∀ p x, (s.wk i).procs p = some x → ∃ x', (s'.wk i).procs p = some x' ∧ x'.fn = x.fn) ∧
  ((∀ q f, Sid s q f → Sid s' q f) → ∀ p x', (s'.wk i).procs p = some x' → PInv ρ ar σ s' i p x')

theorem exec_same_case {ρ : Nat → Nat → Nat} {ar : Nat → Nat} {σ : Nat → List (Nat × Nat)} {s s' : Sys} (h : KInv ρ ar σ s) (i : Wid)
    (hprog : s'.prog = s.prog) (hcmd : s'.cmdQ = s.cmdQ) (happ : s'.appended = s.appended)
    (hcs : CtlSame (s.wk i) (s'.wk i)) (hev : s'.evtQ i = s.evtQ i) : ExecGoal ρ ar σ s s' i := by
  refine ⟨?_, ?_⟩
  · intro p x hx
    obtain ⟨x', hx', hc⟩ := hcs.fwd hx
    exact ⟨x', hx', (ctl_eq hc).1⟩
  · intro hsid p x' hx'
    obtain ⟨x, hx, hc⟩ := hcs.back hx'
    exact (h.procs i p x hx).transfer hprog hsid hc (by rw [hcs.1]; exact id)
      (fun q hm => Or.inl (by rw [hcmd] at hm; exact hm)) (fun f regs co hm => by rw [hev] at hm; exact hm)
      (napp_of_eq happ p)

theorem exec_slice_case {ρ : Nat → Nat → Nat} {ar : Nat → Nat} {σ : Nat → List (Nat × Nat)} {s s' : Sys} (h : KInv ρ ar σ s) (i : Wid) {cur : Pid}
    {x x' : Proc} {out : Outcome} (hx : (s.wk i).procs cur = some x) (hnsp : cur ∉ (s.wk i).spawning)
    (hok : SliceOK s.prog ρ σ ((σ x.fn).drop (napp s cur)) x (x', out))
    (hprog : s'.prog = s.prog) (hcmd : s'.cmdQ = s.cmdQ) (happ : s'.appended = s.appended)
    (hsp : ∀ p, p ∈ (s.wk i).spawning → p ∈ (s'.wk i).spawning)
    (hpark : ∀ f regs, out = .spawn f regs → cur ∈ (s'.wk i).spawning)
    (hcur : ∃ x'', (s'.wk i).procs cur = some x'' ∧ AfterRel x' x'' out)
    (hoth : ∀ p, p ≠ cur → ((s'.wk i).procs p).map Ctl = ((s.wk i).procs p).map Ctl)
    (hev : ∀ e, e ∈ s'.evtQ i → e ∈ s.evtQ i ∨ (∀ a f regs co, e ≠ .spawn a f regs co) ∨
      (∃ f regs, out = .spawn f regs ∧ e = .spawn cur f regs none)) : ExecGoal ρ ar σ s s' i := by
  obtain ⟨x'', hx'', e1, e2, e3, e4, e5, e7, e8, e6⟩ := hcur
  have hback : ∀ p, p ≠ cur → ∀ y', (s'.wk i).procs p = some y' → ∃ y, (s.wk i).procs p = some y ∧ Ctl y' = Ctl y := by
    intro p hp y' hy'
    have := hoth p hp
    rw [hy'] at this
    cases hw : (s.wk i).procs p with
    | none => rw [hw] at this; cases this
    | some y => rw [hw] at this; simp only [Option.map_some, Option.some.injEq] at this; exact ⟨y, rfl, this⟩
  refine ⟨?_, ?_⟩
  · intro p y hy
    by_cases hp : p = cur
    · subst hp; rw [hx] at hy; simp only [Option.some.injEq] at hy; subst hy
      exact ⟨x'', hx'', e1.trans hok.fn⟩
    · have := hoth p hp
      rw [hy] at this
      cases hw : (s'.wk i).procs p with
      | none => rw [hw] at this; cases this
      | some y' =>
        rw [hw] at this; simp only [Option.map_some, Option.some.injEq] at this
        exact ⟨y', rfl, (ctl_eq this).1⟩
  · intro hsid p y' hy'
    have hnon : ∀ q, Cmd.notifySpawn cur q ∉ s.cmdQ i := fun q hm => hnsp (spair_notify_parked h.wi.pair hm)
    have hnoe : ∀ f regs co, Evt.spawn cur f regs co ∉ s.evtQ i := fun f regs co hm => hnsp (spair_evt_parked h.wi.pair hm)
    by_cases hp : p = cur
    · subst hp
      rw [hx''] at hy'; simp only [Option.some.injEq] at hy'; subst hy'
      refine (h.procs i p x hx).afterSlice hok hprog hsid (napp_of_eq happ p) e1 e2 e3 e4 e5 e7 e8 e6 ?_ ?_ hpark
      · intro q hm; rw [hcmd] at hm; exact hnon q hm
      · intro f regs co hm
        rcases hev _ hm with h1 | h1 | ⟨f', regs', ho, h1⟩
        · exact absurd h1 (hnoe f regs co)
        · exact absurd rfl (h1 p f regs co)
        · simp only [Evt.spawn.injEq] at h1; obtain ⟨_, rfl, rfl, _⟩ := h1; exact ho
    · obtain ⟨y, hy, hc⟩ := hback p hp y' hy'
      refine (h.procs i p y hy).transfer hprog hsid hc (hsp p) (fun q hm => Or.inl (by rw [hcmd] at hm; exact hm)) ?_
        (napp_of_eq happ p)
      intro f regs co hm
      rcases hev _ hm with h1 | h1 | ⟨f', regs', ho, h1⟩
      · exact h1
      · exact absurd rfl (h1 p f regs co)
      · simp only [Evt.spawn.injEq] at h1; exact absurd h1.1 hp

theorem KInv.execStep {ρ : Nat → Nat → Nat} {ar : Nat → Nat} {σ : Nat → List (Nat × Nat)} {s : Sys} (h : KInv ρ ar σ s) (i : Wid) (fuel : Nat) (ordQ : List Pid) :
    KInv ρ ar σ (QM.Sys.execStep s i fuel ordQ) := by
  have ht : TInv (QM.Sys.execStep s i fuel ordQ) := h.t.micro (.exec i fuel ordQ)
  have hw : WInv (QM.Sys.execStep s i fuel ordQ) := h.wi.micro (.exec i fuel ordQ)
  obtain ⟨hcmd, _, hprog, _, _, _, hoth⟩ := execStep_frame s i fuel ordQ
  refine h.execFrame ht hw i hprog hcmd (fun k hk => (hoth k hk).1)
    (fun k hk e he => by rw [(hoth k hk).2] at he; exact he) (Shape.execStep s i fuel ordQ).appended ?_
  clear ht hw hoth hcmd hprog
  show ExecGoal ρ ar σ s (QM.Sys.execStep s i fuel ordQ) i
  unfold QM.Sys.execStep
  dsimp only
  have hs0 : WSched ((s.wk i).checkExpired s.prog s.now ordQ) := (h.wi.si.sched i).checkExpired _ _ _
  have hp0 : ((s.wk i).checkExpired s.prog s.now ordQ).procs = (s.wk i).procs := rfl
  have hsp0 : ((s.wk i).checkExpired s.prog s.now ordQ).spawning = (s.wk i).spawning := rfl
  generalize (s.wk i).checkExpired s.prog s.now ordQ = w0 at hs0 hp0 hsp0 ⊢
  split
  · exact exec_same_case h i rfl rfl rfl (by simp only [noteExit_wk, setWk_wk, upd_same]; exact CtlSame.of_procs hp0 hsp0) rfl
  · rename_i cur rest hq0
    split
    · exact exec_same_case h i rfl rfl rfl (by simp only [noteExit_wk, setWk_wk, upd_same]; exact CtlSame.of_procs hp0 hsp0) rfl
    · rename_i x hx0
      have hx : (s.wk i).procs cur = some x := by rw [← hp0]; exact hx0
      have hcurq : cur ∈ w0.queue := by rw [hq0]; simp
      obtain ⟨x1, hx1, hres1⟩ := hs0.live cur (Or.inl hcurq)
      have hres : x.result = none := by
        have : w0.procs cur = some x := hx0
        rw [this] at hx1; simp only [Option.some.injEq] at hx1; subst hx1; exact hres1
      have hnsp : cur ∉ (s.wk i).spawning := by rw [← hsp0]; exact (hs0.dqs cur hcurq).1
      split
      · rename_i herr; exact absurd herr (h.procs i cur x hx).noerr
      · have hiss : x.spawnIssued = false := by
          cases hb : x.spawnIssued with
          | false => rfl
          | true => exact absurd ((h.procs i cur x hx).parked hb).1 hnsp
        have hok := slice_spec h.typing ((σ x.fn).drop (napp s cur)) s.now cur fuel x (h.runnable hx hres hiss)
        generalize slice s.prog s.now cur fuel x = r at hok ⊢
        obtain ⟨x', out⟩ := r
        dsimp only
        have hothp : ∀ p, p ≠ cur → ((upd w0.procs cur (some x')) p).map Ctl = ((s.wk i).procs p).map Ctl := by
          intro p hp; simp [hp, hp0]
        cases out with
        | cont =>
          refine exec_slice_case h i hx hnsp hok rfl rfl rfl ?_ ?_ ?_ ?_ ?_
          · intro p hp; simpa [hsp0] using hp
          · intro f regs ho; cases ho
          · exact ⟨x', by simp, rfl, rfl, rfl, rfl, rfl, rfl, fun _ => rfl, Or.inl hok.res⟩
          · intro p hp; simpa using hothp p hp
          · intro e he; exact Or.inl (by simpa using he)
        | blocked =>
          refine exec_slice_case h i hx hnsp hok rfl rfl rfl ?_ ?_ ?_ ?_ ?_
          · intro p hp; simpa [hsp0] using hp
          · intro f regs ho; cases ho
          · exact ⟨x', by simp, rfl, rfl, rfl, rfl, rfl, rfl, fun _ => rfl, Or.inl hok.res⟩
          · intro p hp; simpa using hothp p hp
          · intro e he; exact Or.inl (by simpa using he)
        | send t m =>
          refine exec_slice_case h i hx hnsp hok rfl rfl rfl ?_ ?_ ?_ ?_ ?_
          · intro p hp; simpa [hsp0] using hp
          · intro f regs ho; cases ho
          · exact ⟨x', by simp, rfl, rfl, rfl, rfl, rfl, rfl, fun _ => rfl, Or.inl hok.res⟩
          · intro p hp; simpa using hothp p hp
          · intro e he
            have he' : e ∈ upd s.evtQ i (s.evtQ i ++ [Evt.deliver t m]) i := he
            rcases mem_upd_append he' with h1 | ⟨_, rfl⟩
            · exact Or.inl h1
            · exact Or.inr (Or.inl (by intros; simp))
        | awaitInit ts =>
          refine exec_slice_case h i hx hnsp hok rfl rfl rfl ?_ ?_ ?_ ?_ ?_
          · intro p hp; simpa [hsp0] using hp
          · intro f regs ho; cases ho
          · exact ⟨x', by simp, rfl, rfl, rfl, rfl, rfl, rfl, fun _ => rfl, Or.inl hok.res⟩
          · intro p hp; simpa using hothp p hp
          · intro e he
            have he' : e ∈ upd s.evtQ i (s.evtQ i ++ [Evt.await cur ts]) i := he
            rcases mem_upd_append he' with h1 | ⟨_, rfl⟩
            · exact Or.inl h1
            · exact Or.inr (Or.inl (by intros; simp))
        | spawn f regs =>
          refine exec_slice_case h i hx hnsp hok rfl rfl rfl ?_ ?_ ?_ ?_ ?_
          · intro p hp; simp only [pushEvt_wk, setWk_wk, upd_same]; exact mem_sinsert.mpr (Or.inl (by rw [hsp0]; exact hp))
          · intro f' regs' ho; simp only [pushEvt_wk, setWk_wk, upd_same]; exact mem_sinsert.mpr (Or.inr rfl)
          · exact ⟨x', by simp, rfl, rfl, rfl, rfl, rfl, rfl, fun _ => rfl, Or.inl hok.res⟩
          · intro p hp; simpa using hothp p hp
          · intro e he
            have he' : e ∈ upd s.evtQ i (s.evtQ i ++ [Evt.spawn cur f regs none]) i := he
            rcases mem_upd_append he' with h1 | ⟨_, rfl⟩
            · exact Or.inl h1
            · exact Or.inr (Or.inr ⟨f, regs, rfl, rfl⟩)
        | failed => exact absurd rfl hok.notFailed
        | done =>
          have hfc := finish_ctl { w0 with queue := rest, procs := upd w0.procs cur (some x') } cur x' ordQ
            (by rw [hok.res]; simp) hok.nofail
          generalize WorkerSt.finish { w0 with queue := rest, procs := upd w0.procs cur (some x') } cur x' ordQ = wf at hfc ⊢
          refine exec_slice_case h i hx hnsp hok (by simp) (by simp) (by simp) ?_ ?_ ?_ ?_ ?_
          · intro p hp; simp only [noteExit_wk, setWk_wk, upd_same]; rw [hfc.1]; simpa [hsp0] using hp
          · intro f regs ho; cases ho
          · obtain ⟨x'', hx'', hc⟩ := hfc.fwd (p := cur) (x := { x' with result := some (.ok x'.value) }) (by simp)
            obtain ⟨c1, c2, c3, c4, c5, c6, c7, c8⟩ := ctl_eq hc
            exact ⟨x'', by simpa using hx'', c1, c2, c3, c4, c5, c7, (fun hn => by rw [c6] at hn; cases hn), Or.inr ⟨rfl, c6⟩⟩
          · intro p hp
            simp only [noteExit_wk, setWk_wk, upd_same]
            rw [hfc.2 p]; simpa [hp] using hothp p hp
          · intro e he
            rcases noteExit_evtQ (s.setWk i wf) i cur x' with h1 | h1
            · rw [h1] at he; exact Or.inl (by simpa using he)
            · rw [h1] at he
              rcases mem_upd_append he with h2 | ⟨_, rfl⟩
              · exact Or.inl (by simpa using h2)
              · exact Or.inr (Or.inl (by intros; simp))

theorem KInv.micro {ρ : Nat → Nat → Nat} {ar : Nat → Nat} {σ : Nat → List (Nat × Nat)} {s : Sys} (h : KInv ρ ar σ s) (m : Micro)
    (hsd : StreamOK σ (microStep Rules.current s m)) :
    KInv ρ ar σ (microStep Rules.current s m) := by
  cases m with
  | env w => exact h.envStep1 w
  | cmd i => exact h.cmdStep1 i hsd
  | exec i fuel ordQ => exact h.execStep i fuel ordQ
  | check i ordE => exact h.checkStep i ordE
  | tick ms => exact h.tick ms

/-! ### from the start -/

theorem envStep1_prog (combine) (s : Sys) (w : Wid) : (envStep1With combine s w).prog = s.prog := by
  unfold envStep1With
  split
  · rfl
  · rename_i e rest _
    cases e with
    | spawn c fn regs coloc => simp only [handleEventWith, handleSpawn]; split <;> rfl
    | deliver t m => simp only [handleEventWith, handleDeliver]; split <;> rfl
    | await a ts =>
      simp only [handleEventWith, handleAwait]
      split
      · rfl
      · exact (foldPush_spec _ _ _).2.2.2.1
    | procResults a rs =>
      simp only [handleEventWith, handleProcResultsWith]
      repeat' split
      all_goals rfl
    | resultResp req r => rfl
    | exited p => rfl

theorem microStep_prog (R : Rules) (s : Sys) (m : Micro) : (microStep R s m).prog = s.prog := by
  cases m with
  | env w => exact envStep1_prog R.combine s w
  | cmd i =>
    show (cmdStep1With R s i).prog = s.prog
    unfold cmdStep1With
    split
    · rfl
    · exact (handleCmd_frame R _ i _).2.2.1
  | exec i fuel ordQ => exact (execStep_frame s i fuel ordQ).2.2.1
  | check i ordE => exact (CheckEv.checkStep s i ordE).prog
  | tick ms => rfl

theorem run_prog (R : Rules) (s : Sys) (cs : List Choice) : (runWith R s cs).prog = s.prog :=
  run_invariant R (fun s' => s'.prog = s.prog) (fun s' m h => (microStep_prog R s' m).trans h) cs s rfl

theorem KInv.of_started {ρ : Nat → Nat → Nat} {ar : Nat → Nat} {σ : Nat → List (Nat × Nat)} {s : Sys} (h : Started s) (hty : RegTyping s.prog ρ ar) :
    KInv ρ ar σ s := by
  have hcmd : ∀ w c, c ∈ s.cmdQ w → c = .misc ∨ ∃ r p, c = .getResult r p := by
    intro w c hc
    by_cases ew : w = 0
    · subst ew
      obtain ⟨req, hq⟩ := h.cmd0
      rw [hq] at hc; simp at hc
      exact Or.inr ⟨req, 0, hc⟩
    · exact Or.inl (h.cmdOther w ew c hc)
  refine ⟨TInv.of_started h, WInv.of_started h, hty, ?_, ?_, by rw [h.appended]; intro e he; cases he⟩
  · intro w p x hx
    have hx0 := hx
    rw [h.procs] at hx
    split at hx
    · rename_i hwp
      obtain ⟨rfl, rfl⟩ := hwp
      simp only [Option.some.injEq] at hx; subst hx
      refine ⟨by simp, by simp [Proc.sleeping, Proc.fresh], Nat.zero_le _, by simp, ?_, ?_, ?_,
        by simp [Proc.sleeping, Proc.fresh], ?_, ?_⟩
      · refine ⟨σ 0, Trace.zero 0, fun _ _ => ?_⟩
        show σ 0 = (Proc.sleeping 0).mailbox.map Msg.key ++ (σ 0).drop (napp s 0)
        simp [napp, h.appended, Proc.sleeping, Proc.fresh]
      · show ([0] : List Pid).length = base s.prog ar 0 0
        simp [base, nspawn, hty.main0]
      · intro r hr
        have hr' : r < ([0] : List Pid).length := hr
        have : r = 0 := by simpa using hr'
        subst this
        show Sid s 0 (ρ 0 0)
        rw [hty.self0]
        exact Or.inl ⟨0, _, hx0, rfl⟩
      · intro q hm
        rcases hcmd 0 _ hm with h1 | ⟨_, _, h1⟩ <;> cases h1
      · intro f regs co hm; rw [h.evtQ 0] at hm; simp at hm
    · cases hx
  · intro w q f regs hm
    rcases hcmd w _ hm with h1 | ⟨_, _, h1⟩ <;> cases h1

/-! ### processes keep their script; the arrival history only grows -/

def FnKeep (w w' : WorkerSt) : Prop := ∀ p x, w.procs p = some x → ∃ x', w'.procs p = some x' ∧ x'.fn = x.fn

theorem FnKeep.refl (w : WorkerSt) : FnKeep w w := fun _ x h => ⟨x, h, rfl⟩
theorem FnKeep.trans {a b c : WorkerSt} (h1 : FnKeep a b) (h2 : FnKeep b c) : FnKeep a c := by
  intro p x hx
  obtain ⟨y, hy, e1⟩ := h1 p x hx
  obtain ⟨z, hz, e2⟩ := h2 p y hy
  exact ⟨z, hz, e2.trans e1⟩
theorem FnKeep.of_procs {w w' : WorkerSt} (h : w'.procs = w.procs) : FnKeep w w' := fun p x hx => ⟨x, by rw [h]; exact hx, rfl⟩

theorem FnKeep.updProc {w w' : WorkerSt} {q : Pid} {y' : Proc} (hp : w'.procs = upd w.procs q (some y'))
    (hy : ∀ y, w.procs q = some y → y'.fn = y.fn) : FnKeep w w' := by
  intro p x hx
  rw [hp]
  by_cases e : p = q
  · subst e; exact ⟨y', by simp, hy x hx⟩
  · exact ⟨x, by simp [e, hx], rfl⟩

theorem FnKeep.modProc (w : WorkerSt) (q : Pid) (f : Proc → Proc) (hf : ∀ y, (f y).fn = y.fn) : FnKeep w (w.modProc q f) := by
  unfold WorkerSt.modProc
  split
  · rename_i y hy
    exact FnKeep.updProc (q := q) (y' := f y) rfl (fun y0 h0 => by rw [hy] at h0; cases h0; exact hf y)
  · exact FnKeep.refl _

theorem FnKeep.release (w : WorkerSt) (cur : Pid) : FnKeep w (w.release cur) := by
  unfold WorkerSt.release; split
  · exact FnKeep.modProc w cur _ (fun y => by unfold Proc.releaseDead; split <;> rfl)
  · exact FnKeep.refl w

theorem FnKeep.wakeSelecting (w : WorkerSt) (q : Pid) : FnKeep w (w.wakeSelecting q) :=
  FnKeep.of_procs (by unfold WorkerSt.wakeSelecting; split <;> rfl)

theorem FnKeep.notifyResult (w : WorkerSt) (a t : Pid) (r : Res) : FnKeep w (w.notifyResult a t r) := by
  cases r with
  | ok v =>
    show FnKeep w (w.notifyResultOk a t v)
    unfold WorkerSt.notifyResultOk
    exact (FnKeep.modProc w a _ (fun y => by split <;> rfl)).trans (FnKeep.wakeSelecting _ a)
  | err =>
    show FnKeep w (w.notifyFailure a t)
    unfold WorkerSt.notifyFailure
    split
    · split
      · refine (FnKeep.modProc w a _ ?_).trans (FnKeep.wakeSelecting _ a)
        intro y; rfl
      · exact FnKeep.refl _
    · exact FnKeep.refl _

theorem FnKeep.applyResults (a : Pid) : ∀ (rs : Results) (w : WorkerSt), FnKeep w (applyResults w a rs)
  | [], w => FnKeep.refl w
  | (t0, some r) :: rest, w => by
    unfold QM.Sys.applyResults; exact (FnKeep.notifyResult w a t0 r).trans (FnKeep.applyResults a rest _)
  | (t0, none) :: rest, w => by
    unfold QM.Sys.applyResults
    refine (?_ : FnKeep w (w.notifyPending a t0)).trans (FnKeep.applyResults a rest _)
    unfold WorkerSt.notifyPending
    exact FnKeep.modProc w a _ (fun y => rfl)

theorem FnKeep.foldl {α : Type} (f : WorkerSt → α → WorkerSt) (hf : ∀ w a, FnKeep w (f w a)) :
    ∀ (l : List α) (w : WorkerSt), FnKeep w (l.foldl f w)
  | [], w => FnKeep.refl w
  | a :: l, w => (hf w a).trans (FnKeep.foldl f hf l (f w a))

theorem FnKeep.finish (w : WorkerSt) (cur : Pid) (x : Proc) (ordQ : List Pid) (hx : ∀ y, w.procs cur = some y → x.fn = y.fn) :
    FnKeep w (w.finish cur x ordQ) := by
  unfold WorkerSt.finish
  dsimp only
  refine (FnKeep.updProc (w' := { w with procs := upd w.procs cur (some { x with result := some x.finalRes }) })
    (q := cur) (y' := { x with result := some x.finalRes }) rfl hx).trans ?_
  exact (FnKeep.foldl _ (fun w' a => FnKeep.notifyResult w' a cur _) _ _).trans (FnKeep.release _ cur)

theorem slice_fn (prog : Prog) (now : Nat) (self : Pid) : ∀ (fuel : Nat) (p : Proc), (slice prog now self fuel p).1.fn = p.fn
  | 0, p => rfl
  | fuel + 1, p => by
    unfold slice
    split
    · rfl
    · rfl
    · split <;> rfl
    · rfl
    · split
      · dsimp only
        split
        · exact slice_fn prog now self fuel _
        · rfl
      · split
        · rfl
        · dsimp only
          split
          · exact slice_fn prog now self fuel _
          · rfl
          · rfl

theorem FnKeep.execStep (s : Sys) (i : Wid) (fuel : Nat) (ordQ : List Pid) :
    FnKeep (s.wk i) ((QM.Sys.execStep s i fuel ordQ).wk i) := by
  unfold QM.Sys.execStep
  dsimp only
  have h0 : FnKeep (s.wk i) ((s.wk i).checkExpired s.prog s.now ordQ) := FnKeep.of_procs rfl
  generalize (s.wk i).checkExpired s.prog s.now ordQ = w0 at h0 ⊢
  split
  · simp only [noteExit_wk, setWk_wk, upd_same]; exact h0
  · rename_i cur rest _
    have h1 : FnKeep (s.wk i) { w0 with queue := rest } := h0.trans (FnKeep.of_procs rfl)
    split
    · simp only [noteExit_wk, setWk_wk, upd_same]; exact h1
    · rename_i x hx
      split
      · simp only [noteExit_wk, setWk_wk, upd_same]
        exact h1.trans (FnKeep.finish _ cur x ordQ (fun y hy => by rw [hx] at hy; cases hy; rfl))
      · have hsl := slice_fn s.prog s.now cur fuel x
        generalize slice s.prog s.now cur fuel x = r at hsl
        obtain ⟨x', out⟩ := r
        dsimp only at hsl ⊢
        have h2 : ∀ (qq sp se : List Pid), FnKeep (s.wk i) { w0 with queue := qq, spawning := sp, selecting := se, procs := upd w0.procs cur (some x') } := by
          intro qq sp se
          refine h0.trans (FnKeep.updProc (q := cur) (y' := x') rfl ?_)
          intro y hy
          have : w0.procs cur = some x := hx
          rw [this] at hy; cases hy; exact hsl
        cases out with
        | cont => simp only [noteExit_wk, setWk_wk, upd_same]; exact h2 _ _ _
        | send t m => simp only [pushEvt_wk, setWk_wk, upd_same]; exact h2 _ _ _
        | spawn fn regs => simp only [pushEvt_wk, setWk_wk, upd_same]; exact h2 _ _ _
        | awaitInit ts => simp only [pushEvt_wk, setWk_wk, upd_same]; exact h2 _ _ _
        | blocked => simp only [noteExit_wk, setWk_wk, upd_same]; exact h2 _ _ _
        | failed =>
          simp only [noteExit_wk, setWk_wk, upd_same]
          exact (h2 rest w0.spawning w0.selecting).trans (FnKeep.finish _ cur x' ordQ (fun y hy => by simp at hy; subst hy; rfl))
        | done =>
          simp only [noteExit_wk, setWk_wk, upd_same]
          exact (h2 rest w0.spawning w0.selecting).trans (FnKeep.finish _ cur x' ordQ (fun y hy => by simp at hy; subst hy; rfl))

theorem FnKeep.handleCmd {s : Sys} (i : Wid) (c : Cmd) (hok : ∀ p fn, c ≠ .resume p fn) (hst : ∀ p, c ≠ .start p)
    (hfresh : ∀ q f regs, c = .spawn q f regs → (s.wk i).procs q = none) :
    FnKeep (s.wk i) ((handleCmdWith Rules.current s i c).wk i) := by
  cases c with
  | misc => exact FnKeep.refl _
  | start p => exact absurd rfl (hst p)
  | resume p fn => exact absurd rfl (hok p fn)
  | spawn p fn regs =>
    simp only [handleCmdWith]
    split
    · exact FnKeep.refl _
    · simp only [noteExit_wk, setWk_wk, upd_same]
      refine FnKeep.updProc (q := p) (y' := Proc.fresh fn (p :: regs)) (by simp [WorkerSt.setProc]) ?_
      intro y hy; rw [hfresh p fn regs rfl] at hy; cases hy
  | notifySpawn caller newPid =>
    cases hx : (s.wk i).procs caller with
    | none => simp only [handleCmdWith, hx, setWk_wk, upd_same]; exact FnKeep.of_procs rfl
    | some x =>
      simp only [handleCmdWith, hx, setWk_wk, upd_same]
      split
      · exact FnKeep.updProc (q := caller) (y' := { x with regs := x.regs ++ [newPid], pc := x.pc + 1, spawnIssued := false }) rfl
          (fun y hy => by rw [hx] at hy; cases hy; rfl)
      · exact FnKeep.updProc (q := caller) (y' := { x with regs := x.regs ++ [newPid], pc := x.pc + 1, spawnIssued := false }) rfl
          (fun y hy => by rw [hx] at hy; cases hy; rfl)
  | deliver t m =>
    cases hx : (s.wk i).procs t with
    | none => simp only [handleCmdWith, hx, setWk_wk, upd_same]; exact FnKeep.wakeSelecting _ t
    | some x =>
      by_cases hd : (Cfg.releaseDead && !x.deliverable) = true
      · simp only [handleCmdWith, hx, hd, if_true, setWk_wk, upd_same]; exact FnKeep.wakeSelecting _ t
      simp only [handleCmdWith, hx, hd, Bool.false_eq_true, if_false, setWk_wk, upd_same]
      exact (FnKeep.updProc (q := t) (y' := { x with mailbox := x.mailbox ++ [m] })
        (w' := { s.wk i with procs := upd (s.wk i).procs t (some { x with mailbox := x.mailbox ++ [m] }) }) rfl
        (fun y hy => by rw [hx] at hy; cases hy; rfl)).trans (FnKeep.wakeSelecting _ t)
  | queryAwait a ts =>
    simp only [handleCmdWith, pushEvt_wk, setWk_wk, upd_same]
    exact FnKeep.of_procs (queryTargets_spec a ts (s.wk i)).1
  | updateAwait a rs =>
    simp only [handleCmdWith, Rules.current, Bool.false_and, Bool.false_eq_true, if_false, setWk_wk, upd_same]
    exact (FnKeep.applyResults a rs _).trans (FnKeep.wakeSelecting _ a)
  | getResult req p =>
    simp only [handleCmdWith]
    repeat' split
    all_goals first
      | exact FnKeep.refl _
      | (simp only [noteExit_wk, setWk_wk, upd_same]; exact FnKeep.of_procs rfl)

theorem fnKeep_micro {s : Sys} (h : SInv s) (m : Micro) : ∀ w, FnKeep (s.wk w) ((microStep Rules.current s m).wk w) := by
  intro w
  cases m with
  | env w0 => exact FnKeep.of_procs (by show ((envStep1With _ s w0).wk w).procs = _; rw [envStep1_wk])
  | tick ms => exact FnKeep.refl _
  | check i ordE =>
    have hc := CheckRel.checkStep s i ordE
    by_cases e : w = i
    · subst e; exact FnKeep.of_procs hc.procs
    · show FnKeep (s.wk w) ((QM.Sys.checkStep s i ordE).wk w)
      rw [hc.wkOther w e]; exact FnKeep.refl _
  | exec i fuel ordQ =>
    by_cases e : w = i
    · subst e; exact FnKeep.execStep s w fuel ordQ
    · show FnKeep (s.wk w) ((QM.Sys.execStep s i fuel ordQ).wk w)
      rw [((execStep_frame s i fuel ordQ).2.2.2.2.2.2 w e).1]; exact FnKeep.refl _
  | cmd i =>
    show FnKeep (s.wk w) ((cmdStep1With Rules.current s i).wk w)
    unfold cmdStep1With
    split
    · exact FnKeep.refl _
    · rename_i c rest hq
      have hok := h.r.cmds i c (by rw [hq]; simp)
      by_cases e : w = i
      · subst e
        refine FnKeep.handleCmd (s := { s with cmdQ := upd s.cmdQ w rest }) w c ?_ ?_ ?_
        · intro p fn e; subst e; exact hok.elim
        · intro p e; subst e; exact hok.elim
        · intro q f regs e; subst e
          have hfresh : ¬ known s w q := (h.fresh w).2 q (mem_creates.mpr ⟨f, regs, by rw [hq]; simp⟩)
          cases hp : (s.wk w).procs q with
          | none => rfl
          | some y => exact absurd (by simp [known, hp]) hfresh
      · rw [((handleCmd_frame Rules.current _ i c).2.2.2.2.2 w e).1]; exact FnKeep.refl _

/-- the stream hypothesis on a later state covers all earlier ones -/
theorem StreamOK.back {σ : Nat → List (Nat × Nat)} {s : Sys} (h : SInv s) (m : Micro)
    (hsd : StreamOK σ (microStep Rules.current s m)) : StreamOK σ s := by
  intro w p x hx hr
  obtain ⟨x', hx', hf⟩ := fnKeep_micro h m w p x hx
  have hp := microStep_prog Rules.current s m
  have := hsd w p x' hx' (by rw [hp, hf]; exact hr)
  rw [hf] at this
  exact (((appended_mono_micro s m).filter _).map _).trans this

/-- **Every process's history is the Kahn trace of its script** (reachable states, current rules):
the invariant holds from the first started state on — for send/spawn/await/receive script tables
with a register typing, in every run whose arrival histories follow the static streams `σ`. -/
theorem kahn_invariant (ρ : Nat → Nat → Nat) (ar : Nat → Nat) (σ : Nat → List (Nat × Nat)) (n : Nat) (prog : Prog) (req : Nat)
    (hn : 0 < n) (hwf : ProgWF prog) (hty : RegTyping prog ρ ar) (cs : List Choice)
    (hsd : StreamOK σ (run (Sys.init n prog req) cs)) :
    PreStart (run (Sys.init n prog req) cs) ∨ KInv ρ ar σ (run (Sys.init n prog req) cs) := by
  have key := invariant_from_init Rules.current
    (fun s => SInv s ∧ (StreamOK σ s → RegTyping s.prog ρ ar → KInv ρ ar σ s))
    (fun s hs => ⟨SInv.of_started hs, fun _ hty' => KInv.of_started hs hty'⟩)
    (fun s m ⟨hsi, hk⟩ => ⟨hsi.micro Rules.current_sane m, fun hsd' hty' =>
      (hk (StreamOK.back hsi m hsd') (microStep_prog Rules.current s m ▸ hty')).micro m hsd'⟩) n prog req hn hwf cs
  rcases key with h | ⟨_, h⟩
  · exact Or.inl h
  · refine Or.inr (h hsd ?_)
    have : (runWith Rules.current (Sys.init n prog req) cs).prog = prog := run_prog _ _ _
    rw [this]; exact hty

end QM.Sys
