import QuiverModel.Lemmas.Sys.Stored
/-!
M-Sys, Kahn-style trace semantics of the await/spawn fragment (C03, confluence).

`Trace prog ρ k pc acc`: `acc` is THE history of a process that runs script `k` and has reached
position `pc` — a relation defined from the script table alone (no state, no schedule).  It is
functional (`Trace.det`) and prefix-monotone (`Trace.prefix`).  `KInv` is the invariant "every
process's `acc` is the trace of its script at its position" together with what is needed to keep
it: a static typing of registers (`RegTyping`: which script the process held in a register runs),
the control shape of processes, and the faithfulness of stored await answers (`TInv`).
-/
namespace QM.Sys

/-! ### static side -/

def isSpawnAct : Act → Bool
  | .spawn _ _ => true
  | _ => false

def nspawn (sc : Script) : Nat := sc.countP isSpawnAct

/-- number of registers of a process of script `k` at position `j`: itself, what it was handed,
its children so far -/
def base (prog : Prog) (ar : Nat → Nat) (k j : Nat) : Nat := 1 + ar k + nspawn ((prog.getD k []).take j)

/-- what one action of script `k` at position `j` must satisfy: `ρ k r` = the script run by the
process held in register `r` of a process that runs script `k`; `ar k` = how many pids a process of
script `k` is handed at spawn -/
def ActTyped (prog : Prog) (ρ : Nat → Nat → Nat) (ar : Nat → Nat) (k j : Nat) : Act → Prop
  | .send _ _ _ => True
  | .spawn f pass =>
    pass.length = ar f ∧ (∀ i (h : i < pass.length), pass[i] < base prog ar k j ∧ ρ f (i + 1) = ρ k pass[i]) ∧
    ρ k (base prog ar k j) = f ∧ ρ f 0 = f
  | .select [.proc r] => r < base prog ar k j
  | _ => False

/-- **Static register typing** of an await/spawn script table (no receive, no timeout, no `fail`,
one process source per select): a checkable property of the table alone. -/
structure RegTyping (prog : Prog) (ρ : Nat → Nat → Nat) (ar : Nat → Nat) : Prop where
  main0 : ar 0 = 0
  self0 : ρ 0 0 = 0
  acts : ∀ k j a, (prog.getD k [])[j]? = some a → ActTyped prog ρ ar k j a

/-- the Kahn history of script `k` at position `pc` -/
inductive Trace (prog : Prog) (ρ : Nat → Nat → Nat) : Nat → Nat → List Val → Prop
  | zero (k : Nat) : Trace prog ρ k 0 []
  | send (k pc : Nat) (acc : List Val) (r t q : Nat) : Trace prog ρ k pc acc →
      (prog.getD k [])[pc]? = some (.send r t q) → Trace prog ρ k (pc + 1) acc
  | spawn (k pc : Nat) (acc : List Val) (f : Nat) (pass : List Nat) : Trace prog ρ k pc acc →
      (prog.getD k [])[pc]? = some (.spawn f pass) → Trace prog ρ k (pc + 1) acc
  | await (k pc : Nat) (acc : List Val) (r : Nat) (a : List Val) : Trace prog ρ k pc acc →
      (prog.getD k [])[pc]? = some (.select [.proc r]) →
      Trace prog ρ (ρ k r) (prog.getD (ρ k r) []).length a →
      Trace prog ρ k (pc + 1) (acc ++ [Val.tuple ([(ρ k r : Int)] :: a)])

/-- **a script has one history**: the trace relation is functional -/
theorem Trace.det {prog : Prog} {ρ : Nat → Nat → Nat} {k pc : Nat} {a1 : List Val} (h1 : Trace prog ρ k pc a1) :
    ∀ {a2 : List Val}, Trace prog ρ k pc a2 → a1 = a2 := by
  induction h1 with
  | zero k => intro a2 h2; cases h2; rfl
  | send k pc acc r t q _ hs ih =>
    intro a2 h2
    cases h2 with
    | send _ _ _ _ _ _ h2' _ => exact ih h2'
    | spawn _ _ _ _ _ h2' hs' => rw [hs] at hs'; cases hs'
    | await _ _ _ _ _ h2' hs' _ => rw [hs] at hs'; cases hs'
  | spawn k pc acc f pass _ hs ih =>
    intro a2 h2
    cases h2 with
    | send _ _ _ _ _ _ h2' hs' => rw [hs] at hs'; cases hs'
    | spawn _ _ _ _ _ h2' _ => exact ih h2'
    | await _ _ _ _ _ h2' hs' _ => rw [hs] at hs'; cases hs'
  | await k pc acc r a _ hs _ ih1 ih2 =>
    intro a2 h2
    cases h2 with
    | send _ _ _ _ _ _ h2' hs' => rw [hs] at hs'; cases hs'
    | spawn _ _ _ _ _ h2' hs' => rw [hs] at hs'; cases hs'
    | await _ _ acc' r' a' h2' hs' ht' =>
      rw [hs] at hs'
      simp only [Option.some.injEq, Act.select.injEq, List.cons.injEq, Src.proc.injEq, and_true] at hs'
      subst hs'
      rw [ih1 h2', ih2 ht']

/-- earlier positions have a prefix of the history -/
theorem Trace.prefix {prog : Prog} {ρ : Nat → Nat → Nat} {k pc2 : Nat} {a2 : List Val} (h2 : Trace prog ρ k pc2 a2) :
    ∀ {pc1 : Nat} {a1 : List Val}, Trace prog ρ k pc1 a1 → pc1 ≤ pc2 → a1 <+: a2 := by
  induction h2 with
  | zero k => intro pc1 a1 h1 hle; have : pc1 = 0 := by omega
              subst this; cases h1; exact List.prefix_refl _
  | send k pc acc r t q h hs ih =>
    intro pc1 a1 h1 hle
    by_cases e : pc1 = pc + 1
    · subst e; rw [h1.det (Trace.send k pc acc r t q h hs)]; exact List.prefix_refl _
    · exact ih h1 (by omega)
  | spawn k pc acc f pass h hs ih =>
    intro pc1 a1 h1 hle
    by_cases e : pc1 = pc + 1
    · subst e; rw [h1.det (Trace.spawn k pc acc f pass h hs)]; exact List.prefix_refl _
    · exact ih h1 (by omega)
  | await k pc acc r a h hs ht ih _ =>
    intro pc1 a1 h1 hle
    by_cases e : pc1 = pc + 1
    · subst e; rw [h1.det (Trace.await k pc acc r a h hs ht)]; exact List.prefix_refl _
    · exact (ih h1 (by omega)).trans (List.prefix_append _ _)

/-! ### one time slice -/

theorem actTyped_select {prog : Prog} {ρ : Nat → Nat → Nat} {ar : Nat → Nat} {k j : Nat} {srcs : List Src}
    (h : ActTyped prog ρ ar k j (.select srcs)) : ∃ r, srcs = [.proc r] ∧ r < base prog ar k j := by
  match srcs, h with
  | [.proc r], h => exact ⟨r, rfl, h⟩

theorem nspawn_take_succ {sc : Script} {j : Nat} {a : Act} (h : sc[j]? = some a) :
    nspawn (sc.take (j + 1)) = nspawn (sc.take j) + (if isSpawnAct a then 1 else 0) := by
  unfold nspawn
  rw [List.take_add_one, h]
  simp [List.countP_append, List.countP_cons]

theorem lt_of_getElem?_some {α : Type} {l : List α} {j : Nat} {a : α} (h : l[j]? = some a) : j < l.length := by
  rcases Nat.lt_or_ge j l.length with h1 | h1
  · exact h1
  · rw [List.getElem?_eq_none h1] at h; cases h

theorem firstReady_single (p : Proc) (now start : Nat) (src : Src) :
    firstReady p now start [src] = srcReady p now start src := by
  unfold firstReady
  cases srcReady p now start src <;> rfl

theorem srcReady_proc (p : Proc) (now start r : Nat) (hf : p.awaitFailed = []) :
    (∃ v, alookup p.awaiting (p.reg r) = some (some v) ∧ srcReady p now start (.proc r) = .yes v p.mailbox) ∨
    srcReady p now start (.proc r) = .no := by
  unfold srcReady
  simp only [hf, List.not_mem_nil, if_false]
  cases h : alookup p.awaiting (p.reg r) with
  | none => exact Or.inr rfl
  | some o =>
    cases o with
    | none => exact Or.inr rfl
    | some v => exact Or.inl ⟨v, rfl, rfl⟩

/-- a value is the result of a complete run of script `f` -/
def GoodVal (prog : Prog) (ρ : Nat → Nat → Nat) (f : Nat) (v : Val) : Prop :=
  ∃ a, v = Val.tuple ([(f : Int)] :: a) ∧ Trace prog ρ f (prog.getD f []).length a

/-- the process-local facts a time slice starts from -/
structure Runnable (prog : Prog) (ρ : Nat → Nat → Nat) (ar : Nat → Nat) (x : Proc) : Prop where
  res : x.result = none
  issued : x.spawnIssued = false
  nofail : x.awaitFailed = []
  pcle : x.pc ≤ (prog.getD x.fn []).length
  trace : Trace prog ρ x.fn x.pc x.acc
  rlen : x.regs.length = base prog ar x.fn x.pc
  store : ∀ r v, r < x.regs.length → (x.reg r, some v) ∈ x.awaiting → GoodVal prog ρ (ρ x.fn r) v

structure SliceOK (prog : Prog) (ρ : Nat → Nat → Nat) (x : Proc) (r : Proc × Outcome) : Prop where
  fn : r.1.fn = x.fn
  regs : r.1.regs = x.regs
  nofail : r.1.awaitFailed = []
  res : r.1.result = none
  pcle : r.1.pc ≤ (prog.getD x.fn []).length
  trace : Trace prog ρ x.fn r.1.pc r.1.acc
  nsp : nspawn ((prog.getD x.fn []).take r.1.pc) = nspawn ((prog.getD x.fn []).take x.pc)
  notFailed : r.2 ≠ .failed
  spawnOut : ∀ f regs, r.2 = .spawn f regs →
    r.1.spawnIssued = true ∧ ∃ pass, (prog.getD x.fn [])[r.1.pc]? = some (.spawn f pass) ∧ regs = pass.map r.1.reg
  other : (∀ f regs, r.2 ≠ .spawn f regs) → r.1.spawnIssued = false
  done : r.2 = .done → r.1.pc = (prog.getD x.fn []).length

theorem slice_spec {prog : Prog} {ρ : Nat → Nat → Nat} {ar : Nat → Nat} (ht : RegTyping prog ρ ar) (now : Nat) (self : Pid) :
    ∀ (fuel : Nat) (x : Proc), Runnable prog ρ ar x → SliceOK prog ρ x (slice prog now self fuel x)
  | 0, x, h => by
    unfold slice
    exact ⟨rfl, rfl, h.nofail, h.res, h.pcle, h.trace, rfl, by simp, by simp, fun _ => h.issued, by simp⟩
  | fuel + 1, x, h => by
    unfold slice
    split
    · rename_i hnone
      have hge : (prog.getD x.fn []).length ≤ x.pc := by
        rcases Nat.lt_or_ge x.pc (prog.getD x.fn []).length with h1 | h1
        · have : (x.script prog)[x.pc]? = some ((prog.getD x.fn [])[x.pc]) := by simp [Proc.script, h1]
          rw [this] at hnone; cases hnone
        · exact h1
      exact ⟨rfl, rfl, h.nofail, h.res, h.pcle, h.trace, rfl, by simp, by simp, fun _ => h.issued,
        fun _ => Nat.le_antisymm h.pcle hge⟩
    · rename_i r tag seq hs
      have hs' : (prog.getD x.fn [])[x.pc]? = some (.send r tag seq) := hs
      have hlt := lt_of_getElem?_some hs'
      refine ⟨rfl, rfl, h.nofail, h.res, hlt, Trace.send _ _ _ r tag seq h.trace hs', ?_, by simp, by simp, fun _ => h.issued, by simp⟩
      show nspawn ((prog.getD x.fn []).take (x.pc + 1)) = _
      rw [nspawn_take_succ hs']; simp [isSpawnAct]
    · rename_i f pass hs
      have hs' : (prog.getD x.fn [])[x.pc]? = some (.spawn f pass) := hs
      simp only [h.issued, Bool.false_eq_true, if_false]
      exact ⟨rfl, rfl, h.nofail, h.res, h.pcle, h.trace, rfl, by simp,
        fun f' regs' he => by
          simp only [Outcome.spawn.injEq] at he
          obtain ⟨rfl, rfl⟩ := he
          exact ⟨rfl, pass, hs', rfl⟩,
        fun hno => absurd rfl (hno f (pass.map x.reg)), by simp⟩
    · rename_i hs
      have hs' : (prog.getD x.fn [])[x.pc]? = some .fail := hs
      exact (ht.acts _ _ _ hs').elim
    · rename_i srcs hs
      have hs' : (prog.getD x.fn [])[x.pc]? = some (.select srcs) := hs
      obtain ⟨r, rfl, hr⟩ := actTyped_select (ht.acts _ _ _ hs')
      have hlt := lt_of_getElem?_some hs'
      split
      · -- initialize_select: one process source, so an Await goes out
        simp only [selTargets, List.isEmpty_cons, Bool.false_eq_true, if_false]
        exact ⟨rfl, rfl, h.nofail, h.res, h.pcle, h.trace, rfl, by simp, by simp, fun _ => h.issued, by simp⟩
      · dsimp only
        rw [firstReady_single]
        rcases srcReady_proc { x with selStart := some (x.selStart.getD now) } now (x.selStart.getD now) r h.nofail with ⟨v, hv, hready⟩ | hready
        · rw [hready]
          dsimp only
          have hmem : (x.reg r, some v) ∈ x.awaiting := alookup_mem hv
          have hgood := h.store r v (by rw [h.rlen]; exact hr) hmem
          obtain ⟨a, rfl, hta⟩ := hgood
          have hnsp : nspawn ((prog.getD x.fn []).take (x.pc + 1)) = nspawn ((prog.getD x.fn []).take x.pc) := by
            rw [nspawn_take_succ hs']; simp [isSpawnAct]
          have ih := slice_spec ht now self fuel
            { x with selStart := none, pc := x.pc + 1, selInit := false, acc := x.acc ++ [Val.tuple ([(ρ x.fn r : Int)] :: a)], mailbox := x.mailbox,
                     awaiting := x.awaiting.filter (fun kv => kv.1 ∉ selTargets x [.proc r]),
                     awaitFailed := x.awaitFailed.filter (· ∉ selTargets x [.proc r]) }
            { res := h.res, issued := h.issued, nofail := by simp [h.nofail], pcle := hlt,
              trace := Trace.await _ _ _ r a h.trace hs' hta,
              rlen := by show x.regs.length = base prog ar x.fn (x.pc + 1)
                         rw [h.rlen]; unfold base; rw [hnsp],
              store := fun r' v' hr' hm' => h.store r' v' hr' (List.mem_filter.mp hm').1 }
          exact ⟨ih.fn, ih.regs, ih.nofail, ih.res, ih.pcle, ih.trace, ih.nsp.trans hnsp, ih.notFailed, ih.spawnOut, ih.other, ih.done⟩
        · rw [hready]
          exact ⟨rfl, rfl, h.nofail, h.res, h.pcle, h.trace, rfl, by simp, by simp, fun _ => h.issued, by simp⟩

/-! ### the system invariant -/

/-- the control part of a process: what the trace invariant talks about -/
def Ctl (x : Proc) : Nat × Nat × List Pid × List Val × Bool × Option Res × List Pid :=
  (x.fn, x.pc, x.regs, x.acc, x.spawnIssued, x.result, x.awaitFailed)

/-- pid `q` runs (or, still in its SpawnProcess command, will run) script `f` -/
def Sid (s : Sys) (q : Pid) (f : Nat) : Prop :=
  (∃ w y, (s.wk w).procs q = some y ∧ y.fn = f) ∨ (∃ w regs, Cmd.spawn q f regs ∈ s.cmdQ w)

structure PInv (ρ : Nat → Nat → Nat) (ar : Nat → Nat) (s : Sys) (w : Wid) (p : Pid) (x : Proc) : Prop where
  noerr : x.result ≠ some .err
  nofail : x.awaitFailed = []
  pcle : x.pc ≤ (s.prog.getD x.fn []).length
  fin : ∀ v, x.result = some (.ok v) → v = x.value ∧ x.pc = (s.prog.getD x.fn []).length ∧ x.spawnIssued = false
  trace : Trace s.prog ρ x.fn x.pc x.acc
  rlen : x.regs.length = base s.prog ar x.fn x.pc
  rsid : ∀ r (h : r < x.regs.length), Sid s x.regs[r] (ρ x.fn r)
  parked : x.spawnIssued = true → p ∈ (s.wk w).spawning ∧ ∃ f pass, (s.prog.getD x.fn [])[x.pc]? = some (.spawn f pass)
  notif : ∀ q, Cmd.notifySpawn p q ∈ s.cmdQ w → ∃ f pass, (s.prog.getD x.fn [])[x.pc]? = some (.spawn f pass) ∧ Sid s q f
  spev : ∀ f regs coloc, Evt.spawn p f regs coloc ∈ s.evtQ w →
    ∃ pass, (s.prog.getD x.fn [])[x.pc]? = some (.spawn f pass) ∧ regs = pass.map x.reg

structure KInv (ρ : Nat → Nat → Nat) (ar : Nat → Nat) (s : Sys) : Prop where
  t : TInv s
  wi : WInv s
  typing : RegTyping s.prog ρ ar
  procs : ∀ w p x, (s.wk w).procs p = some x → PInv ρ ar s w p x
  cmds : ∀ w q f regs, Cmd.spawn q f regs ∈ s.cmdQ w →
    regs.length = ar f ∧ ρ f 0 = f ∧ ∀ i (h : i < regs.length), Sid s regs[i] (ρ f (i + 1))

theorem ctl_eq {x x' : Proc} (h : Ctl x' = Ctl x) :
    x'.fn = x.fn ∧ x'.pc = x.pc ∧ x'.regs = x.regs ∧ x'.acc = x.acc ∧ x'.spawnIssued = x.spawnIssued ∧
    x'.result = x.result ∧ x'.awaitFailed = x.awaitFailed := by
  simpa [Ctl] using h

theorem PInv.transfer {ρ : Nat → Nat → Nat} {ar : Nat → Nat} {s s' : Sys} {w : Wid} {p : Pid} {x x' : Proc}
    (h : PInv ρ ar s w p x) (hprog : s'.prog = s.prog) (hsid : ∀ q f, Sid s q f → Sid s' q f) (hc : Ctl x' = Ctl x)
    (hsp : p ∈ (s.wk w).spawning → p ∈ (s'.wk w).spawning)
    (hn : ∀ q, Cmd.notifySpawn p q ∈ s'.cmdQ w → Cmd.notifySpawn p q ∈ s.cmdQ w)
    (he : ∀ f regs coloc, Evt.spawn p f regs coloc ∈ s'.evtQ w → Evt.spawn p f regs coloc ∈ s.evtQ w) :
    PInv ρ ar s' w p x' := by
  obtain ⟨e1, e2, e3, e4, e5, e6, e7⟩ := ctl_eq hc
  have ev : x'.value = x.value := by simp [Proc.value, e1, e4]
  have er : x'.reg = x.reg := by funext r; simp [Proc.reg, e3]
  refine ⟨?_, ?_, ?_, ?_, ?_, ?_, ?_, ?_, ?_, ?_⟩
  · rw [e6]; exact h.noerr
  · rw [e7]; exact h.nofail
  · rw [e2, e1, hprog]; exact h.pcle
  · rw [e6, e2, e1, e5, ev, hprog]; exact h.fin
  · rw [e1, e2, e4, hprog]; exact h.trace
  · rw [e1, e2, e3, hprog]; exact h.rlen
  · intro r hr
    have hr' : r < x.regs.length := e3 ▸ hr
    have := hsid _ _ (h.rsid r hr')
    simpa only [e3, e1] using this
  · rw [e5, e1, e2, hprog]; intro hi
    exact ⟨hsp (h.parked hi).1, (h.parked hi).2⟩
  · intro q hq
    obtain ⟨f, pass, h1, h2⟩ := h.notif q (hn q hq)
    exact ⟨f, pass, by rw [e1, e2, hprog]; exact h1, hsid _ _ h2⟩
  · intro f regs coloc hq
    obtain ⟨pass, h1, h2⟩ := h.spev f regs coloc (he f regs coloc hq)
    exact ⟨pass, by rw [e1, e2, hprog]; exact h1, by rw [er]; exact h2⟩

theorem mem_creates {l : List Cmd} {q : Pid} : q ∈ creates l ↔ ∃ f regs, Cmd.spawn q f regs ∈ l := by
  unfold creates
  rw [List.mem_filterMap]
  constructor
  · rintro ⟨c, hc, he⟩
    cases c <;> simp [cmdCreate] at he
    subst he; exact ⟨_, _, hc⟩
  · rintro ⟨f, regs, h⟩; exact ⟨_, h, rfl⟩

/-- a pid has one script -/
theorem Sid.proc_fn {s : Sys} (hs : SInv s) {q : Pid} {f : Nat} (h : Sid s q f) {w : Wid} {y : Proc}
    (hy : (s.wk w).procs q = some y) : y.fn = f := by
  have hk : known s w q := by simp [known, hy]
  have hr := hs.r.placed w q hk
  rcases h with ⟨w', y', hy', hf⟩ | ⟨w', regs, hm⟩
  · have hr' := hs.r.placed w' q (by simp [known, hy'])
    rw [hr] at hr'; simp only [Option.some.injEq] at hr'; subst hr'
    rw [hy] at hy'; simp only [Option.some.injEq] at hy'; subst hy'; exact hf
  · have hok := hs.r.cmds w' _ hm
    have hr' : s.env.router q = some w' := hok.1
    rw [hr] at hr'; simp only [Option.some.injEq] at hr'; subst hr'
    exact absurd hk ((hs.fresh w).2 q (mem_creates.mpr ⟨f, regs, hm⟩))

theorem Sid.mono {s s' : Sys}
    (hp : ∀ w q y, (s.wk w).procs q = some y → ∃ y', (s'.wk w).procs q = some y' ∧ y'.fn = y.fn)
    (hc : ∀ w q f regs, Cmd.spawn q f regs ∈ s.cmdQ w →
      Cmd.spawn q f regs ∈ s'.cmdQ w ∨ ∃ w' y, (s'.wk w').procs q = some y ∧ y.fn = f) :
    ∀ q f, Sid s q f → Sid s' q f := by
  rintro q f (⟨w, y, hy, hf⟩ | ⟨w, regs, hm⟩)
  · obtain ⟨y', hy', hf'⟩ := hp w q y hy
    exact Or.inl ⟨w, y', hy', hf'.trans hf⟩
  · rcases hc w q f regs hm with h1 | ⟨w', y, hy, hf⟩
    · exact Or.inr ⟨w, regs, h1⟩
    · exact Or.inl ⟨w', y, hy, hf⟩

/-- frame of a worker-side micro-step: everything outside worker `i`'s processes carries over -/
theorem KInv.workerFrame {ρ : Nat → Nat → Nat} {ar : Nat → Nat} {s s' : Sys} (h : KInv ρ ar s) (i : Wid)
    (hprog : s'.prog = s.prog)
    (hwk : ∀ k, k ≠ i → s'.wk k = s.wk k)
    (hcq : ∀ w c, c ∈ s'.cmdQ w → c ∈ s.cmdQ w)
    (hevo : ∀ k, k ≠ i → ∀ e, e ∈ s'.evtQ k → e ∈ s.evtQ k)
    (hsid : ∀ q f, Sid s q f → Sid s' q f)
    (hpi : ∀ p x', (s'.wk i).procs p = some x' → PInv ρ ar s' i p x') :
    (∀ w p x, (s'.wk w).procs p = some x → PInv ρ ar s' w p x) ∧
    (∀ w q f regs, Cmd.spawn q f regs ∈ s'.cmdQ w →
      regs.length = ar f ∧ ρ f 0 = f ∧ ∀ i (h : i < regs.length), Sid s' regs[i] (ρ f (i + 1))) := by
  refine ⟨?_, ?_⟩
  · intro w p x hx
    by_cases hw : w = i
    · subst hw; exact hpi p x hx
    · rw [hwk w hw] at hx
      refine (h.procs w p x hx).transfer hprog hsid rfl ?_ (fun q hq => hcq w _ hq) (fun f regs coloc hq => hevo w hw _ hq)
      rw [hwk w hw]; exact id
  · intro w q f regs hm
    obtain ⟨h1, h2, h3⟩ := h.cmds w q f regs (hcq w _ hm)
    exact ⟨h1, h2, fun j hj => hsid _ _ (h3 j hj)⟩

/-! ### environment step: which commands appear -/

def plainCmd (c : Cmd) : Prop := cmdCreate c = none ∧ ∀ a b, c ≠ .notifySpawn a b

def CmdSpec (s s' : Sys) (w0 : Wid) : Prop :=
  s'.prog = s.prog ∧ (∀ w c, c ∈ s.cmdQ w → c ∈ s'.cmdQ w) ∧
  (∀ w c, c ∈ s'.cmdQ w → c ∈ s.cmdQ w ∨ plainCmd c ∨
      ∃ c0 f regs coloc rest, s.evtQ w0 = .spawn c0 f regs coloc :: rest ∧
        (c = .spawn s.env.nextPid f regs ∨ (c = .notifySpawn c0 s.env.nextPid ∧ w = w0)))

theorem cmdSpec_same {s s' : Sys} {w0 : Wid} (hp : s'.prog = s.prog) (hc : s'.cmdQ = s.cmdQ) : CmdSpec s s' w0 :=
  ⟨hp, fun w c h => by rw [hc]; exact h, fun w c h => Or.inl (by rw [hc] at h; exact h)⟩

theorem cmdSpec_push {s s1 : Sys} {w0 : Wid} (hp : s1.prog = s.prog) (hc : s1.cmdQ = s.cmdQ) (w : Wid) (c : Cmd)
    (hpl : plainCmd c) : CmdSpec s (s1.pushCmd w c) w0 := by
  refine ⟨hp, fun w' c' h => ?_, fun w' c' h => ?_⟩
  · show c' ∈ upd s1.cmdQ w (s1.cmdQ w ++ [c]) w'
    rw [hc]; exact mem_upd_append_of_mem h
  · have h' : c' ∈ upd s1.cmdQ w (s1.cmdQ w ++ [c]) w' := h
    rw [hc] at h'
    rcases mem_upd_append h' with h1 | ⟨_, rfl⟩
    · exact Or.inl h1
    · exact Or.inr (Or.inl hpl)

theorem envStep1_cmdSpec (combine) {s : Sys} (h : RInv s) (w0 : Wid) : CmdSpec s (envStep1With combine s w0) w0 := by
  unfold envStep1With
  split
  · exact cmdSpec_same rfl rfl
  · rename_i e rest hq
    obtain ⟨h1, he⟩ := h.popEvt hq
    cases e with
    | spawn c f regs coloc =>
      have hr : ({ s with evtQ := upd s.evtQ w0 rest } : Sys).env.router c = some w0 := he.1
      have hne : c ≠ ({ s with evtQ := upd s.evtQ w0 rest } : Sys).env.nextPid := Nat.ne_of_lt (h.below c w0 he.1)
      simp only [handleEventWith]
      rw [handleSpawn_eq hr hne]
      refine ⟨rfl, fun w c' hc' => ?_, fun w c' hc' => ?_⟩
      · exact mem_upd_append_of_mem (mem_upd_append_of_mem hc')
      · rcases mem_upd_append hc' with h2 | ⟨e1, e2⟩
        · rcases mem_upd_append h2 with h3 | ⟨_, e4⟩
          · exact Or.inl h3
          · exact Or.inr (Or.inr ⟨c, f, regs, coloc, rest, hq, Or.inl e4⟩)
        · exact Or.inr (Or.inr ⟨c, f, regs, coloc, rest, hq, Or.inr ⟨e2, e1⟩⟩)
    | deliver t m =>
      simp only [handleEventWith, handleDeliver]
      split
      · exact cmdSpec_same rfl rfl
      · refine cmdSpec_push ?_ ?_ _ _ ?_ <;> first | rfl | simp [plainCmd, cmdCreate]
    | await a ts =>
      simp only [handleEventWith, handleAwait]
      split
      · exact cmdSpec_same rfl rfl
      · have hf := foldPush_spec (fun w => Cmd.queryAwait a (ts.filter (fun t => s.env.router t = some w)))
          (targetWorkers s.env.router ts)
          { s with evtQ := upd s.evtQ w0 rest, env := { s.env with pending := upd s.env.pending a (some { expected := targetWorkers s.env.router ts, responses := [] }) } }
        obtain ⟨_, _, _, f4, f5, _, f7⟩ := hf
        refine ⟨f4, f5, fun w c hc => ?_⟩
        rcases f7 w c hc with h2 | ⟨_, rfl⟩
        · exact Or.inl h2
        · exact Or.inr (Or.inl (by simp [plainCmd, cmdCreate]))
    | procResults a rs =>
      simp only [handleEventWith, handleProcResultsWith]
      repeat' split
      all_goals first
        | exact cmdSpec_same rfl rfl
        | (refine cmdSpec_push ?_ ?_ _ _ ?_ <;> first | rfl | simp [plainCmd, cmdCreate])
    | resultResp req r => exact cmdSpec_same rfl rfl

/-! ### worker operations that leave the control part alone -/

def CtlSame (w w' : WorkerSt) : Prop :=
  w'.spawning = w.spawning ∧ ∀ p, (w'.procs p).map Ctl = (w.procs p).map Ctl

theorem CtlSame.refl (w : WorkerSt) : CtlSame w w := ⟨rfl, fun _ => rfl⟩
theorem CtlSame.trans {a b c : WorkerSt} (h1 : CtlSame a b) (h2 : CtlSame b c) : CtlSame a c :=
  ⟨h2.1.trans h1.1, fun p => (h2.2 p).trans (h1.2 p)⟩

theorem CtlSame.of_procs {w w' : WorkerSt} (hp : w'.procs = w.procs) (hs : w'.spawning = w.spawning) : CtlSame w w' :=
  ⟨hs, fun p => by rw [hp]⟩

theorem CtlSame.back {w w' : WorkerSt} (h : CtlSame w w') {p : Pid} {x' : Proc} (hx : w'.procs p = some x') :
    ∃ x, w.procs p = some x ∧ Ctl x' = Ctl x := by
  have := h.2 p
  rw [hx] at this
  cases hw : w.procs p with
  | none => rw [hw] at this; cases this
  | some x => rw [hw] at this; simp only [Option.map_some, Option.some.injEq] at this; exact ⟨x, rfl, this⟩

theorem CtlSame.fwd {w w' : WorkerSt} (h : CtlSame w w') {p : Pid} {x : Proc} (hx : w.procs p = some x) :
    ∃ x', w'.procs p = some x' ∧ Ctl x' = Ctl x := by
  have := h.2 p
  rw [hx] at this
  cases hw : w'.procs p with
  | none => rw [hw] at this; cases this
  | some x' => rw [hw] at this; simp only [Option.map_some, Option.some.injEq] at this; exact ⟨x', rfl, this⟩

theorem CtlSame.updProc {w w' : WorkerSt} {q : Pid} {y y' : Proc} (hp : w'.procs = upd w.procs q (some y'))
    (hs : w'.spawning = w.spawning) (hy : w.procs q = some y) (hc : Ctl y' = Ctl y) : CtlSame w w' := by
  refine ⟨hs, fun p => ?_⟩
  rw [hp]
  by_cases e : p = q
  · subst e; simp [hy, hc]
  · simp [e]

theorem CtlSame.modProc (w : WorkerSt) (q : Pid) (f : Proc → Proc) (hf : ∀ y, Ctl (f y) = Ctl y) :
    CtlSame w (w.modProc q f) := by
  unfold WorkerSt.modProc
  split
  · rename_i y hy; exact CtlSame.updProc rfl rfl hy (hf y)
  · exact CtlSame.refl _

theorem CtlSame.wakeSelecting (w : WorkerSt) (q : Pid) : CtlSame w (w.wakeSelecting q) := by
  unfold WorkerSt.wakeSelecting; split
  · exact CtlSame.of_procs rfl rfl
  · exact CtlSame.refl _

theorem CtlSame.notifyResultOk (w : WorkerSt) (a t : Pid) (v : Val) : CtlSame w (w.notifyResultOk a t v) := by
  unfold WorkerSt.notifyResultOk
  refine (CtlSame.modProc w a _ ?_).trans (CtlSame.wakeSelecting _ a)
  intro y; split <;> rfl

theorem CtlSame.applyResults (a : Pid) : ∀ (rs : Results) (w : WorkerSt),
    (∀ t r, (t, some r) ∈ rs → ∃ v, r = .ok v) → CtlSame w (applyResults w a rs)
  | [], w, _ => CtlSame.refl w
  | (t0, some r) :: rest, w, h => by
    unfold QM.Sys.applyResults
    obtain ⟨v, rfl⟩ := h t0 r (by simp)
    exact (CtlSame.notifyResultOk w a t0 v).trans
      (CtlSame.applyResults a rest _ (fun t r hm => h t r (List.mem_cons_of_mem _ hm)))
  | (t0, none) :: rest, w, h => by
    unfold QM.Sys.applyResults
    exact CtlSame.applyResults a rest w (fun t r hm => h t r (List.mem_cons_of_mem _ hm))

theorem CtlSame.foldl {α : Type} (f : WorkerSt → α → WorkerSt) (hf : ∀ w a, CtlSame w (f w a)) :
    ∀ (l : List α) (w : WorkerSt), CtlSame w (l.foldl f w)
  | [], w => CtlSame.refl w
  | a :: l, w => (hf w a).trans (CtlSame.foldl f hf l (f w a))

theorem queryTargets_spawning (a : Pid) : ∀ (ts : List Pid) (w : WorkerSt), (queryTargets w a ts).1.spawning = w.spawning
  | [], w => rfl
  | t :: rest, w => by
    unfold queryTargets
    split
    · exact queryTargets_spawning a rest w
    · exact queryTargets_spawning a rest _

def quietCmd : Cmd → Prop
  | .misc => True
  | .deliver _ _ => True
  | .queryAwait _ _ => True
  | .updateAwait _ rs => ∀ t r, (t, some r) ∈ rs → ∃ v, r = .ok v
  | .getResult _ _ => True
  | _ => False

theorem handleCmd_ctlSame (s : Sys) (i : Wid) (c : Cmd) (hq : quietCmd c) :
    CtlSame (s.wk i) ((handleCmdWith Rules.current s i c).wk i) := by
  cases c with
  | misc => exact CtlSame.refl _
  | start p => exact hq.elim
  | resume p fn => exact hq.elim
  | spawn p fn regs => exact hq.elim
  | notifySpawn caller newPid => exact hq.elim
  | deliver t m =>
    cases hx : (s.wk i).procs t with
    | none => simp only [handleCmdWith, hx, setWk_wk, upd_same]; exact CtlSame.wakeSelecting _ t
    | some x =>
      simp only [handleCmdWith, hx, setWk_wk, upd_same]
      exact (CtlSame.updProc (q := t) (y := x) (y' := { x with mailbox := x.mailbox ++ [m] })
        (w' := { s.wk i with procs := upd (s.wk i).procs t (some { x with mailbox := x.mailbox ++ [m] }) }) rfl rfl hx rfl).trans
        (CtlSame.wakeSelecting _ t)
  | queryAwait a ts =>
    simp only [handleCmdWith, pushEvt_wk, setWk_wk, upd_same]
    exact CtlSame.of_procs (queryTargets_spec a ts (s.wk i)).1 (queryTargets_spawning a ts _)
  | updateAwait a rs =>
    simp only [handleCmdWith, Rules.current, Bool.false_and, Bool.false_eq_true, if_false, setWk_wk, upd_same]
    exact (CtlSame.applyResults a rs _ hq).trans (CtlSame.wakeSelecting _ a)
  | getResult req p =>
    simp only [handleCmdWith]
    repeat' split
    all_goals first
      | exact CtlSame.refl _
      | (simp only [setWk_wk, upd_same]; exact CtlSame.of_procs rfl rfl)

/-- events a command handler emits are never SpawnActions -/
theorem handleCmd_evts_nospawn (R : Rules) (s : Sys) (i : Wid) (c : Cmd) :
    ∀ w e, e ∈ (handleCmdWith R s i c).evtQ w → e ∈ s.evtQ w ∨ ∀ a f regs co, e ≠ .spawn a f regs co := by
  intro w e
  cases c <;> simp only [handleCmdWith] <;> (repeat' split) <;> (try simp only [Sys.setWk, Sys.pushEvt, Sys.setFault])
  all_goals first
    | exact Or.inl
    | (intro hmem; rcases mem_upd_append hmem with h1 | ⟨_, rfl⟩
       · exact Or.inl h1
       · exact Or.inr (by intros; simp))

end QM.Sys
