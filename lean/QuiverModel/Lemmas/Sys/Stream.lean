import QuiverModel.Lemmas.Sys.Kahn
/-!
M-Sys: the arrival half of confluence.  For a script table in which every mailbox has ONE sender
script (`SingleSenderTable`), in a run in which no script is run by two processes (`Uniq`, a fact
about the final state), the arrival history of every receiving process is a prefix of the static
send sequence of its sender (`streamOf`): `StreamOK` holds, so the Kahn invariant needs no
hypothesis about arrivals.
-/
namespace QM.Sys
set_option linter.unusedSectionVars false
variable [Cfg]

/-! ### static send sequences -/

def isSendTo (ρ : Nat → Nat → Nat) (k kb : Nat) : Act → Option (Nat × Nat)
  | .send r tag seq => if ρ k r = kb then some (tag, seq) else none
  | _ => none

/-- keys of the sends of script `k` before position `pc` whose register denotes script `kb` -/
def sendsK (prog : Prog) (ρ : Nat → Nat → Nat) (k pc kb : Nat) : List (Nat × Nat) :=
  ((prog.getD k []).take pc).filterMap (isSendTo ρ k kb)

/-- the input stream of script `kb`: everything its sender script sends to it, in script order -/
def streamOf (prog : Prog) (ρ : Nat → Nat → Nat) (snd : Nat → Nat) (kb : Nat) : List (Nat × Nat) :=
  sendsK prog ρ (snd kb) (prog.getD (snd kb) []).length kb

/-- every mailbox has one sender SCRIPT (`snd kb`), and sends use registers that exist -/
structure SingleSenderTable (prog : Prog) (ρ : Nat → Nat → Nat) (ar : Nat → Nat) (snd : Nat → Nat) : Prop where
  only : ∀ k j r tag seq, (prog.getD k [])[j]? = some (.send r tag seq) → snd (ρ k r) = k ∧ r < base prog ar k j

theorem sendsK_succ {prog : Prog} {ρ : Nat → Nat → Nat} {k pc kb : Nat} {a : Act} (h : (prog.getD k [])[pc]? = some a) :
    sendsK prog ρ k (pc + 1) kb = sendsK prog ρ k pc kb ++ (isSendTo ρ k kb a).toList := by
  unfold sendsK
  rw [List.take_add_one, h]
  simp only [Option.toList_some, List.filterMap_append, List.filterMap_cons, List.filterMap_nil]
  cases isSendTo ρ k kb a <;> rfl

theorem sendsK_prefix (prog : Prog) (ρ : Nat → Nat → Nat) (k kb : Nat) {pc pc' : Nat} (h : pc ≤ pc') :
    sendsK prog ρ k pc kb <+: sendsK prog ρ k pc' kb := by
  unfold sendsK
  exact ((List.take_prefix_take_left h).filterMap _)

theorem sendsK_len_ge (prog : Prog) (ρ : Nat → Nat → Nat) (k kb : Nat) {pc : Nat} (h : (prog.getD k []).length ≤ pc) :
    sendsK prog ρ k pc kb = sendsK prog ρ k (prog.getD k []).length kb := by
  unfold sendsK
  rw [List.take_of_length_le h, List.take_of_length_le (Nat.le_refl _)]

/-! ### what a time slice sends -/

theorem slice_pc (prog : Prog) (now : Nat) (self : Pid) : ∀ (fuel : Nat) (x : Proc),
    x.pc ≤ (slice prog now self fuel x).1.pc ∧
    nspawn ((prog.getD x.fn []).take (slice prog now self fuel x).1.pc) = nspawn ((prog.getD x.fn []).take x.pc)
  | 0, x => ⟨Nat.le_refl _, rfl⟩
  | fuel + 1, x => by
    unfold slice
    split
    · exact ⟨Nat.le_refl _, rfl⟩
    · rename_i r tag seq hs
      have hs' : (prog.getD x.fn [])[x.pc]? = some (.send r tag seq) := hs
      refine ⟨Nat.le_succ _, ?_⟩
      show nspawn ((prog.getD x.fn []).take (x.pc + 1)) = _
      rw [nspawn_take_succ hs']; simp [isSpawnAct]
    · split <;> exact ⟨Nat.le_refl _, rfl⟩
    · exact ⟨Nat.le_refl _, rfl⟩
    · rename_i srcs hs
      have hs' : (prog.getD x.fn [])[x.pc]? = some (.select srcs) := hs
      have hnsp : nspawn ((prog.getD x.fn []).take (x.pc + 1)) = nspawn ((prog.getD x.fn []).take x.pc) := by
        rw [nspawn_take_succ hs']; simp [isSpawnAct]
      split
      · dsimp only
        split
        · exact slice_pc prog now self fuel { x with selInit := true, selStart := some now }
        · exact ⟨Nat.le_refl _, rfl⟩
      · split
        · exact ⟨Nat.le_refl _, rfl⟩
        · dsimp only
          split
          · rename_i v mb _
            have ih := slice_pc prog now self fuel
              { x with selStart := none, pc := x.pc + 1, selInit := false, acc := x.acc ++ [v], mailbox := mb, unanswered := [],
                       awaiting := x.awaiting.filter (fun kv => kv.1 ∉ selTargets x srcs),
                       awaitFailed := x.awaitFailed.filter (· ∉ selTargets x srcs) }
            exact ⟨Nat.le_trans (Nat.le_succ _) ih.1, ih.2.trans hnsp⟩
          · exact ⟨Nat.le_refl _, rfl⟩
          · exact ⟨Nat.le_refl _, rfl⟩

def OutSend (prog : Prog) (ρ : Nat → Nat → Nat) (self : Pid) (x : Proc) (r : Proc × Outcome) : Prop :=
  match r.2 with
  | .send t m => ∃ rr, t = x.reg rr ∧ m.src = self ∧ 1 ≤ r.1.pc ∧
      (prog.getD x.fn [])[r.1.pc - 1]? = some (.send rr m.tag m.seq) ∧
      ∀ kb, sendsK prog ρ x.fn r.1.pc kb = sendsK prog ρ x.fn x.pc kb ++ (if ρ x.fn rr = kb then [m.key] else [])
  | _ => ∀ kb, sendsK prog ρ x.fn r.1.pc kb = sendsK prog ρ x.fn x.pc kb

theorem slice_sends (prog : Prog) (ρ : Nat → Nat → Nat) (now : Nat) (self : Pid) :
    ∀ (fuel : Nat) (x : Proc), (slice prog now self fuel x).1.regs = x.regs ∧ OutSend prog ρ self x (slice prog now self fuel x)
  | 0, x => ⟨rfl, fun _ => rfl⟩
  | fuel + 1, x => by
    unfold slice
    split
    · exact ⟨rfl, fun _ => rfl⟩
    · rename_i r tag seq hs
      have hs' : (prog.getD x.fn [])[x.pc]? = some (.send r tag seq) := hs
      refine ⟨rfl, r, rfl, rfl, Nat.le_add_left _ _, ?_, ?_⟩
      · simpa using hs'
      · intro kb
        show sendsK prog ρ x.fn (x.pc + 1) kb = _
        rw [sendsK_succ hs']
        simp only [isSendTo, Msg.key]
        split <;> rfl
    · split
      · exact ⟨rfl, fun _ => rfl⟩
      · exact ⟨rfl, fun _ => rfl⟩
    · exact ⟨rfl, fun _ => rfl⟩
    · rename_i srcs hs
      have hs' : (prog.getD x.fn [])[x.pc]? = some (.select srcs) := hs
      have hstep : ∀ kb, sendsK prog ρ x.fn (x.pc + 1) kb = sendsK prog ρ x.fn x.pc kb := by
        intro kb; rw [sendsK_succ hs']; simp [isSendTo]
      split
      · dsimp only
        split
        · have ih := slice_sends prog ρ now self fuel { x with selInit := true, selStart := some now }
          exact ih
        · exact ⟨rfl, fun _ => rfl⟩
      · split
        · exact ⟨rfl, fun _ => rfl⟩
        · dsimp only
          split
          · rename_i v mb _
            have ih := slice_sends prog ρ now self fuel
              { x with selStart := none, pc := x.pc + 1, selInit := false, acc := x.acc ++ [v], mailbox := mb, unanswered := [],
                       awaiting := x.awaiting.filter (fun kv => kv.1 ∉ selTargets x srcs),
                       awaitFailed := x.awaitFailed.filter (· ∉ selTargets x srcs) }
            refine ⟨ih.1, ?_⟩
            have h2 := ih.2
            unfold OutSend at h2 ⊢
            split
            · rename_i t m heq
              rw [heq] at h2
              obtain ⟨rr, h3, h4, h5, h6, h7⟩ := h2
              exact ⟨rr, h3, h4, h5, h6, fun kb => by rw [h7 kb]; show sendsK prog ρ x.fn (x.pc + 1) kb ++ _ = _; rw [hstep kb]⟩
            · rename_i hne
              split at h2
              · rename_i t m heq; exact absurd heq (hne t m)
              · intro kb; rw [h2 kb]; exact hstep kb
          · exact ⟨rfl, fun _ => rfl⟩
          · exact ⟨rfl, fun _ => rfl⟩

/-! ### a pid has one script; scripts persist -/

theorem filterMap_nodup_inj {α β : Type} (g : α → Option β) : ∀ (l : List α), (l.filterMap g).Nodup →
    ∀ a b y, a ∈ l → b ∈ l → g a = some y → g b = some y → a = b
  | [], _, a, _, _, ha, _, _, _ => by cases ha
  | x :: l, hn, a, b, y, ha, hb, ga, gb => by
    cases hx : g x with
    | none =>
      simp only [List.filterMap_cons, hx] at hn
      rcases List.mem_cons.mp ha with rfl | ha'
      · rw [hx] at ga; cases ga
      · rcases List.mem_cons.mp hb with rfl | hb'
        · rw [hx] at gb; cases gb
        · exact filterMap_nodup_inj g l hn a b y ha' hb' ga gb
    | some z =>
      simp only [List.filterMap_cons, hx, List.nodup_cons] at hn
      rcases List.mem_cons.mp ha with rfl | ha'
      · rcases List.mem_cons.mp hb with rfl | hb'
        · rfl
        · exfalso; apply hn.1
          rw [hx] at ga; simp only [Option.some.injEq] at ga; subst ga
          exact List.mem_filterMap.mpr ⟨b, hb', gb⟩
      · rcases List.mem_cons.mp hb with rfl | hb'
        · exfalso; apply hn.1
          rw [hx] at gb; simp only [Option.some.injEq] at gb; subst gb
          exact List.mem_filterMap.mpr ⟨a, ha', ga⟩
        · exact filterMap_nodup_inj g l hn.2 a b y ha' hb' ga gb

theorem Sid.functional {s : Sys} (hs : SInv s) {q : Pid} {f f' : Nat} (h : Sid s q f) (h' : Sid s q f') : f = f' := by
  rcases h with ⟨w, y, hy, hf⟩ | ⟨w, regs, hm⟩
  · exact hf.symm.trans (h'.proc_fn hs hy)
  · rcases h' with ⟨w', y', hy', hf'⟩ | ⟨w', regs', hm'⟩
    · exact ((Sid.proc_fn hs (Or.inr ⟨w, regs, hm⟩) hy').symm.trans hf').symm ▸ rfl
    · have r1 : s.env.router q = some w := (hs.r.cmds w _ hm).1
      have r2 : s.env.router q = some w' := (hs.r.cmds w' _ hm').1
      rw [r1] at r2; simp only [Option.some.injEq] at r2; subst r2
      have := filterMap_nodup_inj cmdCreate (s.cmdQ w) (hs.fresh w).1 _ _ q hm hm' rfl rfl
      simp only [Cmd.spawn.injEq] at this
      exact this.2.1

theorem sid_mono_micro {s : Sys} (hs : SInv s) (m : Micro) : ∀ q f, Sid s q f → Sid (microStep Rules.current s m) q f := by
  apply Sid.mono (fun w q y hy => fnKeep_micro hs m w q y hy)
  intro w q f regs hm
  cases m with
  | env w0 => exact Or.inl ((envStep1_cmdSpec Rules.current.combine hs.r w0).2.1 w _ hm)
  | tick ms => exact Or.inl hm
  | check i ordE => exact Or.inl (by show _ ∈ (QM.Sys.checkStep s i ordE).cmdQ w; rw [(CheckRel.checkStep s i ordE).cmdQ]; exact hm)
  | exec i fuel ordQ => exact Or.inl (by show _ ∈ (QM.Sys.execStep s i fuel ordQ).cmdQ w; rw [(execStep_frame s i fuel ordQ).1]; exact hm)
  | cmd i =>
    show _ ∈ (cmdStep1With Rules.current s i).cmdQ w ∨ ∃ w' y, ((cmdStep1With Rules.current s i).wk w').procs q = some y ∧ y.fn = f
    unfold cmdStep1With
    split
    · exact Or.inl hm
    · rename_i c rest hq
      have hcq := (handleCmd_frame Rules.current { s with cmdQ := upd s.cmdQ i rest } i c).1
      by_cases e : w = i
      · subst e
        rw [hq] at hm
        rcases List.mem_cons.mp hm with h1 | h1
        · subst h1
          have hok := hs.r.cmds w _ (show Cmd.spawn q f regs ∈ s.cmdQ w by rw [hq]; simp)
          refine Or.inr ⟨w, Proc.fresh f (q :: regs), ?_, rfl⟩
          simp [handleCmdWith, Nat.not_le.mpr hok.2.1, WorkerSt.setProc]
        · exact Or.inl (by rw [hcq]; simp [h1])
      · exact Or.inl (by rw [hcq]; simp [upd_apply, e, hm])

/-- no script is run (or about to be run) by two pids -/
def Uniq (s : Sys) : Prop := ∀ q q' f, Sid s q f → Sid s q' f → q = q'

theorem Uniq.back {s : Sys} (hs : SInv s) (m : Micro) (h : Uniq (microStep Rules.current s m)) : Uniq s :=
  fun q q' f h1 h2 => h q q' f (sid_mono_micro hs m q f h1) (sid_mono_micro hs m q' f h2)

/-! ### backward descriptions of the worker steps: script and position -/

/-- every process of `w'` was there with the same script and position -/
def PcBack (w w' : WorkerSt) : Prop := ∀ p x', w'.procs p = some x' → ∃ x, w.procs p = some x ∧ x'.fn = x.fn ∧ x'.pc = x.pc

theorem PcBack.refl (w : WorkerSt) : PcBack w w := fun _ x h => ⟨x, h, rfl, rfl⟩
theorem PcBack.trans {a b c : WorkerSt} (h1 : PcBack a b) (h2 : PcBack b c) : PcBack a c := by
  intro p z hz
  obtain ⟨y, hy, e1, e2⟩ := h2 p z hz
  obtain ⟨x, hx, e3, e4⟩ := h1 p y hy
  exact ⟨x, hx, e1.trans e3, e2.trans e4⟩
theorem PcBack.of_procs {w w' : WorkerSt} (h : w'.procs = w.procs) : PcBack w w' := fun p x hx => ⟨x, by rw [← h]; exact hx, rfl, rfl⟩

theorem PcBack.updProc {w w' : WorkerSt} {q : Pid} {y y' : Proc} (hp : w'.procs = upd w.procs q (some y'))
    (hy : w.procs q = some y) (e1 : y'.fn = y.fn) (e2 : y'.pc = y.pc) : PcBack w w' := by
  intro p x' hx'
  rw [hp] at hx'
  by_cases e : p = q
  · subst e; simp only [upd_same, Option.some.injEq] at hx'; subst hx'; exact ⟨y, hy, e1, e2⟩
  · simp only [upd_apply, e, if_false] at hx'; exact ⟨x', hx', rfl, rfl⟩

theorem PcBack.modProc (w : WorkerSt) (q : Pid) (f : Proc → Proc) (hf : ∀ y, (f y).fn = y.fn ∧ (f y).pc = y.pc) :
    PcBack w (w.modProc q f) := by
  unfold WorkerSt.modProc
  split
  · rename_i y hy; exact PcBack.updProc (q := q) (y := y) (y' := f y) rfl hy (hf y).1 (hf y).2
  · exact PcBack.refl _

theorem PcBack.release (w : WorkerSt) (cur : Pid) : PcBack w (w.release cur) := by
  unfold WorkerSt.release; split
  · exact PcBack.modProc w cur _ (fun y => by unfold Proc.releaseDead; split <;> exact ⟨rfl, rfl⟩)
  · exact PcBack.refl w

theorem PcBack.wakeSelecting (w : WorkerSt) (q : Pid) : PcBack w (w.wakeSelecting q) :=
  PcBack.of_procs (by unfold WorkerSt.wakeSelecting; split <;> rfl)

theorem PcBack.notifyResult (w : WorkerSt) (a t : Pid) (r : Res) : PcBack w (w.notifyResult a t r) := by
  cases r with
  | ok v =>
    show PcBack w (w.notifyResultOk a t v)
    unfold WorkerSt.notifyResultOk
    exact (PcBack.modProc w a _ (fun y => by split <;> exact ⟨rfl, rfl⟩)).trans (PcBack.wakeSelecting _ a)
  | err =>
    show PcBack w (w.notifyFailure a t)
    unfold WorkerSt.notifyFailure
    split
    · split
      · refine (PcBack.modProc w a _ ?_).trans (PcBack.wakeSelecting _ a)
        intro y; exact ⟨rfl, rfl⟩
      · exact PcBack.refl _
    · exact PcBack.refl _

theorem PcBack.applyResults (a : Pid) : ∀ (rs : Results) (w : WorkerSt), PcBack w (applyResults w a rs)
  | [], w => PcBack.refl w
  | (t0, some r) :: rest, w => by
    unfold QM.Sys.applyResults; exact (PcBack.notifyResult w a t0 r).trans (PcBack.applyResults a rest _)
  | (t0, none) :: rest, w => by
    unfold QM.Sys.applyResults
    refine (?_ : PcBack w (w.notifyPending a t0)).trans (PcBack.applyResults a rest _)
    unfold WorkerSt.notifyPending
    exact PcBack.modProc w a _ (fun y => ⟨rfl, rfl⟩)

theorem PcBack.foldl {α : Type} (f : WorkerSt → α → WorkerSt) (hf : ∀ w a, PcBack w (f w a)) :
    ∀ (l : List α) (w : WorkerSt), PcBack w (l.foldl f w)
  | [], w => PcBack.refl w
  | a :: l, w => (hf w a).trans (PcBack.foldl f hf l (f w a))

theorem PcBack.finish (w : WorkerSt) (cur : Pid) (x y : Proc) (ordQ : List Pid) (hy : w.procs cur = some y)
    (e1 : x.fn = y.fn) (e2 : x.pc = y.pc) : PcBack w (w.finish cur x ordQ) := by
  unfold WorkerSt.finish
  dsimp only
  refine (PcBack.updProc (w' := { w with procs := upd w.procs cur (some { x with result := some x.finalRes }) })
    (q := cur) (y := y) (y' := { x with result := some x.finalRes }) rfl hy e1 e2).trans ?_
  exact (PcBack.foldl _ (fun w' a => PcBack.notifyResult w' a cur _) _ _).trans (PcBack.release _ cur)

/-- what a command does to scripts and positions of worker `i` -/
theorem cmd_back {s : Sys} (i : Wid) (c : Cmd) (hok : ∀ p fn, c ≠ .resume p fn) (hst : ∀ p, c ≠ .start p) :
    ∀ p x', ((handleCmdWith Rules.current s i c).wk i).procs p = some x' →
      (∃ x, (s.wk i).procs p = some x ∧ x'.fn = x.fn ∧ x'.pc = x.pc) ∨
      (∃ x q, c = .notifySpawn p q ∧ (s.wk i).procs p = some x ∧ x'.fn = x.fn ∧ x'.pc = x.pc + 1) ∨
      (∃ f regs, c = .spawn p f regs ∧ x'.fn = f ∧ x'.pc = 0) := by
  have lift : ∀ {w' : WorkerSt}, PcBack (s.wk i) w' → ∀ p x', w'.procs p = some x' →
      (∃ x, (s.wk i).procs p = some x ∧ x'.fn = x.fn ∧ x'.pc = x.pc) ∨
      (∃ x q, c = .notifySpawn p q ∧ (s.wk i).procs p = some x ∧ x'.fn = x.fn ∧ x'.pc = x.pc + 1) ∨
      (∃ f regs, c = .spawn p f regs ∧ x'.fn = f ∧ x'.pc = 0) := fun h p x' hx' => Or.inl (h p x' hx')
  cases c with
  | misc => exact lift (PcBack.refl _)
  | start p => exact absurd rfl (hst p)
  | resume p fn => exact absurd rfl (hok p fn)
  | spawn q fn regs =>
    simp only [handleCmdWith]
    split
    · exact lift (PcBack.refl _)
    · intro p x' hx'
      simp only [setWk_wk, upd_same, WorkerSt.setProc] at hx'
      by_cases e : p = q
      · subst e
        simp only [upd_same, Option.some.injEq] at hx'; subst hx'
        exact Or.inr (Or.inr ⟨fn, regs, rfl, rfl, rfl⟩)
      · simp only [upd_apply, e, if_false] at hx'
        exact Or.inl ⟨x', hx', rfl, rfl⟩
  | notifySpawn caller newPid =>
    cases hx : (s.wk i).procs caller with
    | none => simp only [handleCmdWith, hx, setWk_wk, upd_same]; exact lift (PcBack.of_procs rfl)
    | some x =>
      intro p x' hx'
      have hp : ((handleCmdWith Rules.current s i (.notifySpawn caller newPid)).wk i).procs =
          upd (s.wk i).procs caller (some { x with regs := x.regs ++ [newPid], pc := x.pc + 1, spawnIssued := false }) := by
        simp only [handleCmdWith, hx]
        split <;> simp
      rw [hp] at hx'
      by_cases e : p = caller
      · subst e
        simp only [upd_same, Option.some.injEq] at hx'; subst hx'
        exact Or.inr (Or.inl ⟨x, newPid, rfl, hx, rfl, rfl⟩)
      · simp only [upd_apply, e, if_false] at hx'
        exact Or.inl ⟨x', hx', rfl, rfl⟩
  | deliver t m =>
    cases hx : (s.wk i).procs t with
    | none => simp only [handleCmdWith, hx, setWk_wk, upd_same]; exact lift (PcBack.wakeSelecting _ t)
    | some x =>
      by_cases hd : (Cfg.releaseDead && !x.deliverable) = true
      · simp only [handleCmdWith, hx, hd, if_true, setWk_wk, upd_same]; exact lift (PcBack.wakeSelecting _ t)
      simp only [handleCmdWith, hx, hd, Bool.false_eq_true, if_false, setWk_wk, upd_same]
      exact lift ((PcBack.updProc (q := t) (y := x) (y' := { x with mailbox := x.mailbox ++ [m] })
        (w' := { s.wk i with procs := upd (s.wk i).procs t (some { x with mailbox := x.mailbox ++ [m] }) }) rfl hx rfl rfl).trans
        (PcBack.wakeSelecting _ t))
  | queryAwait a ts =>
    simp only [handleCmdWith, pushEvt_wk, setWk_wk, upd_same]
    exact lift (PcBack.of_procs (queryTargets_spec a ts (s.wk i)).1)
  | updateAwait a rs =>
    simp only [handleCmdWith, Rules.current, Bool.false_and, Bool.false_eq_true, if_false, setWk_wk, upd_same]
    exact lift ((PcBack.applyResults a rs _).trans (PcBack.wakeSelecting _ a))
  | getResult req p =>
    simp only [handleCmdWith]
    repeat' split
    all_goals first
      | exact lift (PcBack.refl _)
      | (simp only [noteExit_wk, setWk_wk, upd_same]; exact lift (PcBack.of_procs rfl))

theorem handleCmd_sent (R : Rules) (s : Sys) (i : Wid) (c : Cmd) : (handleCmdWith R s i c).sent = s.sent := by
  cases c <;> simp only [handleCmdWith] <;> (repeat' split) <;> rfl

theorem envStep1_sent (combine) (s : Sys) (w : Wid) : (envStep1With combine s w).sent = s.sent := by
  unfold envStep1With
  split
  · rfl
  · rename_i e rest _
    cases e with
    | spawn c fn regs coloc => simp only [handleEventWith, handleSpawn]; split <;> rfl
    | deliver t m => simp only [handleEventWith, handleDeliver]; split <;> rfl
    | await a ts =>
      simp only [handleEventWith, handleAwait]
      split
      · rfl
      · have : ∀ (l : List Wid) (s0 : Sys) (g : Wid → Cmd), (l.foldl (fun acc w => acc.pushCmd w (g w)) s0).sent = s0.sent := by
          intro l
          induction l with
          | nil => intro s0 g; rfl
          | cons a l ih => intro s0 g; simp only [List.foldl_cons]; rw [ih]; rfl
        exact this _ _ _
    | procResults a rs =>
      simp only [handleEventWith, handleProcResultsWith]
      repeat' split
      all_goals rfl
    | resultResp req r => rfl
    | exited p => rfl

theorem checkStep_sent (s : Sys) (i : Wid) (ordE : List Pid) : (QM.Sys.checkStep s i ordE).sent = s.sent := by
  have hrep : ∀ (a : Sys) (t : Pid), (reportTarget a i t).sent = a.sent := by
    intro a t
    unfold reportTarget
    dsimp only
    split
    · rfl
    · rename_i r _
      have : ∀ (l : List Pid) (a0 : Sys), (l.foldl (fun acc a' =>
          ({ acc.pushEvt i (.procResults a' [(t, some r)]) with reported := acc.reported ++ [(a', t)] } : Sys)) a0).sent = a0.sent := by
        intro l; induction l with
        | nil => intro a0; rfl
        | cons y l ih => intro a0; simp only [List.foldl_cons]; rw [ih]; rfl
      exact this _ _
  have hans : ∀ (a : Sys) (p : Pid), (answerRequests a i p).sent = a.sent := by
    intro a p
    unfold answerRequests
    dsimp only
    split
    · rfl
    · rename_i r _
      have : ∀ (l : List Nat) (a0 : Sys), (l.foldl (fun acc req => acc.pushEvt i (.resultResp req r)) a0).sent = a0.sent := by
        intro l; induction l with
        | nil => intro a0; rfl
        | cons y l ih => intro a0; simp only [List.foldl_cons]; rw [ih]; rfl
      exact this _ _
  unfold QM.Sys.checkStep
  dsimp only
  have h1 : ∀ (l : List Pid) (a : Sys), (l.foldl (fun acc t => reportTarget acc i t) a).sent = a.sent := by
    intro l; induction l with
    | nil => intro a; rfl
    | cons t l ih => intro a; simp only [List.foldl_cons]; rw [ih, hrep]
  have h2 : ∀ (l : List Pid) (a : Sys), (l.foldl (fun acc p => answerRequests acc i p) a).sent = a.sent := by
    intro l; induction l with
    | nil => intro a; rfl
    | cons t l ih => intro a; simp only [List.foldl_cons]; rw [ih, hans]
  rw [h2, h1]

/-- what an executor step does to positions, static send sequences and the ghost `sent` -/
def ExecSends (ρ : Nat → Nat → Nat) (s s' : Sys) (i : Wid) : Prop :=
  ∃ news : List (Pid × Msg), s'.sent = s.sent ++ news ∧
    (∀ tm ∈ news, ∃ x rr pc', (s.wk i).procs tm.2.src = some x ∧ tm.1 = x.reg rr ∧ 1 ≤ pc' ∧
      nspawn ((s.prog.getD x.fn []).take pc') = nspawn ((s.prog.getD x.fn []).take x.pc) ∧
      (s.prog.getD x.fn [])[pc' - 1]? = some (.send rr tm.2.tag tm.2.seq)) ∧
    ∀ p x', (s'.wk i).procs p = some x' → ∃ x, (s.wk i).procs p = some x ∧ x'.fn = x.fn ∧
      ((x'.pc = x.pc ∧ ∀ tm ∈ news, tm.2.src ≠ p) ∨
       (x.pc ≤ x'.pc ∧ nspawn ((s.prog.getD x.fn []).take x'.pc) = nspawn ((s.prog.getD x.fn []).take x.pc) ∧
         ((news = [] ∧ ∀ kb, sendsK s.prog ρ x.fn x'.pc kb = sendsK s.prog ρ x.fn x.pc kb) ∨
          (∃ t m rr, news = [(t, m)] ∧ m.src = p ∧ t = x.reg rr ∧ 1 ≤ x'.pc ∧
             (s.prog.getD x.fn [])[x'.pc - 1]? = some (.send rr m.tag m.seq) ∧
             ∀ kb, sendsK s.prog ρ x.fn x'.pc kb = sendsK s.prog ρ x.fn x.pc kb ++ (if ρ x.fn rr = kb then [m.key] else [])))))

theorem execSends_of_back {ρ : Nat → Nat → Nat} {s s' : Sys} {i : Wid} (hs : s'.sent = s.sent) (h : PcBack (s.wk i) (s'.wk i)) :
    ExecSends ρ s s' i := by
  refine ⟨[], by rw [hs]; simp, ⟨fun _ h => (List.not_mem_nil h).elim, ?_⟩⟩
  intro p x' hx'
  obtain ⟨x, hx, e1, e2⟩ := h p x' hx'
  exact ⟨x, hx, e1, Or.inl ⟨e2, fun _ h => (List.not_mem_nil h).elim⟩⟩

theorem exec_sends (ρ : Nat → Nat → Nat) (s : Sys) (i : Wid) (fuel : Nat) (ordQ : List Pid) :
    ExecSends ρ s (QM.Sys.execStep s i fuel ordQ) i := by
  unfold QM.Sys.execStep
  dsimp only
  have hp0 : ((s.wk i).checkExpired s.prog s.now ordQ).procs = (s.wk i).procs := rfl
  generalize (s.wk i).checkExpired s.prog s.now ordQ = w0 at hp0 ⊢
  have h0 : PcBack (s.wk i) w0 := PcBack.of_procs hp0
  split
  · exact execSends_of_back rfl (by simp only [noteExit_wk, setWk_wk, upd_same]; exact h0)
  · rename_i cur rest _
    have h1 : PcBack (s.wk i) { w0 with queue := rest } := h0.trans (PcBack.of_procs rfl)
    split
    · exact execSends_of_back rfl (by simp only [noteExit_wk, setWk_wk, upd_same]; exact h1)
    · rename_i x hx
      have hxs : (s.wk i).procs cur = some x := by rw [← hp0]; exact hx
      split
      · exact execSends_of_back (by simp) (by
          simp only [noteExit_wk, setWk_wk, upd_same]
          exact h1.trans (PcBack.finish _ cur x x ordQ hx rfl rfl))
      · have hsl := slice_sends s.prog ρ s.now cur fuel x
        have hpc := slice_pc s.prog s.now cur fuel x
        have hfn := slice_fn s.prog s.now cur fuel x
        generalize slice s.prog s.now cur fuel x = r at hsl hpc hfn
        obtain ⟨x', out⟩ := r
        dsimp only at hsl hpc hfn ⊢
        obtain ⟨hregs, hout⟩ := hsl
        -- the generic shape: `cur` becomes a process with the script and position of `x'`, the others stay
        have key : ∀ (s' : Sys) (news : List (Pid × Msg)), s'.sent = s.sent ++ news →
            PcBack { w0 with queue := rest, procs := upd w0.procs cur (some x') } (s'.wk i) →
            (∀ tm ∈ news, tm.2.src = cur) →
            ((news = [] ∧ ∀ kb, sendsK s.prog ρ x.fn x'.pc kb = sendsK s.prog ρ x.fn x.pc kb) ∨
              (∃ t m rr, news = [(t, m)] ∧ m.src = cur ∧ t = x.reg rr ∧ 1 ≤ x'.pc ∧
                (s.prog.getD x.fn [])[x'.pc - 1]? = some (.send rr m.tag m.seq) ∧
                ∀ kb, sendsK s.prog ρ x.fn x'.pc kb = sendsK s.prog ρ x.fn x.pc kb ++ (if ρ x.fn rr = kb then [m.key] else []))) →
            ExecSends ρ s s' i := by
          intro s' news hsent hback hsrc hk
          refine ⟨news, hsent, ?_, ?_⟩
          · intro tm htm
            rcases hk with ⟨e, _⟩ | ⟨t, m, rr, e, h4, h3, h5, h6, _⟩
            · rw [e] at htm; cases htm
            · rw [e] at htm; simp only [List.mem_singleton] at htm; subst htm
              exact ⟨x, rr, x'.pc, by rw [h4]; exact hxs, h3, h5, hpc.2, h6⟩
          intro p y' hy'
          obtain ⟨y, hy, g1, g2⟩ := hback p y' hy'
          by_cases e : p = cur
          · subst e
            simp only [upd_same, Option.some.injEq] at hy; subst hy
            refine ⟨x, hxs, g1.trans hfn, Or.inr ⟨by rw [g2]; exact hpc.1, by rw [g2]; exact hpc.2, ?_⟩⟩
            rw [g2]; exact hk
          · simp only [upd_apply, e, if_false] at hy
            refine ⟨y, by rw [← hp0]; exact hy, g1, Or.inl ⟨g2, ?_⟩⟩
            intro tm htm; rw [hsrc tm htm]; exact Ne.symm e
        have knone : (∀ t m, out ≠ .send t m) → ∀ kb, sendsK s.prog ρ x.fn x'.pc kb = sendsK s.prog ρ x.fn x.pc kb := by
          intro hne
          unfold OutSend at hout
          split at hout
          · rename_i t m heq; exact absurd heq (hne t m)
          · exact hout
        cases out with
        | cont => exact key _ [] (by simp) (by simp only [noteExit_wk, setWk_wk, upd_same]; exact PcBack.of_procs rfl) (by simp) (Or.inl ⟨rfl, knone (by simp)⟩)
        | blocked => exact key _ [] (by simp) (by simp only [noteExit_wk, setWk_wk, upd_same]; exact PcBack.of_procs rfl) (by simp) (Or.inl ⟨rfl, knone (by simp)⟩)
        | spawn f regs => exact key _ [] (by simp [Sys.pushEvt, Sys.setWk]) (by simp only [pushEvt_wk, setWk_wk, upd_same]; exact PcBack.of_procs rfl) (by simp) (Or.inl ⟨rfl, knone (by simp)⟩)
        | awaitInit ts => exact key _ [] (by simp [Sys.pushEvt, Sys.setWk]) (by simp only [pushEvt_wk, setWk_wk, upd_same]; exact PcBack.of_procs rfl) (by simp) (Or.inl ⟨rfl, knone (by simp)⟩)
        | failed =>
          exact key _ [] (by simp [Sys.setWk]) (by
            simp only [noteExit_wk, setWk_wk, upd_same]
            exact PcBack.finish _ cur x' x' ordQ (by simp) rfl rfl) (by simp) (Or.inl ⟨rfl, knone (by simp)⟩)
        | done =>
          exact key _ [] (by simp [Sys.setWk]) (by
            simp only [noteExit_wk, setWk_wk, upd_same]
            exact PcBack.finish _ cur x' x' ordQ (by simp) rfl rfl) (by simp) (Or.inl ⟨rfl, knone (by simp)⟩)
        | send t m =>
          unfold OutSend at hout
          dsimp only at hout
          obtain ⟨rr, h3, h4, h5, h6, h7⟩ := hout
          exact key _ [(t, m)] rfl (by simp only [pushEvt_wk, setWk_wk, upd_same]; exact PcBack.of_procs rfl)
            (by intro tm htm; simp only [List.mem_singleton] at htm; subst htm; exact h4)
            (Or.inr ⟨t, m, rr, rfl, h4, h3, h5, h6, h7⟩)

/-! ### the send invariants -/

/-- every logged send was made by a process whose script is THE sender of the target's script -/
def M0 (snd : Nat → Nat) (s : Sys) : Prop :=
  ∀ tm ∈ s.sent, ∃ wa xa, (s.wk wa).procs tm.2.src = some xa ∧ ∃ kb, Sid s tm.1 kb ∧ snd kb = xa.fn

/-- what process `a` has sent to pid `b` so far is what its script sends, up to its position, to the
script of `b` -/
def M1 (ρ : Nat → Nat → Nat) (s : Sys) : Prop :=
  ∀ wa a xa, (s.wk wa).procs a = some xa → ∀ b kb, Sid s b kb →
    (sel a b s.sent).map Msg.key = sendsK s.prog ρ xa.fn xa.pc kb

theorem Sid.routed {s : Sys} (hs : SInv s) {q : Pid} {f : Nat} (h : Sid s q f) : ∃ w, s.env.router q = some w := by
  rcases h with ⟨w, y, hy, _⟩ | ⟨w, regs, hm⟩
  · exact ⟨w, hs.r.placed w q (by simp [known, hy])⟩
  · exact ⟨w, (hs.r.cmds w _ hm).1⟩

theorem sel_eq_nil_of {a b : Pid} {l : List (Pid × Msg)} (h : ∀ tm ∈ l, ¬ (tm.1 = b ∧ tm.2.src = a)) : sel a b l = [] := by
  unfold sel
  rw [List.filterMap_eq_nil_iff]
  intro tm htm
  simp [h tm htm]

theorem never_target {snd : Nat → Nat} {s : Sys} (hs : SInv s) (m0 : M0 snd s) {b : Pid} (hb : s.env.router b = none) (a : Pid) :
    sel a b s.sent = [] := by
  apply sel_eq_nil_of
  rintro tm htm ⟨e, _⟩
  obtain ⟨_, _, _, kb, hsid, _⟩ := m0 tm htm
  rw [e] at hsid
  obtain ⟨w, hw⟩ := hsid.routed hs
  rw [hb] at hw; cases hw

theorem never_source {snd : Nat → Nat} {s : Sys} (m0 : M0 snd s) {a : Pid} (ha : ∀ w, (s.wk w).procs a = none) (b : Pid) :
    sel a b s.sent = [] := by
  apply sel_eq_nil_of
  rintro tm htm ⟨_, e⟩
  obtain ⟨wa, xa, hxa, _⟩ := m0 tm htm
  rw [e, ha wa] at hxa; cases hxa

theorem base_mono (prog : Prog) (ar : Nat → Nat) (k : Nat) {j pc : Nat} (h : j ≤ pc) : base prog ar k j ≤ base prog ar k pc := by
  unfold base nspawn
  have : ((prog.getD k []).take j).Sublist ((prog.getD k []).take pc) := (List.take_prefix_take_left h).sublist
  have := this.countP_le (p := isSpawnAct)
  omega

/-- a process has not yet sent anything to a script none of whose pids existed so far -/
theorem no_earlier_sends {ρ : Nat → Nat → Nat} {ar : Nat → Nat} {σ : Nat → List (Nat × Nat)} {snd : Nat → Nat} {s s' : Sys}
    (hk : KInv ρ ar σ s) (htab : SingleSenderTable s.prog ρ ar snd) (hu' : Uniq s') (hsm : ∀ q f, Sid s q f → Sid s' q f)
    {b : Pid} {kb : Nat} (hb : s.env.router b = none) (hsb : Sid s' b kb)
    {wa : Wid} {a : Pid} {xa : Proc} (hxa : (s.wk wa).procs a = some xa) :
    sendsK s.prog ρ xa.fn xa.pc kb = [] := by
  have hpa := hk.procs wa a xa hxa
  unfold sendsK
  rw [List.filterMap_eq_nil_iff]
  intro act hact
  obtain ⟨j, hj, hget⟩ := List.getElem_of_mem hact
  have hjlt : j < xa.pc := by
    have := hj; simp only [List.length_take] at this; omega
  have hget' : (s.prog.getD xa.fn [])[j]? = some act := by
    rw [List.getElem_take] at hget
    rw [← hget]
    exact List.getElem?_eq_getElem _
  cases act with
  | send r tag seq =>
    simp only [isSendTo]
    split
    · rename_i hρ
      exfalso
      obtain ⟨_, hbound⟩ := htab.only _ _ _ _ _ hget'
      have hr : r < xa.regs.length := by
        rw [hpa.rlen]
        exact Nat.lt_of_lt_of_le hbound (base_mono _ _ _ (Nat.le_of_lt hjlt))
      have h1 := hsm _ _ (hpa.rsid r hr)
      rw [hρ] at h1
      have := hu' _ _ _ h1 hsb
      have h2 := hpa.rsid r hr
      rw [this] at h2
      obtain ⟨w, hw⟩ := h2.routed hk.wi.si
      rw [hb] at hw; cases hw
    · rfl
  | spawn f pass => rfl
  | select srcs => rfl
  | fail => rfl

/-- script information of the post-state read back: when no new pid is born -/
theorem Sid.back_of {s s' : Sys}
    (hp : ∀ w p x', (s'.wk w).procs p = some x' → (∃ x, (s.wk w).procs p = some x ∧ x'.fn = x.fn) ∨ Sid s p x'.fn)
    (hc : ∀ w c, c ∈ s'.cmdQ w → c ∈ s.cmdQ w) : ∀ q f, Sid s' q f → Sid s q f := by
  rintro q f (⟨w, y', hy', hf⟩ | ⟨w, regs, hm⟩)
  · rcases hp w q y' hy' with ⟨y, hy, e⟩ | h
    · exact Or.inl ⟨w, y, hy, e.symm.trans hf⟩
    · rw [hf] at h; exact h
  · exact Or.inr ⟨w, regs, hc w _ hm⟩

structure MInv (ρ : Nat → Nat → Nat) (snd : Nat → Nat) (s : Sys) : Prop where
  m0 : M0 snd s
  m1 : M1 ρ s

/-- steps that send nothing -/
theorem MInv.step_nosend {ρ : Nat → Nat → Nat} {ar : Nat → Nat} {σ : Nat → List (Nat × Nat)} {snd : Nat → Nat} {s s' : Sys}
    (hk : KInv ρ ar σ s) (htab : SingleSenderTable s.prog ρ ar snd) (hu' : Uniq s') (hm : MInv ρ snd s)
    (hprog : s'.prog = s.prog) (hsent : s'.sent = s.sent)
    (hsm : ∀ q f, Sid s q f → Sid s' q f)
    (hfk : ∀ w p x, (s.wk w).procs p = some x → ∃ x', (s'.wk w).procs p = some x' ∧ x'.fn = x.fn)
    (hback : ∀ w p x', (s'.wk w).procs p = some x' →
       (∃ x, (s.wk w).procs p = some x ∧ x'.fn = x.fn ∧ ∀ kb, sendsK s.prog ρ x'.fn x'.pc kb = sendsK s.prog ρ x.fn x.pc kb) ∨
       ((∀ w0, (s.wk w0).procs p = none) ∧ x'.pc = 0))
    (hsidback : ∀ b kb, Sid s' b kb → Sid s b kb ∨ s.env.router b = none) : MInv ρ snd s' := by
  refine ⟨?_, ?_⟩
  · intro tm htm
    rw [hsent] at htm
    obtain ⟨wa, xa, hxa, kb, hsid, hsnd⟩ := hm.m0 tm htm
    obtain ⟨xa', hxa', hf⟩ := hfk wa _ xa hxa
    exact ⟨wa, xa', hxa', kb, hsm _ _ hsid, by rw [hf]; exact hsnd⟩
  · intro wa a x' hx' b kb hsb
    rw [hsent, hprog]
    rcases hback wa a x' hx' with ⟨x, hx, _, hsk⟩ | ⟨hnone, hpc⟩
    · rw [hsk kb]
      rcases hsidback b kb hsb with h1 | h1
      · exact hm.m1 wa a x hx b kb h1
      · rw [never_target hk.wi.si hm.m0 h1 a, no_earlier_sends hk htab hu' hsm h1 hsb hx]; rfl
    · rw [never_source hm.m0 hnone b, hpc]; simp [sendsK]

theorem MInv.envStep1 {ρ : Nat → Nat → Nat} {ar : Nat → Nat} {σ : Nat → List (Nat × Nat)} {snd : Nat → Nat} {s : Sys}
    (hk : KInv ρ ar σ s) (htab : SingleSenderTable s.prog ρ ar snd) (w0 : Wid)
    (hu' : Uniq (envStep1With Rules.current.combine s w0)) (hm : MInv ρ snd s) :
    MInv ρ snd (envStep1With Rules.current.combine s w0) := by
  have hwk := envStep1_wk Rules.current.combine s w0
  obtain ⟨hprog, hmono, hnew, _⟩ := envStep1_cmdSpec Rules.current.combine hk.wi.si.r w0
  refine hm.step_nosend hk htab hu' hprog (envStep1_sent _ s w0) (sid_mono_micro hk.wi.si (.env w0))
    (fun w p x hx => ⟨x, by rw [hwk]; exact hx, rfl⟩)
    (fun w p x' hx' => Or.inl ⟨x', by rw [hwk] at hx'; exact hx', rfl, fun _ => rfl⟩) ?_
  rintro b kb (⟨w, y, hy, hf⟩ | ⟨w, regs, hmem⟩)
  · exact Or.inl (Or.inl ⟨w, y, by rw [hwk] at hy; exact hy, hf⟩)
  · rcases hnew w _ hmem with h1 | h1 | ⟨c0, f, regs', coloc, rest, hq0, h1 | ⟨h1, _⟩⟩
    · exact Or.inl (Or.inr ⟨w, regs, h1⟩)
    · have := h1.1; simp [cmdCreate] at this
    · simp only [Cmd.spawn.injEq] at h1; obtain ⟨rfl, _, _⟩ := h1
      right
      cases hr : s.env.router s.env.nextPid with
      | none => rfl
      | some w1 => exact absurd (hk.wi.si.r.below _ _ hr) (Nat.lt_irrefl _)
    · cases h1

theorem MInv.checkStep {ρ : Nat → Nat → Nat} {ar : Nat → Nat} {σ : Nat → List (Nat × Nat)} {snd : Nat → Nat} {s : Sys}
    (hk : KInv ρ ar σ s) (htab : SingleSenderTable s.prog ρ ar snd) (i : Wid) (ordE : List Pid)
    (hu' : Uniq (QM.Sys.checkStep s i ordE)) (hm : MInv ρ snd s) : MInv ρ snd (QM.Sys.checkStep s i ordE) := by
  have hc := CheckRel.checkStep s i ordE
  have hprocs : ∀ w, ((QM.Sys.checkStep s i ordE).wk w).procs = (s.wk w).procs := by
    intro w
    by_cases e : w = i
    · subst e; exact hc.procs
    · rw [hc.wkOther w e]
  refine hm.step_nosend hk htab hu' (CheckEv.checkStep s i ordE).prog (checkStep_sent s i ordE)
    (sid_mono_micro hk.wi.si (.check i ordE))
    (fun w p x hx => ⟨x, by rw [hprocs]; exact hx, rfl⟩)
    (fun w p x' hx' => Or.inl ⟨x', by rw [hprocs] at hx'; exact hx', rfl, fun _ => rfl⟩) ?_
  intro b kb hsb
  exact Or.inl (Sid.back_of (fun w p x' hx' => Or.inl ⟨x', by rw [hprocs] at hx'; exact hx', rfl⟩)
    (fun w c hcm => by rw [hc.cmdQ] at hcm; exact hcm) b kb hsb)

theorem MInv.cmdStep1 {ρ : Nat → Nat → Nat} {ar : Nat → Nat} {σ : Nat → List (Nat × Nat)} {snd : Nat → Nat} {s : Sys}
    (hk : KInv ρ ar σ s) (htab : SingleSenderTable s.prog ρ ar snd) (i : Wid)
    (hu' : Uniq (cmdStep1With Rules.current s i)) (hm : MInv ρ snd s) : MInv ρ snd (cmdStep1With Rules.current s i) := by
  have hsm := sid_mono_micro hk.wi.si (.cmd i)
  have hfk := fnKeep_micro hk.wi.si (.cmd i)
  change ∀ q f, Sid s q f → Sid (cmdStep1With Rules.current s i) q f at hsm
  change ∀ w, FnKeep (s.wk w) ((cmdStep1With Rules.current s i).wk w) at hfk
  revert hu' hsm hfk
  unfold cmdStep1With
  split
  · intro _ _ _; exact hm
  · rename_i c rest hq
    intro hu' hsm hfk
    have hhead : c ∈ s.cmdQ i := by rw [hq]; simp
    have hok := hk.wi.si.r.cmds i c hhead
    have hf := handleCmd_frame Rules.current { s with cmdQ := upd s.cmdQ i rest } i c
    have hcb := cmd_back (s := { s with cmdQ := upd s.cmdQ i rest }) i c
      (fun p fn e => by subst e; exact hok.elim) (fun p e => by subst e; exact hok.elim)
    obtain ⟨hcq, _, hprog, _, _, hoth⟩ := hf
    have hcq' : ∀ w c', c' ∈ (handleCmdWith Rules.current { s with cmdQ := upd s.cmdQ i rest } i c).cmdQ w → c' ∈ s.cmdQ w := by
      intro w c' hc'; rw [hcq] at hc'; exact mem_upd_tail hq hc'
    -- backward description of all workers
    have hback : ∀ w p x', ((handleCmdWith Rules.current { s with cmdQ := upd s.cmdQ i rest } i c).wk w).procs p = some x' →
        (∃ x, (s.wk w).procs p = some x ∧ x'.fn = x.fn ∧ ∀ kb, sendsK s.prog ρ x'.fn x'.pc kb = sendsK s.prog ρ x.fn x.pc kb) ∨
        ((∀ w0, (s.wk w0).procs p = none) ∧ x'.pc = 0) := by
      intro w p x' hx'
      by_cases e : w = i
      · subst e
        rcases hcb p x' hx' with ⟨x, hx, e1, e2⟩ | ⟨x, q, hc, hx, e1, e2⟩ | ⟨f, regs, hc, e1, e2⟩
        · exact Or.inl ⟨x, hx, e1, fun kb => by rw [e1, e2]⟩
        · subst hc
          obtain ⟨f, pass, hsc, _⟩ := (hk.procs w p x hx).notif q hhead
          refine Or.inl ⟨x, hx, e1, fun kb => ?_⟩
          rw [e1, e2, sendsK_succ hsc]; simp [isSendTo]
        · subst hc
          refine Or.inr ⟨?_, e2⟩
          intro w0
          cases hp : (s.wk w0).procs p with
          | none => rfl
          | some y =>
            exfalso
            have r1 := hk.wi.si.r.placed w0 p (by simp [known, hp])
            have r2 : s.env.router p = some w := hok.1
            rw [r1] at r2; simp only [Option.some.injEq] at r2; subst r2
            exact (hk.wi.si.fresh w0).2 p (mem_creates.mpr ⟨f, regs, hhead⟩) (by simp [known, hp])
      · rw [(hoth w e).1] at hx'
        exact Or.inl ⟨x', hx', rfl, fun _ => rfl⟩
    refine hm.step_nosend hk htab hu' hprog (handleCmd_sent _ _ i c) hsm (fun w p x hx => hfk w p x hx) hback ?_
    intro b kb hsb
    refine Or.inl (Sid.back_of ?_ hcq' b kb hsb)
    intro w p x' hx'
    by_cases e : w = i
    · subst e
      rcases hcb p x' hx' with ⟨x, hx, e1, _⟩ | ⟨x, q, _, hx, e1, _⟩ | ⟨f, regs, hc, e1, _⟩
      · exact Or.inl ⟨x, hx, e1⟩
      · exact Or.inl ⟨x, hx, e1⟩
      · subst hc; rw [e1]; exact Or.inr (Or.inr ⟨w, regs, hhead⟩)
    · rw [(hoth w e).1] at hx'
      exact Or.inl ⟨x', hx', rfl⟩

theorem MInv.execStep {ρ : Nat → Nat → Nat} {ar : Nat → Nat} {σ : Nat → List (Nat × Nat)} {snd : Nat → Nat} {s : Sys}
    (hk : KInv ρ ar σ s) (htab : SingleSenderTable s.prog ρ ar snd) (i : Wid) (fuel : Nat) (ordQ : List Pid)
    (hu' : Uniq (QM.Sys.execStep s i fuel ordQ)) (hm : MInv ρ snd s) : MInv ρ snd (QM.Sys.execStep s i fuel ordQ) := by
  have hsm : ∀ q f, Sid s q f → Sid (QM.Sys.execStep s i fuel ordQ) q f := sid_mono_micro hk.wi.si (.exec i fuel ordQ)
  have hfk : ∀ w, FnKeep (s.wk w) ((QM.Sys.execStep s i fuel ordQ).wk w) := fnKeep_micro hk.wi.si (.exec i fuel ordQ)
  have hu : Uniq s := Uniq.back hk.wi.si (.exec i fuel ordQ) hu'
  obtain ⟨hcmd, _, hprog, _, _, _, hoth⟩ := execStep_frame s i fuel ordQ
  obtain ⟨news, hsent, hnews, hprocs⟩ := exec_sends ρ s i fuel ordQ
  generalize QM.Sys.execStep s i fuel ordQ = s' at *
  -- registers of a sender: the register of a send holds a pid of the script the typing says
  have hreg : ∀ {p : Pid} {x : Proc} {rr pc' tag seq : Nat}, (s.wk i).procs p = some x → 1 ≤ pc' →
      nspawn ((s.prog.getD x.fn []).take pc') = nspawn ((s.prog.getD x.fn []).take x.pc) →
      (s.prog.getD x.fn [])[pc' - 1]? = some (.send rr tag seq) →
      Sid s (x.reg rr) (ρ x.fn rr) ∧ snd (ρ x.fn rr) = x.fn := by
    intro p x rr pc' tag seq hx h1 h2 h3
    have hpx := hk.procs i p x hx
    obtain ⟨t1, t2⟩ := htab.only _ _ _ _ _ h3
    have hr : rr < x.regs.length := by
      rw [hpx.rlen]
      refine Nat.lt_of_lt_of_le t2 ?_
      have := base_mono s.prog ar x.fn (show pc' - 1 ≤ pc' by omega)
      unfold base at this ⊢
      omega
    have : x.reg rr = x.regs[rr] := by simp [Proc.reg, hr]
    rw [this]
    exact ⟨hpx.rsid rr hr, t1⟩
  have hsidback : ∀ b kb, Sid s' b kb → Sid s b kb := by
    apply Sid.back_of
    · intro w p x' hx'
      by_cases e : w = i
      · subst e
        obtain ⟨x, hx, e1, _⟩ := hprocs p x' hx'
        exact Or.inl ⟨x, hx, e1⟩
      · rw [(hoth w e).1] at hx'; exact Or.inl ⟨x', hx', rfl⟩
    · intro w c hc; rw [hcmd] at hc; exact hc
  refine ⟨?_, ?_⟩
  · intro tm htm
    rw [hsent] at htm
    rcases List.mem_append.mp htm with h1 | h1
    · obtain ⟨wa, xa, hxa, kb, hsid, hsnd⟩ := hm.m0 tm h1
      obtain ⟨xa', hxa', hf⟩ := hfk wa _ xa hxa
      exact ⟨wa, xa', hxa', kb, hsm _ _ hsid, by rw [hf]; exact hsnd⟩
    · obtain ⟨x, rr, pc', hx, ht, h5, h6, h7⟩ := hnews tm h1
      obtain ⟨x', hx', hf⟩ := hfk i _ x hx
      obtain ⟨g1, g2⟩ := hreg hx h5 h6 h7
      exact ⟨i, x', hx', ρ x.fn rr, by rw [ht]; exact hsm _ _ g1, by rw [hf]; exact g2⟩
  · intro wa a x' hx' b kb hsb'
    have hsb := hsidback b kb hsb'
    rw [hsent, hprog, sel_append, List.map_append]
    by_cases e : wa = i
    · subst e
      obtain ⟨x, hx, e1, hcase⟩ := hprocs a x' hx'
      rcases hcase with ⟨e2, hsrc⟩ | ⟨_, _, hk2⟩
      · have hnil : sel a b news = [] := sel_eq_nil_of (fun tm htm ⟨_, h2⟩ => hsrc tm htm h2)
        rw [hnil, e1, e2]
        simpa using hm.m1 wa a x hx b kb hsb
      · rcases hk2 with ⟨en, hsk⟩ | ⟨t, m, rr, en, h4, h3, h5, h6, hsk⟩
        · rw [en, e1, hsk kb]; simpa using hm.m1 wa a x hx b kb hsb
        · rw [en, e1, hsk kb, hm.m1 wa a x hx b kb hsb, sel_single]
          congr 1
          have hnsp : nspawn ((s.prog.getD x.fn []).take x'.pc) = nspawn ((s.prog.getD x.fn []).take x.pc) := by
            obtain ⟨y, hy, _, hc2⟩ := hprocs a x' hx'
            rw [hx] at hy; simp only [Option.some.injEq] at hy; subst hy
            rcases hc2 with ⟨e2, hsrc⟩ | ⟨_, h2, _⟩
            · exact absurd h4 (hsrc (t, m) (by rw [en]; simp))
            · exact h2
          obtain ⟨g1, _⟩ := hreg hx h5 hnsp h6
          rw [← h3] at g1
          by_cases hρ : ρ x.fn rr = kb
          · have htb : t = b := hu _ _ _ (hρ ▸ g1) hsb
            simp [hρ, htb, h4]
          · have htb : t ≠ b := by
              intro e; subst e; exact hρ (g1.functional hk.wi.si hsb)
            simp [hρ, htb]
    · have hx : (s.wk wa).procs a = some x' := by rw [← (hoth wa e).1]; exact hx'
      have hnil : sel a b news = [] := by
        apply sel_eq_nil_of
        rintro tm htm ⟨_, h2⟩
        obtain ⟨x, _, _, hxs, _⟩ := hnews tm htm
        rw [h2] at hxs
        have r1 := hk.wi.si.r.placed i a (by simp [known, hxs])
        have r2 := hk.wi.si.r.placed wa a (by simp [known, hx])
        rw [r1] at r2; simp only [Option.some.injEq] at r2; exact e r2.symm
      rw [hnil]; simpa using hm.m1 wa a x' hx b kb hsb

theorem MInv.micro {ρ : Nat → Nat → Nat} {ar : Nat → Nat} {σ : Nat → List (Nat × Nat)} {snd : Nat → Nat} {s : Sys}
    (hk : KInv ρ ar σ s) (htab : SingleSenderTable s.prog ρ ar snd) (m : Micro)
    (hu' : Uniq (microStep Rules.current s m)) (hm : MInv ρ snd s) : MInv ρ snd (microStep Rules.current s m) := by
  cases m with
  | env w => exact hm.envStep1 hk htab w hu'
  | cmd i => exact hm.cmdStep1 hk htab i hu'
  | exec i fuel ordQ => exact hm.execStep hk htab i fuel ordQ hu'
  | check i ordE => exact hm.checkStep hk htab i ordE hu'
  | tick ms =>
    exact hm.step_nosend hk htab hu' rfl rfl (fun _ _ h => h) (fun w p x hx => ⟨x, hx, rfl⟩)
      (fun w p x' hx' => Or.inl ⟨x', hx', rfl, fun _ => rfl⟩) (fun b kb h => Or.inl h)

/-! ### arrivals follow the static streams -/

theorem mem_sel {a b : Pid} {l : List (Pid × Msg)} {m : Msg} : m ∈ sel a b l ↔ (b, m) ∈ l ∧ m.src = a := by
  unfold sel
  rw [List.mem_filterMap]
  constructor
  · rintro ⟨tm, htm, h⟩
    split at h
    · rename_i hc
      simp only [Option.some.injEq] at h; subst h
      obtain ⟨e1, e2⟩ := hc
      exact ⟨by rw [← e1]; exact htm, e2⟩
    · cases h
  · rintro ⟨h1, h2⟩
    exact ⟨(b, m), h1, by simp [h2]⟩

theorem filter_eq_sel (a b : Pid) : ∀ (l : List (Pid × Msg)), (∀ e ∈ l, e.1 = b → e.2.src = a) →
    (l.filter (fun e => e.1 = b)).map (fun e => e.2) = sel a b l
  | [], _ => rfl
  | e :: l, h => by
    have ih := filter_eq_sel a b l (fun e' he' => h e' (List.mem_cons_of_mem _ he'))
    unfold sel at ih ⊢
    by_cases hb : e.1 = b
    · have hs := h e (by simp) hb
      simp only [List.filter_cons, hb, decide_true, if_true, List.map_cons, List.filterMap_cons, hs, and_self]
      rw [ih]
    · simp only [List.filter_cons, hb, decide_false, Bool.false_eq_true, if_false, List.filterMap_cons, false_and]
      exact ih

theorem sendsK_le_stream (prog : Prog) (ρ : Nat → Nat → Nat) (k pc kb : Nat) :
    sendsK prog ρ k pc kb <+: sendsK prog ρ k (prog.getD k []).length kb := by
  rcases Nat.le_total pc (prog.getD k []).length with h | h
  · exact sendsK_prefix prog ρ k kb h
  · rw [sendsK_len_ge prog ρ k kb h]; exact List.prefix_refl _

/-- with one sender script per mailbox and no script run twice, arrivals follow the static streams -/
theorem streamOK_of {ρ : Nat → Nat → Nat} {snd : Nat → Nat} {s : Sys} (hs : SInv s) (hd : DInv s) (hu : Uniq s)
    (hm : MInv ρ snd s) : StreamOK (streamOf s.prog ρ snd) s := by
  intro w p x hx _
  -- every message that arrived at `p` came from a process of the sender script
  have hsrc : ∀ e ∈ s.appended, e.1 = p → ∃ wa xa, (s.wk wa).procs e.2.src = some xa ∧ xa.fn = snd x.fn := by
    intro e he hp
    have h1 : e.2 ∈ sel e.2.src p s.appended := mem_sel.mpr ⟨by rw [← hp]; exact he, rfl⟩
    have hc := hd.conserve e.2.src p
    have h2 : e.2 ∈ sel e.2.src p s.sent := by
      rw [← hc]; simp only [List.mem_append]; exact Or.inl (Or.inl h1)
    obtain ⟨h3, _⟩ := mem_sel.mp h2
    obtain ⟨wa, xa, hxa, kb, hsid, hsnd⟩ := hm.m0 _ h3
    have : x.fn = kb := hsid.proc_fn hs hx
    exact ⟨wa, xa, hxa, by rw [this]; exact hsnd.symm⟩
  cases hL : s.appended.filter (fun e => e.1 = p) with
  | nil => simp
  | cons e0 L0 =>
    have he0 : e0 ∈ s.appended ∧ e0.1 = p := by
      have : e0 ∈ s.appended.filter (fun e => e.1 = p) := by rw [hL]; simp
      simpa using List.mem_filter.mp this
    obtain ⟨wa0, xa0, hxa0, hf0⟩ := hsrc e0 he0.1 he0.2
    have hall : ∀ e ∈ s.appended, e.1 = p → e.2.src = e0.2.src := by
      intro e he hp
      obtain ⟨wa, xa, hxa, hf⟩ := hsrc e he hp
      exact hu _ _ (snd x.fn) (Or.inl ⟨wa, xa, hxa, hf⟩) (Or.inl ⟨wa0, xa0, hxa0, hf0⟩)
    have hsel := filter_eq_sel e0.2.src p s.appended hall
    rw [← hL]
    have hmap : (s.appended.filter (fun e => e.1 = p)).map (fun e => e.2.key) =
        ((s.appended.filter (fun e => e.1 = p)).map (fun e => e.2)).map Msg.key := by
      rw [List.map_map]; rfl
    rw [hmap, hsel]
    have hpre : sel e0.2.src p s.appended <+: sel e0.2.src p s.sent := by
      have := hd.conserve e0.2.src p
      simp only [List.append_assoc] at this
      exact ⟨_, this⟩
    have h1 := hm.m1 wa0 _ xa0 hxa0 p x.fn (Or.inl ⟨w, x, hx, rfl⟩)
    refine (hpre.map Msg.key).trans ?_
    rw [h1, hf0]
    exact sendsK_le_stream _ _ _ _ _

theorem MInv.of_started {ρ : Nat → Nat → Nat} {snd : Nat → Nat} {s : Sys} (h : Started s) : MInv ρ snd s := by
  refine ⟨?_, ?_⟩
  · intro tm htm; rw [h.sent] at htm; exact (List.not_mem_nil htm).elim
  intro wa a xa hxa b kb _
  rw [h.sent]
  rw [h.procs] at hxa
  split at hxa
  · simp only [Option.some.injEq] at hxa; subst hxa; simp [sendsK]
  · cases hxa

/-- **The Kahn invariant without a hypothesis on arrivals**: for a script table with a register
typing in which every mailbox has one sender script, in every run whose final state has no script
run by two pids, every process's history is the trace of its script over the STATIC stream of its
mailbox (the sender script's send sequence), and the arrival histories follow those streams. -/
theorem kahn_invariant_unique (ρ : Nat → Nat → Nat) (ar : Nat → Nat) (snd : Nat → Nat) (n : Nat) (prog : Prog) (req : Nat)
    (hn : 0 < n) (hwf : ProgWF prog) (hty : RegTyping prog ρ ar) (htab : SingleSenderTable prog ρ ar snd) (cs : List Choice)
    (hu : Uniq (run (Sys.init n prog req) cs)) :
    PreStart (run (Sys.init n prog req) cs) ∨
      (KInv ρ ar (streamOf prog ρ snd) (run (Sys.init n prog req) cs) ∧ StreamOK (streamOf prog ρ snd) (run (Sys.init n prog req) cs)) := by
  have key := invariant_from_init Rules.current
    (fun s => SInv s ∧ DInv s ∧ (s.prog = prog → Uniq s →
      KInv ρ ar (streamOf prog ρ snd) s ∧ MInv ρ snd s ∧ StreamOK (streamOf prog ρ snd) s))
    (fun s hs => ⟨SInv.of_started hs, DInv.of_started hs, fun hp _ =>
      ⟨KInv.of_started hs (hp ▸ hty), MInv.of_started hs, by
        intro w p x _ _; rw [hs.appended]; simp⟩⟩)
    (fun s m ⟨hsi, hdi, hk⟩ => by
      have hprog := microStep_prog Rules.current s m
      have hsi' := hsi.micro Rules.current_sane m
      have hdi' := hdi.micro Rules.current_tame m
      refine ⟨hsi', hdi', fun hp hu' => ?_⟩
      have hp0 : s.prog = prog := hprog.symm.trans hp
      obtain ⟨hk1, hm1, _⟩ := hk hp0 (Uniq.back hsi m hu')
      have hm' : MInv ρ snd (microStep Rules.current s m) := hm1.micro hk1 (hp0 ▸ htab) m hu'
      have hsd' : StreamOK (streamOf prog ρ snd) (microStep Rules.current s m) := by
        have := streamOK_of hsi' hdi' hu' hm'
        rw [hp] at this; exact this
      exact ⟨hk1.micro m hsd', hm', hsd'⟩) n prog req hn hwf cs
  rcases key with h | ⟨_, _, h⟩
  · exact Or.inl h
  · obtain ⟨h1, _, h3⟩ := h (run_prog _ _ _) hu
    exact Or.inr ⟨h1, h3⟩

end QM.Sys
