import QuiverModel.Lemmas.Sys.Kahn
/-!
M-Sys: the arrival half of confluence.  For a script table in which every mailbox has ONE sender
script (`SingleSenderTable`), in a run in which no script is run by two processes (`Uniq`, a fact
about the final state), the arrival history of every receiving process is a prefix of the static
send sequence of its sender (`streamOf`): `StreamOK` holds, so the Kahn invariant needs no
hypothesis about arrivals.
-/
namespace QM.Sys

/-! ### static send sequences -/

def isSendTo (ρ : Nat → Nat → Nat) (k kb : Nat) : Act → Option (Nat × Nat)
  | .send r tag seq => if ρ k r = kb then some (tag, seq) else none
  | _ => none

/-- keys of the sends of script `k` before position `pc` whose register denotes script `kb` -/
def sendsK (prog : Prog) (ρ : Nat → Nat → Nat) (k pc kb : Nat) : List (Nat × Nat) :=
  ((prog.getD k []).take pc).filterMap (isSendTo ρ k kb)

/-- the input stream of script `kb`: everything its sender script sends to it, in script order -/
def streamOf (prog : Prog) (ρ : Nat → Nat → Nat) (snd : Nat → Nat) (kb : Nat) : List (Nat × Nat) :=
  sendsK prog ρ (snd kb) (prog.getD (snd kb) []).length kb

/-- every mailbox has one sender SCRIPT (`snd kb`), and sends use registers that exist -/
structure SingleSenderTable (prog : Prog) (ρ : Nat → Nat → Nat) (ar : Nat → Nat) (snd : Nat → Nat) : Prop where
  only : ∀ k j r tag seq, (prog.getD k [])[j]? = some (.send r tag seq) → snd (ρ k r) = k ∧ r < base prog ar k j

theorem sendsK_succ {prog : Prog} {ρ : Nat → Nat → Nat} {k pc kb : Nat} {a : Act} (h : (prog.getD k [])[pc]? = some a) :
    sendsK prog ρ k (pc + 1) kb = sendsK prog ρ k pc kb ++ (isSendTo ρ k kb a).toList := by
  unfold sendsK
  rw [List.take_add_one, h]
  simp only [Option.toList_some, List.filterMap_append, List.filterMap_cons, List.filterMap_nil]
  cases isSendTo ρ k kb a <;> rfl

theorem sendsK_prefix (prog : Prog) (ρ : Nat → Nat → Nat) (k kb : Nat) {pc pc' : Nat} (h : pc ≤ pc') :
    sendsK prog ρ k pc kb <+: sendsK prog ρ k pc' kb := by
  unfold sendsK
  exact ((List.take_prefix_take_left h).filterMap _)

theorem sendsK_len_ge (prog : Prog) (ρ : Nat → Nat → Nat) (k kb : Nat) {pc : Nat} (h : (prog.getD k []).length ≤ pc) :
    sendsK prog ρ k pc kb = sendsK prog ρ k (prog.getD k []).length kb := by
  unfold sendsK
  rw [List.take_of_length_le h, List.take_of_length_le (Nat.le_refl _)]

/-! ### what a time slice sends -/

def OutSend (prog : Prog) (ρ : Nat → Nat → Nat) (self : Pid) (x : Proc) (r : Proc × Outcome) (kb : Nat) : Prop :=
  match r.2 with
  | .send t m => ∃ rr, t = x.reg rr ∧ m.src = self ∧ 1 ≤ r.1.pc ∧
      (prog.getD x.fn [])[r.1.pc - 1]? = some (.send rr m.tag m.seq) ∧
      sendsK prog ρ x.fn r.1.pc kb = sendsK prog ρ x.fn x.pc kb ++ (if ρ x.fn rr = kb then [m.key] else [])
  | _ => sendsK prog ρ x.fn r.1.pc kb = sendsK prog ρ x.fn x.pc kb

theorem slice_sends (prog : Prog) (ρ : Nat → Nat → Nat) (now : Nat) (self : Pid) (kb : Nat) :
    ∀ (fuel : Nat) (x : Proc), (slice prog now self fuel x).1.regs = x.regs ∧ OutSend prog ρ self x (slice prog now self fuel x) kb
  | 0, x => ⟨rfl, rfl⟩
  | fuel + 1, x => by
    unfold slice
    split
    · exact ⟨rfl, rfl⟩
    · rename_i r tag seq hs
      have hs' : (prog.getD x.fn [])[x.pc]? = some (.send r tag seq) := hs
      refine ⟨rfl, r, rfl, rfl, Nat.le_add_left _ _, ?_, ?_⟩
      · simpa using hs'
      · show sendsK prog ρ x.fn (x.pc + 1) kb = _
        rw [sendsK_succ hs']
        simp only [isSendTo, Msg.key]
        split <;> rfl
    · split
      · exact ⟨rfl, rfl⟩
      · exact ⟨rfl, rfl⟩
    · exact ⟨rfl, rfl⟩
    · rename_i srcs hs
      have hs' : (prog.getD x.fn [])[x.pc]? = some (.select srcs) := hs
      have hstep : sendsK prog ρ x.fn (x.pc + 1) kb = sendsK prog ρ x.fn x.pc kb := by
        rw [sendsK_succ hs']; simp [isSendTo]
      split
      · dsimp only
        split
        · have ih := slice_sends prog ρ now self kb fuel { x with selInit := true, selStart := some now }
          exact ih
        · exact ⟨rfl, rfl⟩
      · dsimp only
        split
        · rename_i v mb _
          have ih := slice_sends prog ρ now self kb fuel
            { x with selStart := none, pc := x.pc + 1, selInit := false, acc := x.acc ++ [v], mailbox := mb,
                     awaiting := x.awaiting.filter (fun kv => kv.1 ∉ selTargets x srcs),
                     awaitFailed := x.awaitFailed.filter (· ∉ selTargets x srcs) }
          refine ⟨ih.1, ?_⟩
          have h2 := ih.2
          unfold OutSend at h2 ⊢
          split
          · rename_i t m heq
            rw [heq] at h2
            obtain ⟨rr, h3, h4, h5, h6, h7⟩ := h2
            exact ⟨rr, h3, h4, h5, h6, by rw [h7]; show sendsK prog ρ x.fn (x.pc + 1) kb ++ _ = _; rw [hstep]⟩
          · rename_i hne
            split at h2
            · rename_i t m heq; exact absurd heq (hne t m)
            · rw [h2]; exact hstep
        · exact ⟨rfl, rfl⟩
        · exact ⟨rfl, rfl⟩

/-! ### a pid has one script; scripts persist -/

theorem filterMap_nodup_inj {α β : Type} (g : α → Option β) : ∀ (l : List α), (l.filterMap g).Nodup →
    ∀ a b y, a ∈ l → b ∈ l → g a = some y → g b = some y → a = b
  | [], _, a, _, _, ha, _, _, _ => by cases ha
  | x :: l, hn, a, b, y, ha, hb, ga, gb => by
    cases hx : g x with
    | none =>
      simp only [List.filterMap_cons, hx] at hn
      rcases List.mem_cons.mp ha with rfl | ha'
      · rw [hx] at ga; cases ga
      · rcases List.mem_cons.mp hb with rfl | hb'
        · rw [hx] at gb; cases gb
        · exact filterMap_nodup_inj g l hn a b y ha' hb' ga gb
    | some z =>
      simp only [List.filterMap_cons, hx, List.nodup_cons] at hn
      rcases List.mem_cons.mp ha with rfl | ha'
      · rcases List.mem_cons.mp hb with rfl | hb'
        · rfl
        · exfalso; apply hn.1
          rw [hx] at ga; simp only [Option.some.injEq] at ga; subst ga
          exact List.mem_filterMap.mpr ⟨b, hb', gb⟩
      · rcases List.mem_cons.mp hb with rfl | hb'
        · exfalso; apply hn.1
          rw [hx] at gb; simp only [Option.some.injEq] at gb; subst gb
          exact List.mem_filterMap.mpr ⟨a, ha', ga⟩
        · exact filterMap_nodup_inj g l hn.2 a b y ha' hb' ga gb

theorem Sid.functional {s : Sys} (hs : SInv s) {q : Pid} {f f' : Nat} (h : Sid s q f) (h' : Sid s q f') : f = f' := by
  rcases h with ⟨w, y, hy, hf⟩ | ⟨w, regs, hm⟩
  · exact hf.symm.trans (h'.proc_fn hs hy)
  · rcases h' with ⟨w', y', hy', hf'⟩ | ⟨w', regs', hm'⟩
    · exact ((Sid.proc_fn hs (Or.inr ⟨w, regs, hm⟩) hy').symm.trans hf').symm ▸ rfl
    · have r1 : s.env.router q = some w := (hs.r.cmds w _ hm).1
      have r2 : s.env.router q = some w' := (hs.r.cmds w' _ hm').1
      rw [r1] at r2; simp only [Option.some.injEq] at r2; subst r2
      have := filterMap_nodup_inj cmdCreate (s.cmdQ w) (hs.fresh w).1 _ _ q hm hm' rfl rfl
      simp only [Cmd.spawn.injEq] at this
      exact this.2.1

theorem sid_mono_micro {s : Sys} (hs : SInv s) (m : Micro) : ∀ q f, Sid s q f → Sid (microStep Rules.current s m) q f := by
  apply Sid.mono (fun w q y hy => fnKeep_micro hs m w q y hy)
  intro w q f regs hm
  cases m with
  | env w0 => exact Or.inl ((envStep1_cmdSpec Rules.current.combine hs.r w0).2.1 w _ hm)
  | tick ms => exact Or.inl hm
  | check i ordE => exact Or.inl (by show _ ∈ (QM.Sys.checkStep s i ordE).cmdQ w; rw [(CheckRel.checkStep s i ordE).cmdQ]; exact hm)
  | exec i fuel ordQ => exact Or.inl (by show _ ∈ (QM.Sys.execStep s i fuel ordQ).cmdQ w; rw [(execStep_frame s i fuel ordQ).1]; exact hm)
  | cmd i =>
    show _ ∈ (cmdStep1With Rules.current s i).cmdQ w ∨ ∃ w' y, ((cmdStep1With Rules.current s i).wk w').procs q = some y ∧ y.fn = f
    unfold cmdStep1With
    split
    · exact Or.inl hm
    · rename_i c rest hq
      have hcq := (handleCmd_frame Rules.current { s with cmdQ := upd s.cmdQ i rest } i c).1
      by_cases e : w = i
      · subst e
        rw [hq] at hm
        rcases List.mem_cons.mp hm with h1 | h1
        · subst h1
          have hok := hs.r.cmds w _ (show Cmd.spawn q f regs ∈ s.cmdQ w by rw [hq]; simp)
          refine Or.inr ⟨w, Proc.fresh f (q :: regs), ?_, rfl⟩
          simp [handleCmdWith, Nat.not_le.mpr hok.2.1, WorkerSt.setProc]
        · exact Or.inl (by rw [hcq]; simp [h1])
      · exact Or.inl (by rw [hcq]; simp [upd_apply, e, hm])

/-- no script is run (or about to be run) by two pids -/
def Uniq (s : Sys) : Prop := ∀ q q' f, Sid s q f → Sid s q' f → q = q'

theorem Uniq.back {s : Sys} (hs : SInv s) (m : Micro) (h : Uniq (microStep Rules.current s m)) : Uniq s :=
  fun q q' f h1 h2 => h q q' f (sid_mono_micro hs m q f h1) (sid_mono_micro hs m q' f h2)

end QM.Sys
