import QuiverModel.Lemmas.Sys.Stream
/-!
M-Sys: "no script is run by two pids" (`Uniq`) from a static condition on the script table
(`SpawnOnce`: every script is spawned at one place, the main script nowhere) — a token argument over
SpawnAction events, SpawnProcess commands and processes.
-/
namespace QM.Sys
set_option linter.unusedSectionVars false
variable [Cfg]

structure SpawnOnce (prog : Prog) : Prop where
  main : ∀ (k j : Nat) (pass : List Nat), ¬ ((prog.getD k ([] : Script))[j]? = some (Act.spawn 0 pass))
  once : ∀ (k j : Nat) (pass : List Nat) (k' j' : Nat) (pass' : List Nat) (f : Nat), (prog.getD k [])[j]? = some (Act.spawn f pass) →
    (prog.getD k' [])[j']? = some (Act.spawn f pass') → k = k' ∧ j = j'

/-! ### processes only advance -/

/-- same script, and the position advanced, or it is the same and an issued spawn is still issued -/
def Adv (x x' : Proc) : Prop :=
  x'.fn = x.fn ∧ (x.pc < x'.pc ∨ (x'.pc = x.pc ∧ (x.spawnIssued = true → x'.spawnIssued = true)))

theorem Adv.refl (x : Proc) : Adv x x := ⟨rfl, Or.inr ⟨rfl, id⟩⟩
theorem Adv.trans {a b c : Proc} (h1 : Adv a b) (h2 : Adv b c) : Adv a c := by
  obtain ⟨f1, p1⟩ := h1
  obtain ⟨f2, p2⟩ := h2
  refine ⟨f2.trans f1, ?_⟩
  rcases p1 with p1 | ⟨e1, i1⟩
  · rcases p2 with p2 | ⟨e2, _⟩
    · exact Or.inl (Nat.lt_trans p1 p2)
    · exact Or.inl (by rw [e2]; exact p1)
  · rcases p2 with p2 | ⟨e2, i2⟩
    · exact Or.inl (by rw [← e1]; exact p2)
    · exact Or.inr ⟨e2.trans e1, fun h => i2 (i1 h)⟩

def AdvKeep (w w' : WorkerSt) : Prop := ∀ p x, w.procs p = some x → ∃ x', w'.procs p = some x' ∧ Adv x x'

theorem AdvKeep.refl (w : WorkerSt) : AdvKeep w w := fun _ x h => ⟨x, h, Adv.refl x⟩
theorem AdvKeep.trans {a b c : WorkerSt} (h1 : AdvKeep a b) (h2 : AdvKeep b c) : AdvKeep a c := by
  intro p x hx
  obtain ⟨y, hy, a1⟩ := h1 p x hx
  obtain ⟨z, hz, a2⟩ := h2 p y hy
  exact ⟨z, hz, a1.trans a2⟩
theorem AdvKeep.of_procs {w w' : WorkerSt} (h : w'.procs = w.procs) : AdvKeep w w' :=
  fun p x hx => ⟨x, by rw [h]; exact hx, Adv.refl x⟩

theorem AdvKeep.updProc {w w' : WorkerSt} {q : Pid} {y' : Proc} (hp : w'.procs = upd w.procs q (some y'))
    (hy : ∀ y, w.procs q = some y → Adv y y') : AdvKeep w w' := by
  intro p x hx
  rw [hp]
  by_cases e : p = q
  · subst e; exact ⟨y', by simp, hy x hx⟩
  · exact ⟨x, by simp [e, hx], Adv.refl x⟩

theorem AdvKeep.modProc (w : WorkerSt) (q : Pid) (f : Proc → Proc) (hf : ∀ y, Adv y (f y)) : AdvKeep w (w.modProc q f) := by
  unfold WorkerSt.modProc
  split
  · rename_i y hy
    exact AdvKeep.updProc (q := q) (y' := f y) rfl (fun y0 h0 => by rw [hy] at h0; cases h0; exact hf y)
  · exact AdvKeep.refl _

theorem AdvKeep.release (w : WorkerSt) (cur : Pid) : AdvKeep w (w.release cur) := by
  unfold WorkerSt.release; split
  · exact AdvKeep.modProc w cur _ (fun y => by unfold Proc.releaseDead; split <;> exact Adv.refl _)
  · exact AdvKeep.refl w

theorem AdvKeep.wakeSelecting (w : WorkerSt) (q : Pid) : AdvKeep w (w.wakeSelecting q) :=
  AdvKeep.of_procs (by unfold WorkerSt.wakeSelecting; split <;> rfl)

theorem AdvKeep.notifyResult (w : WorkerSt) (a t : Pid) (r : Res) : AdvKeep w (w.notifyResult a t r) := by
  cases r with
  | ok v =>
    show AdvKeep w (w.notifyResultOk a t v)
    unfold WorkerSt.notifyResultOk
    exact (AdvKeep.modProc w a _ (fun y => by split <;> exact Adv.refl _)).trans (AdvKeep.wakeSelecting _ a)
  | err =>
    show AdvKeep w (w.notifyFailure a t)
    unfold WorkerSt.notifyFailure
    split
    · split
      · refine (AdvKeep.modProc w a _ ?_).trans (AdvKeep.wakeSelecting _ a)
        intro y; exact ⟨rfl, Or.inr ⟨rfl, id⟩⟩
      · exact AdvKeep.refl _
    · exact AdvKeep.refl _

theorem AdvKeep.applyResults (a : Pid) : ∀ (rs : Results) (w : WorkerSt), AdvKeep w (applyResults w a rs)
  | [], w => AdvKeep.refl w
  | (t0, some r) :: rest, w => by
    unfold QM.Sys.applyResults; exact (AdvKeep.notifyResult w a t0 r).trans (AdvKeep.applyResults a rest _)
  | (t0, none) :: rest, w => by
    unfold QM.Sys.applyResults
    refine (?_ : AdvKeep w (w.notifyPending a t0)).trans (AdvKeep.applyResults a rest _)
    unfold WorkerSt.notifyPending
    exact AdvKeep.modProc w a _ (fun y => ⟨rfl, Or.inr ⟨rfl, id⟩⟩)

theorem AdvKeep.foldl {α : Type} (f : WorkerSt → α → WorkerSt) (hf : ∀ w a, AdvKeep w (f w a)) :
    ∀ (l : List α) (w : WorkerSt), AdvKeep w (l.foldl f w)
  | [], w => AdvKeep.refl w
  | a :: l, w => (hf w a).trans (AdvKeep.foldl f hf l (f w a))

theorem AdvKeep.finish (w : WorkerSt) (cur : Pid) (x : Proc) (ordQ : List Pid) (hx : ∀ y, w.procs cur = some y → Adv y x) :
    AdvKeep w (w.finish cur x ordQ) := by
  unfold WorkerSt.finish
  dsimp only
  refine (AdvKeep.updProc (w' := { w with procs := upd w.procs cur (some { x with result := some x.finalRes }) })
    (q := cur) (y' := { x with result := some x.finalRes }) rfl (fun y hy => hx y hy)).trans ?_
  exact (AdvKeep.foldl _ (fun w' a => AdvKeep.notifyResult w' a cur _) _ _).trans (AdvKeep.release _ cur)

/-- a time slice: the process advances; a Spawn outcome means: not issued before, issued now, at a
spawn action for that script -/
theorem slice_adv (prog : Prog) (now : Nat) (self : Pid) : ∀ (fuel : Nat) (x : Proc),
    Adv x (slice prog now self fuel x).1 ∧
    (∀ f regs, (slice prog now self fuel x).2 = .spawn f regs →
      x.spawnIssued = false ∧ (slice prog now self fuel x).1.spawnIssued = true ∧
      ∃ pass, (prog.getD x.fn [])[(slice prog now self fuel x).1.pc]? = some (.spawn f pass))
  | 0, x => ⟨Adv.refl x, fun _ _ h => by cases h⟩
  | fuel + 1, x => by
    unfold slice
    split
    · exact ⟨Adv.refl x, fun _ _ h => by cases h⟩
    · exact ⟨⟨rfl, Or.inl (Nat.lt_succ_self _)⟩, fun _ _ h => by cases h⟩
    · rename_i f pass hs
      have hs' : (prog.getD x.fn [])[x.pc]? = some (.spawn f pass) := hs
      split
      · exact ⟨⟨rfl, Or.inr ⟨rfl, id⟩⟩, fun _ _ h => by cases h⟩
      · rename_i hni
        refine ⟨⟨rfl, Or.inr ⟨rfl, fun _ => rfl⟩⟩, ?_⟩
        intro f' regs' he
        simp only [Outcome.spawn.injEq] at he
        obtain ⟨rfl, _⟩ := he
        exact ⟨by simpa using hni, rfl, pass, hs'⟩
    · exact ⟨⟨rfl, Or.inr ⟨rfl, id⟩⟩, fun _ _ h => by cases h⟩
    · rename_i srcs hs
      split
      · dsimp only
        split
        · have ih := slice_adv prog now self fuel { x with selInit := true, selStart := some now }
          exact ih
        · exact ⟨⟨rfl, Or.inr ⟨rfl, id⟩⟩, fun _ _ h => by cases h⟩
      · split
        · exact ⟨⟨rfl, Or.inr ⟨rfl, id⟩⟩, fun _ _ h => by cases h⟩
        · dsimp only
          split
          · rename_i v mb _
            have ih := slice_adv prog now self fuel
              { x with selStart := none, pc := x.pc + 1, selInit := false, acc := x.acc ++ [v], mailbox := mb, unanswered := [],
                       awaiting := x.awaiting.filter (fun kv => kv.1 ∉ selTargets x srcs),
                       awaitFailed := x.awaitFailed.filter (· ∉ selTargets x srcs) }
            have hstep : Adv x { x with selStart := none, pc := x.pc + 1, selInit := false, acc := x.acc ++ [v], mailbox := mb, unanswered := [], awaiting := x.awaiting.filter (fun kv => kv.1 ∉ selTargets x srcs), awaitFailed := x.awaitFailed.filter (· ∉ selTargets x srcs) } :=
              ⟨rfl, Or.inl (Nat.lt_succ_self _)⟩
            refine ⟨hstep.trans ih.1, ?_⟩
            intro f regs he
            exact ih.2 f regs he
          · exact ⟨⟨rfl, Or.inr ⟨rfl, id⟩⟩, fun _ _ h => by cases h⟩
          · exact ⟨⟨rfl, Or.inr ⟨rfl, id⟩⟩, fun _ _ h => by cases h⟩

theorem AdvKeep.handleCmd {s : Sys} (i : Wid) (c : Cmd) (hok : ∀ p fn, c ≠ .resume p fn) (hst : ∀ p, c ≠ .start p)
    (hfresh : ∀ q f regs, c = .spawn q f regs → (s.wk i).procs q = none) :
    AdvKeep (s.wk i) ((handleCmdWith Rules.current s i c).wk i) := by
  cases c with
  | misc => exact AdvKeep.refl _
  | start p => exact absurd rfl (hst p)
  | resume p fn => exact absurd rfl (hok p fn)
  | spawn p fn regs =>
    simp only [handleCmdWith]
    split
    · exact AdvKeep.refl _
    · simp only [noteExit_wk, setWk_wk, upd_same]
      refine AdvKeep.updProc (q := p) (y' := Proc.fresh fn (p :: regs)) (by simp [WorkerSt.setProc]) ?_
      intro y hy; rw [hfresh p fn regs rfl] at hy; cases hy
  | notifySpawn caller newPid =>
    cases hx : (s.wk i).procs caller with
    | none => simp only [handleCmdWith, hx, setWk_wk, upd_same]; exact AdvKeep.of_procs rfl
    | some x =>
      simp only [handleCmdWith, hx, setWk_wk, upd_same]
      split
      · exact AdvKeep.updProc (q := caller) (y' := { x with regs := x.regs ++ [newPid], pc := x.pc + 1, spawnIssued := false }) rfl
          (fun y hy => by rw [hx] at hy; cases hy; exact ⟨rfl, Or.inl (Nat.lt_succ_self _)⟩)
      · exact AdvKeep.updProc (q := caller) (y' := { x with regs := x.regs ++ [newPid], pc := x.pc + 1, spawnIssued := false }) rfl
          (fun y hy => by rw [hx] at hy; cases hy; exact ⟨rfl, Or.inl (Nat.lt_succ_self _)⟩)
  | deliver t m =>
    cases hx : (s.wk i).procs t with
    | none => simp only [handleCmdWith, hx, setWk_wk, upd_same]; exact AdvKeep.wakeSelecting _ t
    | some x =>
      by_cases hd : (Cfg.releaseDead && !x.deliverable) = true
      · simp only [handleCmdWith, hx, hd, if_true, setWk_wk, upd_same]; exact AdvKeep.wakeSelecting _ t
      simp only [handleCmdWith, hx, hd, Bool.false_eq_true, if_false, setWk_wk, upd_same]
      exact (AdvKeep.updProc (q := t) (y' := { x with mailbox := x.mailbox ++ [m] })
        (w' := { s.wk i with procs := upd (s.wk i).procs t (some { x with mailbox := x.mailbox ++ [m] }) }) rfl
        (fun y hy => by rw [hx] at hy; cases hy; exact Adv.refl _)).trans (AdvKeep.wakeSelecting _ t)
  | queryAwait a ts =>
    simp only [handleCmdWith, pushEvt_wk, setWk_wk, upd_same]
    exact AdvKeep.of_procs (queryTargets_spec a ts (s.wk i)).1
  | updateAwait a rs =>
    simp only [handleCmdWith, Rules.current, Bool.false_and, Bool.false_eq_true, if_false, setWk_wk, upd_same]
    exact (AdvKeep.applyResults a rs _).trans (AdvKeep.wakeSelecting _ a)
  | getResult req p =>
    simp only [handleCmdWith]
    repeat' split
    all_goals first
      | exact AdvKeep.refl _
      | (simp only [noteExit_wk, setWk_wk, upd_same]; exact AdvKeep.of_procs rfl)

/-- an executor step: processes advance, and a new SpawnAction comes from a process that issues now -/
def ExecAdv (s s' : Sys) (i : Wid) : Prop :=
  AdvKeep (s.wk i) (s'.wk i) ∧
  ∀ e ∈ s'.evtQ i, e ∈ s.evtQ i ∨ (∀ a f regs co, e ≠ Evt.spawn a f regs co) ∨
    ∃ cur x x' f regs pass, e = Evt.spawn cur f regs none ∧ (s.wk i).procs cur = some x ∧ (s'.wk i).procs cur = some x' ∧
      x'.fn = x.fn ∧ x.spawnIssued = false ∧ x.pc ≤ x'.pc ∧ x'.spawnIssued = true ∧
      (s.prog.getD x.fn [])[x'.pc]? = some (Act.spawn f pass)

theorem exec_adv (s : Sys) (i : Wid) (fuel : Nat) (ordQ : List Pid) : ExecAdv s (QM.Sys.execStep s i fuel ordQ) i := by
  unfold QM.Sys.execStep
  dsimp only
  have hp0 : ((s.wk i).checkExpired s.prog s.now ordQ).procs = (s.wk i).procs := rfl
  generalize (s.wk i).checkExpired s.prog s.now ordQ = w0 at hp0 ⊢
  have h0 : AdvKeep (s.wk i) w0 := AdvKeep.of_procs hp0
  split
  · exact ⟨by simp only [noteExit_wk, setWk_wk, upd_same]; exact h0, fun e he => Or.inl he⟩
  · rename_i cur rest _
    have h1 : AdvKeep (s.wk i) { w0 with queue := rest } := h0.trans (AdvKeep.of_procs rfl)
    split
    · exact ⟨by simp only [noteExit_wk, setWk_wk, upd_same]; exact h1, fun e he => Or.inl he⟩
    · rename_i x hx
      have hxs : (s.wk i).procs cur = some x := by rw [← hp0]; exact hx
      split
      · refine ⟨?_, fun e he => (mem_noteExit_cases he).imp id (fun h => Or.inl (by subst h; intros; simp))⟩
        simp only [noteExit_wk, setWk_wk, upd_same]
        exact h1.trans (AdvKeep.finish _ cur x ordQ (fun y hy => by rw [hx] at hy; cases hy; exact Adv.refl _))
      · have hsl := slice_adv s.prog s.now cur fuel x
        generalize slice s.prog s.now cur fuel x = r at hsl
        obtain ⟨x', out⟩ := r
        dsimp only at hsl ⊢
        obtain ⟨hadv, hsp⟩ := hsl
        have h2 : ∀ (qq sp se : List Pid), AdvKeep (s.wk i) { w0 with queue := qq, spawning := sp, selecting := se, procs := upd w0.procs cur (some x') } := by
          intro qq sp se
          refine h0.trans (AdvKeep.updProc (q := cur) (y' := x') rfl ?_)
          intro y hy
          have : w0.procs cur = some x := hx
          rw [this] at hy; cases hy; exact hadv
        have hpush : ∀ (e0 : Evt) (e : Evt), e ∈ upd s.evtQ i (s.evtQ i ++ [e0]) i → e ∈ s.evtQ i ∨ e = e0 := by
          intro e0 e he
          rcases mem_upd_append he with h | ⟨_, h⟩
          · exact Or.inl h
          · exact Or.inr h
        cases out with
        | cont => exact ⟨by simp only [noteExit_wk, setWk_wk, upd_same]; exact h2 _ _ _, fun e he => Or.inl he⟩
        | blocked => exact ⟨by simp only [noteExit_wk, setWk_wk, upd_same]; exact h2 _ _ _, fun e he => Or.inl he⟩
        | send t m =>
          refine ⟨by simp only [pushEvt_wk, setWk_wk, upd_same]; exact h2 _ _ _, fun e he => ?_⟩
          rcases hpush _ e he with h | h
          · exact Or.inl h
          · subst h; exact Or.inr (Or.inl (by intros; simp))
        | awaitInit ts =>
          refine ⟨by simp only [pushEvt_wk, setWk_wk, upd_same]; exact h2 _ _ _, fun e he => ?_⟩
          rcases hpush _ e he with h | h
          · exact Or.inl h
          · subst h; exact Or.inr (Or.inl (by intros; simp))
        | spawn f regs =>
          refine ⟨by simp only [pushEvt_wk, setWk_wk, upd_same]; exact h2 _ _ _, fun e he => ?_⟩
          rcases hpush _ e he with h | h
          · exact Or.inl h
          · subst h
            obtain ⟨g1, g2, pass, g3⟩ := hsp f regs rfl
            refine Or.inr (Or.inr ⟨cur, x, x', f, regs, pass, rfl, hxs, by simp, hadv.1, g1, ?_, g2, g3⟩)
            rcases hadv.2 with h | ⟨h, _⟩
            · exact Nat.le_of_lt h
            · exact Nat.le_of_eq h.symm
        | failed =>
          refine ⟨?_, fun e he => (mem_noteExit_cases he).imp id (fun h => Or.inl (by subst h; intros; simp))⟩
          simp only [noteExit_wk, setWk_wk, upd_same]
          exact (h2 rest w0.spawning w0.selecting).trans (AdvKeep.finish _ cur x' ordQ (fun y hy => by simp at hy; subst hy; exact Adv.refl _))
        | done =>
          refine ⟨?_, fun e he => (mem_noteExit_cases he).imp id (fun h => Or.inl (by subst h; intros; simp))⟩
          simp only [noteExit_wk, setWk_wk, upd_same]
          exact (h2 rest w0.spawning w0.selecting).trans (AdvKeep.finish _ cur x' ordQ (fun y hy => by simp at hy; subst hy; exact Adv.refl _))

theorem adv_micro {s : Sys} (h : SInv s) (m : Micro) : ∀ w, AdvKeep (s.wk w) ((microStep Rules.current s m).wk w) := by
  intro w
  cases m with
  | env w0 => exact AdvKeep.of_procs (by show ((envStep1With _ s w0).wk w).procs = _; rw [envStep1_wk])
  | tick ms => exact AdvKeep.refl _
  | check i ordE =>
    have hc := CheckRel.checkStep s i ordE
    by_cases e : w = i
    · subst e; exact AdvKeep.of_procs hc.procs
    · show AdvKeep (s.wk w) ((QM.Sys.checkStep s i ordE).wk w)
      rw [hc.wkOther w e]; exact AdvKeep.refl _
  | exec i fuel ordQ =>
    by_cases e : w = i
    · subst e; exact (exec_adv s w fuel ordQ).1
    · show AdvKeep (s.wk w) ((QM.Sys.execStep s i fuel ordQ).wk w)
      rw [((execStep_frame s i fuel ordQ).2.2.2.2.2.2 w e).1]; exact AdvKeep.refl _
  | cmd i =>
    show AdvKeep (s.wk w) ((cmdStep1With Rules.current s i).wk w)
    unfold cmdStep1With
    split
    · exact AdvKeep.refl _
    · rename_i c rest hq
      have hok := h.r.cmds i c (by rw [hq]; simp)
      by_cases e : w = i
      · subst e
        refine AdvKeep.handleCmd (s := { s with cmdQ := upd s.cmdQ w rest }) w c ?_ ?_ ?_
        · intro p fn e; subst e; exact hok.elim
        · intro p e; subst e; exact hok.elim
        · intro q f regs e; subst e
          have hfresh : ¬ known s w q := (h.fresh w).2 q (mem_creates.mpr ⟨f, regs, by rw [hq]; simp⟩)
          cases hp : (s.wk w).procs q with
          | none => rfl
          | some y => exact absurd (by simp [known, hp]) hfresh
      · rw [((handleCmd_frame Rules.current _ i c).2.2.2.2.2 w e).1]; exact AdvKeep.refl _

/-! ### the token invariant -/

def Born (s : Sys) (f : Nat) : Prop := ∃ q, Sid s q f
def InFlight (s : Sys) (f : Nat) : Prop := ∃ w c regs co, Evt.spawn c f regs co ∈ s.evtQ w

structure UInv (s : Sys) : Prop where
  uniq : Uniq s
  parent : ∀ f k j pass, (s.prog.getD k [])[j]? = some (Act.spawn f pass) → (Born s f ∨ InFlight s f) →
    ∃ w p x, (s.wk w).procs p = some x ∧ x.fn = k ∧ (j < x.pc ∨ (x.pc = j ∧ x.spawnIssued = true))
  excl : ∀ f, InFlight s f → ¬ Born s f

theorem parent_adv {x x' : Proc} {j : Nat} (h : Adv x x') (hp : j < x.pc ∨ (x.pc = j ∧ x.spawnIssued = true)) :
    j < x'.pc ∨ (x'.pc = j ∧ x'.spawnIssued = true) := by
  obtain ⟨_, ha⟩ := h
  rcases hp with hp | ⟨e, hi⟩
  · rcases ha with ha | ⟨ha, _⟩
    · exact Or.inl (Nat.lt_trans hp ha)
    · exact Or.inl (by rw [ha]; exact hp)
  · rcases ha with ha | ⟨ha, hi'⟩
    · exact Or.inl (by rw [← e]; exact ha)
    · exact Or.inr ⟨ha.trans e, hi' hi⟩

/-- steps in which no pid is born and no SpawnAction is emitted -/
theorem UInv.step_quiet {s s' : Sys} (h : UInv s) (hprog : s'.prog = s.prog)
    (hadv : ∀ w, AdvKeep (s.wk w) (s'.wk w)) (hsidback : ∀ q f, Sid s' q f → Sid s q f)
    (hevt : ∀ w c f regs co, Evt.spawn c f regs co ∈ s'.evtQ w → Evt.spawn c f regs co ∈ s.evtQ w) : UInv s' := by
  have hb : ∀ f, Born s' f → Born s f := fun f ⟨q, hq⟩ => ⟨q, hsidback q f hq⟩
  have hi : ∀ f, InFlight s' f → InFlight s f := fun f ⟨w, c, regs, co, hm⟩ => ⟨w, c, regs, co, hevt w c f regs co hm⟩
  refine ⟨fun q q' f h1 h2 => h.uniq q q' f (hsidback q f h1) (hsidback q' f h2), ?_, fun f h1 h2 => h.excl f (hi f h1) (hb f h2)⟩
  intro f k j pass hsc hbi
  rw [hprog] at hsc
  obtain ⟨w, p, x, hx, hf, hp⟩ := h.parent f k j pass hsc (hbi.imp (hb f) (hi f))
  obtain ⟨x', hx', ha⟩ := hadv w p x hx
  exact ⟨w, p, x', hx', ha.1.trans hf, parent_adv ha hp⟩

theorem envStep1_evtQ (combine) (s : Sys) (w0 : Wid) (e : Evt) (rest : List Evt) (hq : s.evtQ w0 = e :: rest) :
    (envStep1With combine s w0).evtQ = upd s.evtQ w0 rest := by
  unfold envStep1With
  rw [hq]
  dsimp only
  cases e with
  | spawn c fn regs coloc => simp only [handleEventWith, handleSpawn]; split <;> rfl
  | deliver t m => simp only [handleEventWith, handleDeliver]; split <;> rfl
  | await a ts =>
    simp only [handleEventWith, handleAwait]
    split
    · rfl
    · exact (foldPush_spec _ _ _).1
  | procResults a rs =>
    simp only [handleEventWith, handleProcResultsWith]
    repeat' split
    all_goals rfl
  | resultResp req r => rfl
  | exited p => rfl

/-- the caller of a SpawnAction in flight is a process at the spawn action for that script -/
theorem spawn_evt_caller {ρ : Nat → Nat → Nat} {ar : Nat → Nat} {σ : Nat → List (Nat × Nat)} {s : Sys} (hk : KInv ρ ar σ s)
    {w : Wid} {c : Pid} {f : Nat} {regs : List Pid} {co : Option Pid} (hm : Evt.spawn c f regs co ∈ s.evtQ w) :
    ∃ x pass, (s.wk w).procs c = some x ∧ (s.prog.getD x.fn [])[x.pc]? = some (Act.spawn f pass) := by
  have hpark := spair_evt_parked hk.wi.pair hm
  obtain ⟨x, hx, _⟩ := (hk.wi.si.sched w).live c (Or.inr (Or.inl hpark))
  obtain ⟨pass, h1, _⟩ := (hk.procs w c x hx).spev f regs co hm
  exact ⟨x, pass, hx, h1⟩

theorem UInv.envStep1 {ρ : Nat → Nat → Nat} {ar : Nat → Nat} {σ : Nat → List (Nat × Nat)} {s : Sys} (hk : KInv ρ ar σ s)
    (hso : SpawnOnce s.prog) (w0 : Wid) (h : UInv s) : UInv (envStep1With Rules.current.combine s w0) := by
  have hwk := envStep1_wk Rules.current.combine s w0
  have hev := envStep1_evts Rules.current.combine s w0
  obtain ⟨hprog, hmono, hnew, _⟩ := envStep1_cmdSpec Rules.current.combine hk.wi.si.r w0
  -- scripts of the post-state: old ones, or the pid born from the head event
  have hsid : ∀ q f, Sid (envStep1With Rules.current.combine s w0) q f → Sid s q f ∨
      (q = s.env.nextPid ∧ ∃ c0 regs coloc rest, s.evtQ w0 = Evt.spawn c0 f regs coloc :: rest) := by
    rintro q f (⟨w, y, hy, hf⟩ | ⟨w, regs, hmem⟩)
    · exact Or.inl (Or.inl ⟨w, y, by rw [hwk] at hy; exact hy, hf⟩)
    · rcases hnew w _ hmem with h1 | h1 | ⟨c0, f', regs', coloc, rest, hq0, h1 | ⟨h1, _⟩⟩
      · exact Or.inl (Or.inr ⟨w, regs, h1⟩)
      · have := h1.1; simp [cmdCreate] at this
      · simp only [Cmd.spawn.injEq] at h1; obtain ⟨rfl, rfl, rfl⟩ := h1
        exact Or.inr ⟨rfl, c0, regs, coloc, rest, hq0⟩
      · cases h1
  have hinfl : ∀ f, InFlight (envStep1With Rules.current.combine s w0) f → InFlight s f :=
    fun f ⟨w, c, regs, co, hm⟩ => ⟨w, c, regs, co, hev w _ hm⟩
  have hhead : ∀ {f c0 regs coloc rest}, s.evtQ w0 = Evt.spawn c0 f regs coloc :: rest → InFlight s f :=
    fun {f c0 regs coloc rest} hq0 => ⟨w0, c0, regs, coloc, by rw [hq0]; simp⟩
  refine ⟨?_, ?_, ?_⟩
  · intro q q' f h1 h2
    rcases hsid q f h1 with a1 | ⟨rfl, c0, regs, coloc, rest, hq0⟩
    · rcases hsid q' f h2 with a2 | ⟨rfl, c0, regs, coloc, rest, hq0⟩
      · exact h.uniq q q' f a1 a2
      · exact absurd ⟨q, a1⟩ (h.excl f (hhead hq0))
    · rcases hsid q' f h2 with a2 | ⟨rfl, _⟩
      · exact absurd ⟨q', a2⟩ (h.excl f (hhead hq0))
      · rfl
  · intro f k j pass hsc hbi
    rw [hprog] at hsc
    have hold : Born s f ∨ InFlight s f := by
      rcases hbi with ⟨q, hq⟩ | hi
      · rcases hsid q f hq with a | ⟨_, c0, regs, coloc, rest, hq0⟩
        · exact Or.inl ⟨q, a⟩
        · exact Or.inr (hhead hq0)
      · exact Or.inr (hinfl f hi)
    obtain ⟨w, p, x, hx, hf, hp⟩ := h.parent f k j pass hsc hold
    exact ⟨w, p, x, by rw [hwk]; exact hx, hf, hp⟩
  · rintro f hi ⟨q, hq⟩
    rcases hsid q f hq with a | ⟨_, c0, regs0, coloc0, rest, hq0⟩
    · exact h.excl f (hinfl f hi) ⟨q, a⟩
    · -- a second SpawnAction for `f` would be in flight
      obtain ⟨w1, c1, regs1, co1, hm1⟩ := hi
      rw [envStep1_evtQ _ s w0 _ rest hq0] at hm1
      have hm1s : Evt.spawn c1 f regs1 co1 ∈ s.evtQ w1 := mem_upd_tail hq0 hm1
      have hm0s : Evt.spawn c0 f regs0 coloc0 ∈ s.evtQ w0 := by rw [hq0]; simp
      obtain ⟨x0, pass0, hx0, hs0⟩ := spawn_evt_caller hk hm0s
      obtain ⟨x1, pass1, hx1, hs1⟩ := spawn_evt_caller hk hm1s
      obtain ⟨ek, _⟩ := hso.once _ _ _ _ _ _ _ hs0 hs1
      have hc : c0 = c1 := h.uniq c0 c1 x0.fn (Or.inl ⟨w0, x0, hx0, rfl⟩) (Or.inl ⟨w1, x1, hx1, ek.symm⟩)
      subst hc
      have r0 := hk.wi.si.r.placed w0 c0 (by simp [known, hx0])
      have r1 := hk.wi.si.r.placed w1 c0 (by simp [known, hx1])
      rw [r0] at r1; simp only [Option.some.injEq] at r1; subst r1
      have hrest : Evt.spawn c0 f regs1 co1 ∈ rest := by simpa using hm1
      have hsp := hk.wi.pair w0 c0
      rw [hq0, List.countP_cons] at hsp
      simp only [isSpawnEvt, decide_true, if_true] at hsp
      have hpos : 0 < rest.countP (isSpawnEvt c0) := by
        rw [List.countP_pos_iff]; exact ⟨_, hrest, by simp [isSpawnEvt]⟩
      have hle : (if c0 ∈ (s.wk w0).spawning then 1 else 0) ≤ 1 := by split <;> omega
      omega

theorem sid_back_cmdStep {s : Sys} (hs : SInv s) (i : Wid) : ∀ q f, Sid (cmdStep1With Rules.current s i) q f → Sid s q f := by
  unfold cmdStep1With
  split
  · exact fun _ _ h => h
  · rename_i c rest hq
    have hhead : c ∈ s.cmdQ i := by rw [hq]; simp
    have hok := hs.r.cmds i c hhead
    have hf := handleCmd_frame Rules.current { s with cmdQ := upd s.cmdQ i rest } i c
    have hcb := cmd_back (s := { s with cmdQ := upd s.cmdQ i rest }) i c
      (fun p fn e => by subst e; exact hok.elim) (fun p e => by subst e; exact hok.elim)
    obtain ⟨hcq, _, _, _, _, hoth⟩ := hf
    apply Sid.back_of
    · intro w p x' hx'
      by_cases e : w = i
      · subst e
        rcases hcb p x' hx' with ⟨x, hx, e1, _⟩ | ⟨x, q, _, hx, e1, _⟩ | ⟨f, regs, hc, e1, _⟩
        · exact Or.inl ⟨x, hx, e1⟩
        · exact Or.inl ⟨x, hx, e1⟩
        · subst hc; rw [e1]; exact Or.inr (Or.inr ⟨w, regs, hhead⟩)
      · rw [(hoth w e).1] at hx'
        exact Or.inl ⟨x', hx', rfl⟩
    · intro w c' hc'; rw [hcq] at hc'; exact mem_upd_tail hq hc'

theorem sid_back_exec (ρ : Nat → Nat → Nat) (s : Sys) (i : Wid) (fuel : Nat) (ordQ : List Pid) :
    ∀ q f, Sid (QM.Sys.execStep s i fuel ordQ) q f → Sid s q f := by
  obtain ⟨hcmd, _, _, _, _, _, hoth⟩ := execStep_frame s i fuel ordQ
  obtain ⟨news, _, _, hprocs⟩ := exec_sends ρ s i fuel ordQ
  apply Sid.back_of
  · intro w p x' hx'
    by_cases e : w = i
    · subst e
      obtain ⟨x, hx, e1, _⟩ := hprocs p x' hx'
      exact Or.inl ⟨x, hx, e1⟩
    · rw [(hoth w e).1] at hx'; exact Or.inl ⟨x', hx', rfl⟩
  · intro w c hc; rw [hcmd] at hc; exact hc

theorem UInv.cmdStep1 {s : Sys} (hs : SInv s) (i : Wid) (h : UInv s) : UInv (cmdStep1With Rules.current s i) := by
  refine h.step_quiet (microStep_prog Rules.current s (.cmd i)) (adv_micro hs (.cmd i)) (sid_back_cmdStep hs i) ?_
  intro w c f regs co hm
  revert hm
  unfold cmdStep1With
  split
  · exact id
  · rename_i c0 rest hq
    intro hm
    rcases handleCmd_evts_nospawn Rules.current { s with cmdQ := upd s.cmdQ i rest } i c0 w _ hm with h1 | h1
    · exact h1
    · exact absurd rfl (h1 c f regs co)

theorem UInv.checkStep {s : Sys} (hs : SInv s) (i : Wid) (ordE : List Pid) (h : UInv s) : UInv (QM.Sys.checkStep s i ordE) := by
  have hc := CheckRel.checkStep s i ordE
  have he := CheckEv.checkStep s i ordE
  have hprocs : ∀ w, ((QM.Sys.checkStep s i ordE).wk w).procs = (s.wk w).procs := by
    intro w
    by_cases e : w = i
    · subst e; exact hc.procs
    · rw [hc.wkOther w e]
  refine h.step_quiet he.prog (adv_micro hs (.check i ordE))
    (Sid.back_of (fun w p x' hx' => Or.inl ⟨x', by rw [hprocs] at hx'; exact hx', rfl⟩)
      (fun w c hcm => by rw [hc.cmdQ] at hcm; exact hcm)) ?_
  intro w c f regs co hm
  obtain ⟨evs, hevs, hck⟩ := he.evs
  rw [hevs] at hm
  simp only [upd_apply] at hm
  split at hm
  · rename_i e; subst e
    rcases List.mem_append.mp hm with h1 | h1
    · exact h1
    · rcases hck _ h1 with ⟨_, _, _, h2⟩ | ⟨_, _, h2⟩ <;> cases h2
  · exact hm

theorem UInv.execStep {ρ : Nat → Nat → Nat} {ar : Nat → Nat} {σ : Nat → List (Nat × Nat)} {s : Sys} (hk : KInv ρ ar σ s)
    (hso : SpawnOnce s.prog) (i : Wid) (fuel : Nat) (ordQ : List Pid) (h : UInv s) : UInv (QM.Sys.execStep s i fuel ordQ) := by
  have hadv := adv_micro hk.wi.si (.exec i fuel ordQ)
  have hback := sid_back_exec ρ s i fuel ordQ
  obtain ⟨_, _, hprog, _, _, _, hoth⟩ := execStep_frame s i fuel ordQ
  obtain ⟨_, hevs⟩ := exec_adv s i fuel ordQ
  change ∀ w, AdvKeep (s.wk w) ((QM.Sys.execStep s i fuel ordQ).wk w) at hadv
  generalize QM.Sys.execStep s i fuel ordQ = s' at *
  have hb : ∀ f, Born s' f → Born s f := fun f ⟨q, hq⟩ => ⟨q, hback q f hq⟩
  -- a SpawnAction in flight afterwards: an old one, or issued in this step
  have hinfl : ∀ f, InFlight s' f → InFlight s f ∨
      ∃ cur x x' pass, (s.wk i).procs cur = some x ∧ (s'.wk i).procs cur = some x' ∧ x'.fn = x.fn ∧ x.spawnIssued = false ∧
        x.pc ≤ x'.pc ∧ x'.spawnIssued = true ∧ (s.prog.getD x.fn [])[x'.pc]? = some (Act.spawn f pass) := by
    rintro f ⟨w, c, regs, co, hm⟩
    by_cases e : w = i
    · subst e
      rcases hevs _ hm with h1 | h1 | ⟨cur, x, x', f', regs', pass, he, g1, g2, g3, g4, g5, g6, g7⟩
      · exact Or.inl ⟨w, c, regs, co, h1⟩
      · exact absurd rfl (h1 c f regs co)
      · simp only [Evt.spawn.injEq] at he
        obtain ⟨_, rfl, _, _⟩ := he
        exact Or.inr ⟨cur, x, x', pass, g1, g2, g3, g4, g5, g6, g7⟩
    · rw [(hoth w e).2] at hm; exact Or.inl ⟨w, c, regs, co, hm⟩
  refine ⟨fun q q' f h1 h2 => h.uniq q q' f (hback q f h1) (hback q' f h2), ?_, ?_⟩
  · intro f k j pass hsc hbi
    rw [hprog] at hsc
    have hold : (Born s f ∨ InFlight s f) → ∃ w p x, (s'.wk w).procs p = some x ∧ x.fn = k ∧ (j < x.pc ∨ (x.pc = j ∧ x.spawnIssued = true)) := by
      intro ho
      obtain ⟨w, p, x, hx, hf, hp⟩ := h.parent f k j pass hsc ho
      obtain ⟨x', hx', ha⟩ := hadv w p x hx
      exact ⟨w, p, x', hx', ha.1.trans hf, parent_adv ha hp⟩
    rcases hbi with hbn | hi
    · exact hold (Or.inl (hb f hbn))
    · rcases hinfl f hi with h1 | ⟨cur, x, x', pass', g1, g2, g3, g4, g5, g6, g7⟩
      · exact hold (Or.inr h1)
      · obtain ⟨ek, ej⟩ := hso.once _ _ _ _ _ _ _ hsc g7
        exact ⟨i, cur, x', g2, by rw [g3, ek], Or.inr ⟨ej.symm, g6⟩⟩
  · intro f hi hbn
    have hbs := hb f hbn
    rcases hinfl f hi with h1 | ⟨cur, x, x', pass', g1, g2, g3, g4, g5, g6, g7⟩
    · exact h.excl f h1 hbs
    · obtain ⟨w, p, xp, hxp, hf, hp⟩ := h.parent f x.fn x'.pc pass' g7 (Or.inl hbs)
      have hpc : p = cur := h.uniq p cur x.fn (Or.inl ⟨w, xp, hxp, hf⟩) (Or.inl ⟨i, x, g1, rfl⟩)
      subst hpc
      have r0 := hk.wi.si.r.placed w p (by simp [known, hxp])
      have r1 := hk.wi.si.r.placed i p (by simp [known, g1])
      rw [r0] at r1; simp only [Option.some.injEq] at r1; subst r1
      rw [g1] at hxp; simp only [Option.some.injEq] at hxp; subst hxp
      rcases hp with hp | ⟨_, hi'⟩
      · omega
      · rw [g4] at hi'; cases hi'

theorem UInv.micro {ρ : Nat → Nat → Nat} {ar : Nat → Nat} {σ : Nat → List (Nat × Nat)} {s : Sys} (hk : KInv ρ ar σ s)
    (hso : SpawnOnce s.prog) (m : Micro) (h : UInv s) : UInv (microStep Rules.current s m) := by
  cases m with
  | env w => exact h.envStep1 hk hso w
  | cmd i => exact h.cmdStep1 hk.wi.si i
  | exec i fuel ordQ => exact h.execStep hk hso i fuel ordQ
  | check i ordE => exact h.checkStep hk.wi.si i ordE
  | tick ms => exact h.step_quiet rfl (fun w => AdvKeep.refl _) (fun _ _ h => h) (fun _ _ _ _ _ h => h)

theorem UInv.of_started {s : Sys} (h : Started s) (hso : SpawnOnce s.prog) : UInv s := by
  have hcmd : ∀ w c, c ∈ s.cmdQ w → c = .misc ∨ ∃ r p, c = .getResult r p := by
    intro w c hc
    by_cases ew : w = 0
    · subst ew
      obtain ⟨req, hq⟩ := h.cmd0
      rw [hq] at hc; simp at hc
      exact Or.inr ⟨req, 0, hc⟩
    · exact Or.inl (h.cmdOther w ew c hc)
  have hsid : ∀ q f, Sid s q f → q = 0 ∧ f = 0 := by
    rintro q f (⟨w, y, hy, hf⟩ | ⟨w, regs, hm⟩)
    · rw [h.procs] at hy
      split at hy
      · rename_i hwp
        simp only [Option.some.injEq] at hy; subst hy
        exact ⟨hwp.2, hf.symm⟩
      · cases hy
    · rcases hcmd w _ hm with h1 | ⟨_, _, h1⟩ <;> cases h1
  have hnofl : ∀ f, ¬ InFlight s f := by
    rintro f ⟨w, c, regs, co, hm⟩
    rw [h.evtQ w] at hm; cases hm
  refine ⟨fun q q' f h1 h2 => by rw [(hsid q f h1).1, (hsid q' f h2).1], ?_, fun f hi => absurd hi (hnofl f)⟩
  intro f k j pass hsc hbi
  rcases hbi with ⟨q, hq⟩ | hi
  · obtain ⟨_, rfl⟩ := hsid q f hq
    exact absurd hsc (hso.main k j pass)
  · exact absurd hi (hnofl f)

/-- **The Kahn invariant of the confluent class from static hypotheses only**: a script table with
a register typing, one sender script per mailbox and every script spawned at one place
(`SpawnOnce`): in every reachable state every process's history is the trace of its script over the
static stream of its mailbox; no script is run by two pids; arrivals follow the static streams. -/
theorem kahn_invariant_static (ρ : Nat → Nat → Nat) (ar : Nat → Nat) (snd : Nat → Nat) (n : Nat) (prog : Prog) (req : Nat)
    (hn : 0 < n) (hwf : ProgWF prog) (hty : RegTyping prog ρ ar) (htab : SingleSenderTable prog ρ ar snd) (hso : SpawnOnce prog)
    (cs : List Choice) :
    PreStart (run (Sys.init n prog req) cs) ∨
      (KInv ρ ar (streamOf prog ρ snd) (run (Sys.init n prog req) cs) ∧ StreamOK (streamOf prog ρ snd) (run (Sys.init n prog req) cs) ∧
        Uniq (run (Sys.init n prog req) cs)) := by
  have key := invariant_from_init Rules.current
    (fun s => SInv s ∧ DInv s ∧ (s.prog = prog →
      KInv ρ ar (streamOf prog ρ snd) s ∧ MInv ρ snd s ∧ StreamOK (streamOf prog ρ snd) s ∧ UInv s))
    (fun s hs => ⟨SInv.of_started hs, DInv.of_started hs, fun hp =>
      ⟨KInv.of_started hs (hp ▸ hty), MInv.of_started hs, by
        intro w p x _ _; rw [hs.appended]; simp, UInv.of_started hs (hp ▸ hso)⟩⟩)
    (fun s m ⟨hsi, hdi, hk⟩ => by
      have hprog := microStep_prog Rules.current s m
      have hsi' := hsi.micro Rules.current_sane m
      have hdi' := hdi.micro Rules.current_tame m
      refine ⟨hsi', hdi', fun hp => ?_⟩
      have hp0 : s.prog = prog := hprog.symm.trans hp
      obtain ⟨hk1, hm1, _, hu1⟩ := hk hp0
      have hu' : UInv (microStep Rules.current s m) := hu1.micro hk1 (hp0 ▸ hso) m
      have hm' : MInv ρ snd (microStep Rules.current s m) := hm1.micro hk1 (hp0 ▸ htab) m hu'.uniq
      have hsd' : StreamOK (streamOf prog ρ snd) (microStep Rules.current s m) := by
        have := streamOK_of hsi' hdi' hu'.uniq hm'
        rw [hp] at this; exact this
      exact ⟨hk1.micro m hsd', hm', hsd', hu'⟩) n prog req hn hwf cs
  rcases key with h | ⟨_, _, h⟩
  · exact Or.inl h
  · obtain ⟨h1, _, h3, h4⟩ := h (run_prog _ _ _)
    exact Or.inr ⟨h1, h3, h4.uniq⟩

end QM.Sys
