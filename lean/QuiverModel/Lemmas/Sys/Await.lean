import QuiverModel.Lemmas.Sys.Wake
/-
The environment's answer collection (`pending_awaits.responses`): with MERGED answers
(`mergeAnswer`, the code after b8eb814) handling a further ProcessResults event of a worker never
loses a result that worker (or any other) has already contributed; it stays in `responses` or leaves
in the UpdateAwaitResults command.  (`C04.replace_loses_await_answer` shows the replace variant does.)
-/
namespace QM.Sys
set_option linter.unusedSectionVars false
variable [Cfg]

theorem alookup_mem {β : Type} : ∀ {l : List (Nat × β)} {k : Nat} {v : β}, alookup l k = some v → (k, v) ∈ l
  | [], _, _, h => by simp [alookup] at h
  | (k', v') :: rest, k, v, h => by
    unfold alookup at h
    split at h
    · rename_i e; subst e; cases h; simp
    · exact List.mem_cons_of_mem _ (alookup_mem h)

theorem alookup_aextend_of_none {β : Type} : ∀ (more m : List (Nat × β)) (t : Nat), alookup more t = none →
    alookup (aextend m more) t = alookup m t
  | [], m, t, _ => rfl
  | (k, v) :: more, m, t, h => by
    unfold alookup at h
    split at h
    · cases h
    · rename_i hne
      show alookup (aextend (ainsert m k v) more) t = _
      rw [alookup_aextend_of_none more (ainsert m k v) t h, alookup_ainsert]
      simp [hne]

/-- what the pending entry of `a` holds for target `t` from worker `w0` -/
def pendingHas (s : Sys) (a : Pid) (w0 : Wid) (t : Pid) (r : Res) : Prop :=
  ∃ pa rs, s.env.pending a = some pa ∧ alookup pa.responses w0 = some rs ∧ alookup rs t = some (some r)

/-- **Merged answers keep what was collected.**  If the pending await of `a` holds the result `r`
of `t` (contributed by worker `w0`) and a further answer `new` arrives that does not speak about
`t`, then afterwards the pending entry still holds it, or it has left in an UpdateAwaitResults
command for `a`. -/
theorem merge_keeps_collected (s : Sys) (a : Pid) (new : Results) (w0 : Wid) (t : Pid) (r : Res)
    (hrouted : (s.env.router a).isSome) (hhas : pendingHas s a w0 t r) (hnew : alookup new t = none) :
    pendingHas (handleProcResultsWith mergeAnswer s a new) a w0 t r ∨
    ∃ aw rs, Cmd.updateAwait a rs ∈ (handleProcResultsWith mergeAnswer s a new).cmdQ aw ∧ (t, some r) ∈ rs := by
  obtain ⟨pa, rs0, hp, hl0, hl1⟩ := hhas
  unfold handleProcResultsWith
  simp only [hp]
  cases hra : s.env.router a with
  | none => rw [hra] at hrouted; cases hrouted
  | some aw =>
    have hnone : pendingHas s a w0 t r := ⟨pa, rs0, hp, hl0, hl1⟩
    cases hnew' : new with
    | nil => dsimp only; exact Or.inl hnone
    | cons kv more =>
      obtain ⟨k, v⟩ := kv
      dsimp only
      cases hsender : s.env.router k with
      | none => dsimp only; exact Or.inl hnone
      | some w =>
        dsimp only
        rw [← hnew']
        -- the new responses table still holds the entry
        have hkeep : ∃ rs1, alookup (ainsert pa.responses w (mergeAnswer (alookup pa.responses w) new)) w0 = some rs1 ∧
            alookup rs1 t = some (some r) := by
          rw [alookup_ainsert]
          by_cases hw : w = w0
          · subst hw
            simp only [if_true]
            refine ⟨_, rfl, ?_⟩
            rw [hl0]
            show alookup (aextend rs0 new) t = _
            rw [alookup_aextend_of_none new rs0 t hnew]; exact hl1
          · simp only [hw, if_false]; exact ⟨rs0, hl0, hl1⟩
        obtain ⟨rs1, hk1, hk2⟩ := hkeep
        split
        · right
          refine ⟨aw, _, mem_pushCmd_self _ _ _, ?_⟩
          rw [List.mem_flatten]
          exact ⟨rs1, List.mem_map.mpr ⟨(w0, rs1), alookup_mem hk1, rfl⟩, alookup_mem hk2⟩
        · left
          exact ⟨{ expected := pa.expected.filter (· ≠ w), responses := ainsert pa.responses w (mergeAnswer (alookup pa.responses w) new) },
            rs1, by simp, hk1, hk2⟩

end QM.Sys
