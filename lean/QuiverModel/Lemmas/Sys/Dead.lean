import QuiverModel.Lemmas.Sys.Live
/-!
M-Sys, the ghost histories `appended` and `deadDropped`.

`appended` lists what `notify_message` has handled for a process its worker knows, in order.  At
HEAD every such message is put into the mailbox.  With the variant `Cfg.releaseDead`
(notes/C06-fixes/01) a message for a receiver that can never receive it — failed, or finished and
not persistent — is handled but not stored; `deadDropped` lists exactly those.  This file proves,
for every `Cfg`:

* `deadDropped` stays empty while the variant is off;
* every entry of `deadDropped` is also in `appended`, and its receiver HAS a result (it finished
  before the message was handled, and results are stable);
* hence a process that has no result has lost nothing: every message handled for it is in its
  mailbox history.
-/
namespace QM.Sys
set_option linter.unusedSectionVars false
variable [Cfg]

/-! ### the ghost history `appended` -/

theorem envStep1_appended (combine) (s : Sys) (w : Wid) : (envStep1With combine s w).appended = s.appended := by
  unfold envStep1With
  split
  · rfl
  · rename_i e rest _
    cases e with
    | spawn c fn regs coloc => simp only [handleEventWith, handleSpawn]; split <;> rfl
    | deliver t m => simp only [handleEventWith, handleDeliver]; split <;> rfl
    | await a ts =>
      simp only [handleEventWith, handleAwait]
      split
      · rfl
      · generalize targetWorkers s.env.router ts = ws
        have : ∀ (l : List Wid) (s0 : Sys) (g : Wid → Cmd), (l.foldl (fun acc w => acc.pushCmd w (g w)) s0).appended = s0.appended := by
          intro l
          induction l with
          | nil => intro s0 g; rfl
          | cons a l ih => intro s0 g; simp only [List.foldl_cons]; rw [ih]; rfl
        exact this _ _ _
    | procResults a rs =>
      simp only [handleEventWith, handleProcResultsWith]
      repeat' split
      all_goals rfl
    | resultResp req r => rfl
    | exited p => rfl

theorem handleCmd_appended (R : Rules) (s : Sys) (i : Wid) (c : Cmd) :
    (handleCmdWith R s i c).appended = s.appended ∨
    ∃ t m x, c = .deliver t m ∧ (s.wk i).procs t = some x ∧ (handleCmdWith R s i c).appended = s.appended ++ [(t, m)] := by
  cases c with
  | deliver t m =>
    cases hx : (s.wk i).procs t with
    | none => left; simp only [handleCmdWith, hx]; rfl
    | some x =>
      right; refine ⟨t, m, x, rfl, hx, ?_⟩
      simp only [handleCmdWith, hx]; split <;> rfl
  | _ => left; simp only [handleCmdWith] <;> (repeat' split) <;> rfl

theorem appended_mono_micro (s : Sys) (m : Micro) : s.appended <+: (microStep Rules.current s m).appended := by
  cases m with
  | env w0 => show s.appended <+: (envStep1With _ s w0).appended; rw [envStep1_appended]; exact List.prefix_refl _
  | tick ms => exact List.prefix_refl _
  | check i ordE => show s.appended <+: (QM.Sys.checkStep s i ordE).appended; rw [(Shape.checkStep s i ordE).appended]; exact List.prefix_refl _
  | exec i fuel ordQ => show s.appended <+: (QM.Sys.execStep s i fuel ordQ).appended; rw [(Shape.execStep s i fuel ordQ).appended]; exact List.prefix_refl _
  | cmd i =>
    show s.appended <+: (cmdStep1With Rules.current s i).appended
    unfold cmdStep1With
    split
    · exact List.prefix_refl _
    · rename_i c rest hq
      rcases handleCmd_appended Rules.current { s with cmdQ := upd s.cmdQ i rest } i c with h1 | ⟨t, m, x, _, _, h1⟩
      · rw [h1]; exact List.prefix_refl _
      · rw [h1]; exact List.prefix_append _ _


/-! ### the ghost history `deadDropped` -/

theorem envStep1_deadDropped (combine) (s : Sys) (w : Wid) : (envStep1With combine s w).deadDropped = s.deadDropped := by
  unfold envStep1With
  split
  · rfl
  · rename_i e rest _
    cases e with
    | spawn c fn regs coloc => simp only [handleEventWith, handleSpawn]; split <;> rfl
    | deliver t m => simp only [handleEventWith, handleDeliver]; split <;> rfl
    | await a ts =>
      simp only [handleEventWith, handleAwait]
      split
      · rfl
      · generalize targetWorkers s.env.router ts = ws
        have : ∀ (l : List Wid) (s0 : Sys) (g : Wid → Cmd), (l.foldl (fun acc w => acc.pushCmd w (g w)) s0).deadDropped = s0.deadDropped := by
          intro l
          induction l with
          | nil => intro s0 g; rfl
          | cons a l ih => intro s0 g; simp only [List.foldl_cons]; rw [ih]; rfl
        exact this _ _ _
    | procResults a rs =>
      simp only [handleEventWith, handleProcResultsWith]
      repeat' split
      all_goals rfl
    | resultResp req r => rfl
    | exited p => rfl

/-- a command leaves `deadDropped` alone — except a DeliverMessage, under the variant, for a known
process that can never receive: that one is recorded (and counted in `appended` as handled) -/
theorem handleCmd_deadDropped (R : Rules) (s : Sys) (i : Wid) (c : Cmd) :
    (handleCmdWith R s i c).deadDropped = s.deadDropped ∨
    ∃ t m x, c = .deliver t m ∧ (s.wk i).procs t = some x ∧ Cfg.releaseDead = true ∧ x.deliverable = false ∧
      (handleCmdWith R s i c).deadDropped = s.deadDropped ++ [(t, m)] ∧
      (handleCmdWith R s i c).appended = s.appended ++ [(t, m)] := by
  cases c with
  | deliver t m =>
    cases hx : (s.wk i).procs t with
    | none => left; simp only [handleCmdWith, hx]; rfl
    | some x =>
      by_cases hd : (Cfg.releaseDead && !x.deliverable) = true
      · right
        refine ⟨t, m, x, rfl, hx, ?_, ?_, ?_, ?_⟩
        · simp only [Bool.and_eq_true] at hd; exact hd.1
        · simp only [Bool.and_eq_true, Bool.not_eq_true'] at hd; exact hd.2
        · simp only [handleCmdWith, hx, hd, if_true]
        · simp only [handleCmdWith, hx, hd, if_true]
      · left; simp only [handleCmdWith, hx, hd, Bool.false_eq_true, if_false]; rfl
  | _ => left; simp only [handleCmdWith] <;> (repeat' split) <;> rfl

theorem deadDropped_micro (s : Sys) (m : Micro) :
    (microStep Rules.current s m).deadDropped = s.deadDropped ∨
    ∃ i t msg x, (s.wk i).procs t = some x ∧ Cfg.releaseDead = true ∧ x.deliverable = false ∧
      (microStep Rules.current s m).deadDropped = s.deadDropped ++ [(t, msg)] ∧
      (t, msg) ∈ (microStep Rules.current s m).appended := by
  cases m with
  | env w0 => left; exact envStep1_deadDropped _ s w0
  | tick ms => left; rfl
  | check i ordE => left; exact (Shape.checkStep s i ordE).deadDropped
  | exec i fuel ordQ => left; exact (Shape.execStep s i fuel ordQ).deadDropped
  | cmd i =>
    show (cmdStep1With Rules.current s i).deadDropped = s.deadDropped ∨ _
    show _ ∨ ∃ i' t msg x, (s.wk i').procs t = some x ∧ Cfg.releaseDead = true ∧ x.deliverable = false ∧
      (cmdStep1With Rules.current s i).deadDropped = s.deadDropped ++ [(t, msg)] ∧
      (t, msg) ∈ (cmdStep1With Rules.current s i).appended
    unfold cmdStep1With
    split
    · left; rfl
    · rename_i c rest hq
      rcases handleCmd_deadDropped Rules.current { s with cmdQ := upd s.cmdQ i rest } i c with h1 | ⟨t, m, x, _, hx, h2, h3, h4, h5⟩
      · left; exact h1
      · right; exact ⟨i, t, m, x, hx, h2, h3, h4, by rw [h5]; simp⟩

/-- a process that cannot receive has a result -/
theorem result_of_not_deliverable {x : Proc} (h : x.deliverable = false) : ∃ r, x.result = some r := by
  unfold Proc.deliverable at h
  cases hr : x.result with
  | none => rw [hr] at h; cases h
  | some r => exact ⟨r, rfl⟩

/-- the invariant about dropped messages -/
structure XInv (s : Sys) : Prop where
  si : SInv s
  /-- the receiver of a dropped message has a result: it had finished when the message was handled -/
  fin : ∀ e ∈ s.deadDropped, ∃ r, HasRes s e.1 r
  /-- at HEAD (variant off) nothing is dropped -/
  off : Cfg.releaseDead = false → s.deadDropped = []
  /-- a dropped message is one of the handled ones -/
  sub : ∀ e ∈ s.deadDropped, e ∈ s.appended

theorem XInv.of_started {s : Sys} (h : Started s) : XInv s :=
  ⟨SInv.of_started h, (by rw [h.deadDropped]; intro e he; cases he), fun _ => h.deadDropped,
    (by rw [h.deadDropped]; intro e he; cases he)⟩

theorem XInv.micro {s : Sys} (h : XInv s) (m : Micro) : XInv (microStep Rules.current s m) := by
  have hmono : ResMono s (microStep Rules.current s m) := ResMono.micro h.si m
  have happ : ∀ e ∈ s.appended, e ∈ (microStep Rules.current s m).appended :=
    fun e he => (appended_mono_micro s m).subset he
  refine ⟨h.si.micro Rules.current_sane m, ?_, ?_, ?_⟩
  · intro e he
    rcases deadDropped_micro s m with h1 | ⟨i, t, msg, x, hx, _, hnd, h1, _⟩
    · rw [h1] at he
      obtain ⟨r, hr⟩ := h.fin e he
      exact ⟨r, hr.mono hmono⟩
    · rw [h1] at he
      rcases List.mem_append.mp he with he | he
      · obtain ⟨r, hr⟩ := h.fin e he
        exact ⟨r, hr.mono hmono⟩
      · simp only [List.mem_singleton] at he; subst he
        obtain ⟨r, hr⟩ := result_of_not_deliverable hnd
        exact ⟨r, HasRes.mono hmono ⟨i, by simp [WorkerSt.resultOf, hx, hr]⟩⟩
  · intro hoff
    rcases deadDropped_micro s m with h1 | ⟨_, _, _, _, _, hon, _, _, _⟩
    · rw [h1]; exact h.off hoff
    · rw [hoff] at hon; cases hon
  · intro e he
    rcases deadDropped_micro s m with h1 | ⟨_, t, msg, _, _, _, _, h1, h2⟩
    · rw [h1] at he; exact happ e (h.sub e he)
    · rw [h1] at he
      rcases List.mem_append.mp he with he | he
      · exact happ e (h.sub e he)
      · simp only [List.mem_singleton] at he; subst he; exact h2

/-- a process without a result has lost nothing: no message addressed to it was dropped -/
theorem XInv.live_lost_nothing {s : Sys} (h : XInv s) {w : Wid} {b : Pid} {x : Proc}
    (hx : (s.wk w).procs b = some x) (hr : x.result = none) (m : Msg) : (b, m) ∉ s.deadDropped := by
  intro hm
  obtain ⟨r, w', hw'⟩ := h.fin (b, m) hm
  unfold WorkerSt.resultOf at hw'
  cases hy : (s.wk w').procs b with
  | none => rw [hy] at hw'; cases hw'
  | some y =>
    rw [hy] at hw'
    have r1 := h.si.r.placed w b (by unfold known; rw [hx]; rfl)
    have r2 := h.si.r.placed w' b (by unfold known; rw [hy]; rfl)
    rw [r1] at r2; simp only [Option.some.injEq] at r2; subst r2
    rw [hx] at hy; simp only [Option.some.injEq] at hy; subst hy
    simp only [hr] at hw'; cases hw'

end QM.Sys
