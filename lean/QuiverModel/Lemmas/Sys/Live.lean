import QuiverModel.Lemmas.Sys.Stored
/-!
M-Sys, "no process in limbo": every process that has no result is in one of the executor's three
scheduling sets (`queue`, `spawning`, `selecting`) — in every state reachable from `Sys.init`
(including the start-up phase), current rules.  With C04's idle theorems: in an idle system the
unfinished processes are exactly the ones parked in a select with no locally ready source.
-/
namespace QM.Sys
set_option linter.unusedSectionVars false
variable [Cfg]

/-- every unfinished process of the worker is scheduled -/
def WL (w : WorkerSt) : Prop := ∀ p x, w.procs p = some x → x.result = none → w.scheduled p

/-- … except possibly `cur` (the process the executor has just popped) -/
def WLx (w : WorkerSt) (cur : Pid) : Prop := ∀ p x, w.procs p = some x → x.result = none → p ≠ cur → w.scheduled p

theorem WL.congr {w w' : WorkerSt} (h : WL w) (hp : w'.procs = w.procs) (hs : ∀ p, w.scheduled p → w'.scheduled p) : WL w' :=
  fun p x hx hr => hs p (h p x (hp ▸ hx) hr)

theorem scheduled_wakeSelecting {w : WorkerSt} {q p : Pid} (h : w.scheduled p) : (w.wakeSelecting q).scheduled p := by
  unfold WorkerSt.wakeSelecting
  split
  · rename_i hq
    rcases h with h | h | h
    · exact Or.inl (by simp [h])
    · exact Or.inr (Or.inl h)
    · by_cases e : p = q
      · subst e; exact Or.inl (by simp)
      · exact Or.inr (Or.inr (mem_serase.mpr ⟨h, e⟩))
  · exact h

theorem WL.wakeSelecting {w : WorkerSt} (h : WL w) (q : Pid) : WL (w.wakeSelecting q) :=
  h.congr (by unfold WorkerSt.wakeSelecting; split <;> rfl) (fun _ hp => scheduled_wakeSelecting hp)

theorem WL.modProc {w : WorkerSt} (h : WL w) (q : Pid) (f : Proc → Proc) (hf : ∀ y, (f y).result = y.result) :
    WL (w.modProc q f) := by
  unfold WorkerSt.modProc
  split
  · rename_i y hy
    intro p x hx hr
    by_cases e : p = q
    · subst e
      simp only [upd_same, Option.some.injEq] at hx; subst hx
      exact h p y hy (by rw [← hf y]; exact hr)
    · simp only [upd_apply, e, if_false] at hx; exact h p x hx hr
  · exact h

theorem WL.notifyResult {w : WorkerSt} (h : WL w) (a t : Pid) (r : Res) : WL (w.notifyResult a t r) := by
  cases r with
  | ok v =>
    show WL (w.notifyResultOk a t v)
    unfold WorkerSt.notifyResultOk
    exact (h.modProc a _ (fun y => by split <;> rfl)).wakeSelecting a
  | err =>
    show WL (w.notifyFailure a t)
    unfold WorkerSt.notifyFailure
    split
    · split
      · refine WL.wakeSelecting (h.modProc a _ ?_) a
        intro y; rfl
      · exact h
    · exact h

theorem WL.applyResults (a : Pid) : ∀ (rs : Results) (w : WorkerSt), WL w → WL (applyResults w a rs)
  | [], _, h => h
  | (t0, some r) :: rest, w, h => by
    unfold QM.Sys.applyResults; exact WL.applyResults a rest _ (h.notifyResult a t0 r)
  | (t0, none) :: rest, w, h => by
    unfold QM.Sys.applyResults
    refine WL.applyResults a rest _ ?_
    unfold WorkerSt.notifyPending
    exact h.modProc a _ (fun y => rfl)

theorem WL.foldl {α : Type} (f : WorkerSt → α → WorkerSt) (hf : ∀ w a, WL w → WL (f w a)) :
    ∀ (l : List α) (w : WorkerSt), WL w → WL (l.foldl f w)
  | [], _, h => h
  | a :: l, w, h => WL.foldl f hf l (f w a) (hf w a h)

theorem WL.checkExpired {w : WorkerSt} (h : WL w) (prog : Prog) (now : Nat) (ordQ : List Pid) :
    WL (w.checkExpired prog now ordQ) := by
  refine h.congr rfl ?_
  intro p hp
  unfold WorkerSt.checkExpired
  dsimp only
  rcases hp with hp | hp | hp
  · exact Or.inl (by simp [hp])
  · exact Or.inr (Or.inl hp)
  · by_cases e : p ∈ orderBy ordQ (w.expired prog now)
    · exact Or.inl (by simp [e])
    · exact Or.inr (Or.inr (by simp [hp, e]))

theorem queryTargets_sets (a : Pid) : ∀ (ts : List Pid) (w : WorkerSt),
    (queryTargets w a ts).1.queue = w.queue ∧ (queryTargets w a ts).1.selecting = w.selecting ∧
    (queryTargets w a ts).1.spawning = w.spawning
  | [], w => ⟨rfl, rfl, rfl⟩
  | t :: rest, w => by
    unfold queryTargets
    split
    · exact queryTargets_sets a rest w
    · exact queryTargets_sets a rest _

theorem WL.release {w : WorkerSt} (h : WL w) (cur : Pid) : WL (w.release cur) := by
  unfold WorkerSt.release; split
  · exact h.modProc cur _ releaseDead_result
  · exact h

/-- the finished branch: `cur` gets a result, the others keep their place -/
theorem WLx.finish {w : WorkerSt} {cur : Pid} (h : WLx w cur) (x : Proc) (ordQ : List Pid) : WL (w.finish cur x ordQ) := by
  unfold WorkerSt.finish
  dsimp only
  apply WL.release
  apply WL.foldl _ (fun w' a hw' => hw'.notifyResult a cur _)
  intro p y hy hr
  by_cases e : p = cur
  · subst e; simp only [upd_same, Option.some.injEq] at hy; subst hy; simp at hr
  · simp only [upd_apply, e, if_false] at hy; exact h p y hy hr e

theorem WLx.close {w w' : WorkerSt} {cur : Pid} (h : WLx w cur) {x' : Proc} (hp : w'.procs = upd w.procs cur (some x'))
    (hs : ∀ p, w.scheduled p → w'.scheduled p) (hc : w'.scheduled cur) : WL w' := by
  intro p y hy hr
  rw [hp] at hy
  by_cases e : p = cur
  · subst e; exact hc
  · simp only [upd_apply, e, if_false] at hy; exact hs p (h p y hy hr e)

/-- the system-level statement -/
def LInv (s : Sys) : Prop := ∀ w, WL (s.wk w)

theorem LInv.setWk {s : Sys} (h : LInv s) {i : Wid} {x : WorkerSt} (hx : WL x) : LInv (s.setWk i x) := by
  intro w
  by_cases e : w = i
  · subst e; simpa using hx
  · simp only [setWk_wk, upd_apply, e, if_false]; exact h w

theorem LInv.of_wk {s s' : Sys} (h : LInv s) (hw : s'.wk = s.wk) : LInv s' := fun w => by rw [hw]; exact h w

theorem LInv.handleCmd {s : Sys} (h : LInv s) (i : Wid) (c : Cmd) : LInv (handleCmdWith Rules.current s i c) := by
  have hi := h i
  cases c with
  | misc => exact h
  | start p =>
    simp only [handleCmdWith]
    apply h.setWk
    intro q y hy hr
    by_cases e : q = p
    · subst e; simp [WorkerSt.setProc, Proc.sleeping, Proc.fresh] at hy; subst hy; simp at hr
    · simp only [WorkerSt.setProc, upd_apply, e, if_false] at hy; exact hi q y hy hr
  | resume p fn =>
    simp only [handleCmdWith]
    repeat' split
    all_goals first
      | exact h.of_wk rfl
      | (apply h.setWk
         intro q y hy hr
         by_cases e : q = p
         · subst e; exact Or.inl (by simp)
         · simp only [upd_apply, e, if_false] at hy
           rcases hi q y hy hr with h1 | h1 | h1
           · exact Or.inl (by simp [h1])
           · exact Or.inr (Or.inl h1)
           · exact Or.inr (Or.inr h1))
  | spawn p fn regs =>
    simp only [handleCmdWith]
    split
    · exact h.of_wk rfl
    · apply h.setWk
      intro q y hy hr
      by_cases e : q = p
      · subst e; exact Or.inl (by simp)
      · simp only [WorkerSt.setProc, upd_apply, e, if_false] at hy
        rcases hi q y hy hr with h1 | h1 | h1
        · exact Or.inl (by simp [h1])
        · exact Or.inr (Or.inl h1)
        · exact Or.inr (Or.inr h1)
  | notifySpawn caller newPid =>
    cases hx : (s.wk i).procs caller with
    | none =>
      simp only [handleCmdWith, hx]
      have : LInv (s.setWk i { s.wk i with spawning := serase (s.wk i).spawning caller }) := by
        apply h.setWk
        intro q y hy hr
        have hq : q ≠ caller := by intro e; subst e; rw [hx] at hy; cases hy
        rcases hi q y hy hr with h1 | h1 | h1
        · exact Or.inl h1
        · exact Or.inr (Or.inl (mem_serase.mpr ⟨h1, hq⟩))
        · exact Or.inr (Or.inr h1)
      exact this.of_wk rfl
    | some x =>
      simp only [handleCmdWith, hx]
      have key : ∀ (w' : WorkerSt), w'.procs = upd (s.wk i).procs caller (some { x with regs := x.regs ++ [newPid], pc := x.pc + 1, spawnIssued := false }) →
          (∀ q, q ≠ caller → (s.wk i).scheduled q → w'.scheduled q) →
          ((s.wk i).scheduled caller → w'.scheduled caller) → WL w' := by
        intro w' hp h1 h2 q y hy hr
        rw [hp] at hy
        by_cases e : q = caller
        · subst e
          simp only [upd_same, Option.some.injEq] at hy; subst hy
          exact h2 (hi q x hx hr)
        · simp only [upd_apply, e, if_false] at hy
          exact h1 q e (hi q y hy hr)
      split
      · rename_i hwas
        refine (h.setWk (key _ rfl ?_ ?_)).of_wk rfl
        · intro q hq hs
          rcases hs with h1 | h1 | h1
          · exact Or.inl (by simp [h1])
          · exact Or.inr (Or.inl (mem_serase.mpr ⟨h1, hq⟩))
          · exact Or.inr (Or.inr h1)
        · intro _; exact Or.inl (by simp)
      · rename_i hwas
        have hnot : caller ∉ (s.wk i).spawning := by simpa using hwas
        refine (h.setWk (key _ rfl ?_ ?_)).of_wk rfl
        · intro q hq hs
          rcases hs with h1 | h1 | h1
          · exact Or.inl h1
          · exact Or.inr (Or.inl (mem_serase.mpr ⟨h1, hq⟩))
          · exact Or.inr (Or.inr h1)
        · intro hs
          rcases hs with h1 | h1 | h1
          · exact Or.inl h1
          · exact absurd h1 hnot
          · exact Or.inr (Or.inr h1)
  | deliver t m =>
    cases hx : (s.wk i).procs t with
    | none =>
      simp only [handleCmdWith, hx]
      exact (h.setWk (hi.wakeSelecting t)).of_wk rfl
    | some x =>
      by_cases hd : (Cfg.releaseDead && !x.deliverable) = true
      · simp only [handleCmdWith, hx, hd, if_true]
        exact (h.setWk (hi.wakeSelecting t)).of_wk rfl
      simp only [handleCmdWith, hx, hd, Bool.false_eq_true, if_false]
      refine (h.setWk (WL.wakeSelecting ?_ t)).of_wk rfl
      intro q y hy hr
      by_cases e : q = t
      · subst e; simp only [upd_same, Option.some.injEq] at hy; subst hy; exact hi q x hx hr
      · simp only [upd_apply, e, if_false] at hy; exact hi q y hy hr
  | queryAwait a ts =>
    simp only [handleCmdWith]
    refine ((h.setWk (x := (queryTargets (s.wk i) a ts).1) ?_).of_wk rfl).of_wk rfl
    refine hi.congr (queryTargets_spec a ts (s.wk i)).1 ?_
    intro p hp
    unfold WorkerSt.scheduled
    rw [(queryTargets_sets a ts _).1, (queryTargets_sets a ts _).2.1, (queryTargets_sets a ts _).2.2]
    exact hp
  | updateAwait a rs =>
    simp only [handleCmdWith, Rules.current, Bool.false_and, Bool.false_eq_true, if_false]
    exact (h.setWk ((WL.applyResults a rs _ hi).wakeSelecting a)).of_wk rfl
  | getResult req p =>
    simp only [handleCmdWith]
    repeat' split
    all_goals first
      | exact h.of_wk rfl
      | (apply h.setWk; exact hi.congr rfl (fun _ hp => hp))

theorem LInv.execStep {s : Sys} (h : LInv s) (i : Wid) (fuel : Nat) (ordQ : List Pid) :
    LInv (QM.Sys.execStep s i fuel ordQ) := by
  unfold QM.Sys.execStep
  dsimp only
  have h0 : WL ((s.wk i).checkExpired s.prog s.now ordQ) := (h i).checkExpired _ _ _
  generalize (s.wk i).checkExpired s.prog s.now ordQ = w0 at h0 ⊢
  split
  · exact h.setWk h0
  · rename_i cur rest hq
    have hx0 : WLx { w0 with queue := rest } cur := by
      intro p y hy hr hne
      rcases h0 p y hy hr with h1 | h1 | h1
      · rw [hq] at h1
        rcases List.mem_cons.mp h1 with h2 | h2
        · exact absurd h2 hne
        · exact Or.inl h2
      · exact Or.inr (Or.inl h1)
      · exact Or.inr (Or.inr h1)
    split
    · rename_i hnone
      apply h.setWk
      intro p y hy hr
      have hne : p ≠ cur := by intro e; subst e; rw [hnone] at hy; cases hy
      exact hx0 p y hy hr hne
    · rename_i x hx
      split
      · exact (h.setWk (i := i) (hx0.finish x ordQ)).of_wk (noteExit_wk _ _ _ _)
      · generalize slice s.prog s.now cur fuel x = r
        obtain ⟨x', out⟩ := r
        dsimp only
        have hx1 : WLx { w0 with queue := rest, procs := upd w0.procs cur (some x') } cur := by
          intro p y hy hr hne
          simp only [upd_apply, hne, if_false] at hy
          exact hx0 p y hy hr hne
        cases out with
        | cont =>
          refine h.setWk (hx0.close (x' := x') rfl ?_ (Or.inl (by simp)))
          intro p hp; rcases hp with h1 | h1 | h1
          · exact Or.inl (by simp [h1])
          · exact Or.inr (Or.inl h1)
          · exact Or.inr (Or.inr h1)
        | send t m =>
          refine LInv.of_wk (h.setWk (hx0.close (x' := x') rfl ?_ (Or.inl (by simp)))) rfl
          intro p hp; rcases hp with h1 | h1 | h1
          · exact Or.inl (by simp [h1])
          · exact Or.inr (Or.inl h1)
          · exact Or.inr (Or.inr h1)
        | spawn fn regs =>
          refine LInv.of_wk (h.setWk (hx0.close (x' := x') rfl ?_ (Or.inr (Or.inl (mem_sinsert.mpr (Or.inr rfl)))))) rfl
          intro p hp; rcases hp with h1 | h1 | h1
          · exact Or.inl h1
          · exact Or.inr (Or.inl (mem_sinsert.mpr (Or.inl h1)))
          · exact Or.inr (Or.inr h1)
        | awaitInit ts =>
          refine LInv.of_wk (h.setWk (hx0.close (x' := x') rfl ?_ (Or.inr (Or.inr (mem_sinsert.mpr (Or.inr rfl)))))) rfl
          intro p hp; rcases hp with h1 | h1 | h1
          · exact Or.inl h1
          · exact Or.inr (Or.inl h1)
          · exact Or.inr (Or.inr (mem_sinsert.mpr (Or.inl h1)))
        | blocked =>
          refine h.setWk (hx0.close (x' := x') rfl ?_ (Or.inr (Or.inr (mem_sinsert.mpr (Or.inr rfl)))))
          intro p hp; rcases hp with h1 | h1 | h1
          · exact Or.inl h1
          · exact Or.inr (Or.inl h1)
          · exact Or.inr (Or.inr (mem_sinsert.mpr (Or.inl h1)))
        | failed => exact (h.setWk (i := i) (hx1.finish x' ordQ)).of_wk (noteExit_wk _ _ _ _)
        | done => exact (h.setWk (i := i) (hx1.finish x' ordQ)).of_wk (noteExit_wk _ _ _ _)

theorem LInv.micro {s : Sys} (h : LInv s) (m : Micro) : LInv (microStep Rules.current s m) := by
  cases m with
  | env w => exact h.of_wk (envStep1_wk _ s w)
  | cmd i =>
    show LInv (cmdStep1With Rules.current s i)
    unfold cmdStep1With
    split
    · exact h
    · rename_i c rest hq
      exact LInv.handleCmd (s := { s with cmdQ := upd s.cmdQ i rest }) (h.of_wk rfl) i c
  | exec i fuel ordQ => exact h.execStep i fuel ordQ
  | check i ordE =>
    have hc := CheckRel.checkStep s i ordE
    intro w
    by_cases e : w = i
    · subst e
      refine (h w).congr hc.procs ?_
      intro p hp
      show p ∈ ((QM.Sys.checkStep s w ordE).wk w).queue ∨ p ∈ ((QM.Sys.checkStep s w ordE).wk w).spawning ∨
        p ∈ ((QM.Sys.checkStep s w ordE).wk w).selecting
      rw [hc.queue, hc.spawning, hc.selecting]; exact hp
    · show WL ((QM.Sys.checkStep s i ordE).wk w)
      rw [hc.wkOther w e]; exact h w
  | tick ms => exact h.of_wk rfl

theorem LInv.init (n : Nat) (prog : Prog) (req : Nat) : LInv (Sys.init n prog req) := by
  intro w p x hx hr
  simp only [Sys.init] at hx
  by_cases e : w = 0
  · subst e
    simp only [upd_same, WorkerSt.setProc, WorkerSt.empty, upd_apply] at hx
    split at hx
    · simp only [Option.some.injEq] at hx; subst hx; simp [Proc.sleeping, Proc.fresh] at hr
    · cases hx
  · simp [upd_apply, e, WorkerSt.empty] at hx

/-- **No process in limbo**: in every reachable state (any choices) a process without a result is
in `queue`, `spawning` or `selecting` of its executor. -/
theorem no_limbo (n : Nat) (prog : Prog) (req : Nat) (cs : List Choice) : LInv (run (Sys.init n prog req) cs) :=
  run_invariant Rules.current LInv (fun _ m h => h.micro m) cs _ (LInv.init n prog req)

end QM.Sys
