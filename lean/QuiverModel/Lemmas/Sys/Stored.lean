import QuiverModel.Lemmas.Sys.Faithful
/-
The await answer chain is faithful end to end (`TInv`): every result carried by the pending entry
of an awaiter, by an UpdateAwaitResults command, or stored in a process's `awaiting` map is the
actual (and, by `ResMono`, permanent) result of that target.
-/
namespace QM.Sys
set_option linter.unusedSectionVars false
variable [Cfg]

/-- process `t` has result `r` (on some worker) -/
def HasRes (s : Sys) (t : Pid) (r : Res) : Prop := ∃ w, (s.wk w).resultOf t = some r

theorem HasRes.mono {s s' : Sys} (hm : ResMono s s') {t : Pid} {r : Res} (h : HasRes s t r) : HasRes s' t r := by
  obtain ⟨w, hw⟩ := h; exact ⟨w, hm w t r hw⟩

/-- every stored `some v` of `w'` was already stored in `w`, or comes from `extra` -/
def AwFrom (w w' : WorkerSt) (extra : Pid → Pid → Val → Prop) : Prop :=
  ∀ p x' t v, w'.procs p = some x' → (t, some v) ∈ x'.awaiting →
    (∃ x, w.procs p = some x ∧ (t, some v) ∈ x.awaiting) ∨ extra p t v

def noExtra : Pid → Pid → Val → Prop := fun _ _ _ => False

theorem AwFrom.refl (w : WorkerSt) (extra) : AwFrom w w extra := fun p x' t v hp hm => Or.inl ⟨x', hp, hm⟩

theorem AwFrom.weaken {w w' : WorkerSt} {e e' : Pid → Pid → Val → Prop} (h : AwFrom w w' e) (he : ∀ p t v, e p t v → e' p t v) :
    AwFrom w w' e' := fun p x' t v hp hm => (h p x' t v hp hm).imp id (he p t v)

theorem AwFrom.trans {a b c : WorkerSt} {e : Pid → Pid → Val → Prop} (h1 : AwFrom a b e) (h2 : AwFrom b c e) : AwFrom a c e := by
  intro p x' t v hp hm
  rcases h2 p x' t v hp hm with ⟨y, hy, hmy⟩ | h
  · exact h1 p y t v hy hmy
  · exact Or.inr h

theorem AwFrom.of_procs {w w' : WorkerSt} (h : w'.procs = w.procs) (e) : AwFrom w w' e := by
  intro p x' t v hp hm; rw [h] at hp; exact Or.inl ⟨x', hp, hm⟩

theorem AwFrom.updProc {w w' : WorkerSt} {q : Pid} {y' : Proc} {e : Pid → Pid → Val → Prop}
    (hp : w'.procs = upd w.procs q (some y'))
    (hy : ∀ t v, (t, some v) ∈ y'.awaiting → (∃ y, w.procs q = some y ∧ (t, some v) ∈ y.awaiting) ∨ e q t v) : AwFrom w w' e := by
  intro p x' t v hpx hm
  rw [hp] at hpx
  by_cases hq : p = q
  · subst hq; simp only [upd_same, Option.some.injEq] at hpx; subst hpx; exact hy t v hm
  · simp only [upd_other _ _ _ _ hq] at hpx; exact Or.inl ⟨x', hpx, hm⟩

theorem AwFrom.modProc (w : WorkerSt) (q : Pid) (f : Proc → Proc) (e : Pid → Pid → Val → Prop)
    (hf : ∀ y t v, w.procs q = some y → (t, some v) ∈ (f y).awaiting → (t, some v) ∈ y.awaiting ∨ e q t v) :
    AwFrom w (w.modProc q f) e := by
  unfold WorkerSt.modProc
  split
  · rename_i y hy
    refine AwFrom.updProc (y' := f y) rfl ?_
    intro t v hm
    rcases hf y t v hy hm with h | h
    · exact Or.inl ⟨y, hy, h⟩
    · exact Or.inr h
  · exact AwFrom.refl w e

theorem AwFrom.wakeSelecting (w : WorkerSt) (q : Pid) (e) : AwFrom w (w.wakeSelecting q) e :=
  AwFrom.of_procs (by simp) e

/-- `notify_result` stores `(t, some v)` only for an `ok v` result -/
theorem AwFrom.notifyResult (w : WorkerSt) (a t : Pid) (r : Res) :
    AwFrom w (w.notifyResult a t r) (fun p t' v => p = a ∧ t' = t ∧ r = .ok v) := by
  cases r with
  | ok v0 =>
    show AwFrom w (w.notifyResultOk a t v0) _
    unfold WorkerSt.notifyResultOk
    refine (AwFrom.modProc w a _ _ ?_).trans (AwFrom.wakeSelecting _ a _)
    intro y t' v _ hm
    split at hm
    · rcases mem_ainsert hm with h | ⟨h1, h2⟩
      · exact Or.inl h
      · cases h2; exact Or.inr ⟨rfl, h1, rfl⟩
    · exact Or.inl hm
  | err =>
    show AwFrom w (w.notifyFailure a t) _
    unfold WorkerSt.notifyFailure
    split
    · split
      · refine (AwFrom.modProc w a _ _ ?_).trans (AwFrom.wakeSelecting _ a _)
        intro y t' v _ hm; exact Or.inl hm
      · exact AwFrom.refl w _
    · exact AwFrom.refl w _

theorem AwFrom.notifyPending (w : WorkerSt) (a t : Pid) (e : Pid → Pid → Val → Prop) : AwFrom w (w.notifyPending a t) e := by
  unfold WorkerSt.notifyPending
  refine AwFrom.modProc w a _ _ ?_
  intro y t' v _ hm; exact Or.inl hm

theorem AwFrom.release (w : WorkerSt) (cur : Pid) (e : Pid → Pid → Val → Prop) : AwFrom w (w.release cur) e := by
  unfold WorkerSt.release
  split
  · refine AwFrom.modProc w cur _ _ ?_
    intro y t' v _ hm
    unfold Proc.releaseDead at hm
    split at hm
    · exact Or.inl hm
    · cases hm
  · exact AwFrom.refl w e

theorem AwFrom.applyResults (a : Pid) : ∀ (rs : Results) (w : WorkerSt),
    AwFrom w (applyResults w a rs) (fun p t v => p = a ∧ (t, some (Res.ok v)) ∈ rs)
  | [], w => AwFrom.refl w _
  | (t0, some r) :: rest, w => by
    unfold QM.Sys.applyResults
    refine AwFrom.trans ((AwFrom.notifyResult w a t0 r).weaken ?_) ((AwFrom.applyResults a rest _).weaken ?_)
    · rintro p t v ⟨rfl, rfl, rfl⟩; exact ⟨rfl, by simp⟩
    · rintro p t v ⟨rfl, h⟩; exact ⟨rfl, List.mem_cons_of_mem _ h⟩
  | (t0, none) :: rest, w => by
    unfold QM.Sys.applyResults
    exact (AwFrom.notifyPending w a t0 _).trans
      ((AwFrom.applyResults a rest _).weaken (fun p t v ⟨h1, h2⟩ => ⟨h1, List.mem_cons_of_mem _ h2⟩))

theorem AwFrom.foldl {α : Type} {e : Pid → Pid → Val → Prop} (f : WorkerSt → α → WorkerSt) (hf : ∀ w a, AwFrom w (f w a) e) :
    ∀ (l : List α) (w : WorkerSt), AwFrom w (l.foldl f w) e
  | [], w => AwFrom.refl w e
  | a :: l, w => (hf w a).trans (AwFrom.foldl f hf l (f w a))

/-- stored values only disappear (or are reset to `none`) during a time slice -/
theorem slice_awaiting (prog : Prog) (now : Nat) (self : Pid) : ∀ (fuel : Nat) (p : Proc) (t : Pid) (v : Val),
    (t, some v) ∈ (slice prog now self fuel p).1.awaiting → (t, some v) ∈ p.awaiting
  | 0, p, t, v, h => h
  | fuel + 1, p, t, v, h => by
    unfold slice at h
    split at h
    · exact h
    · exact h
    · split at h <;> exact h
    · exact h
    · split at h
      · dsimp only at h
        split at h
        · have h2 := slice_awaiting prog now self fuel _ t v h
          exact h2
        · -- entries inserted by initialize_select are `none`
          dsimp only at h
          have : ∀ (ts : List Pid) (l : List (Pid × Option Val)),
              (t, some v) ∈ ts.foldl (fun a t' => ainsert a t' none) l → (t, some v) ∈ l := by
            intro ts
            induction ts with
            | nil => intro l hl; exact hl
            | cons t0 ts ih =>
              intro l hl
              simp only [List.foldl_cons] at hl
              rcases mem_ainsert (ih _ hl) with h1 | ⟨_, h2⟩
              · exact h1
              · cases h2
          exact this _ _ h
      · split at h
        · exact h
        · dsimp only at h
          split at h
          · have := slice_awaiting prog now self fuel _ t v h
            exact (List.mem_filter.mp this).1
          · exact h
          · exact h

/-! ### the invariant -/

structure TCore (s : Sys) : Prop where
  pend : ∀ a pa w rs t r, s.env.pending a = some pa → (w, rs) ∈ pa.responses → (t, some r) ∈ rs → HasRes s t r
  updc : ∀ w a rs t r, Cmd.updateAwait a rs ∈ s.cmdQ w → (t, some r) ∈ rs → HasRes s t r
  stored : ∀ w a x t v, (s.wk w).procs a = some x → (t, some v) ∈ x.awaiting → HasRes s t (.ok v)

structure TInv (s : Sys) : Prop where
  e : EInv s
  core : TCore s

/-- what a command stores: only UpdateAwaitResults stores, and only its own `ok` entries -/
def cmdExtra (c : Cmd) : Pid → Pid → Val → Prop :=
  fun p t v => ∃ rs, c = .updateAwait p rs ∧ (t, some (Res.ok v)) ∈ rs

theorem AwFrom.handleCmd (s : Sys) (i : Wid) (c : Cmd) :
    AwFrom (s.wk i) ((handleCmdWith Rules.current s i c).wk i) (cmdExtra c) := by
  cases c with
  | misc => exact AwFrom.refl _ _
  | start p =>
    simp only [handleCmdWith, setWk_wk, upd_same]
    exact AwFrom.updProc (q := p) (y' := Proc.sleeping p) (by simp [WorkerSt.setProc])
      (fun t v hm => by simp [Proc.sleeping, Proc.fresh] at hm)
  | resume p fn =>
    simp only [handleCmdWith]
    repeat' split
    all_goals first
      | exact AwFrom.refl _ _
      | (simp only [noteExit_wk, setWk_wk, upd_same]
         rename_i x hx _ _ _ _
         exact AwFrom.updProc (q := p) (y' := { x with result := none, fn := fn, pc := 0, acc := [] }) rfl
           (fun t v hm => Or.inl ⟨x, hx, hm⟩))
  | spawn p fn regs =>
    simp only [handleCmdWith]
    split
    · exact AwFrom.refl _ _
    · simp only [noteExit_wk, setWk_wk, upd_same]
      exact AwFrom.updProc (q := p) (y' := Proc.fresh fn (p :: regs)) (by simp [WorkerSt.setProc])
        (fun t v hm => by simp [Proc.fresh] at hm)
  | notifySpawn caller newPid =>
    cases hx : (s.wk i).procs caller with
    | none => simp only [handleCmdWith, hx, setWk_wk, upd_same]; exact AwFrom.of_procs rfl _
    | some x =>
      simp only [handleCmdWith, hx, setWk_wk, upd_same]
      split
      · exact AwFrom.updProc (q := caller) (y' := { x with regs := x.regs ++ [newPid], pc := x.pc + 1, spawnIssued := false }) rfl
          (fun t v hm => Or.inl ⟨x, hx, hm⟩)
      · exact AwFrom.updProc (q := caller) (y' := { x with regs := x.regs ++ [newPid], pc := x.pc + 1, spawnIssued := false }) rfl
          (fun t v hm => Or.inl ⟨x, hx, hm⟩)
  | deliver t m =>
    cases hx : (s.wk i).procs t with
    | none => simp only [handleCmdWith, hx, setWk_wk, upd_same]; exact AwFrom.wakeSelecting _ t _
    | some x =>
      by_cases hd : (Cfg.releaseDead && !x.deliverable) = true
      · simp only [handleCmdWith, hx, hd, if_true, setWk_wk, upd_same]; exact AwFrom.wakeSelecting _ t _
      simp only [handleCmdWith, hx, hd, Bool.false_eq_true, if_false, setWk_wk, upd_same]
      exact (AwFrom.updProc (q := t) (y' := { x with mailbox := x.mailbox ++ [m] })
        (w' := { s.wk i with procs := upd (s.wk i).procs t (some { x with mailbox := x.mailbox ++ [m] }) }) rfl
        (fun t' v hm => Or.inl ⟨x, hx, hm⟩)).trans (AwFrom.wakeSelecting _ t _)
  | queryAwait a ts =>
    simp only [handleCmdWith, pushEvt_wk, setWk_wk, upd_same]
    exact AwFrom.of_procs (queryTargets_spec a ts (s.wk i)).1 _
  | updateAwait a rs =>
    simp only [handleCmdWith, Rules.current, Bool.false_and, Bool.false_eq_true, if_false, setWk_wk, upd_same]
    refine AwFrom.trans ((AwFrom.applyResults a rs _).weaken ?_) (AwFrom.wakeSelecting _ a _)
    rintro p t v ⟨rfl, h⟩; exact ⟨rs, rfl, h⟩
  | getResult req p =>
    simp only [handleCmdWith]
    repeat' split
    all_goals first
      | exact AwFrom.refl _ _
      | (simp only [noteExit_wk, setWk_wk, upd_same]; exact AwFrom.of_procs rfl _)

/-! ### environment side -/

theorem HasRes.congr {s s' : Sys} (h : s'.wk = s.wk) {t : Pid} {r : Res} : HasRes s t r → HasRes s' t r := by
  rintro ⟨w, hw⟩; exact ⟨w, by rw [h]; exact hw⟩

theorem TCore.pushCmd {s : Sys} (h : TCore s) (w : Wid) (c : Cmd)
    (hc : ∀ a rs, c = .updateAwait a rs → ∀ t r, (t, some r) ∈ rs → HasRes s t r) : TCore (s.pushCmd w c) := by
  refine ⟨fun a pa w' rs t r hp hm ht => (h.pend a pa w' rs t r hp hm ht).congr rfl, ?_,
          fun w' a x t v hx hm => (h.stored w' a x t v hx hm).congr rfl⟩
  intro w' a rs t r hm ht
  rcases mem_upd_append hm with h1 | ⟨_, h1⟩
  · exact (h.updc w' a rs t r h1 ht).congr rfl
  · exact (hc a rs h1.symm t r ht).congr rfl

/-- a change of the environment that keeps `pending` except possibly resetting entries to an
empty collection or removing them -/
theorem TCore.congrEnv {s s' : Sys} (h : TCore s) (hc : s'.cmdQ = s.cmdQ) (hw : s'.wk = s.wk)
    (hp : ∀ a pa, s'.env.pending a = some pa → s.env.pending a = some pa ∨ pa.responses = []) : TCore s' := by
  refine ⟨?_, ?_, ?_⟩
  · intro a pa w rs t r hpa hm ht
    rcases hp a pa hpa with h1 | h1
    · exact (h.pend a pa w rs t r h1 hm ht).congr hw
    · rw [h1] at hm; simp at hm
  · intro w a rs t r hm ht; rw [hc] at hm; exact (h.updc w a rs t r hm ht).congr hw
  · intro w a x t v hx hm; rw [hw] at hx; exact (h.stored w a x t v hx hm).congr hw

theorem TCore.foldPush (g : Wid → Cmd) (hg : ∀ w a rs, g w ≠ .updateAwait a rs) :
    ∀ (ws : List Wid) (s : Sys), TCore s → TCore (ws.foldl (fun acc w => acc.pushCmd w (g w)) s)
  | [], _, h => h
  | w :: ws, s, h => by
    simp only [List.foldl_cons]
    exact TCore.foldPush g hg ws _ (h.pushCmd w (g w) (fun a rs heq => absurd heq (hg w a rs)))

theorem mem_aextend {β : Type} : ∀ {more m : List (Nat × β)} {k : Nat} {v : β},
    (k, v) ∈ aextend m more → (k, v) ∈ m ∨ (k, v) ∈ more
  | [], m, k, v, h => Or.inl h
  | (k0, v0) :: more, m, k, v, h => by
    have h' : (k, v) ∈ aextend (ainsert m k0 v0) more := h
    rcases mem_aextend h' with h1 | h1
    · rcases mem_ainsert h1 with h2 | ⟨h2, h3⟩
      · exact Or.inl h2
      · subst h2; subst h3; exact Or.inr (by simp)
    · exact Or.inr (List.mem_cons_of_mem _ h1)

theorem TCore.handleProcResultsPop {s : Sys} (h : TCore s) (htr : Truthful s) {w0 : Wid} {a : Pid} {rs : Results}
    {rest : List Evt} (hq : s.evtQ w0 = .procResults a rs :: rest) :
    TCore (handleProcResultsWith mergeAnswer { s with evtQ := upd s.evtQ w0 rest } a rs) := by
  have hnew : ∀ t r, (t, some r) ∈ rs → HasRes s t r := fun t r ht => ⟨w0, htr w0 a rs (by rw [hq]; simp) t r ht⟩
  have h0 : TCore ({ s with evtQ := upd s.evtQ w0 rest } : Sys) := h.congrEnv rfl rfl (fun a pa hp => Or.inl hp)
  unfold handleProcResultsWith
  dsimp only
  cases hpend : s.env.pending a with
  | none =>
    dsimp only
    split
    · exact h0.congrEnv rfl rfl (fun a pa hp => Or.inl hp)
    · exact h0.pushCmd _ _ (fun a' rs' heq t r ht => by cases heq; exact (hnew t r ht).congr rfl)
  | some pa =>
    dsimp only
    split
    · exact h0
    · rename_i w hw
      -- members of the merged table
      have hmem : ∀ w' rs' t r, (w', rs') ∈ ainsert pa.responses w (mergeAnswer (alookup pa.responses w) rs) →
          (t, some r) ∈ rs' → HasRes s t r := by
        intro w' rs' t r hm ht
        rcases mem_ainsert hm with h1 | ⟨_, h2⟩
        · exact h.pend a pa w' rs' t r hpend h1 ht
        · subst h2
          cases hold : alookup pa.responses w with
          | none => rw [hold] at ht; exact hnew t r ht
          | some old =>
            rw [hold] at ht
            rcases mem_aextend (show (t, some r) ∈ aextend old rs from ht) with h3 | h3
            · exact h.pend a pa w old t r hpend (alookup_mem hold) h3
            · exact hnew t r h3
      split
      · have h1 : TCore ({ s with evtQ := upd s.evtQ w0 rest, env := { s.env with pending := upd s.env.pending a none } } : Sys) := by
          refine h.congrEnv rfl rfl ?_
          intro a' pa' hp
          have hp' : upd s.env.pending a none a' = some pa' := hp
          by_cases e : a' = a
          · subst e; simp at hp'
          · simp only [upd_other _ _ _ _ e] at hp'; exact Or.inl hp'
        split
        · exact h1.congrEnv rfl rfl (fun a pa hp => Or.inl hp)
        · refine h1.pushCmd _ _ ?_
          intro a' rs' heq t r ht
          cases heq
          rw [List.mem_flatten] at ht
          obtain ⟨rs1, hrs1, ht1⟩ := ht
          rw [List.mem_map] at hrs1
          obtain ⟨⟨w', rs2⟩, hm, heq2⟩ := hrs1
          simp only at heq2
          subst heq2
          exact (hmem w' rs2 t r hm ht1).congr rfl
      · refine ⟨?_, fun w' a' rs' t r hm ht => (h.updc w' a' rs' t r hm ht).congr rfl,
                fun w' a' x t v hx hm => (h.stored w' a' x t v hx hm).congr rfl⟩
        intro a' pa' w' rs' t r hp hm ht
        have hp' : upd s.env.pending a (some { expected := pa.expected.filter (· ≠ w), responses := ainsert pa.responses w (mergeAnswer (alookup pa.responses w) rs) }) a' = some pa' := hp
        by_cases e : a' = a
        · subst e
          simp only [upd_same, Option.some.injEq] at hp'
          subst hp'
          exact (hmem w' rs' t r hm ht).congr rfl
        · simp only [upd_other _ _ _ _ e] at hp'
          exact (h.pend a' pa' w' rs' t r hp' hm ht).congr rfl

theorem TCore.envStep1 {s : Sys} (h : TCore s) (htr : Truthful s) (w : Wid) : TCore (envStep1With mergeAnswer s w) := by
  unfold envStep1With
  split
  · exact h
  · rename_i e rest hq
    have h0 : TCore ({ s with evtQ := upd s.evtQ w rest } : Sys) := h.congrEnv rfl rfl (fun a pa hp => Or.inl hp)
    cases e with
    | spawn c fn regs coloc =>
      show TCore (handleSpawn _ c fn regs coloc)
      simp only [QM.Sys.handleSpawn]
      generalize placement _ coloc _ = pw
      have h1 : TCore ({ s with evtQ := upd s.evtQ w rest, env := { s.env with nextPid := s.env.nextPid + 1, router := upd s.env.router s.env.nextPid (some pw) } } : Sys) :=
        h.congrEnv rfl rfl (fun a pa hp => Or.inl hp)
      have h2 := h1.pushCmd pw (.spawn s.env.nextPid fn regs) (fun _ _ heq => by cases heq)
      split
      · exact h2.congrEnv rfl rfl (fun a pa hp => Or.inl hp)
      · exact (h2.pushCmd _ (.notifySpawn c s.env.nextPid) (fun _ _ heq => by cases heq)).congrEnv rfl rfl (fun a pa hp => Or.inl hp)
    | deliver t m =>
      show TCore (handleDeliver _ t m)
      unfold QM.Sys.handleDeliver
      split
      · exact h0.congrEnv rfl rfl (fun a pa hp => Or.inl hp)
      · exact h0.pushCmd _ _ (fun _ _ heq => by cases heq)
    | await a ts =>
      show TCore (handleAwait _ a ts)
      unfold QM.Sys.handleAwait
      split
      · exact h0.congrEnv rfl rfl (fun a pa hp => Or.inl hp)
      · refine TCore.foldPush _ (fun _ _ _ heq => by cases heq) _ _ ?_
        refine h.congrEnv rfl rfl ?_
        intro a' pa' hp
        have hp' : upd s.env.pending a (some { expected := targetWorkers s.env.router ts, responses := [] }) a' = some pa' := hp
        by_cases e : a' = a
        · subst e; simp only [upd_same, Option.some.injEq] at hp'; subst hp'; exact Or.inr rfl
        · simp only [upd_other _ _ _ _ e] at hp'; exact Or.inl hp'
    | procResults a rs => exact h.handleProcResultsPop htr hq
    | resultResp req r => exact h0.congrEnv rfl rfl (fun a pa hp => Or.inl hp)
    | exited p => exact h0

/-! ### worker side -/

theorem finish_resultOf_cur (w : WorkerSt) (cur : Pid) (x : Proc) (ordQ : List Pid) :
    (w.finish cur x ordQ).resultOf cur = some x.finalRes := by
  unfold WorkerSt.finish
  dsimp only
  have h2 := ResKeep.foldl (fun acc a => acc.notifyResult a cur x.finalRes) (fun w' a => ResKeep.notifyResult w' a cur _)
    (orderBy ordQ (({ w with procs := upd w.procs cur (some { x with result := some x.finalRes }) } : WorkerSt).localAwaiters cur))
    { w with procs := upd w.procs cur (some { x with result := some x.finalRes }) }
  exact ResKeep.release _ cur cur x.finalRes (h2 cur x.finalRes (by simp [WorkerSt.resultOf]))

/-- what `finish` stores: the result of `cur`, at its local awaiters -/
theorem AwFrom.finish (w : WorkerSt) (cur : Pid) (x : Proc) (ordQ : List Pid)
    (hx : ∀ t v, (t, some v) ∈ x.awaiting → ∃ y, w.procs cur = some y ∧ (t, some v) ∈ y.awaiting) :
    AwFrom w (w.finish cur x ordQ) (fun _ t v => t = cur ∧ x.finalRes = .ok v) := by
  unfold WorkerSt.finish
  dsimp only
  refine AwFrom.trans (AwFrom.updProc (w' := { w with procs := upd w.procs cur (some { x with result := some x.finalRes }) })
    (q := cur) (y' := { x with result := some x.finalRes }) rfl
    (fun t v hm => Or.inl (hx t v hm))) ?_
  refine AwFrom.trans ?_ (AwFrom.release _ cur _)
  apply AwFrom.foldl
  intro w' a
  exact (AwFrom.notifyResult w' a cur x.finalRes).weaken (fun p t v ⟨_, h2, h3⟩ => ⟨h2, h3⟩)

theorem AwFrom.execStep (s : Sys) (i : Wid) (fuel : Nat) (ordQ : List Pid) :
    AwFrom (s.wk i) ((QM.Sys.execStep s i fuel ordQ).wk i)
      (fun _ t v => ((QM.Sys.execStep s i fuel ordQ).wk i).resultOf t = some (.ok v)) := by
  unfold QM.Sys.execStep
  dsimp only
  have h0 : AwFrom (s.wk i) ((s.wk i).checkExpired s.prog s.now ordQ) noExtra := AwFrom.of_procs rfl _
  generalize (s.wk i).checkExpired s.prog s.now ordQ = w0 at h0 ⊢
  have lift : ∀ {w' : WorkerSt} {e}, AwFrom (s.wk i) w' noExtra → AwFrom (s.wk i) w' e :=
    fun h => h.weaken (fun _ _ _ hf => hf.elim)
  split
  · simp only [noteExit_wk, setWk_wk, upd_same]; exact lift h0
  · rename_i cur rest _
    have h1 : AwFrom (s.wk i) { w0 with queue := rest } noExtra := h0.trans (AwFrom.of_procs rfl _)
    split
    · simp only [noteExit_wk, setWk_wk, upd_same]; exact lift h1
    · rename_i x hx
      split
      · simp only [noteExit_wk, setWk_wk, upd_same]
        have hf := AwFrom.finish { w0 with queue := rest } cur x ordQ (fun t v hm => ⟨x, hx, hm⟩)
        have hres := finish_resultOf_cur { w0 with queue := rest } cur x ordQ
        refine (lift h1).trans (hf.weaken ?_)
        rintro _ t v ⟨rfl, hv⟩; rw [hres, hv]
      · have hsl := slice_awaiting s.prog s.now cur fuel x
        generalize slice s.prog s.now cur fuel x = r at hsl
        obtain ⟨x', out⟩ := r
        dsimp only at hsl ⊢
        have h2 : ∀ (qq sp se : List Pid), AwFrom (s.wk i) { w0 with queue := qq, spawning := sp, selecting := se, procs := upd w0.procs cur (some x') } noExtra := by
          intro qq sp se
          refine h0.trans (AwFrom.updProc (q := cur) (y' := x') rfl ?_)
          intro t v hm
          exact Or.inl ⟨x, hx, hsl t v hm⟩
        cases out with
        | cont => simp only [noteExit_wk, setWk_wk, upd_same]; exact lift (h2 _ _ _)
        | send t m => simp only [pushEvt_wk, setWk_wk, upd_same]; exact lift (h2 _ _ _)
        | spawn fn regs => simp only [pushEvt_wk, setWk_wk, upd_same]; exact lift (h2 _ _ _)
        | awaitInit ts => simp only [pushEvt_wk, setWk_wk, upd_same]; exact lift (h2 _ _ _)
        | blocked => simp only [noteExit_wk, setWk_wk, upd_same]; exact lift (h2 _ _ _)
        | failed =>
          simp only [noteExit_wk, setWk_wk, upd_same]
          have hf := AwFrom.finish { w0 with queue := rest, procs := upd w0.procs cur (some x') } cur x' ordQ
            (fun t v hm => ⟨x', by simp, hm⟩)
          have hres := finish_resultOf_cur { w0 with queue := rest, procs := upd w0.procs cur (some x') } cur x' ordQ
          refine (lift (h2 rest w0.spawning w0.selecting)).trans (hf.weaken ?_)
          rintro _ t v ⟨rfl, hv⟩; rw [hres, hv]
        | done =>
          simp only [noteExit_wk, setWk_wk, upd_same]
          have hf := AwFrom.finish { w0 with queue := rest, procs := upd w0.procs cur (some x') } cur x' ordQ
            (fun t v hm => ⟨x', by simp, hm⟩)
          have hres := finish_resultOf_cur { w0 with queue := rest, procs := upd w0.procs cur (some x') } cur x' ordQ
          refine (lift (h2 rest w0.spawning w0.selecting)).trans (hf.weaken ?_)
          rintro _ t v ⟨rfl, hv⟩; rw [hres, hv]

theorem TInv.micro {s : Sys} (h : TInv s) (m : Micro) : TInv (microStep Rules.current s m) := by
  refine ⟨h.e.micro m, ?_⟩
  have hmono := ResMono.micro h.e.si m
  cases m with
  | env w => exact h.core.envStep1 h.e.evt w
  | tick ms => exact h.core.congrEnv rfl rfl (fun a pa hp => Or.inl hp)
  | check i ordE =>
    have hc := CheckRel.checkStep s i ordE
    have he := CheckEv.checkStep s i ordE
    refine ⟨?_, ?_, ?_⟩
    · intro a pa w rs t r hp hm ht
      have hp' : (QM.Sys.checkStep s i ordE).env.pending a = some pa := hp
      rw [he.env] at hp'
      exact (h.core.pend a pa w rs t r hp' hm ht).mono hmono
    · intro w a rs t r hm ht
      have hm' : Cmd.updateAwait a rs ∈ (QM.Sys.checkStep s i ordE).cmdQ w := hm
      rw [hc.cmdQ] at hm'
      exact (h.core.updc w a rs t r hm' ht).mono hmono
    · intro w a x t v hx hm
      have hx' : ((QM.Sys.checkStep s i ordE).wk w).procs a = some x := hx
      by_cases hw : w = i
      · subst hw; rw [hc.procs] at hx'; exact (h.core.stored w a x t v hx' hm).mono hmono
      · rw [hc.wkOther w hw] at hx'; exact (h.core.stored w a x t v hx' hm).mono hmono
  | exec i fuel ordQ =>
    have hf := execStep_frame s i fuel ordQ
    refine ⟨?_, ?_, ?_⟩
    · intro a pa w rs t r hp hm ht
      have hp' : (QM.Sys.execStep s i fuel ordQ).env.pending a = some pa := hp
      rw [hf.2.1] at hp'
      exact (h.core.pend a pa w rs t r hp' hm ht).mono hmono
    · intro w a rs t r hm ht
      have hm' : Cmd.updateAwait a rs ∈ (QM.Sys.execStep s i fuel ordQ).cmdQ w := hm
      rw [hf.1] at hm'
      exact (h.core.updc w a rs t r hm' ht).mono hmono
    · intro w a x t v hx hm
      have hx' : ((QM.Sys.execStep s i fuel ordQ).wk w).procs a = some x := hx
      by_cases hw : w = i
      · subst hw
        rcases AwFrom.execStep s w fuel ordQ a x t v hx' hm with ⟨y, hy, hmy⟩ | h1
        · exact (h.core.stored w a y t v hy hmy).mono hmono
        · exact ⟨w, h1⟩
      · rw [(hf.2.2.2.2.2.2 w hw).1] at hx'; exact (h.core.stored w a x t v hx' hm).mono hmono
  | cmd i =>
    show TCore (cmdStep1With Rules.current s i)
    have hmono' : ResMono s (cmdStep1With Rules.current s i) := hmono
    revert hmono'
    unfold cmdStep1With
    split
    · intro _; exact h.core
    · rename_i c rest hq
      intro hmono'
      have hf := handleCmd_frame Rules.current { s with cmdQ := upd s.cmdQ i rest } i c
      have haw := AwFrom.handleCmd { s with cmdQ := upd s.cmdQ i rest } i c
      generalize handleCmdWith Rules.current { s with cmdQ := upd s.cmdQ i rest } i c = s' at hf haw hmono' ⊢
      refine ⟨?_, ?_, ?_⟩
      · intro a pa w rs t r hp hm ht
        rw [hf.2.1] at hp
        exact (h.core.pend a pa w rs t r hp hm ht).mono hmono'
      · intro w a rs t r hm ht
        rw [hf.1] at hm
        exact (h.core.updc w a rs t r (mem_upd_tail hq hm) ht).mono hmono'
      · intro w a x t v hx hm
        by_cases hw : w = i
        · subst hw
          rcases haw a x t v hx hm with ⟨y, hy, hmy⟩ | ⟨rs, hc, hrs⟩
          · exact (h.core.stored w a y t v hy hmy).mono hmono'
          · subst hc
            exact (h.core.updc w a rs t (.ok v) (by rw [hq]; simp) hrs).mono hmono'
        · rw [(hf.2.2.2.2.2 w hw).1] at hx
          exact (h.core.stored w a x t v hx hm).mono hmono'

theorem TInv.of_started {s : Sys} (h : Started s) : TInv s := by
  refine ⟨EInv.of_started h, ?_, ?_, ?_⟩
  · intro a pa w rs t r hp; rw [h.pending] at hp; cases hp
  · intro w a rs t r hm
    have := (h.inert w) _ hm
    simp [cmdMsg, cmdCreate, cmdNotify] at this
    by_cases ew : w = 0
    · subst ew; obtain ⟨req, hq⟩ := h.cmd0; rw [hq] at hm; simp at hm
    · have := h.cmdOther w ew _ hm; cases this
  · intro w a x t v hx hm
    rw [h.procs] at hx
    split at hx
    · simp at hx; subst hx; simp [Proc.sleeping, Proc.fresh] at hm
    · cases hx

end QM.Sys
