import QuiverModel.Lemmas.Sys.Commute
/-
Results are stable and await answers are faithful (`TInv`): once a process has a result it never
changes, and every result carried by a ProcessResults event, collected in `pending_awaits`,
carried by an UpdateAwaitResults command or stored in an awaiter's `awaiting` / `awaiting_failed`
is the actual result of that target.
-/
namespace QM.Sys
set_option linter.unusedSectionVars false
variable [Cfg]

/-- results present in `w` are present, unchanged, in `w'` -/
def ResKeep (w w' : WorkerSt) : Prop := ∀ t r, w.resultOf t = some r → w'.resultOf t = some r

theorem ResKeep.refl (w : WorkerSt) : ResKeep w w := fun _ _ h => h
theorem ResKeep.trans {a b c : WorkerSt} (h1 : ResKeep a b) (h2 : ResKeep b c) : ResKeep a c :=
  fun t r h => h2 t r (h1 t r h)

theorem ResKeep.of_procs {w w' : WorkerSt} (h : w'.procs = w.procs) : ResKeep w w' := by
  intro t r hr; unfold WorkerSt.resultOf at *; rw [h]; exact hr

theorem ResKeep.updProc {w w' : WorkerSt} {p : Pid} {x' : Proc} (hp : w'.procs = upd w.procs p (some x'))
    (hx : ∀ x, w.procs p = some x → ∀ r, x.result = some r → x'.result = some r) : ResKeep w w' := by
  intro t r hr
  unfold WorkerSt.resultOf at *
  rw [hp]
  by_cases e : t = p
  · subst e
    simp only [upd_same]
    cases hw : w.procs t with
    | none => rw [hw] at hr; cases hr
    | some x => rw [hw] at hr; exact hx x hw r hr
  · simp only [upd_other _ _ _ _ e]; exact hr

theorem ResKeep.modProc (w : WorkerSt) (p : Pid) (f : Proc → Proc) (hf : ∀ x, (f x).result = x.result) :
    ResKeep w (w.modProc p f) := by
  unfold WorkerSt.modProc
  split
  · rename_i x hx
    exact ResKeep.updProc (x' := f x) rfl (fun y hy r hr => by rw [hx] at hy; cases hy; rw [hf]; exact hr)
  · exact ResKeep.refl w

theorem ResKeep.wakeSelecting (w : WorkerSt) (p : Pid) : ResKeep w (w.wakeSelecting p) :=
  ResKeep.of_procs (by simp)

theorem ResKeep.notifyResult (w : WorkerSt) (a t : Pid) (r : Res) : ResKeep w (w.notifyResult a t r) := by
  cases r with
  | ok v =>
    show ResKeep w (w.notifyResultOk a t v)
    unfold WorkerSt.notifyResultOk
    exact (ResKeep.modProc w a _ (fun x => by split <;> rfl)).trans (ResKeep.wakeSelecting _ a)
  | err =>
    show ResKeep w (w.notifyFailure a t)
    unfold WorkerSt.notifyFailure
    split
    · split
      · refine (ResKeep.modProc w a _ ?_).trans (ResKeep.wakeSelecting _ a)
        intro x; rfl
      · exact ResKeep.refl w
    · exact ResKeep.refl w

theorem ResKeep.notifyPending (w : WorkerSt) (a t : Pid) : ResKeep w (w.notifyPending a t) := by
  unfold WorkerSt.notifyPending
  refine ResKeep.modProc w a _ ?_
  intro x; rfl

theorem ResKeep.applyResults (a : Pid) : ∀ (rs : Results) (w : WorkerSt), ResKeep w (applyResults w a rs)
  | [], w => ResKeep.refl w
  | (t, some r) :: rest, w => by
    unfold QM.Sys.applyResults
    exact (ResKeep.notifyResult w a t r).trans (ResKeep.applyResults a rest _)
  | (t, none) :: rest, w => by
    unfold QM.Sys.applyResults
    exact (ResKeep.notifyPending w a t).trans (ResKeep.applyResults a rest _)

theorem ResKeep.foldl {α : Type} (f : WorkerSt → α → WorkerSt) (hf : ∀ w a, ResKeep w (f w a)) :
    ∀ (l : List α) (w : WorkerSt), ResKeep w (l.foldl f w)
  | [], w => ResKeep.refl w
  | a :: l, w => (hf w a).trans (ResKeep.foldl f hf l (f w a))

theorem ResKeep.release (w : WorkerSt) (cur : Pid) : ResKeep w (w.release cur) := by
  unfold WorkerSt.release; split
  · exact ResKeep.modProc w cur _ releaseDead_result
  · exact ResKeep.refl w

/-- `finish` of a process that has no result yet keeps all results and stores `finalRes` -/
theorem ResKeep.finish {w : WorkerSt} {cur : Pid} (x : Proc) (ordQ : List Pid)
    (hc : ∀ y, w.procs cur = some y → y.result = none) :
    ResKeep w (w.finish cur x ordQ) ∧ (w.finish cur x ordQ).resultOf cur = some x.finalRes := by
  unfold WorkerSt.finish
  have h1 : ResKeep w { w with procs := upd w.procs cur (some { x with result := some x.finalRes }) } :=
    ResKeep.updProc (x' := { x with result := some x.finalRes }) rfl
      (fun y hy r hr => by rw [hc y hy] at hr; cases hr)
  have h2 := ResKeep.foldl (fun acc a => acc.notifyResult a cur x.finalRes) (fun w' a => ResKeep.notifyResult w' a cur _)
    (orderBy ordQ (({ w with procs := upd w.procs cur (some { x with result := some x.finalRes }) } : WorkerSt).localAwaiters cur))
    { w with procs := upd w.procs cur (some { x with result := some x.finalRes }) }
  dsimp only
  refine ⟨(h1.trans h2).trans (ResKeep.release _ cur), ResKeep.release _ cur cur x.finalRes (h2 cur x.finalRes ?_)⟩
  simp [WorkerSt.resultOf]

/-! ### results are stable under every micro-step -/

def ResMono (s s' : Sys) : Prop := ∀ w, ResKeep (s.wk w) (s'.wk w)

theorem ResMono.refl (s : Sys) : ResMono s s := fun w => ResKeep.refl _
theorem ResMono.trans {a b c : Sys} (h1 : ResMono a b) (h2 : ResMono b c) : ResMono a c := fun w => (h1 w).trans (h2 w)

theorem ResMono.of_wk {s s' : Sys} (h : s'.wk = s.wk) : ResMono s s' := fun w => by rw [h]; exact ResKeep.refl _

theorem ResMono.setWk {s : Sys} {i : Wid} {x : WorkerSt} (h : ResKeep (s.wk i) x) : ResMono s (s.setWk i x) := by
  intro w
  by_cases hw : w = i
  · subst hw; simpa using h
  · rw [wk_setWk_other _ _ _ _ hw]; exact ResKeep.refl _

theorem envStep1_wk (combine) (s : Sys) (w : Wid) : (envStep1With combine s w).wk = s.wk := by
  unfold envStep1With
  split
  · rfl
  · rename_i e rest _
    cases e with
    | spawn c fn regs coloc => simp only [handleEventWith, handleSpawn]; split <;> rfl
    | deliver t m => simp only [handleEventWith, handleDeliver]; split <;> rfl
    | await a ts =>
      simp only [handleEventWith, handleAwait]
      split
      · rfl
      · exact (foldPush_spec _ _ _).2.1
    | procResults a rs =>
      simp only [handleEventWith, handleProcResultsWith]
      repeat' split
      all_goals rfl
    | resultResp req r => rfl
    | exited p => rfl

theorem ResMono.of_upd {s s' : Sys} {i : Wid} {x : WorkerSt} (h : s'.wk = upd s.wk i x) (hk : ResKeep (s.wk i) x) :
    ResMono s s' := by
  intro w
  rw [h]
  by_cases hw : w = i
  · subst hw; simpa using hk
  · simp only [upd_other _ _ _ _ hw]; exact ResKeep.refl _

theorem ResMono.cmdStep1 {s : Sys} (h : SInv s) (i : Wid) : ResMono s (cmdStep1With Rules.current s i) := by
  unfold cmdStep1With
  split
  · exact ResMono.refl s
  · rename_i c rest hq
    have hcok : CmdOK s.env.router s.prog.length (known s i) i c := h.r.cmds i c (by rw [hq]; simp)
    have hbase : ResMono s ({ s with cmdQ := upd s.cmdQ i rest } : Sys) := ResMono.of_wk rfl
    refine hbase.trans ?_
    generalize hs1 : ({ s with cmdQ := upd s.cmdQ i rest } : Sys) = s1
    have e_wk : s1.wk = s.wk := by subst hs1; rfl
    have e_prog : s1.prog = s.prog := by subst hs1; rfl
    cases c with
    | misc => exact ResMono.refl _
    | start p => exact hcok.elim
    | resume p fn => exact hcok.elim
    | spawn p fn regs =>
      obtain ⟨_, hfn, _⟩ := hcok
      have hlen : ¬ fn ≥ s1.prog.length := by rw [e_prog]; exact Nat.not_le.mpr hfn
      simp only [handleCmdWith, if_neg hlen]
      have hfr := h.fresh i
      rw [hq, creates_cons] at hfr
      have hnk : ¬ known s i p := hfr.2 p (by simp [cmdCreate])
      refine ResMono.of_upd rfl (ResKeep.updProc (p := p) (x' := Proc.fresh fn (p :: regs)) (by simp [WorkerSt.setProc]) ?_)
      intro x hx
      exfalso; apply hnk; unfold known; rw [← e_wk, hx]; rfl
    | notifySpawn caller newPid =>
      cases hx : (s1.wk i).procs caller with
      | none =>
        simp only [handleCmdWith, hx]
        exact ResMono.of_upd rfl (ResKeep.of_procs rfl)
      | some x =>
        simp only [handleCmdWith, hx]
        refine ResMono.of_upd rfl ?_
        split
        · exact ResKeep.updProc (p := caller) (x' := { x with regs := x.regs ++ [newPid], pc := x.pc + 1, spawnIssued := false }) rfl
            (fun y hy r hr => by rw [hx] at hy; cases hy; exact hr)
        · exact ResKeep.updProc (p := caller) (x' := { x with regs := x.regs ++ [newPid], pc := x.pc + 1, spawnIssued := false }) rfl
            (fun y hy r hr => by rw [hx] at hy; cases hy; exact hr)
    | deliver t m =>
      cases hx : (s1.wk i).procs t with
      | none =>
        simp only [handleCmdWith, hx]
        exact ResMono.of_upd rfl (ResKeep.wakeSelecting _ t)
      | some x =>
        by_cases hd : (Cfg.releaseDead && !x.deliverable) = true
        · simp only [handleCmdWith, hx, hd, if_true]
          exact ResMono.of_upd rfl (ResKeep.wakeSelecting _ t)
        · simp only [handleCmdWith, hx, hd, Bool.false_eq_true, if_false]
          refine ResMono.of_upd rfl ?_
          exact (ResKeep.updProc (p := t) (x' := { x with mailbox := x.mailbox ++ [m] })
            (w' := { s1.wk i with procs := upd (s1.wk i).procs t (some { x with mailbox := x.mailbox ++ [m] }) }) rfl
            (fun y hy r hr => by rw [hx] at hy; cases hy; exact hr)).trans (ResKeep.wakeSelecting _ t)
    | queryAwait a ts =>
      simp only [handleCmdWith]
      have hq2 := queryTargets_spec a ts (s1.wk i)
      exact ResMono.of_upd rfl (ResKeep.of_procs hq2.1)
    | updateAwait a rs =>
      simp only [handleCmdWith, Rules.current, Bool.false_and, Bool.false_eq_true, if_false]
      exact ResMono.of_upd rfl ((ResKeep.applyResults a rs _).trans (ResKeep.wakeSelecting _ a))
    | getResult req p =>
      cases hx : (s1.wk i).procs p with
      | none => simp only [handleCmdWith, hx]; exact ResMono.of_wk rfl
      | some x =>
        cases hres : x.result with
        | some r => simp only [handleCmdWith, hx, hres]; exact ResMono.of_wk rfl
        | none => simp only [handleCmdWith, hx, hres]; exact ResMono.of_upd rfl (ResKeep.of_procs rfl)

theorem ResMono.execStep {s : Sys} (h : SInv s) (i : Wid) (fuel : Nat) (ordQ : List Pid) :
    ResMono s (QM.Sys.execStep s i fuel ordQ) := by
  unfold QM.Sys.execStep
  dsimp only
  have hW0 := (h.sched i).checkExpired s.prog s.now ordQ
  have hK0 : ResKeep (s.wk i) ((s.wk i).checkExpired s.prog s.now ordQ) := ResKeep.of_procs rfl
  generalize (s.wk i).checkExpired s.prog s.now ordQ = w0 at hW0 hK0 ⊢
  split
  · exact ResMono.of_upd rfl hK0
  · rename_i cur rest hq
    obtain ⟨_, _, _, _, x0, hx0, hr0⟩ := hW0.pop hq
    have hK1 : ResKeep (s.wk i) { w0 with queue := rest } := hK0.trans (ResKeep.of_procs rfl)
    have hcur : ∀ y, ({ w0 with queue := rest } : WorkerSt).procs cur = some y → y.result = none := by
      intro y hy
      have : w0.procs cur = some y := hy
      rw [hx0] at this; cases this; exact hr0
    split
    · exact ResMono.of_upd rfl hK1
    · rename_i x hx
      split
      · exact ResMono.of_upd (by simp) (hK1.trans (ResKeep.finish x ordQ hcur).1)
      · generalize slice s.prog s.now cur fuel x = r
        obtain ⟨x', out⟩ := r
        dsimp only
        have hK2 : ∀ (qq sp se : List Pid), ResKeep (s.wk i) { w0 with queue := qq, spawning := sp, selecting := se, procs := upd w0.procs cur (some x') } := by
          intro qq sp se
          refine hK0.trans (ResKeep.updProc (p := cur) (x' := x') rfl ?_)
          intro y hy r hr
          rw [hx0] at hy; cases hy; rw [hr0] at hr; cases hr
        have hcur2 : ∀ y, ({ w0 with queue := rest, procs := upd w0.procs cur (some x') } : WorkerSt).procs cur = some y → True := fun _ _ => trivial
        cases out with
        | cont => exact ResMono.of_upd rfl (hK2 _ _ _)
        | send t m => exact ResMono.of_upd rfl (hK2 _ _ _)
        | spawn fn regs => exact ResMono.of_upd rfl (hK2 _ _ _)
        | awaitInit ts => exact ResMono.of_upd rfl (hK2 _ _ _)
        | blocked => exact ResMono.of_upd rfl (hK2 _ _ _)
        | failed =>
          refine ResMono.of_upd ((noteExit_wk _ _ _ _).trans rfl) ?_
          -- results of others are kept through the update of `cur` and the notifications
          intro t r hr
          unfold WorkerSt.finish
          dsimp only
          apply ResKeep.release
          have h2 := ResKeep.foldl (fun acc a => acc.notifyResult a cur x'.finalRes) (fun w' a => ResKeep.notifyResult w' a cur _)
            (orderBy ordQ (({ w0 with queue := rest, procs := upd (upd w0.procs cur (some x')) cur (some { x' with result := some x'.finalRes }) } : WorkerSt).localAwaiters cur))
            { w0 with queue := rest, procs := upd (upd w0.procs cur (some x')) cur (some { x' with result := some x'.finalRes }) }
          apply h2
          have h3 : ResKeep (s.wk i) { w0 with queue := rest, procs := upd (upd w0.procs cur (some x')) cur (some { x' with result := some x'.finalRes }) } := by
            refine hK0.trans (ResKeep.updProc (p := cur) (x' := { x' with result := some x'.finalRes }) (by simp) ?_)
            intro y hy r' hr'
            rw [hx0] at hy; cases hy; rw [hr0] at hr'; cases hr'
          exact h3 t r hr
        | done =>
          refine ResMono.of_upd ((noteExit_wk _ _ _ _).trans rfl) ?_
          intro t r hr
          unfold WorkerSt.finish
          dsimp only
          apply ResKeep.release
          have h2 := ResKeep.foldl (fun acc a => acc.notifyResult a cur x'.finalRes) (fun w' a => ResKeep.notifyResult w' a cur _)
            (orderBy ordQ (({ w0 with queue := rest, procs := upd (upd w0.procs cur (some x')) cur (some { x' with result := some x'.finalRes }) } : WorkerSt).localAwaiters cur))
            { w0 with queue := rest, procs := upd (upd w0.procs cur (some x')) cur (some { x' with result := some x'.finalRes }) }
          apply h2
          have h3 : ResKeep (s.wk i) { w0 with queue := rest, procs := upd (upd w0.procs cur (some x')) cur (some { x' with result := some x'.finalRes }) } := by
            refine hK0.trans (ResKeep.updProc (p := cur) (x' := { x' with result := some x'.finalRes }) (by simp) ?_)
            intro y hy r' hr'
            rw [hx0] at hy; cases hy; rw [hr0] at hr'; cases hr'
          exact h3 t r hr

theorem ResMono.checkStep (s : Sys) (i : Wid) (ordE : List Pid) : ResMono s (QM.Sys.checkStep s i ordE) := by
  have hc := CheckRel.checkStep s i ordE
  intro w
  by_cases hw : w = i
  · subst hw; exact ResKeep.of_procs hc.procs
  · rw [hc.wkOther w hw]; exact ResKeep.refl _

/-- **Results are stable**: no micro-step (hence no scheduler choice) changes a result once it is
set. -/
theorem ResMono.micro {s : Sys} (h : SInv s) (m : Micro) : ResMono s (microStep Rules.current s m) := by
  cases m with
  | env w => exact ResMono.of_wk (envStep1_wk _ s w)
  | cmd i => exact ResMono.cmdStep1 h i
  | exec i fuel ordQ => exact ResMono.execStep h i fuel ordQ
  | check i ordE => exact ResMono.checkStep s i ordE
  | tick ms => exact ResMono.of_wk rfl

/-! ### completion reports are truthful -/

theorem mem_ainsert {β : Type} {l : List (Nat × β)} {k x : Nat} {v y : β} (h : (k, v) ∈ ainsert l x y) :
    (k, v) ∈ l ∨ (k = x ∧ v = y) := by
  induction l with
  | nil => simp [ainsert] at h; exact Or.inr h
  | cons kv rest ih =>
    obtain ⟨k', v'⟩ := kv
    unfold ainsert at h
    split at h
    · rename_i e
      rcases List.mem_cons.mp h with h1 | h1
      · cases h1; exact Or.inr ⟨e, rfl⟩
      · exact Or.inl (List.mem_cons_of_mem _ h1)
    · rcases List.mem_cons.mp h with h1 | h1
      · exact Or.inl (by rw [h1]; simp)
      · rcases ih h1 with h2 | h2
        · exact Or.inl (List.mem_cons_of_mem _ h2)
        · exact Or.inr h2

theorem completedStatus_result {w : WorkerSt} {t : Pid} {r : Res} (h : w.completedStatus t = some r) :
    w.resultOf t = some r := by
  unfold WorkerSt.completedStatus at h
  unfold WorkerSt.resultOf
  split at h
  · cases h
  · rename_i x hx
    rw [hx]
    split at h
    · cases h
    · split at h
      · cases h
      · split at h
        · rename_i v hv; cases h; exact hv
        · rename_i hv
          split at h
          · cases h; exact hv
          · cases h
        · cases h

/-- what `query_and_await` reports as completed is the target's result -/
theorem queryTargets_truthful (a : Pid) : ∀ (ts : List Pid) (w : WorkerSt) (t : Pid) (r : Res),
    (t, some r) ∈ (queryTargets w a ts).2 → w.resultOf t = some r
  | [], w, t, r, h => by simp [queryTargets] at h
  | t0 :: rest, w, t, r, h => by
    unfold queryTargets at h
    split at h
    · rename_i r0 hr0
      rcases mem_ainsert h with h1 | ⟨h1, h2⟩
      · exact queryTargets_truthful a rest w t r h1
      · cases h2; rw [h1]; exact completedStatus_result hr0
    · rcases mem_ainsert h with h1 | ⟨_, h2⟩
      · have := queryTargets_truthful a rest _ t r h1
        exact this
      · cases h2

/-- every completed target in a ProcessResults event has exactly that result on the reporting worker -/
def Truthful (s : Sys) : Prop :=
  ∀ w a rs, Evt.procResults a rs ∈ s.evtQ w → ∀ t r, (t, some r) ∈ rs → (s.wk w).resultOf t = some r

structure EInv (s : Sys) : Prop where
  si : SInv s
  evt : Truthful s

theorem Truthful.mono {s s' : Sys} (h : Truthful s) (hm : ResMono s s')
    (he : ∀ w e, e ∈ s'.evtQ w → e ∈ s.evtQ w ∨ (∀ a rs, e = .procResults a rs → ∀ t r, (t, some r) ∈ rs → (s'.wk w).resultOf t = some r)) :
    Truthful s' := by
  intro w a rs hm' t r htr
  rcases he w _ hm' with h1 | h1
  · exact hm w t r (h w a rs h1 t r htr)
  · exact h1 a rs rfl t r htr

theorem envStep1_evts (combine) (s : Sys) (w : Wid) : ∀ w' e, e ∈ (envStep1With combine s w).evtQ w' → e ∈ s.evtQ w' := by
  intro w' e
  unfold envStep1With
  split
  · exact id
  · rename_i e0 rest hq
    have hsub : ∀ e', e' ∈ upd s.evtQ w rest w' → e' ∈ s.evtQ w' := fun e' h => mem_upd_tail hq h
    cases e0 with
    | spawn c fn regs coloc => simp only [handleEventWith, handleSpawn]; split <;> exact hsub e
    | deliver t m => simp only [handleEventWith, handleDeliver]; split <;> exact hsub e
    | await a ts =>
      simp only [handleEventWith, handleAwait]
      split
      · exact hsub e
      · intro h; rw [(foldPush_spec _ _ _).1] at h; exact hsub e h
    | procResults a rs =>
      simp only [handleEventWith, handleProcResultsWith]
      repeat' split
      all_goals exact hsub e
    | resultResp req r => exact hsub e
    | exited p => exact hsub e

theorem execStep_new_evts (s : Sys) (i : Wid) (fuel : Nat) (ordQ : List Pid) :
    ∀ w e, e ∈ (QM.Sys.execStep s i fuel ordQ).evtQ w → e ∈ s.evtQ w ∨ (∀ a rs, e ≠ .procResults a rs) := by
  intro w e
  simp only [QM.Sys.execStep, Sys.noteExit]
  repeat' split
  all_goals simp only [Sys.setWk, Sys.pushEvt]
  all_goals first
    | exact Or.inl
    | (intro hmem; rcases mem_upd_append hmem with h1 | ⟨_, rfl⟩
       · exact Or.inl h1
       · exact Or.inr (by intros; simp))

theorem handleCmd_new_evts (R : Rules) (s : Sys) (i : Wid) (c : Cmd) :
    ∀ w e, e ∈ (handleCmdWith R s i c).evtQ w → e ∈ s.evtQ w ∨
      (w = i ∧ ((∃ a ts, c = .queryAwait a ts ∧ e = .procResults a (queryTargets (s.wk i) a ts).2) ∨
                ∀ a rs, e ≠ .procResults a rs)) := by
  intro w e
  cases c <;> simp only [handleCmdWith] <;> (repeat' split) <;> (try simp only [Sys.setWk, Sys.pushEvt, Sys.setFault])
  all_goals first
    | exact Or.inl
    | (intro hmem; rcases mem_upd_append hmem with h1 | ⟨h2, rfl⟩
       · exact Or.inl h1
       · first
          | exact Or.inr ⟨h2, Or.inl ⟨_, _, rfl, rfl⟩⟩
          | exact Or.inr ⟨h2, Or.inr (by intros; simp)⟩)

theorem Truthful.reportTarget {s : Sys} (h : Truthful s) (i : Wid) (t : Pid) : Truthful (QM.Sys.reportTarget s i t) := by
  obtain ⟨_, _, _, _, _, _, a7, a8, a9⟩ := reportTarget_explicit s i t
  intro w a rs hm t' r' htr
  by_cases hw : w = i
  · subst hw
    have hres : ∀ t0, ((QM.Sys.reportTarget s w t).wk w).resultOf t0 = (s.wk w).resultOf t0 := by
      intro t0; unfold WorkerSt.resultOf; rw [(CheckRel.reportTarget s w t).procs]
    rw [hres]
    rw [a9] at hm
    cases hr : (s.wk w).resultOf t with
    | none => rw [hr] at hm; exact h w a rs hm t' r' htr
    | some r =>
      rw [hr] at hm
      simp only [List.mem_append, List.mem_map] at hm
      rcases hm with h1 | ⟨a0, _, heq⟩
      · exact h w a rs h1 t' r' htr
      · cases heq
        simp only [List.mem_singleton, Prod.mk.injEq, Option.some.injEq] at htr
        obtain ⟨rfl, rfl⟩ := htr
        exact hr
  · rw [(a7 w hw).1]; rw [(a7 w hw).2] at hm
    exact h w a rs hm t' r' htr

theorem Truthful.answerRequests {s : Sys} (h : Truthful s) (i : Wid) (p : Pid) : Truthful (QM.Sys.answerRequests s i p) := by
  obtain ⟨_, _, _, _, _, _, a7, a8, a9⟩ := answerRequests_explicit s i p
  intro w a rs hm t' r' htr
  by_cases hw : w = i
  · subst hw
    have hres : ∀ t0, ((QM.Sys.answerRequests s w p).wk w).resultOf t0 = (s.wk w).resultOf t0 := by
      intro t0; unfold WorkerSt.resultOf; rw [(CheckRel.answerRequests s w p).procs]
    rw [hres]
    rw [a9] at hm
    cases hr : (s.wk w).resultOf p with
    | none => rw [hr] at hm; exact h w a rs hm t' r' htr
    | some r =>
      rw [hr] at hm
      simp only [List.mem_append, List.mem_map] at hm
      rcases hm with h1 | ⟨a0, _, heq⟩
      · exact h w a rs h1 t' r' htr
      · cases heq
  · rw [(a7 w hw).1]; rw [(a7 w hw).2] at hm
    exact h w a rs hm t' r' htr

theorem Truthful.checkStep {s : Sys} (h : Truthful s) (i : Wid) (ordE : List Pid) : Truthful (QM.Sys.checkStep s i ordE) := by
  unfold QM.Sys.checkStep
  dsimp only
  apply foldl_invariant Truthful _ (fun a p ha => ha.answerRequests i p)
  exact foldl_invariant Truthful _ (fun a t ha => ha.reportTarget i t) _ _ h

theorem EInv.micro {s : Sys} (h : EInv s) (m : Micro) : EInv (microStep Rules.current s m) := by
  refine ⟨h.si.micro Rules.current_sane m, ?_⟩
  have hmono := ResMono.micro h.si m
  cases m with
  | env w =>
    exact h.evt.mono hmono (fun w' e he => Or.inl (envStep1_evts _ s w w' e he))
  | tick ms => exact h.evt.mono hmono (fun w' e he => Or.inl he)
  | exec i fuel ordQ =>
    refine h.evt.mono hmono ?_
    intro w e he
    rcases execStep_new_evts s i fuel ordQ w e he with h1 | h1
    · exact Or.inl h1
    · exact Or.inr (fun a rs heq => absurd heq (h1 a rs))
  | check i ordE => exact h.evt.checkStep i ordE
  | cmd i =>
    refine h.evt.mono hmono ?_
    intro w e he
    have he' : e ∈ (cmdStep1With Rules.current s i).evtQ w := he
    unfold cmdStep1With at he'
    split at he'
    · exact Or.inl he'
    · rename_i c rest hq
      rcases handleCmd_new_evts Rules.current _ i c w e he' with h1 | ⟨hw, h1⟩
      · exact Or.inl h1
      · right
        intro a rs heq t r htr
        rcases h1 with ⟨a', ts, hc, he2⟩ | h1
        · subst hw; subst hc
          rw [heq] at he2
          simp only [Evt.procResults.injEq] at he2
          obtain ⟨rfl, rfl⟩ := he2
          -- the report is truthful for the worker state before the command, and results are kept
          have h0 := queryTargets_truthful a ts (s.wk w) t r htr
          exact hmono w t r h0
        · exact absurd heq (h1 a rs)

theorem EInv.of_started {s : Sys} (h : Started s) : EInv s :=
  ⟨SInv.of_started h, fun w a rs hm => by rw [h.evtQ w] at hm; simp at hm⟩

/-! ### every spawn reply re-queues its caller -/

theorem handleCmd_notified (R : Rules) (s : Sys) (i : Wid) (c : Cmd) :
    ∀ x ∈ (handleCmdWith R s i c).spawnNotified, x ∈ s.spawnNotified ∨
      (∃ caller p, c = .notifySpawn caller p ∧
        (caller ∈ (s.wk i).spawning → ((s.wk i).procs caller).isSome = true → x.2.2 = true)) := by
  intro x
  cases c <;> simp only [handleCmdWith] <;> (repeat' split) <;> simp [Sys.setWk, Sys.pushEvt, Sys.setFault]
  all_goals (intro h; rcases h with h | rfl <;> simp_all)

theorem execStep_notified (s : Sys) (i : Wid) (fuel : Nat) (ordQ : List Pid) :
    (QM.Sys.execStep s i fuel ordQ).spawnNotified = s.spawnNotified := (Shape.execStep s i fuel ordQ).spawnNotified
theorem checkStep_notified (s : Sys) (i : Wid) (ordE : List Pid) :
    (QM.Sys.checkStep s i ordE).spawnNotified = s.spawnNotified := (Shape.checkStep s i ordE).spawnNotified

theorem envStep1_notified (combine) (s : Sys) (w : Wid) : (envStep1With combine s w).spawnNotified = s.spawnNotified := by
  unfold envStep1With
  split
  · rfl
  · rename_i e rest _
    cases e with
    | spawn c fn regs coloc => simp only [handleEventWith, handleSpawn]; split <;> rfl
    | deliver t m => simp only [handleEventWith, handleDeliver]; split <;> rfl
    | await a ts =>
      simp only [handleEventWith, handleAwait]
      split
      · rfl
      · generalize targetWorkers _ _ = ws
        have : ∀ (ws : List Wid) (s0 : Sys) (g : Wid → Cmd), (ws.foldl (fun acc w => acc.pushCmd w (g w)) s0).spawnNotified = s0.spawnNotified := by
          intro ws; induction ws with
          | nil => intros; rfl
          | cons w0 ws ih => intro s0 g; simp only [List.foldl_cons]; rw [ih]; rfl
        rw [this]
    | procResults a rs =>
      simp only [handleEventWith, handleProcResultsWith]
      repeat' split
      all_goals rfl
    | resultResp req r => rfl
    | exited p => rfl

/-- all NotifySpawn commands applied so far found their caller parked and re-queued it -/
def AllRequeued (s : Sys) : Prop := ∀ x ∈ s.spawnNotified, x.2.2 = true

structure NInv (s : Sys) : Prop where
  w : WInv s
  all : AllRequeued s

theorem NInv.micro {s : Sys} (h : NInv s) (m : Micro) : NInv (microStep Rules.current s m) := by
  refine ⟨h.w.micro m, ?_⟩
  cases m with
  | env w => intro x hx; rw [show (microStep Rules.current s (.env w)).spawnNotified = s.spawnNotified from envStep1_notified _ s w] at hx; exact h.all x hx
  | exec i fuel ordQ => intro x hx; rw [show (microStep Rules.current s (.exec i fuel ordQ)).spawnNotified = s.spawnNotified from execStep_notified s i fuel ordQ] at hx; exact h.all x hx
  | check i ordE => intro x hx; rw [show (microStep Rules.current s (.check i ordE)).spawnNotified = s.spawnNotified from checkStep_notified s i ordE] at hx; exact h.all x hx
  | tick ms => exact h.all
  | cmd i =>
    intro x hx
    have hx' : x ∈ (cmdStep1With Rules.current s i).spawnNotified := hx
    unfold cmdStep1With at hx'
    split at hx'
    · exact h.all x hx'
    · rename_i c rest hq
      rcases handleCmd_notified Rules.current _ i c x hx' with h1 | ⟨caller, p, hc, hflag⟩
      · exact h.all x h1
      · subst hc
        have hparked : caller ∈ (s.wk i).spawning := spair_notify_parked h.w.pair (p := p) (by rw [hq]; simp)
        obtain ⟨y, hy, _⟩ := (h.w.si.sched i).live caller (Or.inr (Or.inl hparked))
        exact hflag hparked (by show ((s.wk i).procs caller).isSome = true; rw [hy]; rfl)

theorem NInv.of_started {s : Sys} (h : Started s) : NInv s :=
  ⟨WInv.of_started h, fun x hx => by rw [h.spawnNotified] at hx; simp at hx⟩

end QM.Sys
