import QuiverModel.Core.Sys.Basic
/-
Projection ("frame") lemmas for the primitive state updates of M-Sys, and small list/map facts.
-/
namespace QM.Sys
set_option linter.unusedSectionVars false
variable [Cfg]

theorem upd_apply {α : Type} (f : Nat → α) (i j : Nat) (v : α) : upd f i v j = if j = i then v else f j := rfl

@[simp] theorem upd_self {α : Type} (f : Nat → α) (i : Nat) : upd f i (f i) = f := by
  funext j; simp [upd_apply]; intro h; rw [h]

@[simp] theorem upd_upd {α : Type} (f : Nat → α) (i : Nat) (a b : α) : upd (upd f i a) i b = upd f i b := by
  funext j; simp only [upd_apply]; split <;> rfl

/-! ### Sys primitives -/

theorem noteExit_eq (s : Sys) (i : Wid) (cur : Pid) (x : Proc) :
    s.noteExit i cur x = s ∨ s.noteExit i cur x = s.pushEvt i (.exited cur) := by
  unfold Sys.noteExit; split
  · exact Or.inr rfl
  · exact Or.inl rfl

@[simp] theorem noteExit_wk (s : Sys) (i : Wid) (cur : Pid) (x : Proc) : (s.noteExit i cur x).wk = s.wk := by
  unfold Sys.noteExit; split <;> rfl
@[simp] theorem noteExit_cmdQ (s : Sys) (i : Wid) (cur : Pid) (x : Proc) : (s.noteExit i cur x).cmdQ = s.cmdQ := by
  unfold Sys.noteExit; split <;> rfl
@[simp] theorem noteExit_env (s : Sys) (i : Wid) (cur : Pid) (x : Proc) : (s.noteExit i cur x).env = s.env := by
  unfold Sys.noteExit; split <;> rfl
@[simp] theorem noteExit_prog (s : Sys) (i : Wid) (cur : Pid) (x : Proc) : (s.noteExit i cur x).prog = s.prog := by
  unfold Sys.noteExit; split <;> rfl
@[simp] theorem noteExit_n (s : Sys) (i : Wid) (cur : Pid) (x : Proc) : (s.noteExit i cur x).n = s.n := by
  unfold Sys.noteExit; split <;> rfl
@[simp] theorem noteExit_now (s : Sys) (i : Wid) (cur : Pid) (x : Proc) : (s.noteExit i cur x).now = s.now := by
  unfold Sys.noteExit; split <;> rfl
@[simp] theorem noteExit_fault (s : Sys) (i : Wid) (cur : Pid) (x : Proc) : (s.noteExit i cur x).fault = s.fault := by
  unfold Sys.noteExit; split <;> rfl
@[simp] theorem noteExit_sent (s : Sys) (i : Wid) (cur : Pid) (x : Proc) : (s.noteExit i cur x).sent = s.sent := by
  unfold Sys.noteExit; split <;> rfl
@[simp] theorem noteExit_appended (s : Sys) (i : Wid) (cur : Pid) (x : Proc) : (s.noteExit i cur x).appended = s.appended := by
  unfold Sys.noteExit; split <;> rfl
@[simp] theorem noteExit_dropped (s : Sys) (i : Wid) (cur : Pid) (x : Proc) : (s.noteExit i cur x).dropped = s.dropped := by
  unfold Sys.noteExit; split <;> rfl
@[simp] theorem noteExit_deadDropped (s : Sys) (i : Wid) (cur : Pid) (x : Proc) : (s.noteExit i cur x).deadDropped = s.deadDropped := by
  unfold Sys.noteExit; split <;> rfl
@[simp] theorem noteExit_spawned (s : Sys) (i : Wid) (cur : Pid) (x : Proc) : (s.noteExit i cur x).spawned = s.spawned := by
  unfold Sys.noteExit; split <;> rfl
@[simp] theorem noteExit_spawnNotified (s : Sys) (i : Wid) (cur : Pid) (x : Proc) :
    (s.noteExit i cur x).spawnNotified = s.spawnNotified := by
  unfold Sys.noteExit; split <;> rfl
@[simp] theorem noteExit_reported (s : Sys) (i : Wid) (cur : Pid) (x : Proc) : (s.noteExit i cur x).reported = s.reported := by
  unfold Sys.noteExit; split <;> rfl
@[simp] theorem noteExit_learned (s : Sys) (i : Wid) (cur : Pid) (x : Proc) : (s.noteExit i cur x).learned = s.learned := by
  unfold Sys.noteExit; split <;> rfl

theorem mem_noteExit_evtQ {s : Sys} {w : Wid} {e : Evt} (i : Wid) (cur : Pid) (x : Proc) (h : e ∈ s.evtQ w) :
    e ∈ (s.noteExit i cur x).evtQ w := by
  unfold Sys.noteExit; split
  · show e ∈ upd s.evtQ i (s.evtQ i ++ [Evt.exited cur]) w
    unfold upd; split
    · rename_i hw; subst hw; exact List.mem_append_left _ h
    · exact h
  · exact h

theorem mem_noteExit_cases {s : Sys} {w : Wid} {e : Evt} {i : Wid} {cur : Pid} {x : Proc}
    (h : e ∈ (s.noteExit i cur x).evtQ w) : e ∈ s.evtQ w ∨ e = .exited cur := by
  unfold Sys.noteExit at h; split at h
  · have h' : e ∈ upd s.evtQ i (s.evtQ i ++ [Evt.exited cur]) w := h
    unfold upd at h'; split at h'
    · rename_i hw; subst hw
      rcases List.mem_append.mp h' with h1 | h1
      · exact Or.inl h1
      · exact Or.inr (by simpa using h1)
    · exact Or.inl h'
  · exact Or.inl h

/-- the event queues after `noteExit`: unchanged, or the ProcessExited of `cur` appended to worker `i`'s -/
theorem noteExit_evtQ (s : Sys) (i : Wid) (cur : Pid) (x : Proc) :
    (s.noteExit i cur x).evtQ = s.evtQ ∨ (s.noteExit i cur x).evtQ = upd s.evtQ i (s.evtQ i ++ [.exited cur]) := by
  unfold Sys.noteExit; split
  · exact Or.inr rfl
  · exact Or.inl rfl


@[simp] theorem pushCmd_env (s : Sys) (w c) : (s.pushCmd w c).env = s.env := rfl
@[simp] theorem pushCmd_wk (s : Sys) (w c) : (s.pushCmd w c).wk = s.wk := rfl
@[simp] theorem pushCmd_evtQ (s : Sys) (w c) : (s.pushCmd w c).evtQ = s.evtQ := rfl
@[simp] theorem pushCmd_cmdQ (s : Sys) (w c) : (s.pushCmd w c).cmdQ = upd s.cmdQ w (s.cmdQ w ++ [c]) := rfl
@[simp] theorem pushCmd_prog (s : Sys) (w c) : (s.pushCmd w c).prog = s.prog := rfl
@[simp] theorem pushCmd_n (s : Sys) (w c) : (s.pushCmd w c).n = s.n := rfl
@[simp] theorem pushCmd_now (s : Sys) (w c) : (s.pushCmd w c).now = s.now := rfl
@[simp] theorem pushCmd_fault (s : Sys) (w c) : (s.pushCmd w c).fault = s.fault := rfl
@[simp] theorem pushCmd_sent (s : Sys) (w c) : (s.pushCmd w c).sent = s.sent := rfl
@[simp] theorem pushCmd_appended (s : Sys) (w c) : (s.pushCmd w c).appended = s.appended := rfl
@[simp] theorem pushCmd_dropped (s : Sys) (w c) : (s.pushCmd w c).dropped = s.dropped := rfl
@[simp] theorem pushCmd_deadDropped (s : Sys) (w c) : (s.pushCmd w c).deadDropped = s.deadDropped := rfl
@[simp] theorem pushCmd_spawned (s : Sys) (w c) : (s.pushCmd w c).spawned = s.spawned := rfl
@[simp] theorem pushCmd_spawnNotified (s : Sys) (w c) : (s.pushCmd w c).spawnNotified = s.spawnNotified := rfl
@[simp] theorem pushCmd_reported (s : Sys) (w c) : (s.pushCmd w c).reported = s.reported := rfl
@[simp] theorem pushCmd_learned (s : Sys) (w c) : (s.pushCmd w c).learned = s.learned := rfl

@[simp] theorem pushEvt_env (s : Sys) (w e) : (s.pushEvt w e).env = s.env := rfl
@[simp] theorem pushEvt_wk (s : Sys) (w e) : (s.pushEvt w e).wk = s.wk := rfl
@[simp] theorem pushEvt_cmdQ (s : Sys) (w e) : (s.pushEvt w e).cmdQ = s.cmdQ := rfl
@[simp] theorem pushEvt_evtQ (s : Sys) (w e) : (s.pushEvt w e).evtQ = upd s.evtQ w (s.evtQ w ++ [e]) := rfl
@[simp] theorem pushEvt_prog (s : Sys) (w e) : (s.pushEvt w e).prog = s.prog := rfl
@[simp] theorem pushEvt_n (s : Sys) (w e) : (s.pushEvt w e).n = s.n := rfl
@[simp] theorem pushEvt_now (s : Sys) (w e) : (s.pushEvt w e).now = s.now := rfl
@[simp] theorem pushEvt_fault (s : Sys) (w e) : (s.pushEvt w e).fault = s.fault := rfl
@[simp] theorem pushEvt_sent (s : Sys) (w e) : (s.pushEvt w e).sent = s.sent := rfl
@[simp] theorem pushEvt_appended (s : Sys) (w e) : (s.pushEvt w e).appended = s.appended := rfl
@[simp] theorem pushEvt_dropped (s : Sys) (w e) : (s.pushEvt w e).dropped = s.dropped := rfl
@[simp] theorem pushEvt_deadDropped (s : Sys) (w e) : (s.pushEvt w e).deadDropped = s.deadDropped := rfl
@[simp] theorem pushEvt_spawned (s : Sys) (w e) : (s.pushEvt w e).spawned = s.spawned := rfl
@[simp] theorem pushEvt_spawnNotified (s : Sys) (w e) : (s.pushEvt w e).spawnNotified = s.spawnNotified := rfl
@[simp] theorem pushEvt_reported (s : Sys) (w e) : (s.pushEvt w e).reported = s.reported := rfl
@[simp] theorem pushEvt_learned (s : Sys) (w e) : (s.pushEvt w e).learned = s.learned := rfl

@[simp] theorem setWk_env (s : Sys) (w x) : (s.setWk w x).env = s.env := rfl
@[simp] theorem setWk_wk (s : Sys) (w x) : (s.setWk w x).wk = upd s.wk w x := rfl
@[simp] theorem setWk_cmdQ (s : Sys) (w x) : (s.setWk w x).cmdQ = s.cmdQ := rfl
@[simp] theorem setWk_evtQ (s : Sys) (w x) : (s.setWk w x).evtQ = s.evtQ := rfl
@[simp] theorem setWk_prog (s : Sys) (w x) : (s.setWk w x).prog = s.prog := rfl
@[simp] theorem setWk_n (s : Sys) (w x) : (s.setWk w x).n = s.n := rfl
@[simp] theorem setWk_now (s : Sys) (w x) : (s.setWk w x).now = s.now := rfl
@[simp] theorem setWk_fault (s : Sys) (w x) : (s.setWk w x).fault = s.fault := rfl
@[simp] theorem setWk_sent (s : Sys) (w x) : (s.setWk w x).sent = s.sent := rfl
@[simp] theorem setWk_appended (s : Sys) (w x) : (s.setWk w x).appended = s.appended := rfl
@[simp] theorem setWk_dropped (s : Sys) (w x) : (s.setWk w x).dropped = s.dropped := rfl
@[simp] theorem setWk_deadDropped (s : Sys) (w x) : (s.setWk w x).deadDropped = s.deadDropped := rfl
@[simp] theorem setWk_spawned (s : Sys) (w x) : (s.setWk w x).spawned = s.spawned := rfl
@[simp] theorem setWk_spawnNotified (s : Sys) (w x) : (s.setWk w x).spawnNotified = s.spawnNotified := rfl
@[simp] theorem setWk_reported (s : Sys) (w x) : (s.setWk w x).reported = s.reported := rfl
@[simp] theorem setWk_learned (s : Sys) (w x) : (s.setWk w x).learned = s.learned := rfl

@[simp] theorem setWk_self (s : Sys) (w : Wid) : s.setWk w (s.wk w) = s := by
  cases s; simp [Sys.setWk]

/-! ### sets as lists -/

theorem mem_sinsert {l : List Nat} {x y : Nat} : y ∈ sinsert l x ↔ y ∈ l ∨ y = x := by
  unfold sinsert; split <;> simp_all

theorem mem_serase {l : List Nat} {x y : Nat} : y ∈ serase l x ↔ y ∈ l ∧ y ≠ x := by
  simp [serase]

theorem nodup_sinsert {l : List Nat} {x : Nat} (h : l.Nodup) : (sinsert l x).Nodup := by
  unfold sinsert; split
  · exact h
  · rename_i hx
    exact List.nodup_append.mpr ⟨h, by simp, by intro a ha b hb; simp at hb; subst hb; intro e; subst e; exact hx ha⟩

theorem nodup_serase {l : List Nat} {x : Nat} (h : l.Nodup) : (serase l x).Nodup := by
  unfold serase; exact h.filter _

theorem mem_orderBy {ord s : List Nat} {y : Nat} : y ∈ orderBy ord s ↔ y ∈ s := by
  induction ord generalizing s with
  | nil => simp [orderBy]
  | cons o ord ih =>
    unfold orderBy; split
    · rename_i ho
      simp only [List.mem_cons, ih, mem_serase]
      constructor
      · rintro (h | h)
        · subst h; exact ho
        · exact h.1
      · intro h
        by_cases e : y = o
        · exact Or.inl e
        · exact Or.inr ⟨h, e⟩
    · exact ih

theorem nodup_orderBy {ord s : List Nat} (h : s.Nodup) : (orderBy ord s).Nodup := by
  induction ord generalizing s with
  | nil => simpa [orderBy]
  | cons o ord ih =>
    unfold orderBy; split
    · refine List.nodup_cons.mpr ⟨?_, ih (nodup_serase h)⟩
      simp [mem_orderBy, mem_serase]
    · exact ih h

@[simp] theorem orderBy_nil (ord : List Nat) : orderBy ord [] = [] := by
  induction ord with
  | nil => rfl
  | cons o ord ih => simp [orderBy, ih]

/-! ### assoc lists -/

theorem alookup_ainsert {β : Type} (l : List (Nat × β)) (k x : Nat) (v : β) :
    alookup (ainsert l k v) x = if k = x then some v else alookup l x := by
  induction l with
  | nil => simp [ainsert, alookup]
  | cons kv rest ih =>
    obtain ⟨k', w⟩ := kv
    unfold ainsert
    by_cases h : k' = k
    · subst h; simp [alookup]; split <;> simp_all
    · simp [h, alookup, ih]
      by_cases h2 : k' = x
      · subst h2; simp [Ne.symm h]
      · simp [h2]

theorem keys_ainsert {β : Type} (l : List (Nat × β)) (k : Nat) (v : β) (x : Nat) :
    x ∈ (ainsert l k v).map (·.1) ↔ x ∈ l.map (·.1) ∨ x = k := by
  induction l with
  | nil => simp [ainsert]
  | cons kv rest ih =>
    obtain ⟨k', w⟩ := kv
    unfold ainsert
    by_cases h : k' = k
    · subst h; simp; intro e; exact Or.inl e
    · simp only [h, if_false, List.map_cons, List.mem_cons, ih]
      constructor
      · rintro (h1 | h1 | h1) <;> simp_all
      · rintro ((h1 | h1) | h1) <;> simp_all

/-! ### iteration -/

theorem iter_invariant {α : Type} (P : α → Prop) (f : α → α) (hf : ∀ a, P a → P (f a)) :
    ∀ k a, P a → P (iter f k a)
  | 0, _, h => h
  | k + 1, a, h => iter_invariant P f hf k (f a) (hf a h)

theorem foldl_invariant {α β : Type} (P : α → Prop) (f : α → β → α) (hf : ∀ a b, P a → P (f a b)) :
    ∀ (l : List β) a, P a → P (l.foldl f a)
  | [], _, h => h
  | b :: l, a, h => foldl_invariant P f hf l (f a b) (hf a b h)

end QM.Sys
