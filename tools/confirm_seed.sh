#!/bin/bash
# confirm_seed.sh <seed-dir> [<seed-dir> ...]
# For each directory holding patch.diff + a demo test file (seeded_demo_*.rs): confirm in a scratch
# worktree of /repo HEAD that (1) the demo passes without the patch, (2) the patch applies and the
# workspace builds, (3) the demo fails with the patch, (4) the repository's own suite still passes
# with the patch (demo absent). Results are appended to /tmp/seedcheck/results.txt.
set -u
WT=/tmp/seedcheck/wt
export CARGO_TARGET_DIR=/tmp/seedcheck/target
export CARGO_NET_OFFLINE=true
RES=/tmp/seedcheck/results.txt
if [ ! -d "$WT" ]; then git -C /repo worktree add -q --detach "$WT" HEAD; fi
for D in "$@"; do
  cd "$WT"; git checkout -q -- . ; git clean -fdq; git checkout -q --detach "$(git -C /repo rev-parse HEAD)"
  DEMO=$(ls "$D"/seeded_demo_*.rs 2>/dev/null | head -1)
  NAME=$(basename "$DEMO" .rs)
  echo "=== $D ($(date +%T))" >> $RES
  if [ -z "$DEMO" ]; then echo "no demo file" >> $RES; continue; fi
  cp "$DEMO" quiver-tests/tests/
  cargo test --offline -p quiver-tests --test "$NAME" > /tmp/seedcheck/demo_without.log 2>&1; R1=$?
  echo "demo without patch: rc=$R1 $(grep '^test result' /tmp/seedcheck/demo_without.log | tail -1)" >> $RES
  if ! git apply "$D/patch.diff" 2> /tmp/seedcheck/apply.log; then
     if ! patch -p1 -s < "$D/patch.diff" > /tmp/seedcheck/apply.log 2>&1; then echo "PATCH DOES NOT APPLY: $(head -3 /tmp/seedcheck/apply.log)" >> $RES; rm -f quiver-tests/tests/$NAME.rs; continue; fi
  fi
  cargo test --offline -p quiver-tests --test "$NAME" > /tmp/seedcheck/demo_with.log 2>&1; R2=$?
  echo "demo with patch: rc=$R2 $(grep '^test result' /tmp/seedcheck/demo_with.log | tail -1)" >> $RES
  rm -f quiver-tests/tests/$NAME.rs
  cargo test --workspace --no-fail-fast --offline > /tmp/seedcheck/suite.log 2>&1; R3=$?
  P=$(grep -E "^test result" /tmp/seedcheck/suite.log | awk '{p+=$4; f+=$6} END {print p" passed "f" failed"}')
  F=$(grep "^test .*FAILED" /tmp/seedcheck/suite.log | tr '\n' ';')
  echo "suite with patch: rc=$R3 $P $F" >> $RES
  if [ $R1 -eq 0 ] && [ $R2 -ne 0 ]; then echo "VERDICT demo-discriminates" >> $RES; else echo "VERDICT demo-does-NOT-discriminate" >> $RES; fi
  git checkout -q -- . ; git clean -fdq
done
echo "=== done $(date +%T)" >> $RES
