#!/bin/bash
# try_seed.sh <seed-dir> <Cxx> [tier]  — apply seeded/<id>/patch.diff in a scratch worktree of /repo HEAD,
# run the check for property Cxx against it in isolated mode, record the outcome in <seed-dir>/detect-<Cxx>.txt
set -u
D=$(realpath "$1"); P=$2; TIER=${3:-quick}
NAME=$(basename "$D")
WT=/tmp/tryseed/$NAME-$P
mkdir -p /tmp/tryseed
git -C /repo worktree add -q --detach "$WT" HEAD || exit 2
cd "$WT"
if ! git apply "$D/patch.diff" 2>/dev/null; then
  if ! patch -p1 -s < "$D/patch.diff" >/dev/null 2>&1; then echo "patch does not apply to HEAD" > "$D/detect-$P.txt"; git -C /repo worktree remove --force "$WT"; exit 3; fi
fi
cd /verif
START=$(date +%s)
VERIF_REPO="$WT" ./check "$P" --tier "$TIER" > /tmp/tryseed/$NAME-$P.log 2>&1
RC=$?
END=$(date +%s)
{
  echo "seed=$NAME property=$P tier=$TIER repo_head=$(git -C /repo rev-parse --short HEAD) rc=$RC wall_s=$((END-START)) date=$(date -u +%FT%TZ)"
  grep -E "^VIOLATION|^KNOWN-FINDING|^# " /tmp/tryseed/$NAME-$P.log | head -12
  if [ $RC -eq 1 ] && grep -q "^VIOLATION" /tmp/tryseed/$NAME-$P.log; then echo "DETECTED"; else echo "MISSED"; fi
} > "$D/detect-$P.txt"
cat "$D/detect-$P.txt"
git -C /repo worktree remove --force "$WT"
TAG=$(python3 -c "import hashlib,sys;print(hashlib.md5(sys.argv[1].encode()).hexdigest()[:10])" "$WT")
rm -rf /verif/.cache/alt-$TAG
