#!/bin/bash
# try_seed.sh <seed-dir> <Cxx> [tier]
# Apply <seed-dir>/patch.diff in a scratch worktree of /repo HEAD and run the check for property Cxx
# against it in isolated mode (VERIF_REPO). A CONTROL run of the same check on the unpatched HEAD
# in the same isolated configuration is made first (cached per property and HEAD): a seed counts as
# DETECTED only if the control is clean (rc 0, no VIOLATION line) and the patched run raises a
# VIOLATION. The outcome is recorded in <seed-dir>/detect-<Cxx>.txt. Serial use only (one fixed
# worktree, so cargo and lake builds are incremental).
set -u
D=$(realpath "$1"); P=$2; TIER=${3:-quick}
NAME=$(basename "$D")
WT=${TRYSEED_WT:-/tmp/tryseed/wt}
mkdir -p /tmp/tryseed
exec 9>/tmp/tryseed/lock-$(basename "$WT"); flock 9
HEAD=$(git -C /repo rev-parse --short HEAD)
if [ ! -d "$WT" ]; then git -C /repo worktree add -q --detach "$WT" HEAD || exit 2; fi
cd "$WT"; git checkout -q -- . ; git clean -fdq; git checkout -q --detach "$(git -C /repo rev-parse HEAD)"
CTRL=/tmp/tryseed/control-$(basename "$WT")-$P-$HEAD-$TIER.txt
if [ ! -f "$CTRL" ]; then
  (cd /verif && VERIF_REPO="$WT" ./check "$P" --tier "$TIER" > /tmp/tryseed/control-$P.log 2>&1; echo "rc=$?" > "$CTRL"; grep -E "^VIOLATION" /tmp/tryseed/control-$P.log | head -3 >> "$CTRL")
fi
CRC=$(head -1 "$CTRL")
if ! git apply "$D/patch.diff" 2>/dev/null; then
  if ! patch -p1 -s < "$D/patch.diff" >/dev/null 2>&1; then echo "seed=$NAME property=$P: patch does not apply to HEAD $HEAD" > "$D/detect-$P.txt"; cat "$D/detect-$P.txt"; git checkout -q -- . ; git clean -fdq; exit 3; fi
fi
cd /verif
START=$(date +%s)
VERIF_REPO="$WT" ./check "$P" --tier "$TIER" > /tmp/tryseed/$NAME-$P.log 2>&1
RC=$?
END=$(date +%s)
{
  echo "seed=$NAME property=$P tier=$TIER repo_head=$HEAD control:$CRC rc=$RC wall_s=$((END-START)) date=$(date -u +%FT%TZ)"
  grep -E "^VIOLATION|^KNOWN-FINDING|^# " /tmp/tryseed/$NAME-$P.log | head -12
  if [ "$CRC" != "rc=0" ]; then echo "INCONCLUSIVE (control run on unpatched HEAD is not clean: $(cat $CTRL | tr '\n' ' '))";
  elif [ $RC -eq 1 ] && grep -q "^VIOLATION" /tmp/tryseed/$NAME-$P.log; then echo "DETECTED"; else echo "MISSED"; fi
} > "$D/detect-$P.txt"
cat "$D/detect-$P.txt"
cd "$WT"; git checkout -q -- . ; git clean -fdq
