#!/bin/bash
# gate_patch.sh "<checks>" <patch-file> [<patch-file> ...]
# Gate for candidate repairs of /repo: apply the patches (notes/Cxx-fixes format: `#` header lines,
# then a -p1 diff) in a scratch worktree of /repo HEAD, run the repository's own suite there, then
# run the listed checks (e.g. "C01 C02 C20") against the worktree in isolated mode. A check that is
# clean on HEAD (control, cached per HEAD by try_seed) but alarms on the patched tree means the patch
# changes behaviour some property check depends on: look before landing it.
# Output: /tmp/gate/report.txt (also printed). Nothing is changed in /repo.
set -u
CHECKS=$1; shift
PATCHES=(); for p in "$@"; do PATCHES+=("$(realpath "$p")"); done
WT=/tmp/gate/wt
mkdir -p /tmp/gate
exec 9>/tmp/gate/lock; flock 9
HEAD=$(git -C /repo rev-parse --short HEAD)
if [ ! -d "$WT" ]; then git -C /repo worktree add -q --detach "$WT" HEAD || exit 2; fi
cd "$WT"; git checkout -q -- . ; git clean -fdq; git checkout -q --detach "$(git -C /repo rev-parse HEAD)"
R=/tmp/gate/report.txt; : > $R
echo "gate on /repo $HEAD: $*" >> $R
for p in "${PATCHES[@]}"; do
  grep -v '^#' "$p" > /tmp/gate/p.diff
  if git apply /tmp/gate/p.diff 2>/tmp/gate/apply.log; then echo "applied $(basename $p)" >> $R; else echo "DOES NOT APPLY: $(basename $p): $(head -2 /tmp/gate/apply.log)" >> $R; cat $R; exit 3; fi
done
export CARGO_NET_OFFLINE=true
CARGO_TARGET_DIR=/tmp/gate/target cargo test --workspace --no-fail-fast --offline > /tmp/gate/suite.log 2>&1
echo "suite: rc=$? $(grep -E '^test result' /tmp/gate/suite.log | awk '{p+=$4; f+=$6} END {print p" passed "f" failed"}') $(grep '^test .*FAILED' /tmp/gate/suite.log | tr '\n' ';')" >> $R
cd /verif
for P in $CHECKS; do
  VERIF_REPO="$WT" ./check "$P" --tier quick > /tmp/gate/$P.log 2>&1; RC=$?
  echo "check $P: rc=$RC $(grep -c '^VIOLATION' /tmp/gate/$P.log) violation line(s)" >> $R
  grep -E "^VIOLATION|^# " /tmp/gate/$P.log | head -6 | cut -c1-400 >> $R
done
cd "$WT"; git checkout -q -- . ; git clean -fdq
cat $R
