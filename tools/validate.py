#!/usr/bin/env python3
"""Validate MANIFEST.json and every evidence/Cxx.json against the schemas in /root/.vp (run with python3-vt)."""
import json, glob, sys, os
import jsonschema
ROOT = os.path.dirname(os.path.dirname(os.path.abspath(__file__)))
ok = True
m = json.load(open(os.path.join(ROOT, "MANIFEST.json")))
try:
    jsonschema.validate(m, json.load(open("/root/.vp/MANIFEST.schema.json")))
    print("MANIFEST.json valid:", len(m["checks"]), "checks,", len(m.get("not_applicable", [])), "not claimed")
except Exception as e:
    ok = False; print("MANIFEST.json INVALID:", str(e)[:500])
es = json.load(open("/root/.vp/EVIDENCE.schema.json"))
claimed = {c["property_id"]: c for c in m["checks"]}
for pid, c in sorted(claimed.items()):
    f = os.path.join(ROOT, "evidence", pid + ".json")
    if not os.path.exists(f):
        ok = False; print(pid, "evidence MISSING"); continue
    e = json.load(open(f))
    try:
        jsonschema.validate(e, es)
        cov = e["coverage"]
        lvl = e["level"]
        extra = ""
        if lvl != c["level_claimed"]["category"]:
            ok = False; extra = f" LEVEL MISMATCH manifest={c['level_claimed']['category']}"
        if lvl == "proof" and cov.get("obligations") != cov.get("discharged"):
            ok = False; extra += " obligations != discharged"
        print(f"{pid} ok level={lvl} tier={e['tier']} obligations={cov.get('obligations')}/{cov.get('discharged')} evals={cov.get('evaluations')} distinct={cov.get('distinct_nontrivial')} viol={e.get('violations')} wall={e['wall_s']}s{extra}")
        if e.get("violations"): ok = False
    except Exception as ex:
        ok = False; print(pid, "evidence INVALID:", str(ex)[:400])
sys.exit(0 if ok else 1)
