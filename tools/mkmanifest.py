#!/usr/bin/env python3
"""Regenerate /verif/MANIFEST.json from props/*.json (+ props/not_applicable.json)."""
import json, glob, os
ROOT = os.path.dirname(os.path.dirname(os.path.abspath(__file__)))
props = {}
for f in sorted(glob.glob(os.path.join(ROOT, "props", "C*.json"))):
    p = json.load(open(f)); props[p["id"]] = p
all_ids = [json.loads(l)["id"] for l in open(os.path.join(ROOT, "properties.jsonl")) if l.strip()]
na_file = os.path.join(ROOT, "props", "not_applicable.json")
na_reasons = json.load(open(na_file)) if os.path.exists(na_file) else {}
hooks = json.load(open(os.path.join(ROOT, "props", "hooks.json")))
checks = []
for pid in all_ids:
    if pid not in props: continue
    p = props[pid]
    checks.append({
        "property_id": pid,
        "quick_cmd": f"./check {pid} --tier quick",
        "thorough_cmd": f"./check {pid} --tier thorough",
        "evidence_file": f"/verif/evidence/{pid}.json",
        "replay_cmd_template": f"./check {pid} --replay {{path}}",
        "engine": "lean4-model+qverif",
        "level_claimed": {"category": p["level"], "text": p["level_text"], "design_ref": p.get("design_ref", "DESIGN.md §5")},
        "level_note": p["level_note"],
        "technique": p["technique"],
    })
na = [{"property_id": pid, "reason": na_reasons.get(pid, "check not built yet (machine-checked proof in Lean 4 is applicable; see DESIGN.md §5) — not claimed until its model, theorems and correspondence run clean on the unchanged tree")} for pid in all_ids if pid not in props]
m = {
    "version": 1,
    "setup_cmd": "./check --setup",
    "hooks": hooks,
    "engines": [
        {"name": "lean4-model+qverif", "path": "/verif/lean + /verif/harness",
         "serves_properties": [c["property_id"] for c in checks],
         "kind_free_text": "Lean 4 executable models with kernel-checked theorems (lake project QuiverModel, one line-protocol driver per property) + Rust harness `qverif` linking /repo's crates (feature `verif`) for correspondence checks and implementation-side property oracles; driver ./check"}
    ],
    "checks": checks,
    "not_applicable": na,
    "notes": "Every check rebuilds the harness from /repo's working tree (cargo path dependencies), rebuilds the Lean theorem modules, audits axioms, runs model-vs-implementation correspondence plus the property oracle, and rewrites evidence/<id>.json. known_findings.jsonl lists repaired (`fixed`) and recorded (`known`) defects.",
}
json.dump(m, open(os.path.join(ROOT, "MANIFEST.json"), "w"), indent=1)
print("MANIFEST.json:", len(checks), "checks,", len(na), "not yet claimed")
